/* C08 (serializeMsgPack), C09 (deserializeMsgPack) and the MessagePack round-trip lemma of C07 (L-C07b).
 * Oracles are written from the MessagePack specification (https://github.com/msgpack/msgpack/blob/master/spec.md) and
 * IEEE 754 bit layouts, not from the code.  One spec file serves several units (different roots / stubs); every
 * obligation selects its section with a define U_SER / U_CONT / U_ACC / U_DES / U_DESK / U_RT.
 */
#include "verif.h"
#ifdef U_CONT
/* ghost state named by the loop contracts of visit(ArrayData)/visit(ObjectData) (contracts/msgpack.loops.json) */
static unsigned int g_expect_id;   /* the slot id the next getVariant call must ask for */
static int g_pending;              /* 1: a slot was fetched and not yet visited; 2: visited, successor not yet read */
static int g_proto_ok;             /* no protocol violation so far */
static unsigned long g_out_len;
static unsigned long g_children;   /* number of slots visited (mod 2^64) */
#define G_OUT_LEN_DECLARED 1
#endif
#ifdef U_DESC
/* ghost state named by the loop contracts of readArray/readObject (contracts/msgpack_des.loops.json) */
static unsigned long g_n0;         /* the announced element count */
static unsigned long g_entries;    /* elements/members completely processed */
static int g_stage;                /* 0: between entries; object: 1 key read, 2 key saved, 3 member added; array: 3 element added */
static int g_proto_ok;
static _Bool g_addmember_failed;     /* addMember returned null (the key reference must then be given back) */
static unsigned g_derefs;
static unsigned g_child_err;       /* the first error a callee reported (0 if none) */
#endif
#ifdef VERIF_NATIVE
#include "lowered_types.h"
#else
#include "lowered.c"
#endif

/* ================================================================================================================ */
/* independent spec functions (MessagePack spec.md, "Formats")                                                       */
/* ================================================================================================================ */
/* two's complement reinterpretation without a value-changing cast (the obligations run with --conversion-check) */
static uint64_t u_of_i(int64_t v) { uint64_t r; memcpy(&r, &v, 8); return r; }
static int64_t i_of_u(uint64_t v) { int64_t r; memcpy(&r, &v, 8); return r; }
static unsigned char spec_byte(uint64_t v, unsigned i) { return (unsigned char)((v >> (8 * i)) & 0xFFu); }

/* big-endian: most significant byte first */
static void spec_be16(uint64_t v, unsigned char *o) { o[0] = spec_byte(v, 1); o[1] = spec_byte(v, 0); }
static void spec_be32(uint64_t v, unsigned char *o) {
  o[0] = spec_byte(v, 3); o[1] = spec_byte(v, 2); o[2] = spec_byte(v, 1); o[3] = spec_byte(v, 0);
}
static void spec_be64(uint64_t v, unsigned char *o) {
  o[0] = spec_byte(v, 7); o[1] = spec_byte(v, 6); o[2] = spec_byte(v, 5); o[3] = spec_byte(v, 4);
  o[4] = spec_byte(v, 3); o[5] = spec_byte(v, 2); o[6] = spec_byte(v, 1); o[7] = spec_byte(v, 0);
}
static uint64_t spec_be_decode(const unsigned char *p, unsigned w) { /* w in 1,2,4,8 */
  uint64_t v = p[0];
  if (w >= 2) v = (v << 8) | p[1];
  if (w >= 4) { v = (v << 8) | p[2]; v = (v << 8) | p[3]; }
  if (w >= 8) { v = (v << 8) | p[4]; v = (v << 8) | p[5]; v = (v << 8) | p[6]; v = (v << 8) | p[7]; }
  return v;
}

/* int format family, smallest encoding: positive fixint 0x00-0x7f, uint8 0xcc, uint16 0xcd, uint32 0xce, uint64 0xcf */
static unsigned spec_mp_uint(uint64_t v, unsigned char o[9]) {
  if (v < 0x80u) { o[0] = spec_byte(v, 0); return 1; }
  if (v < 0x100u) { o[0] = 0xCC; o[1] = spec_byte(v, 0); return 2; }
  if (v < 0x10000u) { o[0] = 0xCD; spec_be16(v, o + 1); return 3; }
  if (v < 0x100000000ull) { o[0] = 0xCE; spec_be32(v, o + 1); return 5; }
  o[0] = 0xCF; spec_be64(v, o + 1); return 9;
}
/* negative fixint 0xe0-0xff (-32..-1), int8 0xd0, int16 0xd1, int32 0xd2, int64 0xd3; non-negative values use the uint family */
static unsigned spec_mp_int(int64_t v, unsigned char o[9]) {
  uint64_t two = u_of_i(v); /* two's complement image */
  if (v >= 0) return spec_mp_uint(two, o);
  if (v >= -32) { o[0] = spec_byte(two, 0); return 1; }
  if (v >= -128) { o[0] = 0xD0; o[1] = spec_byte(two, 0); return 2; }
  if (v >= -32768) { o[0] = 0xD1; spec_be16(two, o + 1); return 3; }
  if (v >= -2147483647 - 1) { o[0] = 0xD2; spec_be32(two, o + 1); return 5; }
  o[0] = 0xD3; spec_be64(two, o + 1); return 9;
}
/* str: fixstr 101xxxxx (<=31), str8 0xd9, str16 0xda, str32 0xdb */
static unsigned spec_mp_strhdr(uint64_t n, unsigned char o[5]) {
  if (n < 32) { o[0] = (unsigned char)(0xA0u | (unsigned)n); return 1; }
  if (n < 0x100u) { o[0] = 0xD9; o[1] = spec_byte(n, 0); return 2; }
  if (n < 0x10000u) { o[0] = 0xDA; spec_be16(n, o + 1); return 3; }
  o[0] = 0xDB; spec_be32(n, o + 1); return 5;
}
/* array: fixarray 1001xxxx (<=15), array16 0xdc, array32 0xdd; map: fixmap 1000xxxx, map16 0xde, map32 0xdf */
static unsigned spec_mp_cnthdr(uint64_t n, int isMap, unsigned char o[5]) {
  if (n < 16) { o[0] = (unsigned char)((isMap ? 0x80u : 0x90u) | (unsigned)n); return 1; }
  if (n < 0x10000u) { o[0] = isMap ? 0xDE : 0xDC; spec_be16(n, o + 1); return 3; }
  o[0] = isMap ? 0xDF : 0xDD; spec_be32(n, o + 1); return 5;
}

/* IEEE 754 binary32 / binary64 decoded at bit level --------------------------------------------------------------- */
/* is the binary64 value an integer in [-2^63, 2^63)?  (+-0 count as 0) */
static int spec_f64_is_int64(uint64_t b, int64_t *out) {
  unsigned sign = (unsigned)(b >> 63);
  unsigned e = (unsigned)((b >> 52) & 0x7FFu);
  uint64_t m = b & 0xFFFFFFFFFFFFFull;
  if (e == 0x7FFu) return 0;                       /* inf, NaN */
  if (e == 0) { if (m) return 0; *out = 0; return 1; } /* subnormals are non-zero fractions */
  if (e < 1023u) return 0;                         /* 0 < |v| < 1 */
  unsigned ex = e - 1023u;                         /* |v| = 1.m * 2^ex */
  if (ex > 63u) return 0;
  uint64_t full = (1ull << 52) | m, mag;
  if (ex >= 52u) mag = full << (ex - 52u);
  else {
    unsigned sh = 52u - ex;
    if (full & ((1ull << sh) - 1u)) return 0;      /* fractional bits set */
    mag = full >> sh;
  }
  if (!sign) { if (mag > 0x7FFFFFFFFFFFFFFFull) return 0; *out = (int64_t)mag; return 1; }
  if (mag > 0x8000000000000000ull) return 0;
  *out = (mag == 0x8000000000000000ull) ? (-0x7FFFFFFFFFFFFFFFll - 1) : -(int64_t)mag;
  return 1;
}
static int spec_f32_is_int64(uint32_t b, int64_t *out) {
  unsigned sign = b >> 31;
  unsigned e = (b >> 23) & 0xFFu;
  uint32_t m = b & 0x7FFFFFu;
  if (e == 0xFFu) return 0;
  if (e == 0) { if (m) return 0; *out = 0; return 1; }
  if (e < 127u) return 0;
  unsigned ex = e - 127u;
  if (ex > 63u) return 0;
  uint64_t full = (uint64_t)((1u << 23) | m), mag;
  if (ex >= 23u) mag = full << (ex - 23u);
  else {
    unsigned sh = 23u - ex;
    if (full & ((1ull << sh) - 1u)) return 0;
    mag = full >> sh;
  }
  if (!sign) { if (mag > 0x7FFFFFFFFFFFFFFFull) return 0; *out = (int64_t)mag; return 1; }
  if (mag > 0x8000000000000000ull) return 0;
  *out = (mag == 0x8000000000000000ull) ? (-0x7FFFFFFFFFFFFFFFll - 1) : -(int64_t)mag;
  return 1;
}
/* is the binary64 value exactly a binary32 value? (NaN: no - its payload needs 64 bits) gives the binary32 pattern */
static int spec_f64_is_f32(uint64_t b, uint32_t *out) {
  uint32_t sign = (uint32_t)(b >> 63) << 31;
  unsigned e = (unsigned)((b >> 52) & 0x7FFu);
  uint64_t m = b & 0xFFFFFFFFFFFFFull;
  if (e == 0x7FFu) { if (m) return 0; *out = sign | 0x7F800000u; return 1; }
  if (e == 0) { if (m) return 0; *out = sign; return 1; }   /* binary64 subnormals are below 2^-1022 */
  if (e > 1023u + 127u) return 0;                            /* above the binary32 range */
  if (e >= 1023u - 126u) {                                   /* binary32 normal: 23 fraction bits */
    if (m & 0x1FFFFFFFull) return 0;
    *out = sign | ((uint32_t)(e - 1023u + 127u) << 23) | (uint32_t)(m >> 29);
    return 1;
  }
  if (e < 1023u - 149u) return 0;                            /* below the smallest binary32 subnormal */
  unsigned sh = (1023u - 97u) - e;                           /* |v| = full * 2^(ex-52) = k * 2^-149, k = full >> (-97-ex) */
  uint64_t full = (1ull << 52) | m;
  if (full & ((1ull << sh) - 1u)) return 0;
  *out = sign | (uint32_t)(full >> sh);
  return 1;
}
/* floats enter as bit patterns through in_u32/in_u64 (the driver's trace extraction knows those) */
static float f32_of_bits(uint32_t b) { float f; memcpy(&f, &b, 4); return f; }
static double f64_of_bits(uint64_t b) { double f; memcpy(&f, &b, 8); return f; }
static uint32_t spec_f32_bits(float f) { uint32_t b; memcpy(&b, &f, 4); return b; }
static uint64_t spec_f64_bits(double f) { uint64_t b; memcpy(&b, &f, 8); return b; }

#define EQ9(a, b, n) ((n < 1 || a[0] == b[0]) && (n < 2 || a[1] == b[1]) && (n < 3 || a[2] == b[2]) && (n < 4 || a[3] == b[3]) && \
                      (n < 5 || a[4] == b[4]) && (n < 6 || a[5] == b[5]) && (n < 7 || a[6] == b[6]) && (n < 8 || a[7] == b[7]) && \
                      (n < 9 || a[8] == b[8]))

/* ================================================================================================================ */
/* writer stub: ghost byte log                                                                                       */
/* ================================================================================================================ */
#if defined(U_SER) || defined(U_CSTR) || defined(U_FCAST) || defined(U_CONT) || defined(U_ACC) || defined(U_RT)
#define LOG_CAP 32
static unsigned char g_out[LOG_CAP];
#ifndef G_OUT_LEN_DECLARED
static size_t g_out_len;
#endif
                                    /* g_out_len: bytes accepted by the writer so far (may exceed LOG_CAP: only the first LOG_CAP are kept) */
static size_t g_budget;             /* room left in the destination: the writer accepts only the prefix that fits */
static unsigned g_calls;            /* number of write calls */
static const unsigned char *g_last_ptr; /* arguments of the last write(const uint8_t*, size_t) */
static size_t g_last_n, g_last_at;

unsigned long LogWriter__write__uchar(struct LogWriter *self, unsigned char c) {
  (void)self;
  g_calls++;
  if (g_budget == 0) return 0;
  g_budget--;
  if (g_out_len < LOG_CAP) g_out[g_out_len] = c;
  g_out_len++;
  return 1;
}
/* bulk write: blocks of up to 8 bytes (the integer/float payloads) are copied; longer blocks (string payloads with a
 * symbolic length) are only recorded: pointer, length, position in the stream */
unsigned long LogWriter__write__uchar_p_ulong(struct LogWriter *self, unsigned char *s, unsigned long n) {
  (void)self;
  g_calls++;
  g_last_ptr = s; g_last_n = n; g_last_at = g_out_len;
  unsigned long take = n <= g_budget ? n : g_budget;
  g_budget -= take;
  if (n <= 8) {
#define CP(i) if (i < take && g_out_len + i < LOG_CAP) g_out[g_out_len + i] = s[i];
    CP(0) CP(1) CP(2) CP(3) CP(4) CP(5) CP(6) CP(7)
#undef CP
  }
  g_out_len += take;
  return take;
}
static void ser_init(struct MsgPackSerializer_LogWriter *s, struct ResourceManager *rm) {
  g_out_len = 0; g_calls = 0; g_last_ptr = 0; g_last_n = 0; g_last_at = 0;
  g_budget = ~(size_t)0;
  memset(g_out, 0, sizeof g_out);
#ifdef VERIF_NATIVE
  /* an empty class passed by value has a different C and C++ calling convention: initialise the fields directly */
  memset(s, 0, sizeof *s);
  s->resources_ = rm;
#else
  struct LogWriter w;
  memset(&w, 0, sizeof w);
  memset(s, 0xA5, sizeof *s);       /* the constructor must set the count to 0 */
  MsgPackSerializer_LogWriter__ctor__LogWriter_ResourceManager_p(s, w, rm);
#endif
}
#endif

/* ================================================================================================================ */
/* unit mp_ser: scalar encoders of MsgPackSerializer<LogWriter>                                                      */
/* ================================================================================================================ */
#ifdef U_SER

void h_ser_uint(void) {
  struct MsgPackSerializer_LogWriter s;
  ser_init(&s, 0);
  uint64_t v = in_u64();
#ifdef CFG_noll
  /* ARDUINOJSON_USE_LONG_LONG=0: a document holds 32-bit integers only (VariantData::setInteger stores nothing wider),
   * so accept() calls the integer encoders with 32-bit values; the float path that breaks this is obligation float32 */
  __CPROVER_assume(v <= 0xFFFFFFFFull);
#endif
  size_t r = MsgPackSerializer_LogWriter__visit__ulong(&s, v);
  unsigned char want[9];
  unsigned n = spec_mp_uint(v, want);
  COVER(n == 1); COVER(n == 2); COVER(n == 3); COVER(n == 5);
  COVER(v == 0x7F); COVER(v == 0x80); COVER(v == 0xFF); COVER(v == 0x100); COVER(v == 0xFFFF); COVER(v == 0x10000);
  COVER(v == 0xFFFFFFFFull);
#ifndef CFG_noll
  COVER(n == 9); COVER(v == 0x100000000ull); COVER(v == 0xFFFFFFFFFFFFFFFFull);
#endif
#ifdef CANARY_SER_UINT
  CHECK(g_out_len == n + (v == 0x10000ull), "unsigned integer: length of the smallest uint encoding");
#else
  CHECK(g_out_len == n, "unsigned integer: length of the smallest uint encoding");
#endif
  CHECK(EQ9(g_out, want, n), "unsigned integer: bytes == MessagePack uint family, big-endian, value preserved");
  CHECK(r == n, "returned count equals the bytes produced");
}

void h_ser_int(void) {
  struct MsgPackSerializer_LogWriter s;
  ser_init(&s, 0);
  int64_t v = i_of_u(in_u64());
#ifdef CFG_noll
  __CPROVER_assume(v >= -2147483647 - 1 && v <= 2147483647);
#endif
  size_t r = MsgPackSerializer_LogWriter__visit__long(&s, v);
  unsigned char want[9];
  unsigned n = spec_mp_int(v, want);
  COVER(v < 0 && n == 1); COVER(v < 0 && n == 2); COVER(v < 0 && n == 3); COVER(v < 0 && n == 5); COVER(v == 0);
  COVER(v == -32); COVER(v == -33); COVER(v == -128); COVER(v == -129); COVER(v == -32768); COVER(v == -32769);
  COVER(v == -2147483647 - 1);
#ifndef CFG_noll
  COVER(v < 0 && n == 9); COVER(v > 0 && n == 9); COVER(v == -2147483649ll); COVER(v == -0x7FFFFFFFFFFFFFFFll - 1);
#endif
  CHECK(g_out_len == n, "signed integer: length of the smallest encoding");
#ifdef CANARY_SER_INT
  CHECK(EQ9(g_out, want, n) && v != -129, "signed integer: bytes == MessagePack int family, sign and value preserved");
#else
  CHECK(EQ9(g_out, want, n), "signed integer: bytes == MessagePack int family, sign and value preserved");
#endif
  CHECK(r == n, "returned count equals the bytes produced");
}

/* the destination has room for `room` bytes only: the writer receives exactly the prefix that fits and the returned
 * count is the number of bytes accepted (CountingDecorator is real code) */
void h_ser_truncated(void) {
  struct MsgPackSerializer_LogWriter s;
  ser_init(&s, 0);
  int64_t v = i_of_u(in_u64());
  size_t room = in_u8();
  __CPROVER_assume(room <= 9);
  g_budget = room;
  size_t r = MsgPackSerializer_LogWriter__visit__long(&s, v);
  unsigned char want[9];
  unsigned n = spec_mp_int(v, want);
  size_t fit = n <= room ? n : room;
  COVER(room < n && room > 1); COVER(room == n); COVER(room > n); COVER(room == 0);
  CHECK(g_out_len <= room, "a bounded buffer never receives more than fits");
#ifdef CANARY_SER_TRUNC
  CHECK(r == fit + (room == 4 && n == 5), "returned count equals the bytes the destination accepted");
#else
  CHECK(r == fit, "returned count equals the bytes the destination accepted");
#endif
  CHECK(g_out_len == fit, "a bounded buffer receives the prefix that fits");
  CHECK(EQ9(g_out, want, fit), "the bytes received are a prefix of the encoding");
}

#endif
#if defined(U_SER) || defined(U_FCAST)
#if defined(U_FCAST) && !defined(VERIF_NATIVE)
/* numeric_limits<long>::lowest() is T(T(1) << 63) (owned by the numbers family): replaced by its value so that
 * --conversion-check looks at the float -> integer cast of the serializer only */
long numeric_limits_long_void__lowest(void) { return -0x7FFFFFFFFFFFFFFFL - 1; }
#endif
void h_ser_float(void) {
  struct MsgPackSerializer_LogWriter s;
  ser_init(&s, 0);
  float f = f32_of_bits(in_u32());
  uint32_t bits = spec_f32_bits(f);
#ifdef NOT_M2P63
  /* --conversion-check obligations: cbmc's float->int64 range test compares with (float)(-2^63 - 1) == -2^63 and
   * rejects the legal operand -2^63; that single value is excluded here and covered by the obligation without the flag */
  __CPROVER_assume(bits != 0xDF000000u);
#endif
  size_t r = MsgPackSerializer_LogWriter__visit_float(&s, f);
  unsigned char want[9];
  unsigned n;
  int64_t iv = 0;
  int integral = spec_f32_is_int64(bits, &iv);
  if (integral) n = spec_mp_int(iv, want);
  else { want[0] = 0xCA; spec_be32(bits, want + 1); n = 5; }
  COVER(integral && iv < -32768); COVER(integral && iv > 0x100000000ll); COVER(integral && iv == 0 && bits != 0);
  COVER(!integral && (bits & 0x7F800000u) == 0x7F800000u && (bits & 0x7FFFFFu) != 0); /* NaN */
  COVER(!integral && (bits & 0x7FFFFFFFu) == 0x7F800000u);                              /* inf */
  COVER(bits == 0x5F000000u); /* 2^63: just outside int64 */
#ifndef NOT_M2P63
  COVER(bits == 0xDF000000u); /* -2^63: the smallest int64 */
#endif
  COVER(!integral && (bits & 0x7F800000u) == 0);                                        /* subnormal */
#ifdef CANARY_SER_FLOAT
  CHECK(g_out_len == n + (bits == 0x3FC00000u), "float32: one object of the expected length");
  CHECK(EQ9(g_out, want, n) && bits != 0x4B000001u,
        "float32: integer encoding of the same value if integral and in the integer range, else 0xCA + big-endian bits");
#else
  CHECK(g_out_len == n, "float32: one object of the expected length");
  CHECK(EQ9(g_out, want, n),
        "float32: integer encoding of the same value if integral and in the integer range, else 0xCA + big-endian bits");
#endif
  CHECK(r == n, "returned count equals the bytes produced");
}

/* double, part 1: values that are not integers (or integers outside the integer range): float32 when exact, else float64 */
static unsigned spec_mp_double(uint64_t bits, unsigned char want[9], int *integral_out) {
  int64_t iv = 0;
  uint32_t b32 = 0;
  int integral = spec_f64_is_int64(bits, &iv);
  *integral_out = integral;
  if (integral) return spec_mp_int(iv, want);
  if (spec_f64_is_f32(bits, &b32)) { want[0] = 0xCA; spec_be32(b32, want + 1); return 5; }
  want[0] = 0xCB; spec_be64(bits, want + 1); return 9;
}
void h_ser_double_fraction(void) {
  struct MsgPackSerializer_LogWriter s;
  ser_init(&s, 0);
  double d = f64_of_bits(in_u64());
  uint64_t bits = spec_f64_bits(d);
  unsigned char want[9];
  int integral;
  unsigned n = spec_mp_double(bits, want, &integral);
  __CPROVER_assume(!integral);
  size_t r = MsgPackSerializer_LogWriter__visit_double(&s, d);
  COVER(n == 5); COVER(n == 9);
  COVER(n == 5 && (bits & 0x7FF0000000000000ull) < 0x3810000000000000ull && (bits << 1) != 0); /* float32 subnormal */
  COVER(n == 9 && (bits & 0x7FF0000000000000ull) == 0x7FF0000000000000ull);                   /* NaN */
  COVER(n == 5 && (bits & 0x7FFFFFFFFFFFFFFFull) == 0x7FF0000000000000ull);                   /* inf */
  COVER(n == 9 && (bits & 0x7FF0000000000000ull) > 0x47E0000000000000ull && (bits & 0x7FF0000000000000ull) != 0x7FF0000000000000ull); /* above float range */
  COVER(n == 9 && (bits & 0x7FF0000000000000ull) == 0);                                       /* double subnormal */
#ifdef CANARY_SER_DBLF
  CHECK(g_out_len == n + (bits == 0x3FB999999999999Aull), "float64 non-integer: one object of the expected length");
#else
  CHECK(g_out_len == n, "float64 non-integer: one object of the expected length");
#endif
  CHECK(EQ9(g_out, want, n), "float64 non-integer: 0xCA + float32 bits iff exactly representable as float32, else 0xCB + big-endian float64 bits");
  CHECK(r == n, "returned count equals the bytes produced");
}
/* double, part 2 (C08: "unless the value is integral and exactly representable as an integer, then an integer encoding
 * of the same value") */
void h_ser_double_integral(void) {
  struct MsgPackSerializer_LogWriter s;
  ser_init(&s, 0);
  double d = f64_of_bits(in_u64());
  uint64_t bits = spec_f64_bits(d);
  unsigned char want[9];
  int integral;
  unsigned n = spec_mp_double(bits, want, &integral);
  __CPROVER_assume(integral);
#ifdef ONLY_FLOAT32_EXACT
  { uint32_t b32; __CPROVER_assume(spec_f64_is_f32(bits, &b32)); }
#endif
#ifdef NOT_M2P63
  __CPROVER_assume(bits != 0xC3E0000000000000ull);
#endif
  size_t r = MsgPackSerializer_LogWriter__visit_double(&s, d);
  COVER(n == 1); COVER(n == 9); COVER(n == 5);
#ifndef NOT_M2P63
  COVER(bits == 0xC3E0000000000000ull); /* -2^63 */
#endif
#ifdef CANARY_SER_DBLI
  CHECK(g_out_len == n + (bits == 0x4060000000000000ull), "float64 integral: one object of the expected length");
#else
  CHECK(g_out_len == n, "float64 integral: one object of the expected length");
#endif
  CHECK(EQ9(g_out, want, n), "float64 integral and within the integer range: integer encoding of the same value");
  CHECK(r == n, "returned count equals the bytes produced");
}

#endif
#ifdef U_SER
void h_ser_nil_bool(void) {
  struct MsgPackSerializer_LogWriter s;
  ser_init(&s, 0);
  uint8_t which = in_u8();
  size_t r;
  unsigned char want;
  if (which == 0) { r = MsgPackSerializer_LogWriter__visit__void_p(&s, 0); want = 0xC0; }
  else if (which == 1) { r = MsgPackSerializer_LogWriter__visit___Bool(&s, 0); want = 0xC2; }
  else { r = MsgPackSerializer_LogWriter__visit___Bool(&s, 1); want = 0xC3; }
  COVER(which == 0); COVER(which == 1); COVER(which == 2);
#ifdef CANARY_SER_NIL
  CHECK(g_out_len == 1 && g_out[0] == (want | (which == 1)), "nil is 0xC0, false 0xC2, true 0xC3");
#else
  CHECK(g_out_len == 1 && g_out[0] == want, "nil is 0xC0, false 0xC2, true 0xC3");
#endif
  CHECK(r == 1, "returned count equals the bytes produced");
}

#endif
#if defined(U_SER) || defined(U_CSTR)
static unsigned char g_payload[8];
static void fill_payload(void) {
  uint64_t p = in_u64();
  g_payload[0] = spec_byte(p, 0); g_payload[1] = spec_byte(p, 1); g_payload[2] = spec_byte(p, 2); g_payload[3] = spec_byte(p, 3);
  g_payload[4] = spec_byte(p, 4); g_payload[5] = spec_byte(p, 5); g_payload[6] = spec_byte(p, 6); g_payload[7] = spec_byte(p, 7);
}
#define STRING_COVERS(n) COVER(n == 0); COVER(n == 31); COVER(n == 32); COVER(n == 255); COVER(n == 256); COVER(n == 65535); \
  COVER(n == 65536); COVER(n == 0xFFFFFFFFull); COVER(n == 8)
static void check_string_output(size_t r, uint64_t n, const unsigned char *data, int canary) {
  unsigned char want[5];
  unsigned h = spec_mp_strhdr(n, want);
  CHECK(g_out_len == h + n, "string: header length + payload length bytes are produced");
  if (canary) CHECK(EQ9(g_out, want, h) && n != 256, "string: header == MessagePack str family for this length");
  else CHECK(EQ9(g_out, want, h), "string: header == MessagePack str family for this length");
  CHECK(g_last_ptr == data && g_last_n == n && g_last_at == h, "string: exactly n payload bytes taken from the string's data, right after the header");
  if (n <= 8) {
    unsigned char *got = g_out + h;
    CHECK(EQ9(got, g_payload, (n > 8 ? 8 : n)), "string: payload byte-exact");
  }
  CHECK(r == h + n, "returned count equals the bytes produced");
}
#endif
#ifdef U_SER
void h_ser_string(void) {
  struct MsgPackSerializer_LogWriter s;
  ser_init(&s, 0);
  fill_payload();
  uint64_t n = in_u64();
  __CPROVER_assume(n <= 0xFFFFFFFFull);   /* the longest string MessagePack can carry (str32) */
  struct JsonString js;
  js.data_ = (char *)g_payload; js.size_ = n; js.ownership_ = in_u8() & 1;
  size_t r = MsgPackSerializer_LogWriter__visit__JsonString(&s, js);
  STRING_COVERS(n);
#ifdef CANARY_SER_STR
  check_string_output(r, n, g_payload, 1);
#else
  check_string_output(r, n, g_payload, 0);
#endif
}
#endif
#ifdef U_SER
/* raw values (serialized(), bin and ext retained by the deserializer) are emitted verbatim */
void h_ser_raw(void) {
  struct MsgPackSerializer_LogWriter s;
  ser_init(&s, 0);
  fill_payload();
  uint64_t n = in_u64();
  struct SerializedValue_constchar_p rv;
  rv.data_ = (char *)g_payload; rv.size_ = n;
  size_t r = MsgPackSerializer_LogWriter__visit__SerializedValue_constchar_p(&s, rv);
  COVER(n == 0); COVER(n == 8); COVER(n > 0x100000000ull);
  CHECK(g_calls == 1 && g_last_ptr == g_payload && g_last_n == n && g_last_at == 0, "raw value: one write of exactly the stored bytes, nothing before");
#ifdef CANARY_SER_RAW
  CHECK(g_out_len == n + (n == 3), "raw value: nothing after");
#else
  CHECK(g_out_len == n, "raw value: nothing after");
#endif
  if (n <= 8) CHECK(EQ9(g_out, g_payload, (n > 8 ? 8 : n)), "raw value: bytes verbatim");
  CHECK(r == n, "returned count equals the bytes produced");
}

/* writeInteger<T> / fixEndianness: most significant byte first, for every width and signedness */
void h_ser_write_integer(void) {
  struct MsgPackSerializer_LogWriter s;
  ser_init(&s, 0);
  uint64_t v = in_u64();
  uint8_t which = in_u8();
  __CPROVER_assume(which < 10);
  unsigned char want[8];
  unsigned w;
  switch (which) {
    case 0: MsgPackSerializer_LogWriter__writeInteger_uchar(&s, (unsigned char)(v & 0xFF)); w = 1; break;
    case 1: MsgPackSerializer_LogWriter__writeInteger_signedchar(&s, (signed char)((int64_t)((v & 0xFF) ^ 0x80) - 0x80)); w = 1; break;
    case 2: MsgPackSerializer_LogWriter__writeInteger_ushort(&s, (unsigned short)(v & 0xFFFF)); w = 2; break;
    case 3: MsgPackSerializer_LogWriter__writeInteger_short(&s, (short)((int64_t)((v & 0xFFFF) ^ 0x8000) - 0x8000)); w = 2; break;
    case 4: MsgPackSerializer_LogWriter__writeInteger_uint(&s, (unsigned int)(v & 0xFFFFFFFFu)); w = 4; break;
    case 5: MsgPackSerializer_LogWriter__writeInteger_int(&s, (int)((int64_t)((v & 0xFFFFFFFFu) ^ 0x80000000u) - 0x80000000ll)); w = 4; break;
#ifndef CFG_noll   /* 64-bit integer writers are not instantiated when ARDUINOJSON_USE_LONG_LONG=0 */
    case 6: MsgPackSerializer_LogWriter__writeInteger_ulong(&s, v); w = 8; break;
    case 7: MsgPackSerializer_LogWriter__writeInteger_long(&s, i_of_u(v)); w = 8; break;
#else
    case 6: case 7: __CPROVER_assume(0); w = 8; break;
#endif
    case 8: { float f; uint32_t b = (uint32_t)(v & 0xFFFFFFFFu); memcpy(&f, &b, 4); MsgPackSerializer_LogWriter__writeInteger_float(&s, f); w = 4; break; }
    default: { double d; memcpy(&d, &v, 8); MsgPackSerializer_LogWriter__writeInteger_double(&s, d); w = 8; break; }
  }
  if (w == 1) want[0] = spec_byte(v, 0);
  else if (w == 2) spec_be16(v, want);
  else if (w == 4) spec_be32(v, want);
  else spec_be64(v, want);
  COVER(which == 1 && (v & 0x80)); COVER(which == 3); COVER(which == 5 && (v & 0x80000000u)); COVER(which == 7); COVER(which == 8); COVER(which == 9);
  CHECK(g_out_len == w, "writeInteger<T>: sizeof(T) bytes");
#ifdef CANARY_SER_WI
  CHECK(EQ9(g_out, want, w) && !(which == 4 && v == 0x01020304u), "writeInteger<T>: big-endian image of the value");
#else
  CHECK(EQ9(g_out, want, w), "writeInteger<T>: big-endian image of the value");
#endif
  CHECK(MsgPackSerializer_LogWriter__bytesWritten(&s) == w, "bytesWritten counts them");
}
#endif /* U_SER */

/* unit mp_ser_cstr: visit(const char*) with strlen replaced by a stub, so that it is proved for every length */
#ifdef U_CSTR
static size_t g_strlen_ret;
static const char *g_strlen_arg;
size_t strlen(const char *p) { g_strlen_arg = p; return g_strlen_ret; }
void h_ser_cstring(void) {
  struct MsgPackSerializer_LogWriter s;
  ser_init(&s, 0);
  fill_payload();
  uint64_t n = in_u64();
  __CPROVER_assume(n <= 0xFFFFFFFFull);
  g_strlen_ret = n; g_strlen_arg = 0;
  size_t r = MsgPackSerializer_LogWriter__visit__char_p(&s, (char *)g_payload);
  CHECK(g_strlen_arg == (char *)g_payload, "C string: length is strlen of the string itself");
  STRING_COVERS(n);
#ifdef CANARY_SER_CSTR
  check_string_output(r, n, g_payload, 1);
#else
  check_string_output(r, n, g_payload, 0);
#endif
}
#endif /* U_CSTR */

/* ================================================================================================================ */
/* unit mp_ser_cont: visit(ArrayData) / visit(ObjectData): count header for every size, then every slot once, in order */
/* callees replaced: CollectionData::size (returns the ghost size), ResourceManager::getVariant (hands out a slot),   */
/* VariantData::accept (the child: writes an arbitrary number of bytes), VariantData::next (arbitrary successor)     */
/* ================================================================================================================ */
#ifdef U_CONT
static unsigned long g_size_ret;
static struct CollectionData *g_size_arg;
static unsigned g_size_calls;
static struct VariantData g_slot;
static struct MsgPackSerializer_LogWriter *g_ser;
static struct ResourceManager g_rm;
unsigned long CollectionData__size(struct CollectionData *self, struct ResourceManager *resources) {
  if (resources != &g_rm) g_proto_ok = 0;
  g_size_calls++; g_size_arg = self;
  return g_size_ret;
}
struct VariantData *ResourceManager__getVariant(struct ResourceManager *self, unsigned int id) {
  if (self != &g_rm || id != g_expect_id || g_pending) g_proto_ok = 0;
  g_pending = 1;
  return &g_slot;
}
unsigned int VariantData__next(struct VariantData *self) {
  if (self != &g_slot || g_pending != 2) g_proto_ok = 0;
  g_pending = 0;
  g_expect_id = nondet_u32();      /* an arbitrary successor: the list has any length */
  return g_expect_id;
}
unsigned long VariantData__accept_MsgPackSerializer_LogWriter__MsgPackSerializer_LogWriter_r_ResourceManager_p(
    struct VariantData *self, struct MsgPackSerializer_LogWriter *visit, struct ResourceManager *resources) {
  if (self != &g_slot || visit != g_ser || resources != &g_rm || g_pending != 1) g_proto_ok = 0;
  g_pending = 2;
  g_children++;
  unsigned long k = nondet_u32();  /* the child serializes itself through the same counting writer */
  g_out_len += k;
  visit->writer_.count_ += k;
  return visit->writer_.count_;
}
static void h_cont(int isMap) {
  struct MsgPackSerializer_LogWriter s;
  ser_init(&s, &g_rm);
  g_ser = &s;
  union { struct ArrayData a; struct ObjectData o; } c;
  unsigned int head = in_u32();
  c.a._b_CollectionData.head_ = head; c.a._b_CollectionData.tail_ = in_u32();
  uint64_t slots = in_u64();       /* what size() reports: slots for an array, 2 slots per member for an object */
  __CPROVER_assume(slots <= 0xFFFFFFFFull);
  g_size_ret = slots; g_size_calls = 0; g_expect_id = head; g_pending = 0; g_proto_ok = 1; g_children = 0;
  uint64_t n = isMap ? slots / 2 : slots;
  size_t r = isMap ? MsgPackSerializer_LogWriter__visit__ObjectData_r(&s, &c.o) : MsgPackSerializer_LogWriter__visit__ArrayData_r(&s, &c.a);
  unsigned char want[5];
  unsigned h = spec_mp_cnthdr(n, isMap, want);
  CHECK(g_size_calls == 1 && g_size_arg == &c.a._b_CollectionData, "container: the count is size() of this collection, asked once");
#ifdef CANARY_CONT
  CHECK(EQ9(g_out, want, h) && n != 16, "container: header == MessagePack array/map family for this count, big-endian");
#else
  CHECK(EQ9(g_out, want, h), "container: header == MessagePack array/map family for this count, big-endian");
#endif
  CHECK(g_proto_ok, "container: slots are fetched in list order starting at head, each visited exactly once before the next");
  CHECK(!g_pending && g_expect_id == NULL_SLOT, "container: the walk ends at the end of the list, nothing left unvisited");
  CHECK(head != NULL_SLOT || g_children == 0, "container: an empty list has no children");
  CHECK(r == g_out_len, "returned count equals the bytes produced (header + children)");
}
#define CONT_COVERS(n) COVER(n == 0); COVER(n == 15); COVER(n == 16); COVER(n == 65535); COVER(n == 65536); COVER(n == 0xFFFFFFFFull); \
  COVER(g_children == 0); COVER(g_children == 3)
#define CONT_COVERS_MAP(n) COVER(n == 0); COVER(n == 15); COVER(n == 16); COVER(n == 65535); COVER(n == 65536); COVER(n == 0x7FFFFFFFull); \
  COVER(g_children == 0); COVER(g_children == 3)
void h_ser_array(void) { h_cont(0); CONT_COVERS(g_size_ret); }
void h_ser_object(void) { h_cont(1); CONT_COVERS_MAP(g_size_ret / 2); }
#endif /* U_CONT */

/* ================================================================================================================ */
/* unit mp_ser_accept: VariantData::accept dispatches every stored kind to the encoder of that kind, so that the     */
/* bytes denote the variant (real accept + real scalar/string encoders; arrays/objects recorded; extension storage   */
/* replaced by a ghost slot; strlen replaced by a ghost length)                                                       */
/* ================================================================================================================ */
#ifdef U_ACC
/* VariantType tags (Variant/VariantContent.hpp): the representation this unit interprets */
enum { T_NULL = 0, T_RAW = 3, T_LINKED = 4, T_OWNED = 5, T_BOOL = 6, T_UINT32 = 0x0A, T_INT32 = 0x0C, T_FLOAT = 0x0E,
       T_UINT64 = 0x1A, T_INT64 = 0x1C, T_DOUBLE = 0x1E, T_OBJECT = 0x20, T_ARRAY = 0x40 };
static struct ResourceManager g_rm;
static union VariantExtension g_ext;
static unsigned g_ext_id;
static int g_ext_ok = 1;
union VariantExtension *ResourceManager__getExtension(struct ResourceManager *self, unsigned int id) {
  if (self != &g_rm || id != g_ext_id) g_ext_ok = 0;
  return &g_ext;
}
static void *g_coll_arg; static int g_coll_calls, g_coll_is_map;
unsigned long MsgPackSerializer_LogWriter__visit__ArrayData_r(struct MsgPackSerializer_LogWriter *self, struct ArrayData *array) {
  (void)self; g_coll_arg = array; g_coll_calls++; g_coll_is_map = 0; return 0;
}
unsigned long MsgPackSerializer_LogWriter__visit__ObjectData_r(struct MsgPackSerializer_LogWriter *self, struct ObjectData *object) {
  (void)self; g_coll_arg = object; g_coll_calls++; g_coll_is_map = 1; return 0;
}
static size_t g_strlen_ret;
static const char *g_strlen_arg;
size_t strlen(const char *p) { g_strlen_arg = p; return g_strlen_ret; }
static unsigned long g_node_room[(sizeof(struct StringNode) + 8 + 7) / 8]; /* a StringNode with 8 payload bytes */
static unsigned char g_linked[8];

void h_ser_variant(void) {
  struct MsgPackSerializer_LogWriter s;
  ser_init(&s, &g_rm);
  struct VariantData v;
  memset(&v, 0, sizeof v);
  uint8_t t = in_u8();
  uint64_t a = in_u64();           /* the stored value / string bytes */
  uint64_t len = in_u16();         /* string length */
  v.type_ = t; v.next_ = in_u32();
  unsigned char want[9];
  unsigned n = 0;
  int is_string = 0, is_raw = 0, is_coll = 0;
  const unsigned char *data = 0;
  g_ext_id = in_u32(); g_ext_ok = 1; g_coll_calls = 0;
  switch (t) {
    case T_NULL: want[0] = 0xC0; n = 1; break;
    case T_BOOL: v.content_.asBoolean = (a & 1) != 0; want[0] = (a & 1) ? 0xC3 : 0xC2; n = 1; break;
    case T_UINT32: v.content_.asUint32 = (uint32_t)(a & 0xFFFFFFFFu); n = spec_mp_uint(a & 0xFFFFFFFFu, want); break;
    case T_INT32: { int64_t i = (int64_t)((a & 0xFFFFFFFFu) ^ 0x80000000u) - 0x80000000ll; v.content_.asInt32 = (int32_t)i; n = spec_mp_int(i, want); break; }
    case T_UINT64: v.content_.asSlotId = g_ext_id; g_ext.asUint64 = a; n = spec_mp_uint(a, want); break;
    case T_INT64: v.content_.asSlotId = g_ext_id; g_ext.asInt64 = i_of_u(a); n = spec_mp_int(i_of_u(a), want); break;
    case T_FLOAT: {
      uint32_t b = (uint32_t)(a & 0xFFFFFFFFu); int64_t iv = 0;
      v.content_.asFloat = f32_of_bits(b);
      if (spec_f32_is_int64(b, &iv)) n = spec_mp_int(iv, want); else { want[0] = 0xCA; spec_be32(b, want + 1); n = 5; }
      break; }
    case T_DOUBLE: {
      int64_t iv = 0; uint32_t b32 = 0;
      /* setFloat(double) stores a Double only when the value is not exactly a float32; integral doubles of that kind
       * are the subject of obligation mp_ser/float64_integral and excluded here */
      __CPROVER_assume(!spec_f64_is_f32(a, &b32) && !spec_f64_is_int64(a, &iv));
      v.content_.asSlotId = g_ext_id; g_ext.asDouble = f64_of_bits(a);
      want[0] = 0xCB; spec_be64(a, want + 1); n = 9;
      break; }
    case T_LINKED:
      v.content_.asLinkedString = (char *)g_linked; g_strlen_ret = len; data = g_linked; is_string = 1;
      spec_be64(a, g_linked);
      break;
    case T_OWNED: case T_RAW:
      v.content_.asOwnedString = (struct StringNode *)g_node_room;
      data = (unsigned char *)g_node_room + offsetof(struct StringNode, data);
      spec_be64(a, (unsigned char *)g_node_room + offsetof(struct StringNode, data));
      ((struct StringNode *)v.content_.asOwnedString)->length = (unsigned short)len;
      is_string = (t == T_OWNED); is_raw = (t == T_RAW);
      break;
    case T_ARRAY: case T_OBJECT: is_coll = 1; break;
    default: __CPROVER_assume(0);
  }
  size_t r = VariantData__accept_MsgPackSerializer_LogWriter__MsgPackSerializer_LogWriter_r_ResourceManager_p(&v, &s, &g_rm);
  COVER(t == T_NULL); COVER(t == T_BOOL); COVER(t == T_UINT32); COVER(t == T_INT32 && (a & 0x80000000u)); COVER(t == T_UINT64);
  COVER(t == T_INT64); COVER(t == T_FLOAT); COVER(t == T_DOUBLE); COVER(t == T_LINKED && len == 32);
  COVER(t == T_OWNED && len == 65535); COVER(t == T_RAW && len == 5);
  COVER(t == T_ARRAY); COVER(t == T_OBJECT);
  CHECK(g_ext_ok, "64-bit values are read from the extension slot the variant names");
  if (is_coll) {
    CHECK(g_coll_calls == 1 && g_coll_arg == (void *)&v.content_ && g_coll_is_map == (t == T_OBJECT) && g_out_len == 0,
          "array/object variants are serialized by the array/map encoder on their own collection");
  } else if (is_raw) {
    CHECK(g_calls == 1 && g_last_ptr == data && g_last_n == len && g_last_at == 0 && g_out_len == len && r == len,
          "raw (bin/ext/serialized) variants are emitted verbatim: exactly the stored bytes");
    if (len <= 8) CHECK(EQ9(g_out, data, (len > 8 ? 8 : len)), "raw bytes verbatim");
  } else if (is_string) {
    unsigned h = spec_mp_strhdr(len, want);
    CHECK(t != T_LINKED || g_strlen_arg == (const char *)g_linked, "linked string: its length is strlen of the string");
    CHECK(EQ9(g_out, want, h), "string variant: str header for the stored length");
    CHECK(g_last_ptr == data && g_last_n == len && g_last_at == h && g_out_len == h + len && r == h + len,
          "string variant: exactly the stored bytes follow the header");
    unsigned char *got = g_out + h;
    if (len <= 8) CHECK(EQ9(got, data, (len > 8 ? 8 : len)), "string payload byte-exact");
  } else {
    CHECK(g_coll_calls == 0, "scalars do not reach the container encoders");
#ifdef CANARY_ACC
    CHECK(g_out_len == n && r == n + (t == T_UINT64 && a == 77), "scalar variant: one object, count returned");
#else
    CHECK(g_out_len == n && r == n, "scalar variant: one object, count returned");
#endif
    CHECK(EQ9(g_out, want, n), "scalar variant: the bytes denote the stored value (nil/bool/int/uint/float32/float64)");
  }
}
/* the static entry point used by serialize(): a null variant pointer (unbound JsonVariantConst) is nil */
void h_ser_variant_null(void) {
  struct MsgPackSerializer_LogWriter s;
  ser_init(&s, &g_rm);
  size_t r = VariantData__accept_MsgPackSerializer_LogWriter__VariantData_p_ResourceManager_p_MsgPackSerializer_LogWriter_r(0, &g_rm, &s);
  COVER(1);
#ifdef CANARY_ACC0
  CHECK(g_out_len == 1 && g_out[0] == 0xC1 && r == 1, "unbound variant serializes as nil");
#else
  CHECK(g_out_len == 1 && g_out[0] == 0xC0 && r == 1, "unbound variant serializes as nil");
#endif
}
#endif /* U_ACC */

/* ================================================================================================================ */
/* reader stub (bounded mode): a script of g_in_len bytes, then end of input                                         */
/* ================================================================================================================ */
#if defined(U_DES) || defined(U_DESK) || defined(U_RT)
#define IN_CAP 10
static unsigned char g_in[IN_CAP];
static size_t g_in_len, g_pos;
static unsigned g_read_calls;
int StubReader__read(struct StubReader *self) {
  (void)self;
  g_read_calls++;
  if (g_pos >= g_in_len) return -1;
  return g_in[g_pos++];
}
unsigned long StubReader__readBytes(struct StubReader *self, char *buf, unsigned long n) {
  (void)self;
  g_read_calls++;
  __CPROVER_assert(n <= 8, "reader stub: these units never ask for more than 8 bytes at once");
  unsigned long avail = g_in_len - g_pos;
  unsigned long k = n <= avail ? n : avail;
#define RB(i) if (i < k) buf[i] = (char)g_in[g_pos + i];
  RB(0) RB(1) RB(2) RB(3) RB(4) RB(5) RB(6) RB(7)
#undef RB
  g_pos += k;
  return k;
}
static void script_fill(void) {
  uint64_t a = in_u64();
  uint16_t b = in_u16();
  spec_be64(a, g_in);
  g_in[8] = spec_byte(b, 1); g_in[9] = spec_byte(b, 0);
  g_in_len = in_u8();
  __CPROVER_assume(g_in_len <= IN_CAP);
  g_pos = 0; g_read_calls = 0;
}
/* DeserializationError::Code (Deserialization/DeserializationError.hpp) */
enum { E_OK = 0, E_EMPTY = 1, E_INCOMPLETE = 2, E_INVALID = 3, E_NOMEM = 4, E_TOODEEP = 5 };
#endif

#if defined(U_DES) || defined(U_RT)
/* extension storage for 64-bit values: a ghost slot */
static struct ResourceManager g_rm;
static union VariantExtension g_ext;
static unsigned g_ext_id;
static int g_alloc_fail, g_alloc_calls;
struct Slot_VariantExtension ResourceManager__allocExtension(struct ResourceManager *self) {
  struct Slot_VariantExtension r;
  __CPROVER_assert(self == &g_rm, "allocExtension on the deserializer's resource manager");
  g_alloc_calls++;
  r.ptr_ = g_alloc_fail ? (union VariantExtension *)0 : &g_ext;
  r.id_ = g_ext_id;
  return r;
}
static void des_init(struct MsgPackDeserializer_StubReader *d) {
#ifdef VERIF_NATIVE
  memset(d, 0, sizeof *d);
  d->resources_ = &g_rm; d->stringBuffer_.resources_ = &g_rm;
#else
  struct StubReader rd;
  memset(&rd, 0, sizeof rd);
  memset(d, 0xA5, sizeof *d);     /* the constructor must clear foundSomething_ */
  MsgPackDeserializer_StubReader__ctor__ResourceManager_p_StubReader(d, &g_rm, rd);
#endif
}

#endif

/* ================================================================================================================ */
/* unit mp_des: MsgPackDeserializer<StubReader>::parse / parseVariant: every first byte, every width                  */
/* callees replaced by recorders: readString(variant,n), readRawString, readArray, readObject; allocExtension ghost  */
/* ================================================================================================================ */
#ifdef U_DES
enum { K_NIL, K_FALSE, K_TRUE, K_UINT, K_INT, K_F32, K_F64, K_STR, K_RAW, K_ARR, K_MAP, K_NONE };
struct mp_expect {
  unsigned err;      /* E_OK or the error the format demands */
  int kind;
  uint64_t bits;     /* integer value (two's complement image) / IEEE bits / element count / payload length */
  unsigned hdr;      /* bytes of the object read by parseVariant itself: type byte + size bytes (+ scalar payload) */
};
/* the MessagePack format table (spec.md "Formats / Overview"), written as a decoder of the header */
static struct mp_expect spec_mp_decode(const unsigned char *in, size_t len) {
  struct mp_expect e;
  e.err = E_OK; e.kind = K_NONE; e.bits = 0; e.hdr = 0;
  if (len == 0) { e.err = E_INCOMPLETE; return e; }
  unsigned b = in[0];
  unsigned w = 0;        /* bytes after the type byte that belong to the header / scalar */
  int sizeKind = K_NONE; /* for formats with a size field */
  if (b <= 0x7f) { e.kind = K_UINT; e.bits = b; e.hdr = 1; return e; }                 /* positive fixint */
  if (b >= 0xe0) { e.kind = K_INT; e.bits = 0xFFFFFFFFFFFFFF00ull | b; e.hdr = 1; return e; } /* negative fixint */
  if (b >= 0x80 && b <= 0x8f) { e.kind = K_MAP; e.bits = b & 0x0f; e.hdr = 1; return e; }
  if (b >= 0x90 && b <= 0x9f) { e.kind = K_ARR; e.bits = b & 0x0f; e.hdr = 1; return e; }
  if (b >= 0xa0 && b <= 0xbf) { e.kind = K_STR; e.bits = b & 0x1f; e.hdr = 1; return e; }
  switch (b) {
    case 0xc0: e.kind = K_NIL; e.hdr = 1; return e;
    case 0xc1: e.err = E_INVALID; e.hdr = 1; return e;                                  /* never used */
    case 0xc2: e.kind = K_FALSE; e.hdr = 1; return e;
    case 0xc3: e.kind = K_TRUE; e.hdr = 1; return e;
    case 0xc4: sizeKind = K_RAW; w = 1; break;   /* bin 8 */
    case 0xc5: sizeKind = K_RAW; w = 2; break;   /* bin 16 */
    case 0xc6: sizeKind = K_RAW; w = 4; break;   /* bin 32 */
    case 0xc7: sizeKind = K_RAW; w = 1; break;   /* ext 8  (+1 type byte in the payload) */
    case 0xc8: sizeKind = K_RAW; w = 2; break;   /* ext 16 */
    case 0xc9: sizeKind = K_RAW; w = 4; break;   /* ext 32 */
    case 0xca: e.kind = K_F32; w = 4; break;
    case 0xcb: e.kind = K_F64; w = 8; break;
    case 0xcc: e.kind = K_UINT; w = 1; break;
    case 0xcd: e.kind = K_UINT; w = 2; break;
    case 0xce: e.kind = K_UINT; w = 4; break;
    case 0xcf: e.kind = K_UINT; w = 8; break;
    case 0xd0: e.kind = K_INT; w = 1; break;
    case 0xd1: e.kind = K_INT; w = 2; break;
    case 0xd2: e.kind = K_INT; w = 4; break;
    case 0xd3: e.kind = K_INT; w = 8; break;
    case 0xd4: e.kind = K_RAW; e.bits = 1 + 1; e.hdr = 1; return e;    /* fixext 1: type byte + 1 */
    case 0xd5: e.kind = K_RAW; e.bits = 1 + 2; e.hdr = 1; return e;
    case 0xd6: e.kind = K_RAW; e.bits = 1 + 4; e.hdr = 1; return e;
    case 0xd7: e.kind = K_RAW; e.bits = 1 + 8; e.hdr = 1; return e;
    case 0xd8: e.kind = K_RAW; e.bits = 1 + 16; e.hdr = 1; return e;
    case 0xd9: sizeKind = K_STR; w = 1; break;
    case 0xda: sizeKind = K_STR; w = 2; break;
    case 0xdb: sizeKind = K_STR; w = 4; break;
    case 0xdc: sizeKind = K_ARR; w = 2; break;
    case 0xdd: sizeKind = K_ARR; w = 4; break;
    case 0xde: sizeKind = K_MAP; w = 2; break;
    default: /* 0xdf */ sizeKind = K_MAP; w = 4; break;
  }
  if (len < 1 + w) { e.err = E_INCOMPLETE; e.kind = K_NONE; return e; }  /* a proper prefix */
  e.hdr = 1 + w;
  uint64_t raw = spec_be_decode(in + 1, w);
  if (sizeKind != K_NONE) {
    e.kind = sizeKind;
    e.bits = raw + ((b >= 0xc7 && b <= 0xc9) ? 1u : 0u);
    return e;
  }
  if (e.kind == K_INT) { /* sign extension from the width of the format */
    if (w == 1 && (raw & 0x80u)) raw |= 0xFFFFFFFFFFFFFF00ull;
    if (w == 2 && (raw & 0x8000u)) raw |= 0xFFFFFFFFFFFF0000ull;
    if (w == 4 && (raw & 0x80000000u)) raw |= 0xFFFFFFFF00000000ull;
  }
  e.bits = raw;
  return e;
}

static int g_callee, g_callee_calls;
static struct VariantData *g_callee_variant;
static unsigned long g_callee_n;
static unsigned char g_callee_hdr[5], g_callee_hsize, g_callee_nesting;
static unsigned g_callee_ret;
static size_t g_callee_pos;
static unsigned callee(int kind, struct VariantData *variant, unsigned long n) {
  g_callee = kind; g_callee_calls++; g_callee_variant = variant; g_callee_n = n; g_callee_pos = g_pos;
  return g_callee_ret;
}
unsigned int MsgPackDeserializer_StubReader__readArray_AllowAllFilter(struct MsgPackDeserializer_StubReader *self, struct VariantData *variant,
    unsigned long n, struct AllowAllFilter filter, struct DeserializationOption__NestingLimit nestingLimit) {
  (void)self; (void)filter; g_callee_nesting = nestingLimit.value_;
  return callee(K_ARR, variant, n);
}
unsigned int MsgPackDeserializer_StubReader__readObject_AllowAllFilter(struct MsgPackDeserializer_StubReader *self, struct VariantData *variant,
    unsigned long n, struct AllowAllFilter filter, struct DeserializationOption__NestingLimit nestingLimit) {
  (void)self; (void)filter; g_callee_nesting = nestingLimit.value_;
  return callee(K_MAP, variant, n);
}
unsigned int MsgPackDeserializer_StubReader__readString__VariantData_p_ulong(struct MsgPackDeserializer_StubReader *self, struct VariantData *variant, unsigned long n) {
  (void)self;
  return callee(K_STR, variant, n);
}
unsigned int MsgPackDeserializer_StubReader__readRawString(struct MsgPackDeserializer_StubReader *self, struct VariantData *variant, void *header,
    unsigned char headerSize, unsigned long n) {
  (void)self;
  const unsigned char *h = (const unsigned char *)header;
  g_callee_hsize = headerSize;
  if (headerSize >= 1) g_callee_hdr[0] = h[0];
  if (headerSize >= 2) g_callee_hdr[1] = h[1];
  if (headerSize >= 3) g_callee_hdr[2] = h[2];
  if (headerSize >= 4) g_callee_hdr[3] = h[3];
  if (headerSize >= 5) g_callee_hdr[4] = h[4];
  return callee(K_RAW, variant, n);
}
void h_des_parse(void) {
  struct MsgPackDeserializer_StubReader d;
  des_init(&d);
  script_fill();
  struct VariantData v;
  memset(&v, 0, sizeof v);           /* a cleared variant: null */
  struct AllowAllFilter filter; memset(&filter, 0, sizeof filter);
  struct DeserializationOption__NestingLimit nl; nl.value_ = in_u8();
  g_alloc_fail = in_u8() & 1; g_alloc_calls = 0; g_ext_id = in_u32();
  g_callee = K_NONE; g_callee_calls = 0; g_callee_ret = in_u8(); g_callee_hsize = 0;
  __CPROVER_assume(g_callee_ret <= E_TOODEEP);
  struct DeserializationError r = MsgPackDeserializer_StubReader__parse_AllowAllFilter(&d, &v, filter, nl);
  unsigned err = r.code_;
  struct mp_expect e = spec_mp_decode(g_in, g_in_len);
  unsigned b0 = g_in[0];
  /* reachability: every family, every width, both errors, a prefix of each width */
  COVER(g_in_len == 0);
  COVER(e.kind == K_NIL); COVER(e.kind == K_FALSE); COVER(e.kind == K_TRUE); COVER(e.err == E_INVALID);
  COVER(e.kind == K_UINT && e.hdr == 1); COVER(e.kind == K_UINT && e.hdr == 2); COVER(e.kind == K_UINT && e.hdr == 3);
  COVER(e.kind == K_UINT && e.hdr == 5); COVER(e.kind == K_UINT && e.hdr == 9 && e.bits > 0xFFFFFFFFull);
  COVER(e.kind == K_UINT && e.hdr == 9 && e.bits < 5);   /* non-minimal width */
  COVER(e.kind == K_INT && e.hdr == 1); COVER(e.kind == K_INT && e.hdr == 2 && (e.bits >> 63)); COVER(e.kind == K_INT && e.hdr == 3 && (e.bits >> 63));
  COVER(e.kind == K_INT && e.hdr == 5 && (e.bits >> 63)); COVER(e.kind == K_INT && e.hdr == 9 && (e.bits >> 63) && !g_alloc_fail);
  COVER(e.kind == K_INT && e.hdr == 9 && !(e.bits >> 63));
#ifndef CFG_noll
  COVER(e.kind == K_INT && e.hdr == 9 && g_alloc_fail && err == E_NOMEM);
#endif
  COVER(e.kind == K_F32); COVER(e.kind == K_F64 && err == E_OK && v.type_ == 0x0E);
#ifndef CFG_nodbl
  COVER(e.kind == K_F64 && err == E_OK && v.type_ == 0x1E);
#endif
  COVER(e.kind == K_STR && e.hdr == 1); COVER(e.kind == K_STR && e.hdr == 2); COVER(e.kind == K_STR && e.hdr == 3); COVER(e.kind == K_STR && e.hdr == 5);
  COVER(e.kind == K_RAW && b0 == 0xc4); COVER(e.kind == K_RAW && b0 == 0xc5); COVER(e.kind == K_RAW && b0 == 0xc6);
  COVER(e.kind == K_RAW && b0 == 0xc7); COVER(e.kind == K_RAW && b0 == 0xc8); COVER(e.kind == K_RAW && b0 == 0xc9 && e.bits == 0x100000000ull);
  COVER(e.kind == K_RAW && b0 == 0xd4); COVER(e.kind == K_RAW && b0 == 0xd8);
  COVER(e.kind == K_ARR && e.hdr == 1); COVER(e.kind == K_ARR && e.hdr == 3); COVER(e.kind == K_ARR && e.hdr == 5);
  COVER(e.kind == K_MAP && e.hdr == 1); COVER(e.kind == K_MAP && e.hdr == 3); COVER(e.kind == K_MAP && e.hdr == 5);
  COVER(e.err == E_INCOMPLETE && g_in_len == 1); COVER(e.err == E_INCOMPLETE && g_in_len == 8 && b0 == 0xcb); COVER(e.err == E_INCOMPLETE && g_in_len == 4 && b0 == 0xdd);

  if (g_in_len == 0) {
#ifdef CANARY_DES
    CHECK(err == E_INCOMPLETE, "empty input gives EmptyInput");
#else
    CHECK(err == E_EMPTY, "empty input gives EmptyInput");
#endif
    CHECK(v.type_ == 0 && g_callee_calls == 0, "empty input leaves the variant null");
    return;
  }
  CHECK(d.foundSomething_, "any first byte counts as input found");
  if (e.err != E_OK) {
    CHECK(err == e.err, "a proper prefix of an object gives IncompleteInput; the reserved code 0xC1 gives InvalidInput");
    CHECK(v.type_ == 0 && g_callee_calls == 0 && g_alloc_calls == 0, "nothing is stored for a rejected header");
    CHECK(e.err != E_INCOMPLETE || g_pos == g_in_len, "IncompleteInput is reported only after the input is exhausted");
    return;
  }
  if (e.kind == K_STR || e.kind == K_RAW || e.kind == K_ARR || e.kind == K_MAP) {
    CHECK(g_callee_calls == 1 && g_callee == e.kind, "str -> readString, bin/ext/fixext -> readRawString, array -> readArray, map -> readObject");
    CHECK(g_callee_n == e.bits, "the size/count field is decoded big-endian (ext: +1 for the type byte; fixext 1,2,4,8,16)");
    CHECK(g_callee_pos == e.hdr && g_callee_variant == &v, "exactly the header bytes are consumed before the payload reader starts on this variant");
    CHECK(err == g_callee_ret, "the payload reader's result is the result");
    if (e.kind == K_RAW) {
      CHECK(g_callee_hsize == e.hdr && EQ9(g_callee_hdr, g_in, e.hdr), "bin/ext: the header bytes are handed over verbatim so that the value can be reproduced");
    } else if (e.kind != K_STR) {
      CHECK(g_callee_nesting == nl.value_, "containers receive the current nesting limit");
    }
    return;
  }
  CHECK(g_callee_calls == 0, "scalars are decoded in place");
  CHECK(g_pos == e.hdr, "a scalar consumes exactly its bytes");
  /* what the variant denotes now */
  int needs_ext = 0;
  if (e.kind == K_UINT) needs_ext = e.bits > 0xFFFFFFFFull;
  if (e.kind == K_INT) needs_ext = i_of_u(e.bits) > 2147483647ll || i_of_u(e.bits) < -2147483647ll - 1;
  uint32_t f32 = 0;
  if (e.kind == K_F64) needs_ext = !spec_f64_is_f32(e.bits, &f32);
#ifdef CFG_nodbl
  if (e.kind == K_F64) needs_ext = 0;   /* ARDUINOJSON_USE_DOUBLE=0: every double is rounded to float */
#endif
#ifdef CFG_noll
  /* ARDUINOJSON_USE_LONG_LONG=0: integers that need more than 32 bits are outside the configured range: null, Ok */
  if (needs_ext && (e.kind == K_UINT || e.kind == K_INT)) {
    COVER(e.kind == K_INT);
    CHECK(err == E_OK && v.type_ == 0 && g_alloc_calls == 0, "integer outside the configured range: the variant is null, never a wrong number");
    return;
  }
#endif
  if (needs_ext && g_alloc_fail) {
    CHECK(err == E_NOMEM, "no room for a 64-bit value: NoMemory");
    CHECK(v.type_ == 0, "and the variant stays null (never a truncated number)");
    return;
  }
#ifdef CANARY_DES
  CHECK(err == E_OK || b0 == 0xd1, "well-formed scalar: Ok");
#else
  CHECK(err == E_OK, "well-formed scalar: Ok");
#endif
  CHECK(needs_ext || g_alloc_calls == 0, "32-bit values need no extension slot");
  switch (e.kind) {
    case K_NIL: CHECK(v.type_ == 0, "nil leaves null"); break;
    case K_FALSE: CHECK(v.type_ == 0x06 && v.content_.asBoolean == 0, "false"); break;
    case K_TRUE: CHECK(v.type_ == 0x06 && v.content_.asBoolean == 1, "true"); break;
    case K_UINT: case K_INT: {
      /* the stored number as sign + magnitude, whatever representation was chosen */
      int ok = 0;
      int64_t want_i = i_of_u(e.bits);
      if (v.type_ == 0x0A) ok = (e.kind == K_UINT || want_i >= 0) && e.bits == v.content_.asUint32;
      else if (v.type_ == 0x0C) ok = (e.kind == K_INT || e.bits <= 0x7FFFFFFFull) && want_i == v.content_.asInt32;
#ifndef CFG_noll
      else if (v.type_ == 0x1A) ok = (e.kind == K_UINT || want_i >= 0) && v.content_.asSlotId == g_ext_id && g_ext.asUint64 == e.bits;
      else if (v.type_ == 0x1C) ok = (e.kind == K_INT || e.bits <= 0x7FFFFFFFFFFFFFFFull) && v.content_.asSlotId == g_ext_id && g_ext.asInt64 == want_i;
#endif
      CHECK(ok, "integer formats (fixint, 8/16/32/64, minimal or not): the stored number equals the encoded one, sign included");
      break; }
    case K_F32:
      CHECK(v.type_ == 0x0E && spec_f32_bits(v.content_.asFloat) == (uint32_t)(e.bits & 0xFFFFFFFFu), "float32: stored bits == encoded bits");
      break;
    case K_F64:
#ifdef CFG_nodbl
      { float want = (float)f64_of_bits(e.bits);   /* IEEE round-to-nearest conversion = 'rounded to float' */
        uint32_t got = spec_f32_bits(v.content_.asFloat);
        int want_nan = (e.bits & 0x7FF0000000000000ull) == 0x7FF0000000000000ull && (e.bits & 0xFFFFFFFFFFFFFull) != 0;
        COVER(want_nan); COVER(!want_nan && spec_f64_is_f32(e.bits, &f32) == 0); COVER((spec_f32_bits(want) & 0x7FFFFFFFu) == 0x7F800000u && (e.bits & 0x7FF0000000000000ull) != 0x7FF0000000000000ull);
        if (want_nan) CHECK(v.type_ == 0x0E && (got & 0x7F800000u) == 0x7F800000u && (got & 0x7FFFFFu) != 0, "float64 NaN with doubles disabled: a NaN");
        else CHECK(v.type_ == 0x0E && got == spec_f32_bits(want), "float64 with doubles disabled: the value rounded to float");
      }
      break;
#else
      if (needs_ext) CHECK(v.type_ == 0x1E && v.content_.asSlotId == g_ext_id && spec_f64_bits(g_ext.asDouble) == e.bits, "float64: stored bits == encoded bits");
      else CHECK(v.type_ == 0x0E && spec_f32_bits(v.content_.asFloat) == f32, "float64 that is exactly a float32: stored as that float32 (same value)");
      break;
#endif
    default: CHECK(0, "unreachable kind"); break;
  }
}

/* readInteger(variant, width, isSigned) called directly: widths 1,2,4,8, both signednesses, every payload, prefixes */
void h_des_read_integer(void) {
  struct MsgPackDeserializer_StubReader d;
  des_init(&d);
  script_fill();
  struct VariantData v;
  memset(&v, 0, sizeof v);
  uint8_t wsel = in_u8() & 3;
  unsigned char width = (unsigned char)(1u << wsel);
  _Bool isSigned = in_u8() & 1;
  g_alloc_fail = 0; g_alloc_calls = 0; g_ext_id = in_u32();
  unsigned err = MsgPackDeserializer_StubReader__readInteger(&d, &v, width, isSigned);
  COVER(width == 1 && isSigned); COVER(width == 2 && !isSigned); COVER(width == 4 && isSigned); COVER(width == 8 && isSigned); COVER(width == 8 && !isSigned);
  COVER(g_in_len < width); COVER(err == E_OK && v.type_ == 0x0C && isSigned && v.content_.asInt32 < 0);
#ifndef CFG_noll
  COVER(err == E_OK && v.type_ == 0x1C); COVER(err == E_OK && v.type_ == 0x1A);
#endif
  if (g_in_len < width) {
    CHECK(err == E_INCOMPLETE && v.type_ == 0, "readInteger: a short payload gives IncompleteInput and stores nothing");
    return;
  }
  uint64_t raw = spec_be_decode(g_in, width);
  if (isSigned) {
    if (width == 1 && (raw & 0x80u)) raw |= 0xFFFFFFFFFFFFFF00ull;
    if (width == 2 && (raw & 0x8000u)) raw |= 0xFFFFFFFFFFFF0000ull;
    if (width == 4 && (raw & 0x80000000u)) raw |= 0xFFFFFFFF00000000ull;
  }
  int64_t want_i = i_of_u(raw);
  int ok = 0;
#ifdef CFG_noll
  if (isSigned ? (want_i > 2147483647ll || want_i < -2147483647ll - 1) : raw > 0xFFFFFFFFull) {
    COVER(isSigned); COVER(!isSigned);
    CHECK(err == E_OK && v.type_ == 0 && g_alloc_calls == 0 && g_pos == width, "readInteger: outside the configured integer range -> null, never a truncated number");
    return;
  }
#endif
  if (v.type_ == 0x0A) ok = (!isSigned || want_i >= 0) && raw == v.content_.asUint32;
  else if (v.type_ == 0x0C) ok = (isSigned || raw <= 0x7FFFFFFFull) && want_i == v.content_.asInt32;
#ifndef CFG_noll
  else if (v.type_ == 0x1A) ok = (!isSigned || want_i >= 0) && v.content_.asSlotId == g_ext_id && g_ext.asUint64 == raw;
  else if (v.type_ == 0x1C) ok = (isSigned || raw <= 0x7FFFFFFFFFFFFFFFull) && v.content_.asSlotId == g_ext_id && g_ext.asInt64 == want_i;
#endif
#ifdef CANARY_DES_RI
  CHECK(err == E_OK && ok && !(width == 2 && raw == 0x1234), "readInteger: big-endian value with sign extension from the first byte, stored exactly");
#else
  CHECK(err == E_OK && ok, "readInteger: big-endian value with sign extension from the first byte, stored exactly");
#endif
  CHECK(g_pos == width, "readInteger consumes exactly `width` bytes");
}
#endif /* U_DES */

/* ================================================================================================================ */
/* unit mp_des_key: readKey(): only the str family is a map key; readString(n) replaced by a recorder                */
/* ================================================================================================================ */
#ifdef U_DESK
static unsigned long g_rs_n; static int g_rs_calls; static unsigned g_rs_ret; static size_t g_rs_pos;
unsigned int MsgPackDeserializer_StubReader__readString__ulong(struct MsgPackDeserializer_StubReader *self, unsigned long n) {
  (void)self; g_rs_n = n; g_rs_calls++; g_rs_pos = g_pos; return g_rs_ret;
}
void h_des_key(void) {
  struct MsgPackDeserializer_StubReader d;
  memset(&d, 0, sizeof d);
  script_fill();
  g_rs_calls = 0; g_rs_ret = in_u8();
  __CPROVER_assume(g_rs_ret <= E_TOODEEP);
  unsigned err = MsgPackDeserializer_StubReader__readKey(&d);
  unsigned b = g_in[0];
  unsigned w = b == 0xd9 ? 1 : b == 0xda ? 2 : b == 0xdb ? 4 : 0;
  int is_fixstr = b >= 0xa0 && b <= 0xbf;
  COVER(g_in_len == 0); COVER(is_fixstr && g_in_len >= 1); COVER(w == 1 && g_in_len >= 2); COVER(w == 2 && g_in_len >= 3); COVER(w == 4 && g_in_len >= 5);
  COVER(w == 4 && g_in_len == 4); COVER(w == 0 && !is_fixstr && g_in_len >= 1); COVER(b == 0xc0 && g_in_len >= 1); COVER(b == 0x01 && g_in_len >= 1);
  if (g_in_len == 0) { CHECK(err == E_INCOMPLETE && g_rs_calls == 0, "key: end of input gives IncompleteInput"); return; }
  if (is_fixstr) {
    CHECK(g_rs_calls == 1 && g_rs_n == (b & 0x1f) && g_rs_pos == 1 && err == g_rs_ret, "key: fixstr length is the low 5 bits");
    return;
  }
  if (w) {
    if (g_in_len < 1 + w) { CHECK(err == E_INCOMPLETE && g_rs_calls == 0, "key: a truncated length field gives IncompleteInput"); return; }
#ifdef CANARY_DESK
    CHECK(g_rs_calls == 1 && g_rs_n == spec_be_decode(g_in + 1, w) + (w == 2) && g_rs_pos == 1 + w && err == g_rs_ret, "key: str8/16/32 length decoded big-endian");
#else
    CHECK(g_rs_calls == 1 && g_rs_n == spec_be_decode(g_in + 1, w) && g_rs_pos == 1 + w && err == g_rs_ret, "key: str8/16/32 length decoded big-endian");
#endif
    return;
  }
  CHECK(err == E_INVALID && g_rs_calls == 0 && g_pos == 1, "key: any non-string format gives InvalidInput");
}
#endif /* U_DESK */

/* ================================================================================================================ */
/* unit mp_des_str: readString(variant,n), readString(n), readRawString(variant,header,headerSize,n)                  */
/* StringBuffer::reserve / save replaced by ghosts; the reader records what it is asked for (n is symbolic)          */
/* ================================================================================================================ */
#ifdef U_DESS
enum { E_OK = 0, E_EMPTY = 1, E_INCOMPLETE = 2, E_INVALID = 3, E_NOMEM = 4, E_TOODEEP = 5 };
static struct ResourceManager g_rm;
static char g_block[16];            /* the first bytes of the block handed out by reserve() */
static int g_reserve_calls, g_reserve_fail, g_save_calls, g_save_after_read;
static unsigned long g_reserve_n;
static struct StringNode g_saved;
static char *g_rb_buf; static unsigned long g_rb_n, g_rb_ret; static int g_rb_calls;
char *StringBuffer__reserve(struct StringBuffer *self, unsigned long capacity) {
  (void)self; g_reserve_calls++; g_reserve_n = capacity;
  return g_reserve_fail ? (char *)0 : g_block;
}
struct StringNode *StringBuffer__save(struct StringBuffer *self) {
  (void)self; g_save_calls++; g_save_after_read = g_rb_calls;
  return &g_saved;
}
unsigned long StubReader__readBytes(struct StubReader *self, char *buf, unsigned long n) {
  (void)self; g_rb_calls++; g_rb_buf = buf; g_rb_n = n;
  return g_rb_ret;
}
int StubReader__read(struct StubReader *self) { (void)self; __CPROVER_assert(0, "byte-wise read is not used by the string readers"); return -1; }
static void dess_init(struct MsgPackDeserializer_StubReader *d) {
  memset(d, 0, sizeof *d);
  d->resources_ = &g_rm; d->stringBuffer_.resources_ = &g_rm;
  g_reserve_calls = 0; g_save_calls = 0; g_rb_calls = 0; g_save_after_read = 0;
}
void h_des_string(void) {
  struct MsgPackDeserializer_StubReader d;
  dess_init(&d);
  struct VariantData v; memset(&v, 0, sizeof v);
  unsigned long n = in_u64();
  g_reserve_fail = in_u8() & 1;
  g_rb_ret = in_u64();
  __CPROVER_assume(g_rb_ret <= n);      /* a reader never delivers more than asked */
  unsigned err = MsgPackDeserializer_StubReader__readString__VariantData_p_ulong(&d, &v, n);
  COVER(g_reserve_fail); COVER(!g_reserve_fail && g_rb_ret < n); COVER(!g_reserve_fail && g_rb_ret == n && n == 0); COVER(err == E_OK && n > 0xFFFFFFFFull);
  CHECK(g_reserve_calls == 1 && g_reserve_n == n, "string: a block for exactly n characters is reserved first (the length cap is reserve's)");
  if (g_reserve_fail) { CHECK(err == E_NOMEM && g_rb_calls == 0 && v.type_ == 0, "string: no block -> NoMemory, nothing read, nothing stored"); return; }
  CHECK(g_rb_calls == 1 && g_rb_buf == g_block && g_rb_n == n, "string: exactly n bytes are read into the start of the block");
  if (g_rb_ret < n) { CHECK(err == E_INCOMPLETE && g_save_calls == 0 && v.type_ == 0, "string: short payload -> IncompleteInput, variant untouched"); return; }
#ifdef CANARY_DESS
  CHECK(err == E_OK && g_save_calls == 1 && v.type_ == 0x04 && v.content_.asOwnedString == &g_saved, "string: stored as an owned string (the saved block)");
#else
  CHECK(err == E_OK && g_save_calls == 1 && v.type_ == 0x05 && v.content_.asOwnedString == &g_saved, "string: stored as an owned string (the saved block)");
#endif
}
void h_des_raw(void) {
  struct MsgPackDeserializer_StubReader d;
  dess_init(&d);
  struct VariantData v; memset(&v, 0, sizeof v);
  unsigned char header[5];
  uint64_t hb = in_u64();
  header[0] = spec_byte(hb, 0); header[1] = spec_byte(hb, 1); header[2] = spec_byte(hb, 2); header[3] = spec_byte(hb, 3); header[4] = spec_byte(hb, 4);
  unsigned char hs = in_u8();
  __CPROVER_assume(hs >= 1 && hs <= 5);
  unsigned long n = in_u64();
  __CPROVER_assume(n <= 0x100000000ull);   /* 32-bit size field (+1 for the ext type) */
  g_reserve_fail = in_u8() & 1;
  g_rb_ret = in_u64();
  __CPROVER_assume(g_rb_ret <= n);
  memset(g_block, 0x55, sizeof g_block);
  unsigned err = MsgPackDeserializer_StubReader__readRawString(&d, &v, header, hs, n);
  COVER(g_reserve_fail); COVER(!g_reserve_fail && g_rb_ret < n); COVER(err == E_OK && hs == 5 && n == 0x100000000ull); COVER(err == E_OK && hs == 1 && n == 2); COVER(err == E_OK && hs == 2);
  CHECK(g_reserve_calls == 1 && g_reserve_n == hs + n, "bin/ext: one block for header + payload");
  if (g_reserve_fail) { CHECK(err == E_NOMEM && g_rb_calls == 0 && v.type_ == 0, "bin/ext: no block -> NoMemory"); return; }
  CHECK(EQ9(((unsigned char *)g_block), header, hs) && (unsigned char)g_block[hs] == 0x55, "bin/ext: the block starts with the header bytes, verbatim, and nothing else is written");
  CHECK(g_rb_calls == 1 && g_rb_buf == g_block + hs && g_rb_n == n, "bin/ext: exactly n payload bytes are read right after the header");
  if (g_rb_ret < n) { CHECK(err == E_INCOMPLETE && g_save_calls == 0 && v.type_ == 0, "bin/ext: short payload -> IncompleteInput, variant untouched"); return; }
#ifdef CANARY_DESR
  CHECK(err == E_OK && g_save_calls == 1 && v.type_ == 0x05 && v.content_.asOwnedString == &g_saved, "bin/ext: stored as a raw string so that serializeMsgPack emits it verbatim");
#else
  CHECK(err == E_OK && g_save_calls == 1 && v.type_ == 0x03 && v.content_.asOwnedString == &g_saved, "bin/ext: stored as a raw string so that serializeMsgPack emits it verbatim");
#endif
}
/* readString(n) as used for keys: same, without the store */
void h_des_keystring(void) {
  struct MsgPackDeserializer_StubReader d;
  dess_init(&d);
  unsigned long n = in_u64();
  g_reserve_fail = in_u8() & 1;
  g_rb_ret = in_u64();
  __CPROVER_assume(g_rb_ret <= n);
  unsigned err = MsgPackDeserializer_StubReader__readString__ulong(&d, n);
  COVER(g_reserve_fail); COVER(!g_reserve_fail && g_rb_ret < n); COVER(err == E_OK);
  CHECK(g_reserve_calls == 1 && g_reserve_n == n, "key string: block for n characters");
  if (g_reserve_fail) { CHECK(err == E_NOMEM && g_rb_calls == 0, "key string: NoMemory"); return; }
  CHECK(g_rb_calls == 1 && g_rb_buf == g_block && g_rb_n == n, "key string: n bytes into the block");
#ifdef CANARY_DESKS
  CHECK(err == (g_rb_ret < n ? E_INCOMPLETE : E_OK) + (n == 7), "key string: IncompleteInput iff the payload is short");
#else
  CHECK(err == (g_rb_ret < n ? E_INCOMPLETE : E_OK), "key string: IncompleteInput iff the payload is short");
#endif
  CHECK(g_save_calls == 0, "key string: not saved here");
}
#endif /* U_DESS */

/* ================================================================================================================ */
/* unit mp_des_coll: readArray / readObject: n entries, each added to the collection and then parsed, in input order  */
/* callees replaced: toArray/toObject, addElement/addMember (may fail), readKey, StringBuffer::str/save, parseVariant */
/* (the child: any result); loops carry contracts, so the count n is arbitrary                                        */
/* ================================================================================================================ */
#ifdef U_DESC
enum { E_OK = 0, E_EMPTY = 1, E_INCOMPLETE = 2, E_INVALID = 3, E_NOMEM = 4, E_TOODEEP = 5 };
static struct ResourceManager g_rm;
static struct VariantData g_target, g_child;
static struct ArrayData g_array; static struct ObjectData g_object;
static struct StringNode g_saved;
static struct MsgPackDeserializer_StubReader *g_self;
static unsigned char g_nest;       /* nesting limit given to the collection */
static int g_to_calls;
int nondet_int(void);
struct ArrayData *VariantData__toArray__void(struct VariantData *self) { if (self != &g_target) g_proto_ok = 0; g_to_calls++; return &g_array; }
struct ObjectData *VariantData__toObject__void(struct VariantData *self) { if (self != &g_target) g_proto_ok = 0; g_to_calls++; return &g_object; }
struct VariantData *ArrayData__addElement__ResourceManager_p(struct ArrayData *self, struct ResourceManager *resources) {
  if (self != &g_array || resources != &g_rm || g_stage != 0) g_proto_ok = 0;
  if (nondet_int()) { g_child_err = E_NOMEM; return (struct VariantData *)0; }
  g_stage = 3;
  return &g_child;
}
unsigned int MsgPackDeserializer_StubReader__readKey(struct MsgPackDeserializer_StubReader *self) {
  if (self != g_self || g_stage != 0) g_proto_ok = 0;
  unsigned e = nondet_u8();
  __CPROVER_assume(e <= E_TOODEEP);
  if (e) g_child_err = e; else g_stage = 1;
  return e;
}
struct JsonString StringBuffer__str(struct StringBuffer *self) {
  struct JsonString r; memset(&r, 0, sizeof r);
  if (self != &g_self->stringBuffer_ || g_stage != 1) g_proto_ok = 0;
  return r;
}
struct StringNode *StringBuffer__save(struct StringBuffer *self) {
  if (self != &g_self->stringBuffer_ || g_stage != 1) g_proto_ok = 0;
  g_stage = 2;
  return &g_saved;
}
struct VariantData *ObjectData__addMember_StringNode_p(struct ObjectData *self, struct StringNode *key, struct ResourceManager *resources) {
  if (self != &g_object || key != &g_saved || resources != &g_rm || g_stage != 2) g_proto_ok = 0;
  if (nondet_int()) { g_child_err = E_NOMEM; g_addmember_failed = 1; return (struct VariantData *)0; }
  g_stage = 3;
  return &g_child;
}
/* dereferenceString [contract proved: strings/pool_dereference]: gives back the reference taken by save() when addMember failed */
void ResourceManager__dereferenceString(struct ResourceManager *self, char *s) {
  if (self != &g_rm || !g_addmember_failed || s != g_saved.data) g_proto_ok = 0;
  g_derefs++;
}
unsigned int MsgPackDeserializer_StubReader__parseVariant_AllowAllFilter(struct MsgPackDeserializer_StubReader *self, struct VariantData *variant,
    struct AllowAllFilter filter, struct DeserializationOption__NestingLimit nestingLimit) {
  (void)filter;
  if (self != g_self || variant != &g_child || g_stage != 3) g_proto_ok = 0;
  if (g_nest == 0 || nestingLimit.value_ != g_nest - 1) g_proto_ok = 0;   /* children get one level less */
  unsigned e = nondet_u8();
  __CPROVER_assume(e <= E_TOODEEP);
  if (e) g_child_err = e; else { g_stage = 0; g_entries++; }
  return e;
}
static void h_des_coll(int isMap) {
  struct MsgPackDeserializer_StubReader d;
  memset(&d, 0, sizeof d);
  d.resources_ = &g_rm; g_self = &d;
  struct AllowAllFilter filter; memset(&filter, 0, sizeof filter);
  struct DeserializationOption__NestingLimit nl; nl.value_ = in_u8(); g_nest = nl.value_;
  unsigned long n = in_u64();
  g_addmember_failed = 0; g_derefs = 0;
  g_n0 = n; g_entries = 0; g_stage = 0; g_proto_ok = 1; g_to_calls = 0; g_child_err = 0;
  unsigned err = isMap ? MsgPackDeserializer_StubReader__readObject_AllowAllFilter(&d, &g_target, n, filter, nl)
                       : MsgPackDeserializer_StubReader__readArray_AllowAllFilter(&d, &g_target, n, filter, nl);
  if (g_nest == 0) {
    CHECK(err == E_TOODEEP && g_to_calls == 0 && g_entries == 0, "collection at nesting limit 0: TooDeep, the variant is not touched");
    return;
  }
  CHECK(g_to_calls == 1, "the variant becomes an array / object once");
  CHECK(g_proto_ok, "each entry: [key read, key saved, member added with that key |element added], then parsed into that slot with nesting-1, strictly in input order");
#ifdef CANARY_DESC
  CHECK(err == g_child_err && n != 3, "the result is the first error of a callee (NoMemory when the slot could not be added), else Ok");
#else
  CHECK(err == g_child_err, "the result is the first error of a callee (NoMemory when the slot could not be added), else Ok");
#endif
  CHECK(err != E_OK || (g_entries == n && g_stage == 0), "Ok only after exactly n entries");
  CHECK(g_entries <= n, "never more than n entries");
}
#define COLL_COVERS COVER(g_nest == 0); COVER(g_nest > 0 && g_n0 == 0); COVER(g_entries == 2 && g_child_err == 0 && g_n0 == 2); COVER(g_child_err == E_NOMEM); \
  COVER(g_child_err == E_INCOMPLETE && g_entries == 1); COVER(g_n0 > 0xFFFFFFFFull)
void h_des_array(void) { h_des_coll(0); COLL_COVERS; }
void h_des_object(void) { h_des_coll(1); COLL_COVERS; }
#endif /* U_DESC */

/* ================================================================================================================ */
/* unit mp_rt (L-C07b, props C07 C08 C09): REAL serializer into the log, the log fed to the REAL deserializer:        */
/* the stored value equals the original, for all 2^64 integers and all float32 / float64 bit patterns                 */
/* ================================================================================================================ */
#ifdef U_RT
#define UNREACHED(name) __CPROVER_assert(0, name " is not reached by scalar round trips")
unsigned int MsgPackDeserializer_StubReader__readArray_AllowAllFilter(struct MsgPackDeserializer_StubReader *self, struct VariantData *variant,
    unsigned long n, struct AllowAllFilter filter, struct DeserializationOption__NestingLimit nestingLimit) { UNREACHED("readArray"); return 3; }
unsigned int MsgPackDeserializer_StubReader__readObject_AllowAllFilter(struct MsgPackDeserializer_StubReader *self, struct VariantData *variant,
    unsigned long n, struct AllowAllFilter filter, struct DeserializationOption__NestingLimit nestingLimit) { UNREACHED("readObject"); return 3; }
unsigned int MsgPackDeserializer_StubReader__readString__VariantData_p_ulong(struct MsgPackDeserializer_StubReader *self, struct VariantData *variant, unsigned long n) { UNREACHED("readString"); return 3; }
unsigned int MsgPackDeserializer_StubReader__readRawString(struct MsgPackDeserializer_StubReader *self, struct VariantData *variant, void *header,
    unsigned char headerSize, unsigned long n) { UNREACHED("readRawString"); return 3; }

/* feed what the serializer produced to the deserializer */
static unsigned rt_parse(struct VariantData *v) {
  struct MsgPackDeserializer_StubReader d;
  des_init(&d);
  __CPROVER_assert(g_out_len <= 9, "a scalar is at most 9 bytes");
  g_in[0] = g_out[0]; g_in[1] = g_out[1]; g_in[2] = g_out[2]; g_in[3] = g_out[3]; g_in[4] = g_out[4];
  g_in[5] = g_out[5]; g_in[6] = g_out[6]; g_in[7] = g_out[7]; g_in[8] = g_out[8]; g_in[9] = 0xC1;
  g_in_len = g_out_len; g_pos = 0; g_read_calls = 0;
  g_alloc_fail = 0; g_alloc_calls = 0; g_ext_id = 7;
  memset(v, 0, sizeof *v);
  struct AllowAllFilter filter; memset(&filter, 0, sizeof filter);
  struct DeserializationOption__NestingLimit nl; nl.value_ = 10;
  struct DeserializationError r = MsgPackDeserializer_StubReader__parse_AllowAllFilter(&d, v, filter, nl);
  return r.code_;
}
/* the integer a variant denotes, if it is one: returns 1 and (negative?, magnitude as two's complement image) */
static int stored_int(const struct VariantData *v, int *is_neg, uint64_t *image) {
  if (v->type_ == 0x0A) { *is_neg = 0; *image = v->content_.asUint32; return 1; }
  if (v->type_ == 0x0C) { *is_neg = v->content_.asInt32 < 0; *image = u_of_i(v->content_.asInt32); return 1; }
  if (v->type_ == 0x1A && v->content_.asSlotId == g_ext_id) { *is_neg = 0; *image = g_ext.asUint64; return 1; }
  if (v->type_ == 0x1C && v->content_.asSlotId == g_ext_id) { *is_neg = g_ext.asInt64 < 0; *image = u_of_i(g_ext.asInt64); return 1; }
  return 0;
}
void h_rt_uint(void) {
  struct MsgPackSerializer_LogWriter s;
  ser_init(&s, 0);
  uint64_t x = in_u64();
  (void)MsgPackSerializer_LogWriter__visit__ulong(&s, x);
  struct VariantData v;
  unsigned err = rt_parse(&v);
  int neg = 0; uint64_t image = 0;
  int isint = stored_int(&v, &neg, &image);
  COVER(x < 0x80); COVER(x > 0xFFFFFFFFull); COVER(x == 0xFFFFFFFFFFFFFFFFull); COVER(g_out_len == 3);
  CHECK(err == E_OK && g_pos == g_in_len, "round trip: the deserializer accepts exactly the bytes the serializer produced");
#ifdef CANARY_RT_U
  CHECK(isint && !neg && image == x + (x == 0x10000), "round trip: unsigned integer comes back with the same value");
#else
  CHECK(isint && !neg && image == x, "round trip: unsigned integer comes back with the same value");
#endif
}
void h_rt_int(void) {
  struct MsgPackSerializer_LogWriter s;
  ser_init(&s, 0);
  int64_t x = i_of_u(in_u64());
  (void)MsgPackSerializer_LogWriter__visit__long(&s, x);
  struct VariantData v;
  unsigned err = rt_parse(&v);
  int neg = 0; uint64_t image = 0;
  int isint = stored_int(&v, &neg, &image);
  COVER(x < -0x80000000ll); COVER(x == -1); COVER(x == -33); COVER(x > 0x100000000ll); COVER(x == 0);
  CHECK(err == E_OK && g_pos == g_in_len, "round trip: the deserializer accepts exactly the bytes the serializer produced");
#ifdef CANARY_RT_I
  CHECK(isint && neg == (x < 0) && image == u_of_i(x) && x != -129, "round trip: signed integer comes back with the same value and sign");
#else
  CHECK(isint && neg == (x < 0) && image == u_of_i(x), "round trip: signed integer comes back with the same value and sign");
#endif
}
void h_rt_float(void) {
  struct MsgPackSerializer_LogWriter s;
  ser_init(&s, 0);
  uint32_t bits = in_u32();
  (void)MsgPackSerializer_LogWriter__visit_float(&s, f32_of_bits(bits));
  struct VariantData v;
  unsigned err = rt_parse(&v);
  int neg = 0; uint64_t image = 0; int64_t iv = 0;
  int isint = stored_int(&v, &neg, &image);
  int integral = spec_f32_is_int64(bits, &iv);
  COVER(integral && iv < 0); COVER(!integral && (bits & 0x7FFFFFFFu) > 0x7F800000u); COVER(integral && iv == 0 && bits != 0); COVER(!integral && (bits & 0x7F800000u) == 0);
  CHECK(err == E_OK && g_pos == g_in_len, "round trip: the deserializer accepts exactly the bytes the serializer produced");
  if (integral) CHECK(isint && image == u_of_i(iv) && neg == (iv < 0), "round trip: an integral float comes back as the integer of the same value");
#ifdef CANARY_RT_F
  else CHECK(v.type_ == 0x0E && spec_f32_bits(v.content_.asFloat) == (bits ^ (bits == 0x3FC00000u)), "round trip: any other float32 comes back bit-exact (NaN payloads, infinities, subnormals included)");
#else
  else CHECK(v.type_ == 0x0E && spec_f32_bits(v.content_.asFloat) == bits, "round trip: any other float32 comes back bit-exact (NaN payloads, infinities, subnormals included)");
#endif
}
void h_rt_double(void) {
  struct MsgPackSerializer_LogWriter s;
  ser_init(&s, 0);
  uint64_t bits = in_u64();
  (void)MsgPackSerializer_LogWriter__visit_double(&s, f64_of_bits(bits));
  struct VariantData v;
  unsigned err = rt_parse(&v);
  int neg = 0; uint64_t image = 0; int64_t iv = 0; uint32_t b32 = 0;
  int isint = stored_int(&v, &neg, &image);
  int integral = spec_f64_is_int64(bits, &iv);
  int f32exact = spec_f64_is_f32(bits, &b32);
  COVER(integral && f32exact); COVER(integral && !f32exact); COVER(!integral && f32exact); COVER(!integral && !f32exact);
  COVER((bits & 0x7FF0000000000000ull) == 0x7FF0000000000000ull && (bits & 0xFFFFFFFFFFFFFull) != 0);
  CHECK(err == E_OK && g_pos == g_in_len, "round trip: the deserializer accepts exactly the bytes the serializer produced");
  /* the value that comes back, whatever representation: integer, float32 or float64 */
  if (isint) CHECK(integral && image == u_of_i(iv) && neg == (iv < 0), "round trip: a double that comes back as an integer had exactly that integral value");
  else if (v.type_ == 0x0E) CHECK(f32exact && spec_f32_bits(v.content_.asFloat) == b32, "round trip: a double that comes back as a float32 had exactly that value");
#ifdef CANARY_RT_D
  else CHECK(v.type_ == 0x1E && v.content_.asSlotId == g_ext_id && spec_f64_bits(g_ext.asDouble) == bits && bits != 0x3FB999999999999Aull, "round trip: any other double comes back bit-exact");
#else
  else CHECK(v.type_ == 0x1E && v.content_.asSlotId == g_ext_id && spec_f64_bits(g_ext.asDouble) == bits, "round trip: any other double comes back bit-exact");
#endif
}
#endif /* U_RT */

/* ================================================================================================================ */
/* unit mp_binext: Converter<MsgPackBinary>::toJson / Converter<MsgPackExtension>::toJson build the raw value that    */
/* serializeMsgPack later emits verbatim: header == MessagePack bin / ext family for every size, payload copied      */
/* callees replaced: VariantData::clear, ResourceManager::createString (may fail) / saveString                        */
/* ================================================================================================================ */
#ifdef U_BIN
/* bin 8/16/32: 0xc4 n | 0xc5 nn | 0xc6 nnnn */
static unsigned spec_mp_binhdr(uint64_t n, unsigned char o[5]) {
  if (n < 0x100u) { o[0] = 0xC4; o[1] = spec_byte(n, 0); return 2; }
  if (n < 0x10000u) { o[0] = 0xC5; spec_be16(n, o + 1); return 3; }
  o[0] = 0xC6; spec_be32(n, o + 1); return 5;
}
/* ext: fixext 1/2/4/8/16 0xd4..0xd8 type | ext 8 0xc7 n type | ext 16 0xc8 nn type | ext 32 0xc9 nnnn type */
static unsigned spec_mp_exthdr(uint64_t n, unsigned char type, unsigned char o[6]) {
  if (n == 1 || n == 2 || n == 4 || n == 8 || n == 16) {
    o[0] = n == 1 ? 0xD4 : n == 2 ? 0xD5 : n == 4 ? 0xD6 : n == 8 ? 0xD7 : 0xD8; o[1] = type; return 2;
  }
  if (n < 0x100u) { o[0] = 0xC7; o[1] = spec_byte(n, 0); o[2] = type; return 3; }
  if (n < 0x10000u) { o[0] = 0xC8; spec_be16(n, o + 1); o[3] = type; return 4; }
  o[0] = 0xC9; spec_be32(n, o + 1); o[5] = type; return 6;
}
#define BIN_MAX 70000
static struct ResourceManager g_rm;
static struct VariantData g_v;
static struct StringNode *g_node_big; /* the block createString hands out: a heap object of symbolic size */
static int g_clear_calls, g_create_calls, g_save_calls, g_create_fail, g_order_ok;
static unsigned long g_create_n;
void VariantData__clear__ResourceManager_p(struct VariantData *self, struct ResourceManager *resources) {
  if (self != &g_v || resources != &g_rm || g_create_calls) g_order_ok = 0;
  g_clear_calls++;
  self->type_ = 0;
}
struct StringNode *ResourceManager__createString(struct ResourceManager *self, unsigned long length) {
  if (self != &g_rm || g_clear_calls != 1) g_order_ok = 0;
  g_create_calls++; g_create_n = length;
  if (g_create_fail || length > BIN_MAX + 8) return (struct StringNode *)0;   /* StringNode::create may refuse any length */
  g_node_big = (struct StringNode *)malloc(offsetof(struct StringNode, data) + length + 1);  /* sizeForLength(length) */
  __CPROVER_assume(g_node_big != 0);
  g_node_big->references = 1;
  return g_node_big;
}
void ResourceManager__saveString(struct ResourceManager *self, struct StringNode *node) {
  if (self != &g_rm || node != g_node_big) g_order_ok = 0;
  g_save_calls++;
}
static void h_binext(int isExt) {
  uint64_t n = in_u64();
  __CPROVER_assume(n <= BIN_MAX);
  unsigned char *src = (unsigned char *)malloc(n + 1);   /* arbitrary content, symbolic size */
  __CPROVER_assume(src != 0);
  uint8_t mode = in_u8();                      /* 0: unbound destination, 1: null source, else: regular */
  unsigned char type = in_u8();
  g_create_fail = in_u8() & 1;
  uint32_t j = in_u32();                       /* the payload position that is compared */
  g_clear_calls = 0; g_create_calls = 0; g_save_calls = 0; g_order_ok = 1; g_node_big = 0;
  memset(&g_v, 0, sizeof g_v);
  g_v.type_ = 0x06; g_v.content_.asBoolean = 1; /* something to clear */
  struct JsonVariant dst; dst.data_ = mode == 0 ? (struct VariantData *)0 : &g_v; dst.resources_ = &g_rm;
  unsigned char want[6];
  unsigned h;
  if (isExt) {
    struct MsgPackExtension e; e.data_ = mode == 1 ? (void *)0 : (void *)src; e.size_ = n; e.type_ = (signed char)((int)(type ^ 0x80) - 0x80);
    Converter_MsgPackExtension_void__toJson(e, dst);
    h = spec_mp_exthdr(n, type, want);
  } else {
    struct MsgPackBinary b; b.data_ = mode == 1 ? (void *)0 : (void *)src; b.size_ = n;
    Converter_MsgPackBinary_void__toJson(b, dst);
    h = spec_mp_binhdr(n, want);
  }
  if (mode == 0) { CHECK(g_clear_calls == 0 && g_create_calls == 0 && g_v.type_ == 0x06, "unbound destination: nothing happens"); return; }
  CHECK(g_clear_calls == 1 && g_order_ok, "the destination is cleared first");
  if (mode == 1) { CHECK(g_create_calls == 0 && g_v.type_ == 0, "null source: the destination is null"); return; }
  CHECK(g_create_calls == 1 && g_create_n == h + n, "one block of exactly header + payload bytes");
  if (g_create_fail || g_create_n > BIN_MAX + 8) { CHECK(g_v.type_ == 0 && g_save_calls == 0, "no memory: the destination stays null"); return; }
  const unsigned char *out = (const unsigned char *)g_node_big + offsetof(struct StringNode, data);
#ifdef CANARY_BIN
  CHECK(EQ9(out, want, h) && n != 256, "bin/ext made through the API: header == MessagePack bin/ext family for this size and type");
#else
  CHECK(EQ9(out, want, h), "bin/ext made through the API: header == MessagePack bin/ext family for this size and type");
#endif
  if (j < n) CHECK(out[h + j] == src[j], "payload copied verbatim behind the header");
  CHECK(g_save_calls == 1 && g_v.type_ == 0x03 && g_v.content_.asOwnedString == (void *)g_node_big, "stored as a raw value (emitted verbatim by serializeMsgPack)");
}
void h_bin_tojson(void) { h_binext(0); COVER(g_create_calls == 0 && g_clear_calls == 1); COVER(g_save_calls == 1 && g_create_n == 65536 + 5); COVER(g_save_calls == 1 && g_create_n == 255 + 2); COVER(g_save_calls == 1 && g_create_n == 256 + 3); }
void h_ext_tojson(void) { h_binext(1); COVER(g_save_calls == 1 && g_create_n == 1 + 2); COVER(g_save_calls == 1 && g_create_n == 16 + 2); COVER(g_save_calls == 1 && g_create_n == 3 + 3);
  COVER(g_save_calls == 1 && g_create_n == 0 + 3); COVER(g_save_calls == 1 && g_create_n == 255 + 3); COVER(g_save_calls == 1 && g_create_n == 256 + 4); COVER(g_save_calls == 1 && g_create_n == 65536 + 6); }
#endif /* U_BIN */
