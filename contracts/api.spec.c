/* The public API WRAPPER layer ("api" family): VariantRefBase<TDerived> (JsonVariant, ElementProxy, MemberProxy), Converter<T>,
 * JsonArray / JsonObject, ArrayData::addValue<T> -- the thin layer between the user-facing types and the VariantData /
 * CollectionData core that the families collections, numbers, strings and facade have under contract.
 *
 * What the properties say about this layer (the oracles below are written from these sentences, never from the code):
 *   C06 "read-only operations never call the allocator"      C04 "read-only operations change nothing"
 *        -> a read-only entry point (as<T>, is<T>, isNull, size, nesting ...) reaches its value through the read-only lookups
 *           (getMember / getElement) only, never through getOrAddMember / getOrAddElement, and calls no mutating core routine.
 *   C05 "the affected operation reports the failure (false ...)"
 *        -> set() returns false when an allocation failed in THIS call, whatever overflowed() reported before the call.
 *   C13 "for every stored number v and every integral type T, as<T>() returns v truncated ... for a floating T the nearest
 *        representable value; is<T>() holds exactly when ..."
 *        -> as<T>() / is<T>() hand the designated value to VariantData::asIntegral<T> / asFloat<T> / isInteger<T> with EXACTLY T
 *           (those routines carry the arithmetic: units numconvert, numvariant) and return their answer unchanged.
 *   C04 "every observable equals what a plain ordered-tree model predicts"
 *        -> set(x) stores x through the matching core setter with the value unchanged, to<T>() gives an empty T, JsonArray::set
 *           replaces the content, add() appends one element ...
 *   C19/C06/C05 (ArrayData::addValue) "slots released ... are reused", "value is set before the slot is linked; slot released on
 *        failure" -> ledger of slot ids: allocated = linked + given back.
 *
 * Two kinds of units:
 *   modular (U_REF, U_CONST, U_ARRAY, U_OBJECT, U_ADDVALUE; class U): the wrapper runs against STUBS of the core routines; a stub
 *        implements the CONTRACT of its callee (each names the obligation that proves it for the real callee), appends itself to a
 *        ghost CALL LOG (routine, instantiation type T, designated value, resource manager, argument) and answers an arbitrary
 *        value.  The postcondition is over the whole observable effect: the log is EXACTLY the expected sequence (so nothing else
 *        was called), the answer is returned unchanged, and every object the harness owns is bit-for-bit what it was (reads).
 *   e2e (U_E2E; native replay): the same entry points with their REAL callees down to the allocator stub of alloc.h, on small
 *        concrete documents: they show that the contracts compose on the code that runs. */
#include "verif.h"
#include "config.h"
#ifdef U_SETLOOPS
/* ghosts named by the loop contracts of contracts/api.loops.json (spliced into lowered.c, hence declared before it) */
struct ResourceManager;
struct VariantData;
static unsigned long g_N;          /* length of the source (any) */
static unsigned long g_it_pos;     /* position of the abstract source iterator */
static unsigned long g_adds;       /* elements added / members created so far */
static unsigned long g_copies;     /* values copied so far */
static _Bool g_step_failed;        /* an add / member creation / copy reported failure */
static _Bool g_order_ok;           /* every step so far received the element of its own position */
static _Bool g_ovf0;               /* overflowed() when set() was called */
static struct ResourceManager *g_rmp;
static struct VariantData *g_last_member;
#endif
#ifdef VERIF_NATIVE
#include "lowered_types.h"
#else
#include "lowered.c"
#endif

#ifndef ARDUINOJSON_USE_DOUBLE
#define ARDUINOJSON_USE_DOUBLE 1
#endif
#ifndef ARDUINOJSON_USE_LONG_LONG
#define ARDUINOJSON_USE_LONG_LONG 1
#endif

typedef struct VariantData VD;
typedef struct ResourceManager RM;
typedef __typeof__(((struct CollectionData *)0)->head_) slotid_t; /* SlotId of this configuration */
#define NSLOT ((slotid_t)~(slotid_t)0)

/* kinds of value, as VariantContent.hpp documents the tag (the abstract view of a slot: which kind of JSON value it holds) */
#define VT_NULL 0x00
#define VT_RAW 0x03
#define VT_LINKED 0x04
#define VT_OWNED 0x05
#define VT_BOOL 0x06
#define VT_UINT32 0x0A
#define VT_INT32 0x0C
#define VT_FLOAT 0x0E
#define VT_UINT64 0x1A
#define VT_INT64 0x1C
#define VT_DOUBLE 0x1E
#define VT_OBJECT 0x20
#define VT_ARRAY 0x40
static _Bool kind_exists(unsigned t) {
  if (t == VT_NULL || t == VT_RAW || t == VT_LINKED || t == VT_OWNED || t == VT_BOOL || t == VT_UINT32 || t == VT_INT32 || t == VT_FLOAT || t == VT_OBJECT || t == VT_ARRAY) return 1;
#if ARDUINOJSON_USE_LONG_LONG
  if (t == VT_UINT64 || t == VT_INT64) return 1;
#endif
#if ARDUINOJSON_USE_DOUBLE
  if (t == VT_DOUBLE) return 1;
#endif
  return 0;
}
static _Bool kind_is_number(unsigned t) { return t == VT_UINT32 || t == VT_INT32 || t == VT_FLOAT || t == VT_UINT64 || t == VT_INT64 || t == VT_DOUBLE; }
static _Bool kind_is_string(unsigned t) { return t == VT_LINKED || t == VT_OWNED; }

static uint64_t vd_bits(const VD *v) { uint64_t b = 0; memcpy(&b, &v->content_, sizeof v->content_ < 8 ? sizeof v->content_ : 8); return b; }
static _Bool vd_same(const VD *a, const VD *b) { return a->type_ == b->type_ && a->next_ == b->next_ && vd_bits(a) == vd_bits(b); }
static void vd_havoc(VD *v) {
  uint64_t b = in_u64();
  memcpy(&v->content_, &b, sizeof v->content_ < 8 ? sizeof v->content_ : 8);
  v->type_ = in_u8();
  v->next_ = (slotid_t)in_u32();
  __CPROVER_assume(kind_exists(v->type_));
}
static uint32_t f32_bits(float f) { uint32_t b; memcpy(&b, &f, 4); return b; }
static uint64_t f64_bits(double f) { uint64_t b; memcpy(&b, &f, 8); return b; }

/* =============================================================================================================================
 * ghost call log shared by the modular units */
#if defined(U_REF) || defined(U_CONST) || defined(U_ARRAY) || defined(U_OBJECT) || defined(U_STRKIND) || defined(U_DOC)
enum { K_NONE, K_asIntegral, K_isInteger, K_asFloat, K_asBoolean, K_asString, K_size, K_nesting, K_getElement, K_getMember,
       K_clear, K_setInteger, K_setFloat, K_setBoolean, K_setString, K_setRawString, K_copyVariant, K_arraySet, K_objectSet,
       K_addElement, K_addValue, K_getOrAddElement, K_getOrAddMember, K_removeElement, K_removeMember, K_collClear, K_collSize,
       K_collNesting, K_removeOne, K_removePair, K_arrayAddElement, K_arrayRemoveElement, K_objRemoveMember, K_iterate, K_docClear };
/* instantiation type: the T of asIntegral<T> / setInteger<T> ..., the adapter of setString / the lookups, the T of addValue<T> */
enum { TY_none, TY_signedchar, TY_uchar, TY_short, TY_ushort, TY_int, TY_uint, TY_long, TY_ulong, TY_llong, TY_ullong, TY_float, TY_double, TY_bool,
       TY_static /* StaticStringAdapter: const char* (kept by address) */, TY_zt /* ZeroTerminatedRamString: char* (copied) */,
       TY_jsonstring /* JsonStringAdapter */, TY_raw, TY_cstr, TY_cstr_copied, TY_variantconst, TY_variant, TY_arrayconst, TY_objectconst, TY_nullptr };
typedef struct { unsigned k, ty; const void *self; const void *res; uint64_t a; const void *p; uint64_t b; } Call;
#define LOGN 8
static Call g_log[LOGN];
static unsigned g_n;          /* calls made to the core so far */
static uint64_t g_ret;        /* the answer of the last value-returning stub (bit pattern) */
static const void *g_ret_p;   /* ... or the pointer it answered */
static _Bool g_fail_now;      /* a core routine met an allocation failure during the call under test (it raised overflowed) */
static void log_call(unsigned k, unsigned ty, const void *self, const void *res, uint64_t a, const void *p, uint64_t b) {
  if (g_n < LOGN) { g_log[g_n].k = k; g_log[g_n].ty = ty; g_log[g_n].self = self; g_log[g_n].res = res; g_log[g_n].a = a; g_log[g_n].p = p; g_log[g_n].b = b; }
  g_n++;
}
static _Bool log_is(unsigned i, unsigned k, unsigned ty, const void *self, const void *res, uint64_t a, const void *p, uint64_t b) {
  return i < g_n && i < LOGN && g_log[i].k == k && g_log[i].ty == ty && g_log[i].self == self && g_log[i].res == res && g_log[i].a == a && g_log[i].p == p && g_log[i].b == b;
}
static void log_reset(void) {
  g_n = 0; g_ret = 0; g_ret_p = 0; g_fail_now = 0;
  for (unsigned i = 0; i < LOGN; i++) { g_log[i].k = K_NONE; g_log[i].ty = TY_none; g_log[i].self = 0; g_log[i].res = 0; g_log[i].a = 0; g_log[i].p = 0; g_log[i].b = 0; }
}
/* an allocation failure inside a core routine: every such routine raises overflowed() of the manager it was given
 * [ResourceManager::allocVariant / allocExtension: coll_resmgr/rm_alloc; saveString: rm_strings/rm_string_entry_points] */
static void core_alloc_failure(RM *res) { if (res) res->overflowed_ = 1; g_fail_now = 1; }
#endif

/* =============================================================================================================================
 * stubs = contracts of the VariantData core (modular units U_REF, U_CONST) */
#if defined(U_REF) || defined(U_CONST)
/* asIntegral<T> / isInteger<T> / asFloat<T> / asBoolean [proved: numvariant/as_is_<T>_per_kind, asFloat_of_*, asBoolean_per_kind, over
 * numconvert/conv_*]: read-only; any answer of type T */
#define STUB_AS_INTEGRAL(n, T, TY) \
  T VariantData__asIntegral_##n(VD *self, RM *resources) { T v = (T)in_u64(); log_call(K_asIntegral, TY, self, resources, 0, 0, 0); g_ret = (uint64_t)v; return v; } \
  _Bool VariantData__isInteger_##n(VD *self, RM *resources) { _Bool v = in_bool(); log_call(K_isInteger, TY, self, resources, 0, 0, 0); g_ret = v; return v; }
STUB_AS_INTEGRAL(signedchar, signed char, TY_signedchar)
STUB_AS_INTEGRAL(uchar, unsigned char, TY_uchar)
STUB_AS_INTEGRAL(short, short, TY_short)
STUB_AS_INTEGRAL(ushort, unsigned short, TY_ushort)
STUB_AS_INTEGRAL(int, int, TY_int)
STUB_AS_INTEGRAL(uint, unsigned int, TY_uint)
STUB_AS_INTEGRAL(long, long, TY_long)
STUB_AS_INTEGRAL(ulong, unsigned long, TY_ulong)
STUB_AS_INTEGRAL(llong, long long, TY_llong)
STUB_AS_INTEGRAL(ullong, unsigned long long, TY_ullong)
float VariantData__asFloat_float(VD *self, RM *resources) { float v = in_f32(); log_call(K_asFloat, TY_float, self, resources, 0, 0, 0); g_ret = f32_bits(v); return v; }
double VariantData__asFloat_double(VD *self, RM *resources) { double v = in_f64(); log_call(K_asFloat, TY_double, self, resources, 0, 0, 0); g_ret = f64_bits(v); return v; }
_Bool VariantData__asBoolean(VD *self, RM *resources) { _Bool v = in_bool(); log_call(K_asBoolean, TY_none, self, resources, 0, 0, 0); g_ret = v; return v; }
/* asString [proved: var_setstring_e2e/setstring_jsonstring_*, var_setstring_e2e_cstr/setstring_cstr_copied read the value back through
 * it; numstrings/*_string_pointer]: read-only; the string the value holds (any pointer/size/ownership), a null string otherwise */
static struct JsonString g_ret_str;
struct JsonString VariantData__asString(VD *self) {
  struct JsonString s;
  s.data_ = (char *)(uintptr_t)in_u64(); s.size_ = in_u64(); s.ownership_ = in_u8() & 1;
  log_call(K_asString, TY_none, self, 0, 0, 0, 0);
  g_ret_str = s;
  return s;
}
/* size / nesting of a value [proved: coll_dispatch/dispatch over coll_loops/size_anylen, coll_core/nesting_le4]: read-only */
unsigned long VariantData__size__VariantData_p_ResourceManager_p(VD *var, RM *resources) { unsigned long v = in_u64(); log_call(K_size, TY_none, var, resources, 0, 0, 0); if (!var) v = 0; g_ret = v; return v; }
unsigned long VariantData__nesting__VariantData_p_ResourceManager_p(VD *var, RM *resources) { unsigned long v = in_u64(); log_call(K_nesting, TY_none, var, resources, 0, 0, 0); if (!var) v = 0; g_ret = v; return v; }
#endif

/* =============================================================================================================================
 * units api_ref_<kind> (modular, class U): every entry point of VariantRefBase<TDerived> for one reference type.
 *   REF_KIND 0 JsonVariant   1 doc["k"]   2 obj["k"]   3 doc[i]   4 arr[i]   5 doc["k1"]["k2"]
 * A reference designates its value through a chain of 0..2 LOOKUP steps from a base value (the document root / the array or
 * object the proxy was made from).  The lookup stubs answer from a script chosen by the harness (null = no such member):
 *   read-only lookups  VariantData::getMember / getElement (static forms) [proved: coll_dispatch/dispatch over coll_object/
 *        getMember_le2, coll_array/getElement_le4, coll_loops/array_at_anylen]: write nothing, request nothing;
 *   creating lookups   VariantData::getOrAddMember / getOrAddElement [proved: coll_dispatch/dispatch over coll_object/
 *        getOrAddMember_le2, addMember_adapted, coll_array/getOrAddElement_le2]: may turn a null value into a container, may
 *        allocate slots; answer null when an allocation failed (overflowed raised) or when the container cannot have such a
 *        member (base of another kind, null key) -- then nothing is reported. */
#ifdef U_REF
#ifndef REF_KIND
#define REF_KIND 0
#endif
#if REF_KIND == 1 || REF_KIND == 3 || REF_KIND == 5
#define REF_USES_DOC 1
static struct JsonDocument g_doc;   /* base of the document proxies */
#define G_ROOT g_doc.data_
#define G_DOC_RM g_doc.resources_
#else
#define REF_USES_DOC 0
static VD g_no_root;                /* (this reference type has no document: placeholders that nothing designates) */
static RM g_no_doc_rm;
#define G_ROOT g_no_root
#define G_DOC_RM g_no_doc_rm
#endif
static RM g_rm;                     /* manager of the other kinds */
static VD g_up, g_A, g_B;           /* base value of obj[..]/arr[..]; the designated value; the intermediate value of a nested proxy */
static char g_key1[2] = {'k', 0}, g_key2[2] = {'m', 0};
static RM *g_R;                     /* the manager the reference works on (null: unbound JsonVariant) */
static VD *g_base;                  /* value the first lookup starts from (null: unbound upstream) */
static unsigned g_nlook;            /* lookup steps of this reference type */
static unsigned g_look_k_read, g_look_k_create, g_look_ty; /* which read-only / creating routine a step must use */
static const void *g_look_key[2];   /* key pointer of step i (member proxies) */
static uint64_t g_look_idx[2];      /* index of step i (element proxies) */
static VD *g_look_ret[2];           /* scripted answer of step i */
static _Bool g_look_ovf[2];         /* a null answer of a CREATING step i is an allocation failure (else a refusal) */
static unsigned g_look_i;
static VD *lookup_answer(VD *var, _Bool creating, RM *res) {
  unsigned i = g_look_i++;
  if (!var) return 0; /* nothing can be found in (or added to) an unbound value */
  VD *r = i < 2 ? g_look_ret[i] : 0;
  if (creating && !r && i < 2 && g_look_ovf[i]) core_alloc_failure(res);
  return r;
}
VD *VariantData__getMember_StaticStringAdapter__VariantData_p_StaticStringAdapter_ResourceManager_p(VD *var, struct StaticStringAdapter key, RM *resources) {
  log_call(K_getMember, TY_static, var, resources, 0, key._b_ZeroTerminatedRamString.str_, 0);
  return lookup_answer(var, 0, resources);
}
VD *VariantData__getElement__VariantData_p_ulong_ResourceManager_p(VD *var, unsigned long index, RM *resources) {
  log_call(K_getElement, TY_none, var, resources, index, 0, 0);
  return lookup_answer(var, 0, resources);
}
#if REF_KIND != 6
VD *VariantData__getOrAddMember_StaticStringAdapter(VD *self, struct StaticStringAdapter key, RM *resources) {
  log_call(K_getOrAddMember, TY_static, self, resources, 0, key._b_ZeroTerminatedRamString.str_, 0);
  return lookup_answer(self, 1, resources);
}
VD *VariantData__getOrAddElement(VD *self, unsigned long index, RM *resources) {
  log_call(K_getOrAddElement, TY_none, self, resources, index, 0, 0);
  return lookup_answer(self, 1, resources);
}
#endif

#if REF_KIND != 6
/* ---- mutating core routines --------------------------------------------------------------------------------------------------- */
/* VariantData::clear(resources) [proved: coll_variant/vclear]: releases what the value owns (string reference, extension slot,
 * children), leaves it null; next_ untouched; never allocates */
void VariantData__clear__ResourceManager_p(VD *self, RM *resources) {
  log_call(K_clear, TY_none, self, resources, 0, 0, 0);
  self->type_ = VT_NULL;
}
/* setInteger<T> / setFloat<T> / setBoolean [proved: coll_variant/vset_number, vset_other; coll_setint_noll]: require a cleared
 * value (otherwise what it owned leaks: CHECKed here, at the call site of the wrapper); store v; a 64-bit value that needs an
 * extension slot may fail: false, value stays null, overflowed raised */
#define STUB_SET_INTEGER(n, T, TY) \
  _Bool VariantData__setInteger_##n(VD *self, T value, RM *resources) { \
    CHECK(self->type_ == VT_NULL, "C06: a core setter is applied to a CLEARED value (what the value owned before is released first)"); \
    log_call(K_setInteger, TY, self, resources, (uint64_t)value, 0, 0); \
    if (sizeof(T) == 8 && in_bool()) { core_alloc_failure(resources); g_ret = 0; return 0; } \
    self->type_ = VT_INT32; g_ret = 1; return 1; }
STUB_SET_INTEGER(signedchar, signed char, TY_signedchar)
STUB_SET_INTEGER(uchar, unsigned char, TY_uchar)
STUB_SET_INTEGER(short, short, TY_short)
STUB_SET_INTEGER(ushort, unsigned short, TY_ushort)
STUB_SET_INTEGER(int, int, TY_int)
STUB_SET_INTEGER(uint, unsigned int, TY_uint)
STUB_SET_INTEGER(long, long, TY_long)
STUB_SET_INTEGER(ulong, unsigned long, TY_ulong)
STUB_SET_INTEGER(llong, long long, TY_llong)
STUB_SET_INTEGER(ullong, unsigned long long, TY_ullong)
_Bool VariantData__setFloat_float(VD *self, float value, RM *resources) {
  CHECK(self->type_ == VT_NULL, "C06: a core setter is applied to a CLEARED value (what the value owned before is released first)");
  log_call(K_setFloat, TY_float, self, resources, f32_bits(value), 0, 0);
  self->type_ = VT_FLOAT; g_ret = 1; return 1;
}
_Bool VariantData__setFloat_double(VD *self, double value, RM *resources) {
  CHECK(self->type_ == VT_NULL, "C06: a core setter is applied to a CLEARED value (what the value owned before is released first)");
  log_call(K_setFloat, TY_double, self, resources, f64_bits(value), 0, 0);
  if (in_bool()) { core_alloc_failure(resources); g_ret = 0; return 0; }
  self->type_ = VT_FLOAT; g_ret = 1; return 1;
}
void VariantData__setBoolean(VD *self, _Bool value) {
  CHECK(self->type_ == VT_NULL, "C06: a core setter is applied to a CLEARED value (what the value owned before is released first)");
  log_call(K_setBoolean, TY_bool, self, 0, value, 0, 0);
  self->type_ = VT_BOOL; self->content_.asBoolean = value;
}
/* setString<adapter>(value, resources) [proved: var_setstring/setstring_linked, setstring_copied for the same template text;
 * var_setstring_e2e, var_setstring_e2e_cstr; saveString: rm_strings]: requires a cleared value; a null string stores nothing
 * (false, nothing reported); a string kept by address cannot fail; a copied string may fail: false, value stays null, overflowed */
static _Bool setstring_contract(VD *self, unsigned ty, const char *str, uint64_t size, _Bool linked, RM *resources) {
  CHECK(self->type_ == VT_NULL, "C06: a core setter is applied to a CLEARED value (what the value owned before is released first)");
  log_call(K_setString, ty, self, resources, size, str, linked);
  if (!str) { g_ret = 0; return 0; }
  if (!linked && in_bool()) { core_alloc_failure(resources); g_ret = 0; return 0; }
  self->type_ = linked ? VT_LINKED : VT_OWNED; g_ret = 1; return 1;
}
_Bool VariantData__setString_StaticStringAdapter__StaticStringAdapter_ResourceManager_p(VD *self, struct StaticStringAdapter value, RM *resources) {
  return setstring_contract(self, TY_static, value._b_ZeroTerminatedRamString.str_, 0, 1, resources);
}
_Bool VariantData__setString_ZeroTerminatedRamString__ZeroTerminatedRamString_ResourceManager_p(VD *self, struct ZeroTerminatedRamString value, RM *resources) {
  return setstring_contract(self, TY_zt, value.str_, 0, 0, resources);
}
_Bool VariantData__setString_JsonStringAdapter__JsonStringAdapter_ResourceManager_p(VD *self, struct JsonStringAdapter value, RM *resources) {
  return setstring_contract(self, TY_jsonstring, value._b_SizedRamString.str_, value._b_SizedRamString.size_, value.linked_, resources);
}
/* setRawString<const char*>(value, resources) [proved: coll_variant/vset_other]: requires a cleared value; copies the bytes; may
 * fail: value stays null, overflowed raised */
void VariantData__setRawString_constchar_p__SerializedValue_constchar_p_ResourceManager_p(VD *self, struct SerializedValue_constchar_p value, RM *resources) {
  CHECK(self->type_ == VT_NULL, "C06: a core setter is applied to a CLEARED value (what the value owned before is released first)");
  log_call(K_setRawString, TY_raw, self, resources, value.size_, value.data_, 0);
  if (!value.data_) { g_ret = 0; return; }
  if (in_bool()) { core_alloc_failure(resources); g_ret = 0; return; }
  self->type_ = VT_RAW; g_ret = 1;
}
/* copyVariant(dst, src) [proved: facade_variant_copy/variant_set_*, facade_deepcopy/deepcopy_leaf, api_e2e/copy_*]: an unbound
 * destination gives false and nothing else; otherwise the destination is replaced by a deep copy built in ITS manager; may
 * fail: false, overflowed raised */
_Bool copyVariant(struct JsonVariant dst, struct JsonVariantConst src) {
  log_call(K_copyVariant, TY_variantconst, dst.data_, dst.resources_, (uint64_t)(uintptr_t)src.resources_, src.data_, 0);
  if (!dst.data_) { g_ret = 0; return 0; }
  if (in_bool()) { dst.data_->type_ = VT_NULL; core_alloc_failure(dst.resources_); g_ret = 0; return 0; }
  dst.data_->type_ = src.data_ ? VT_INT32 : VT_NULL; g_ret = 1; return 1;
}
/* JsonArray::set(JsonArrayConst) / JsonObject::set(JsonObjectConst) [proved: api_array/array_set_*, api_object/object_set_*]:
 * an unbound destination (or, for objects, source) gives false and nothing else; otherwise the destination's content is
 * replaced by copies of the source's elements; false when an allocation failed (overflowed raised) */
_Bool JsonArray__set(struct JsonArray *self, struct JsonArrayConst src) {
  log_call(K_arraySet, TY_arrayconst, self->data_, self->resources_, (uint64_t)(uintptr_t)src.resources_, src.data_, 0);
  if (!self->data_) { g_ret = 0; return 0; }
  if (in_bool()) { core_alloc_failure(self->resources_); g_ret = 0; return 0; }
  g_ret = 1; return 1;
}
_Bool JsonObject__set(struct JsonObject *self, struct JsonObjectConst src) {
  log_call(K_objectSet, TY_objectconst, self->data_, self->resources_, (uint64_t)(uintptr_t)src.resources_, src.data_, 0);
  if (!self->data_ || !src.data_) { g_ret = 0; return 0; }
  if (in_bool()) { core_alloc_failure(self->resources_); g_ret = 0; return 0; }
  g_ret = 1; return 1;
}
/* VariantData::addElement(var, resources) [proved: coll_dispatch/dispatch over coll_array/addElement]: null for an unbound value
 * or one that is neither null nor an array; a null value becomes an array; null + overflowed when the slot cannot be allocated */
static VD g_new_element;
VD *VariantData__addElement__VariantData_p_ResourceManager_p(VD *var, RM *resources) {
  log_call(K_addElement, TY_none, var, resources, 0, 0, 0);
  g_ret_p = 0;
  if (!var) return 0;
  if (var->type_ != VT_NULL && var->type_ != VT_ARRAY) return 0;
  var->type_ = VT_ARRAY;
  if (in_bool()) { core_alloc_failure(resources); return 0; }
  g_ret_p = &g_new_element;
  return &g_new_element;
}
/* ArrayData::addValue<T>(value, resources) [proved: api_addvalue/addvalue_<T>; coll_array/addValue]: appends one element holding
 * the value, or leaves the array as it was and answers false (allocation failure: overflowed raised) */
static _Bool addvalue_contract(struct ArrayData *self, unsigned ty, const void *valuep, uint64_t a, const void *p, RM *resources) {
  log_call(K_addValue, ty, self, resources, a, p, 0);
  (void)valuep;
  if (in_bool()) { core_alloc_failure(resources); g_ret = 0; return 0; }
  g_ret = 1; return 1;
}
_Bool ArrayData__addValue_constint_r__int_r_ResourceManager_p(struct ArrayData *self, int *value, RM *resources) { return addvalue_contract(self, TY_int, value, (uint64_t)*value, 0, resources); }
_Bool ArrayData__addValue_constchar_p_r__char_p_r_ResourceManager_p(struct ArrayData *self, char **value, RM *resources) { return addvalue_contract(self, TY_cstr, value, 0, *value, resources); }
_Bool ArrayData__addValue_constJsonVariantConst_r__JsonVariantConst_r_ResourceManager_p(struct ArrayData *self, struct JsonVariantConst *value, RM *resources) {
  return addvalue_contract(self, TY_variantconst, value, (uint64_t)(uintptr_t)value->resources_, value->data_, resources);
}
/* removeElement / removeMember (static forms) [proved: coll_dispatch/dispatch over coll_array/removeElement_le4, coll_object/
 * removeMember_le2, coll_remove/*]: never allocate; an unbound value is left alone */
void VariantData__removeElement__VariantData_p_ulong_ResourceManager_p(VD *var, unsigned long index, RM *resources) { log_call(K_removeElement, TY_none, var, resources, index, 0, 0); }
void VariantData__removeMember_StaticStringAdapter__VariantData_p_StaticStringAdapter_ResourceManager_p(VD *var, struct StaticStringAdapter key, RM *resources) {
  log_call(K_removeMember, TY_static, var, resources, 0, key._b_ZeroTerminatedRamString.str_, 0);
}

#endif /* REF_KIND != 6 */

/* ---- the scene: one reference of the unit's type, its base value, the script of its lookups --------------------------------- */
#if REF_KIND == 0
typedef struct JsonVariant Ref;
#define RB(n) VariantRefBase_JsonVariant__##n
#define RBASE struct VariantRefBase_JsonVariant
#elif REF_KIND == 1
typedef struct MemberProxy_JsonDocument_r_constchar_p Ref;
#define RB(n) VariantRefBase_MemberProxy_JsonDocument_r_constchar_p__##n
#define RBASE struct VariantRefBase_MemberProxy_JsonDocument_r_constchar_p
#elif REF_KIND == 2
typedef struct MemberProxy_JsonObject_constchar_p Ref;
#define RB(n) VariantRefBase_MemberProxy_JsonObject_constchar_p__##n
#define RBASE struct VariantRefBase_MemberProxy_JsonObject_constchar_p
#elif REF_KIND == 3
typedef struct ElementProxy_JsonDocument_r Ref;
#define RB(n) VariantRefBase_ElementProxy_JsonDocument_r__##n
#define RBASE struct VariantRefBase_ElementProxy_JsonDocument_r
#elif REF_KIND == 4
typedef struct ElementProxy_JsonArray Ref;
#define RB(n) VariantRefBase_ElementProxy_JsonArray__##n
#define RBASE struct VariantRefBase_ElementProxy_JsonArray
#elif REF_KIND == 5
typedef struct MemberProxy_MemberProxy_JsonDocument_r_constchar_p_constchar_p Ref;
#define RB(n) VariantRefBase_MemberProxy_MemberProxy_JsonDocument_r_constchar_p_constchar_p__##n
#define RBASE struct VariantRefBase_MemberProxy_MemberProxy_JsonDocument_r_constchar_p_constchar_p
#else /* 6: JsonVariantConst, the read-only reference type (not a VariantRefBase: the same entry points under its own names) */
typedef struct JsonVariantConst Ref;
#define RB(n) JsonVariantConst__##n
#define RBASE struct JsonVariantConst
#endif
#if REF_KIND == 6
#define RB_AS(n) JsonVariantConst__as_##n##_m1
#else
#define RB_AS(n) RB(as_##n)
#endif
#define RB_IS(n) RB(is_##n)
static Ref g_ref;
#define REFP ((RBASE *)&g_ref)
static VD g_up0, g_A0, g_B0, g_root0;
static _Bool g_ovf0;
static void rm_havoc(RM *r) {
  r->allocator_ = (struct Allocator *)(uintptr_t)in_u64();
  r->overflowed_ = in_bool();
  r->stringPool_.strings_ = (struct StringNode *)(uintptr_t)in_u64();
  r->variantPools_.count_ = (__typeof__(r->variantPools_.count_))in_u32();
  r->variantPools_.freeList_ = (__typeof__(r->variantPools_.freeList_))in_u32();
}
static RM g_rm0;
static void scene_setup(void) {
  log_reset();
  g_look_i = 0; g_nlook = 0; g_look_k_read = g_look_k_create = K_NONE; g_look_ty = TY_none;
  for (unsigned i = 0; i < 2; i++) { g_look_key[i] = 0; g_look_idx[i] = 0; g_look_ret[i] = 0; g_look_ovf[i] = 0; }
  vd_havoc(&g_up); vd_havoc(&g_A); vd_havoc(&g_B); vd_havoc(&G_ROOT);
  rm_havoc(&g_rm); rm_havoc(&G_DOC_RM);
#if REF_KIND == 0
  /* JsonVariant: bound to a value and its manager, or unbound (both null), or the unbound result of a failed creation (manager only) */
  g_ref.data_ = in_bool() ? &g_A : (VD *)0;
  g_ref.resources_ = (g_ref.data_ || in_bool()) ? &g_rm : (RM *)0;
  g_R = g_ref.resources_; g_base = g_ref.data_;
#elif REF_KIND == 1
  g_ref.upstream_ = &g_doc; g_ref.key_ = in_bool() ? g_key1 : (char *)0;
  g_R = &g_doc.resources_; g_base = &g_doc.data_;
  g_nlook = 1; g_look_k_read = K_getMember; g_look_k_create = K_getOrAddMember; g_look_ty = TY_static; g_look_key[0] = g_ref.key_;
#elif REF_KIND == 2
  g_ref.upstream_.data_ = in_bool() ? &g_up.content_.asObject : (struct ObjectData *)0; g_ref.upstream_.resources_ = &g_rm; g_ref.key_ = in_bool() ? g_key1 : (char *)0;
  g_R = &g_rm; g_base = g_ref.upstream_.data_ ? &g_up : (VD *)0;
  g_nlook = 1; g_look_k_read = K_getMember; g_look_k_create = K_getOrAddMember; g_look_ty = TY_static; g_look_key[0] = g_ref.key_;
#elif REF_KIND == 3
  g_ref.upstream_ = &g_doc; g_ref.index_ = in_u64();
  g_R = &g_doc.resources_; g_base = &g_doc.data_;
  g_nlook = 1; g_look_k_read = K_getElement; g_look_k_create = K_getOrAddElement; g_look_idx[0] = g_ref.index_;
#elif REF_KIND == 4
  g_ref.upstream_.data_ = in_bool() ? &g_up.content_.asArray : (struct ArrayData *)0; g_ref.upstream_.resources_ = &g_rm; g_ref.index_ = in_u64();
  g_R = &g_rm; g_base = g_ref.upstream_.data_ ? &g_up : (VD *)0;
  g_nlook = 1; g_look_k_read = K_getElement; g_look_k_create = K_getOrAddElement; g_look_idx[0] = g_ref.index_;
#elif REF_KIND == 6
  g_ref.data_ = in_bool() ? &g_A : (VD *)0;
  g_ref.resources_ = (g_ref.data_ || in_bool()) ? &g_rm : (RM *)0;
  g_R = g_ref.resources_; g_base = g_ref.data_;
  g_look_ret[0] = in_bool() ? &g_B : (VD *)0; /* what operator[] finds */
#else
  g_ref.upstream_.upstream_ = &g_doc; g_ref.upstream_.key_ = g_key1; g_ref.key_ = g_key2;
  g_R = &g_doc.resources_; g_base = &g_doc.data_;
  g_nlook = 2; g_look_k_read = K_getMember; g_look_k_create = K_getOrAddMember; g_look_ty = TY_static; g_look_key[0] = g_key1; g_look_key[1] = g_key2;
#endif
  if (g_nlook == 1) { g_look_ret[0] = in_bool() ? &g_A : (VD *)0; g_look_ovf[0] = in_bool(); }
  if (g_nlook == 2) { g_look_ret[0] = in_bool() ? &g_B : (VD *)0; g_look_ovf[0] = in_bool(); g_look_ret[1] = in_bool() ? &g_A : (VD *)0; g_look_ovf[1] = in_bool(); }
  g_up0 = g_up; g_A0 = g_A; g_B0 = g_B; g_root0 = G_ROOT; g_rm0 = *(REF_USES_DOC ? &G_DOC_RM : &g_rm);
  g_ovf0 = g_R ? g_R->overflowed_ : 0;
}
/* the value the reference designates: what the chain of lookups answers */
static VD *designated(void) {
  VD *cur = g_base;
  for (unsigned i = 0; i < 2; i++) if (i < g_nlook) cur = cur ? g_look_ret[i] : (VD *)0;
  return cur;
}
/* the lookups a READ-ONLY entry point makes: every step, with the read-only routine, on the answer of the previous step */
static _Bool read_lookups_ok(void) {
  VD *cur = g_base;
  _Bool ok = 1;
  for (unsigned i = 0; i < 2; i++)
    if (i < g_nlook) {
      if (!log_is(i, g_look_k_read, g_look_ty, cur, g_R, g_look_idx[i], g_look_key[i], 0)) ok = 0;
      cur = cur ? g_look_ret[i] : (VD *)0;
    }
  return ok;
}
/* the lookups a MUTATING entry point makes: creating routine, step by step until one answers null; returns their number */
static unsigned create_steps(void) {
  VD *cur = g_base;
  unsigned n = 0;
  for (unsigned i = 0; i < 2; i++)
    if (i < g_nlook && cur) { n++; cur = g_look_ret[i]; }
  return n;
}
static _Bool create_lookups_ok(void) {
  VD *cur = g_base;
  _Bool ok = 1;
  for (unsigned i = 0; i < 2; i++)
    if (i < g_nlook && cur) {
      if (!log_is(i, g_look_k_create, g_look_ty, cur, g_R, g_look_idx[i], g_look_key[i], 0)) ok = 0;
      cur = g_look_ret[i];
    }
  return ok;
}
static _Bool manager_untouched(void) {
  const RM *r = REF_USES_DOC ? &G_DOC_RM : &g_rm;
  return r->allocator_ == g_rm0.allocator_ && r->overflowed_ == g_rm0.overflowed_ && r->stringPool_.strings_ == g_rm0.stringPool_.strings_ &&
         r->variantPools_.count_ == g_rm0.variantPools_.count_ && r->variantPools_.freeList_ == g_rm0.variantPools_.freeList_;
}
static _Bool values_untouched(void) { return vd_same(&g_up, &g_up0) && vd_same(&g_A, &g_A0) && vd_same(&g_B, &g_B0) && vd_same(&G_ROOT, &g_root0); }

/* ---- reads_arith: as<T>() / is<T>() for every arithmetic T ------------------------------------------------------------------- */
#define CASE_AS_INT(i, n, T, TY) \
  case i: { T r = RB_AS(n)(REFP); got = (uint64_t)r; ek = K_asIntegral; ety = TY; } break; \
  case i + 1: { _Bool r = RB_IS(n)(REFP); got = r; ek = K_isInteger; ety = TY; } break;
void h_ref_reads_arith(void) {
  scene_setup();
  VD *D = designated();
  unsigned sel = in_u8();
  __CPROVER_assume(sel < 26);
  uint64_t got = 0, want_real = 0;
  unsigned ek = K_NONE, ety = TY_none;
  switch (sel) {
    CASE_AS_INT(0, signedchar, signed char, TY_signedchar)
    CASE_AS_INT(2, uchar, unsigned char, TY_uchar)
    CASE_AS_INT(4, short, short, TY_short)
    CASE_AS_INT(6, ushort, unsigned short, TY_ushort)
    CASE_AS_INT(8, int, int, TY_int)
    CASE_AS_INT(10, uint, unsigned int, TY_uint)
    CASE_AS_INT(12, long, long, TY_long)
    CASE_AS_INT(14, ulong, unsigned long, TY_ulong)
    CASE_AS_INT(16, llong, long long, TY_llong)
    CASE_AS_INT(18, ullong, unsigned long long, TY_ullong)
    case 20: { float r = RB_AS(float)(REFP); got = f32_bits(r); ek = K_asFloat; ety = TY_float; } break;
    case 21: { double r = RB_AS(double)(REFP); got = f64_bits(r); ek = K_asFloat; ety = TY_double; } break;
    case 22: { _Bool r = RB_AS(_Bool)(REFP); got = r; ek = K_asBoolean; ety = TY_none; } break;
    /* is<float>() / is<double>(): "the value is a number" (integers included); is<bool>(): "the value is a boolean" -- decided on the kind alone */
    case 23: { _Bool r = RB(is_float)(REFP); got = r; want_real = D && kind_is_number(D->type_); } break;
    case 24: { _Bool r = RB(is_double)(REFP); got = r; want_real = D && kind_is_number(D->type_); } break;
    default: { _Bool r = RB(is__Bool)(REFP); got = r; want_real = D && D->type_ == VT_BOOL; } break;
  }
  COVER(sel == 8 && D != 0); COVER(sel == 20 && D != 0); COVER(sel == 21 && D == 0); COVER(sel == 17 && D != 0 && got == 1); COVER(sel == 23 && D != 0 && got == 1); COVER(sel == 25 && got == 0 && D != 0);
  COVER(sel == 19 && D == 0); COVER(sel == 0 && D != 0 && got == (uint64_t)-5);
  CHECK(read_lookups_ok(), "C06/C04: a read-only entry point reaches its value through the read-only lookups (getMember / getElement) only, never through getOrAddMember / getOrAddElement");
  if (ek != K_NONE && D) {
#ifdef CANARY_REF_READS_ARITH
    CHECK(g_n == g_nlook + 1 && log_is(g_nlook, ek, ety, D, g_R, 0, 0, 0) && sel != 12,
          "C13: as<T>() / is<T>() hands the designated value to VariantData::asIntegral<T> / asFloat<T> / isInteger<T> / asBoolean with exactly T and the reference's manager, once, and calls nothing else");
#else
    CHECK(g_n == g_nlook + 1 && log_is(g_nlook, ek, ety, D, g_R, 0, 0, 0),
          "C13: as<T>() / is<T>() hands the designated value to VariantData::asIntegral<T> / asFloat<T> / isInteger<T> / asBoolean with exactly T and the reference's manager, once, and calls nothing else");
#endif
    CHECK(got == g_ret, "C13: as<T>() / is<T>() returns the core's answer unchanged (no second conversion)");
  } else {
    CHECK(g_n == g_nlook, "C06: apart from the lookups no core routine is called (unbound reference, or a question decided on the kind alone)");
    if (ek != K_NONE) CHECK(got == 0, "C13/C04: an unbound reference (no such member / element) gives T() / false");
    else CHECK(got == want_real, "C04: is<float>() / is<double>() hold exactly for numbers, is<bool>() exactly for booleans; false for an unbound reference");
  }
  CHECK(values_untouched() && manager_untouched() && !g_fail_now, "C04/C06: read-only operations change nothing (designated value, base, other values, the manager's state) and meet no allocation");
}

/* ---- reads_other: the non-arithmetic as<T>() / is<T>(), isNull, isUnbound, size, nesting ------------------------------------- */
void h_ref_reads_other(void) {
  scene_setup();
  VD *D = designated();
  unsigned sel = in_u8();
#if REF_KIND == 6
  __CPROVER_assume(sel < 23 && sel != 3 && sel != 5 && sel != 7 && sel != 11 && sel != 13 && sel != 15); /* the read-only reference gives no mutable handle */
  unsigned long idx = in_u64();
#else
  __CPROVER_assume(sel < 21);
#endif
  _Bool ok = 1, real_only = 1; /* ok: the result is the expected one; real_only: no core routine beyond the lookups is expected */
  unsigned ek = K_NONE;
  unsigned t = D ? D->type_ : 0xFF;
  switch (sel) {
    case 0: { char *r = RB_AS(constchar_p)(REFP); ek = K_asString; ok = D ? r == g_ret_str.data_ : r == 0; } break;
    case 1: { struct JsonString r = RB_AS(JsonString)(REFP); ek = K_asString;
              ok = D ? (r.data_ == g_ret_str.data_ && r.size_ == g_ret_str.size_ && r.ownership_ == g_ret_str.ownership_) : (r.data_ == 0 && r.size_ == 0); } break;
    case 2: { struct JsonVariantConst r = RB_AS(JsonVariantConst)(REFP); ok = r.data_ == D && r.resources_ == g_R; } break;
#if REF_KIND != 6
    case 3: { struct JsonVariant r = RB_AS(JsonVariant)(REFP); ok = r.data_ == D && r.resources_ == g_R; } break;
#endif
    case 4: { struct JsonArrayConst r = RB_AS(JsonArrayConst)(REFP); ok = r.data_ == (t == VT_ARRAY ? &D->content_.asArray : (struct ArrayData *)0) && r.resources_ == g_R; } break;
#if REF_KIND != 6
    case 5: { struct JsonArray r = RB_AS(JsonArray)(REFP); ok = r.data_ == (t == VT_ARRAY ? &D->content_.asArray : (struct ArrayData *)0) && r.resources_ == g_R; } break;
#endif
    case 6: { struct JsonObjectConst r = RB_AS(JsonObjectConst)(REFP); ok = r.data_ == (t == VT_OBJECT ? &D->content_.asObject : (struct ObjectData *)0) && r.resources_ == g_R; } break;
#if REF_KIND != 6
    case 7: { struct JsonObject r = RB_AS(JsonObject)(REFP); ok = r.data_ == (t == VT_OBJECT ? &D->content_.asObject : (struct ObjectData *)0) && r.resources_ == g_R; } break;
#endif
    case 8: ok = RB(is_constchar_p)(REFP) == (D && kind_is_string(t)); break;
    case 9: ok = RB(is_JsonString)(REFP) == (D && kind_is_string(t)); break;
    case 10: ok = RB(is_JsonVariantConst)(REFP) == (D != 0); break;
#if REF_KIND != 6
    case 11: ok = RB(is_JsonVariant)(REFP) == (D != 0); break;
#endif
    case 12: ok = RB(is_JsonArrayConst)(REFP) == (t == VT_ARRAY); break;
#if REF_KIND != 6
    case 13: ok = RB(is_JsonArray)(REFP) == (t == VT_ARRAY); break;
#endif
    case 14: ok = RB(is_JsonObjectConst)(REFP) == (t == VT_OBJECT); break;
#if REF_KIND != 6
    case 15: ok = RB(is_JsonObject)(REFP) == (t == VT_OBJECT); break;
#endif
    case 16: ok = RB(is_void_p)(REFP) == (D == 0 || t == VT_NULL); break;
    case 17: ok = RB(isNull)(REFP) == (D == 0 || t == VT_NULL); break;
    case 18: ok = RB(isUnbound)(REFP) == (D == 0); break;
    case 19: { unsigned long r = RB(size)(REFP); ek = K_size; ok = r == g_ret; } break;
#if REF_KIND == 6
    /* operator[](index) / operator[](key) of the read-only reference: a read-only lookup, the handle of what it found */
    case 21: { struct JsonVariantConst r = RB(op_index_ulong)(REFP, idx); ek = K_getElement; ok = r.data_ == (D ? g_look_ret[0] : (VD *)0) && r.resources_ == g_R; } break;
    case 22: { struct JsonVariantConst r = RB(op_index_constchar)(REFP, g_key1); ek = K_getMember; ok = r.data_ == (D ? g_look_ret[0] : (VD *)0) && r.resources_ == g_R; } break;
#endif
    default: { unsigned long r = RB(nesting)(REFP); ek = K_nesting; ok = r == g_ret; } break;
  }
  (void)real_only;
  COVER(sel == 0 && D != 0); COVER(sel == 1 && D == 0); COVER(sel == 16 && t == VT_NULL); COVER(sel == 19 && D != 0); COVER(sel == 20); COVER(sel == 4 && t == VT_ARRAY); COVER(sel == 6 && t == VT_INT32); COVER(sel == 14 && t == VT_OBJECT);
#if REF_KIND != 6
  COVER(sel == 5 && t == VT_ARRAY); COVER(sel == 7 && t == VT_INT32); COVER(sel == 13 && D == 0); COVER(sel == 15 && t == VT_OBJECT); COVER(sel == 3 && D != 0);
#else
  COVER(sel == 21 && D != 0 && g_look_ret[0] != 0); COVER(sel == 22 && D == 0);
#endif
  CHECK(read_lookups_ok(), "C06/C04: a read-only entry point reaches its value through the read-only lookups (getMember / getElement) only, never through getOrAddMember / getOrAddElement");
  if (ek == K_asString && D) CHECK(g_n == g_nlook + 1 && log_is(g_nlook, K_asString, TY_none, D, 0, 0, 0, 0), "C14: as<const char*>() / as<JsonString>() asks VariantData::asString of the designated value, once, and nothing else");
  else if (ek == K_size || ek == K_nesting) CHECK(g_n == g_nlook + 1 && log_is(g_nlook, ek, TY_none, D, g_R, 0, 0, 0), "C04: size() / nesting() ask the core for the size / depth of the designated value, once, and nothing else");
#if REF_KIND == 6
  else if (ek == K_getElement) CHECK(g_n == 1 && log_is(0, K_getElement, TY_none, D, g_R, idx, 0, 0), "C04/C06: operator[](index) of a read-only reference is one read-only lookup (getElement) with the index unchanged");
  else if (ek == K_getMember) CHECK(g_n == 1 && log_is(0, K_getMember, TY_static, D, g_R, 0, g_key1, 0), "C04/C06: operator[](key) of a read-only reference is one read-only lookup (getMember) with the key unchanged");
#endif
  else CHECK(g_n == g_nlook, "C06: apart from the lookups no core routine is called");
#ifdef CANARY_REF_READS_OTHER
  CHECK(ok && sel != 12, "C04: the answer is the designated value's: same string, same value handle, the array / object only if it is one, null tests by kind; T() / false when unbound");
#else
  CHECK(ok, "C04: the answer is the designated value's: same string, same value handle, the array / object only if it is one, null tests by kind; T() / false when unbound");
#endif
  CHECK(values_untouched() && manager_untouched() && !g_fail_now, "C04/C06: read-only operations change nothing (designated value, base, other values, the manager's state) and meet no allocation");
}

#if REF_KIND != 6
/* ---- set_scalar: set(T) for bool, every integer type, float, double (converters that report through their own result) -------- */
#define CASE_SET_INT(i, n, T, TY) \
  case i: { T v = (T)bits; res = RB(set_##n)(REFP, &v); ek = K_setInteger; ety = TY; ea = (uint64_t)v; } break;
void h_ref_set_scalar(void) {
  scene_setup();
  unsigned steps = create_steps();
  VD *D = designated();
  unsigned sel = in_u8();
  __CPROVER_assume(sel < 13);
  uint64_t bits = in_u64(), ea = 0;
  _Bool res = 0;
  unsigned ek = K_NONE, ety = TY_none;
  switch (sel) {
    CASE_SET_INT(0, signedchar, signed char, TY_signedchar)
    CASE_SET_INT(1, uchar, unsigned char, TY_uchar)
    CASE_SET_INT(2, short, short, TY_short)
    CASE_SET_INT(3, ushort, unsigned short, TY_ushort)
    CASE_SET_INT(4, int, int, TY_int)
    CASE_SET_INT(5, uint, unsigned int, TY_uint)
    CASE_SET_INT(6, long, long, TY_long)
    CASE_SET_INT(7, ulong, unsigned long, TY_ulong)
    CASE_SET_INT(8, llong, long long, TY_llong)
    CASE_SET_INT(9, ullong, unsigned long long, TY_ullong)
    case 10: { float v; uint32_t w = (uint32_t)bits; memcpy(&v, &w, 4); res = RB(set_float)(REFP, &v); ek = K_setFloat; ety = TY_float; ea = w; } break;
    case 11: { double v; memcpy(&v, &bits, 8); res = RB(set_double)(REFP, &v); ek = K_setFloat; ety = TY_double; ea = bits; } break;
    default: { _Bool v = bits & 1; res = RB(set__Bool)(REFP, &v); ek = K_setBoolean; ety = TY_bool; ea = v; } break;
  }
  COVER(sel == 4 && D != 0 && res); COVER(sel == 9 && D != 0 && !res); COVER(sel == 11 && D != 0 && !res && g_ovf0); COVER(sel == 12 && D != 0); COVER(sel == 6 && D == 0);
  COVER(sel == 0 && D != 0 && ea == (uint64_t)-3); COVER(g_nlook == 0 || (D == 0 && g_fail_now));
  CHECK(create_lookups_ok(), "C04: a mutating entry point reaches (or creates) its value through getOrAddMember / getOrAddElement on its base, step by step");
  if (D) {
    CHECK(g_n == steps + 2 && log_is(steps, K_clear, TY_none, D, g_R, 0, 0, 0), "C06/C04: set() first clears the designated value (what it owned is released), once");
#ifdef CANARY_REF_SET_SCALAR
    CHECK(log_is(steps + 1, ek, ety, D, ek == K_setBoolean ? (const void *)0 : (const void *)g_R, ea, 0, 0) && sel != 7,
          "C04/C13: set(v) hands exactly v to the core setter of exactly its type (setInteger<T> / setFloat<T> / setBoolean) on the designated value, once, and calls nothing else");
#else
    CHECK(log_is(steps + 1, ek, ety, D, ek == K_setBoolean ? (const void *)0 : (const void *)g_R, ea, 0, 0),
          "C04/C13: set(v) hands exactly v to the core setter of exactly its type (setInteger<T> / setFloat<T> / setBoolean) on the designated value, once, and calls nothing else");
#endif
    CHECK(res == (ek == K_setBoolean ? 1 : (_Bool)g_ret), "C05: set() returns the core setter's own report: true iff the value was stored, false when its allocation failed -- whatever overflowed() said before");
  } else {
    CHECK(g_n == steps, "an unbound reference (or a value that could not be created) is given to no core setter");
    CHECK(!res, "C05/C04: set() on an unbound reference, or when the member / element could not be created, returns false");
  }
  CHECK(!g_fail_now || !res, "C05: an allocation failure during this set() is reported (false)");
  CHECK(vd_same(&g_B, &g_B0) && vd_same(&g_up, &g_up0) && vd_same(&G_ROOT, &g_root0), "C04: a mutation changes only its target (the wrapper itself writes no other value)");
}

/* ---- set_other: set(x) for strings, serialized(), variants, arrays, objects, nullptr (converters that return void: the report
 *      is derived from overflowed()) ------------------------------------------------------------------------------------------ */
static VD g_src;          /* a value of ANOTHER document used as source of copies */
static RM g_src_rm;
static char g_text[3] = {'h', 'i', 0};
void h_ref_set_other(void) {
  scene_setup();
  vd_havoc(&g_src);
  unsigned steps = create_steps();
  VD *D = designated();
  unsigned sel = in_u8();
  __CPROVER_assume(sel < 12);
  _Bool null_arg = in_bool();  /* null string / unbound source */
  if (sel == 6 || sel == 7) g_src.type_ = VT_ARRAY;   /* an array / object handle designates an array / object */
  if (sel == 8 || sel == 9) g_src.type_ = VT_OBJECT;
  VD src0 = g_src;
  _Bool res = 0, log_ok = 0, stored = 0;
  char *s = null_arg ? (char *)0 : g_text;
  unsigned n_exp = 0; /* expected number of core calls after the lookups */
  switch (sel) {
    case 0: { res = RB(set_constchar)(REFP, s);
              n_exp = D ? 2 : 0; log_ok = !D || (log_is(steps, K_clear, TY_none, D, g_R, 0, 0, 0) && log_is(steps + 1, K_setString, TY_static, D, g_R, 0, s, 1)); } break;
    case 1: { res = RB(set_char)(REFP, s);
              n_exp = D ? 2 : 0; log_ok = !D || (log_is(steps, K_clear, TY_none, D, g_R, 0, 0, 0) && log_is(steps + 1, K_setString, TY_zt, D, g_R, 0, s, 0)); } break;
    case 2: { struct JsonString js; js.data_ = s; js.size_ = in_u64(); js.ownership_ = in_u8() & 1; /* 0 Copied, 1 Linked */
              res = RB(set_JsonString)(REFP, &js);
              n_exp = D ? 2 : 0; log_ok = !D || (log_is(steps, K_clear, TY_none, D, g_R, 0, 0, 0) && log_is(steps + 1, K_setString, TY_jsonstring, D, g_R, js.size_, s, js.ownership_ == 1)); } break;
    case 3: { struct SerializedValue_constchar_p sv; sv.data_ = s; sv.size_ = in_u64();
              res = RB(set_SerializedValue_constchar_p)(REFP, &sv);
              n_exp = D ? 2 : 0; log_ok = !D || (log_is(steps, K_clear, TY_none, D, g_R, 0, 0, 0) && log_is(steps + 1, K_setRawString, TY_raw, D, g_R, sv.size_, s, 0)); } break;
    case 4: { struct JsonVariantConst v; v.data_ = null_arg ? (VD *)0 : &g_src; v.resources_ = null_arg ? (RM *)0 : &g_src_rm;
              res = RB(set_JsonVariantConst)(REFP, &v);
              n_exp = 1; log_ok = log_is(steps, K_copyVariant, TY_variantconst, D, g_R, (uint64_t)(uintptr_t)v.resources_, v.data_, 0); } break;
    case 5: { struct JsonVariant v; v.data_ = null_arg ? (VD *)0 : &g_src; v.resources_ = null_arg ? (RM *)0 : &g_src_rm;
              res = RB(set_JsonVariant)(REFP, &v);
              n_exp = 1; log_ok = log_is(steps, K_copyVariant, TY_variantconst, D, g_R, (uint64_t)(uintptr_t)v.resources_, v.data_, 0); } break;
    case 6: case 7: { /* set(JsonArrayConst) / set(JsonArray): an unbound source stores null; otherwise the value becomes an EMPTY array that JsonArray::set fills */
              struct ArrayData *sa = null_arg ? (struct ArrayData *)0 : &g_src.content_.asArray;
              if (sel == 6) { struct JsonArrayConst a; a.data_ = sa; a.resources_ = &g_src_rm; res = RB(set_JsonArrayConst)(REFP, &a); }
              else { struct JsonArray a; a.data_ = sa; a.resources_ = &g_src_rm; res = RB(set_JsonArray)(REFP, &a); }
              if (null_arg) { n_exp = D ? 1 : 0; log_ok = !D || log_is(steps, K_clear, TY_none, D, g_R, 0, 0, 0); }
              else { n_exp = D ? 2 : 1;
                     log_ok = D ? (log_is(steps, K_clear, TY_none, D, g_R, 0, 0, 0) && log_is(steps + 1, K_arraySet, TY_arrayconst, &D->content_.asArray, g_R, (uint64_t)(uintptr_t)&g_src_rm, sa, 0))
                                : log_is(steps, K_arraySet, TY_arrayconst, 0, g_R, (uint64_t)(uintptr_t)&g_src_rm, sa, 0);
                     if (D) log_ok = log_ok && D->type_ == VT_ARRAY && D->content_.asCollection.head_ == NSLOT && D->content_.asCollection.tail_ == NSLOT; } } break;
    case 8: case 9: { struct ObjectData *so = null_arg ? (struct ObjectData *)0 : &g_src.content_.asObject;
              if (sel == 8) { struct JsonObjectConst o; o.data_ = so; o.resources_ = &g_src_rm; res = RB(set_JsonObjectConst)(REFP, &o); }
              else { struct JsonObject o; o.data_ = so; o.resources_ = &g_src_rm; res = RB(set_JsonObject)(REFP, &o); }
              if (null_arg) { n_exp = D ? 1 : 0; log_ok = !D || log_is(steps, K_clear, TY_none, D, g_R, 0, 0, 0); }
              else { n_exp = D ? 2 : 1;
                     log_ok = D ? (log_is(steps, K_clear, TY_none, D, g_R, 0, 0, 0) && log_is(steps + 1, K_objectSet, TY_objectconst, &D->content_.asObject, g_R, (uint64_t)(uintptr_t)&g_src_rm, so, 0))
                                : log_is(steps, K_objectSet, TY_objectconst, 0, g_R, (uint64_t)(uintptr_t)&g_src_rm, so, 0);
                     if (D) log_ok = log_ok && D->type_ == VT_OBJECT && D->content_.asCollection.head_ == NSLOT && D->content_.asCollection.tail_ == NSLOT; } } break;
    default: { void *np = 0; res = RB(set_void_p)(REFP, &np);
              n_exp = D ? 1 : 0; log_ok = !D || log_is(steps, K_clear, TY_none, D, g_R, 0, 0, 0); } break;
  }
  stored = D != 0 && !g_fail_now; /* the value now holds what was given (a null string / unbound source stores null) */
  COVER(sel == 0 && D != 0 && res); COVER(sel == 1 && D != 0 && !res && g_fail_now); COVER(sel == 1 && D != 0 && g_fail_now && g_ovf0); COVER(sel == 2 && D != 0 && res && !null_arg);
  COVER(sel == 3 && D != 0 && g_fail_now); COVER(sel == 4 && D != 0 && res); COVER(sel == 5 && D == 0); COVER(sel == 6 && D != 0 && !null_arg && res); COVER(sel == 7 && null_arg && D != 0);
  COVER(sel == 9 && D != 0 && !null_arg && g_fail_now); COVER(sel == 11 && D != 0 && res); COVER(sel == 1 && D != 0 && !g_fail_now && g_ovf0); COVER(g_nlook == 0 || (D == 0 && g_fail_now));
  CHECK(create_lookups_ok(), "C04: a mutating entry point reaches (or creates) its value through getOrAddMember / getOrAddElement on its base, step by step");
  CHECK(g_n == steps + n_exp && log_ok,
        "C04/C14: set(x) hands exactly x to the matching core routine on the designated value (clear + setString of the same adapter kind / setRawString / copyVariant / an empty array or object filled by JsonArray::set / JsonObject::set / clear for null), once, and calls nothing else");
#ifdef CANARY_REF_SET_OTHER
  CHECK((!g_fail_now || !res) && !(sel == 3 && g_fail_now), "C05: an allocation failure during THIS set() is reported (false), whatever overflowed() reported before the call");
#else
  CHECK(!g_fail_now || !res, "C05: an allocation failure during THIS set() is reported (false), whatever overflowed() reported before the call");
#endif
  CHECK(g_R != 0 || !res, "C04: set() on an unbound reference returns false");
  if (D && !g_ovf0) CHECK(res == stored, "C05/C04: on a document that reported no failure before, set() returns true exactly when the value was stored");
  CHECK(vd_same(&g_B, &g_B0) && vd_same(&g_up, &g_up0) && vd_same(&G_ROOT, &g_root0) && vd_same(&g_src, &src0), "C04: a mutation changes only its target (the wrapper itself writes no other value)");
}

/* ---- to_clear: to<JsonArray>(), to<JsonObject>(), to<JsonVariant>(), clear() -------------------------------------------------- */
void h_ref_to_clear(void) {
  scene_setup();
  unsigned steps = create_steps();
  VD *D = designated();
  unsigned sel = in_u8();
  __CPROVER_assume(sel < 4);
  _Bool ok = 1;
  switch (sel) {
    case 0: { struct JsonArray r = RB(to_JsonArray)(REFP);
              ok = r.resources_ == g_R && r.data_ == (D ? &D->content_.asArray : (struct ArrayData *)0) && (!D || (D->type_ == VT_ARRAY && D->content_.asCollection.head_ == NSLOT && D->content_.asCollection.tail_ == NSLOT)); } break;
    case 1: { struct JsonObject r = RB(to_JsonObject)(REFP);
              ok = r.resources_ == g_R && r.data_ == (D ? &D->content_.asObject : (struct ObjectData *)0) && (!D || (D->type_ == VT_OBJECT && D->content_.asCollection.head_ == NSLOT && D->content_.asCollection.tail_ == NSLOT)); } break;
    case 2: { struct JsonVariant r = RB(to_JsonVariant)(REFP); ok = r.resources_ == g_R && r.data_ == D && (!D || D->type_ == VT_NULL); } break;
    default: { RB(clear)(REFP); ok = !D || D->type_ == VT_NULL; } break;
  }
  COVER(sel == 0 && D != 0); COVER(sel == 1 && D == 0); COVER(sel == 2 && D != 0); COVER(sel == 3 && D != 0); COVER(g_nlook == 0 || (D == 0 && g_fail_now));
  CHECK(create_lookups_ok(), "C04: a mutating entry point reaches (or creates) its value through getOrAddMember / getOrAddElement on its base, step by step");
  CHECK(g_n == steps + (D ? 1u : 0u) && (!D || log_is(steps, K_clear, TY_none, D, g_R, 0, 0, 0)), "C06/C04: to<T>() / clear() release what the designated value owned through VariantData::clear, once, and call nothing else");
#ifdef CANARY_REF_TO_CLEAR
  CHECK(ok && sel != 1, "C04: to<JsonArray>() / to<JsonObject>() leave an EMPTY array / object and return a handle to it, to<JsonVariant>() / clear() leave null; an unbound handle when the value could not be created");
#else
  CHECK(ok, "C04: to<JsonArray>() / to<JsonObject>() leave an EMPTY array / object and return a handle to it, to<JsonVariant>() / clear() leave null; an unbound handle when the value could not be created");
#endif
  CHECK(!D || D->next_ == g_A0.next_, "C04: the value stays where it is in its collection");
  CHECK(vd_same(&g_B, &g_B0) && vd_same(&g_up, &g_up0) && vd_same(&G_ROOT, &g_root0), "C04: a mutation changes only its target (the wrapper itself writes no other value)");
}

/* ---- collection_ops: add<JsonVariant>(), add(T), remove(index), remove(key), operator[] --------------------------------------- */
void h_ref_collection_ops(void) {
  scene_setup();
  unsigned sel = in_u8();
  __CPROVER_assume(sel < 8);
  _Bool creating = sel < 4;
  unsigned steps = creating ? create_steps() : g_nlook;
  VD *D = designated();
  unsigned t0 = D ? D->type_ : 0xFF;
  _Bool ok = 1, log_ok = 1;
  unsigned n_exp = 0;
  unsigned long idx = in_u64();
  /* add(T): a null value becomes an array first; a value that is neither null nor an array gets nothing */
  _Bool can_add = D && (t0 == VT_NULL || t0 == VT_ARRAY);
  switch (sel) {
    case 0: { struct JsonVariant r = RB(add_JsonVariant)(REFP);
              n_exp = 1; log_ok = log_is(steps, K_addElement, TY_none, D, g_R, 0, 0, 0); ok = r.data_ == (VD *)g_ret_p && r.resources_ == g_R; } break;
    case 1: { int v = (int)in_u32(); _Bool r = RB(add_int)(REFP, &v);
              n_exp = can_add ? 1 : 0; log_ok = !can_add || log_is(steps, K_addValue, TY_int, &D->content_.asArray, g_R, (uint64_t)v, 0, 0); ok = r == (can_add ? (_Bool)g_ret : 0); } break;
    case 2: { _Bool r = RB(add_constchar)(REFP, g_text);
              n_exp = can_add ? 1 : 0; log_ok = !can_add || log_is(steps, K_addValue, TY_cstr, &D->content_.asArray, g_R, 0, g_text, 0); ok = r == (can_add ? (_Bool)g_ret : 0); } break;
    case 3: { struct JsonVariantConst v; v.data_ = &g_src; v.resources_ = &g_src_rm; _Bool r = RB(add_JsonVariantConst)(REFP, &v);
              n_exp = can_add ? 1 : 0; log_ok = !can_add || log_is(steps, K_addValue, TY_variantconst, &D->content_.asArray, g_R, (uint64_t)(uintptr_t)&g_src_rm, &g_src, 0); ok = r == (can_add ? (_Bool)g_ret : 0); } break;
    case 4: { RB(remove)(REFP, idx); n_exp = 1; log_ok = log_is(steps, K_removeElement, TY_none, D, g_R, idx, 0, 0); } break;
    case 5: { RB(remove_constchar)(REFP, g_text); n_exp = 1; log_ok = log_is(steps, K_removeMember, TY_static, D, g_R, 0, g_text, 0); } break;
    case 6: { (void)RB(op_index)(REFP, idx); n_exp = 0; steps = 0; } break;           /* making a proxy touches nothing */
    default: { (void)RB(op_index_constchar)(REFP, g_text); n_exp = 0; steps = 0; } break;
  }
  COVER(sel == 0 && D != 0 && g_ret_p != 0); COVER(sel == 1 && can_add && t0 == VT_NULL); COVER(sel == 1 && D != 0 && !can_add); COVER(sel == 2 && can_add && g_fail_now); COVER(sel == 3 && can_add && t0 == VT_ARRAY);
  COVER(sel == 4 && D != 0); COVER(sel == 5 && D == 0); COVER(sel == 6); COVER(sel == 7);
  if (creating) CHECK(create_lookups_ok(), "C04: add() reaches (or creates) its value through getOrAddMember / getOrAddElement on its base");
  else if (sel < 6) CHECK(read_lookups_ok(), "C04/C06: remove() never creates the value it removes from: it reaches it through the read-only lookups");
#ifdef CANARY_REF_COLL
  CHECK(g_n == steps + n_exp && log_ok && sel != 5, "C04: add() / remove() hand the designated value and the argument, unchanged, to the matching core routine, once, and call nothing else; operator[] calls nothing");
#else
  CHECK(g_n == steps + n_exp && log_ok, "C04: add() / remove() hand the designated value and the argument, unchanged, to the matching core routine, once, and call nothing else; operator[] calls nothing");
#endif
  CHECK(ok, "C05/C04: add<JsonVariant>() returns a handle to the new element (unbound on failure), add(v) returns the core's report (false for a value that is neither null nor an array)");
  if (sel >= 1 && sel <= 3 && D) {
    if (t0 == VT_NULL) CHECK(D->type_ == VT_ARRAY && D->content_.asCollection.head_ == NSLOT && D->content_.asCollection.tail_ == NSLOT && D->next_ == g_A0.next_, "C04: add(v) on a null value first makes it an empty array");
    else CHECK(vd_same(D, &g_A0), "C04: add(v) on a value of another kind leaves it alone; on an array the wrapper itself writes nothing");
  }
  if (sel >= 4) CHECK(values_untouched() && manager_untouched(), "C04: remove() / operator[] write nothing themselves");
  CHECK(vd_same(&g_B, &g_B0) && vd_same(&g_up, &g_up0) && vd_same(&G_ROOT, &g_root0), "C04: a mutation changes only its target (the wrapper itself writes no other value)");
}
#endif /* REF_KIND != 6 */
#endif /* U_REF */

/* =============================================================================================================================
 * unit api_doc (modular, class U): JsonDocument's own thin accessors -- as<T>() / is<T>() (through getVariant()), isNull, size,
 * nesting, overflowed, add<JsonVariant>(), add(v), remove(index), remove(key), the const operator[] (key / index), the conversions
 * to JsonVariant / JsonVariantConst -- each called through a one-line function of tu/api.cpp (api::dq_*), against the contracts of
 * the VariantData routines.  (set / to / clear / copy / move / swap of documents: family facade.) */
#ifdef U_DOC
static struct JsonDocument g_doc;
static char g_text[3] = {'h', 'i', 0};
int VariantData__asIntegral_int(VD *self, RM *resources) { int v = (int)in_u32(); log_call(K_asIntegral, TY_int, self, resources, 0, 0, 0); g_ret = (uint64_t)v; return v; }                 /* [numvariant/as_is_int_per_kind] */
_Bool VariantData__isInteger_int(VD *self, RM *resources) { _Bool v = in_bool(); log_call(K_isInteger, TY_int, self, resources, 0, 0, 0); g_ret = v; return v; }
float VariantData__asFloat_float(VD *self, RM *resources) { float v = in_f32(); log_call(K_asFloat, TY_float, self, resources, 0, 0, 0); g_ret = f32_bits(v); return v; }                         /* [numvariant/asFloat_of_*] */
static struct JsonString g_ret_str;
struct JsonString VariantData__asString(VD *self) { struct JsonString s; s.data_ = (char *)(uintptr_t)in_u64(); s.size_ = in_u64(); s.ownership_ = in_u8() & 1; log_call(K_asString, TY_none, self, 0, 0, 0, 0); g_ret_str = s; return s; }
unsigned long VariantData__size__ResourceManager_p(VD *self, RM *resources) { unsigned long v = in_u64(); log_call(K_size, TY_none, self, resources, 0, 0, 0); g_ret = v; return v; }                /* [coll_dispatch/dispatch] */
unsigned long VariantData__nesting__ResourceManager_p(VD *self, RM *resources) { unsigned long v = in_u64(); log_call(K_nesting, TY_none, self, resources, 0, 0, 0); g_ret = v; return v; }
static VD g_found;
VD *VariantData__addElement__ResourceManager_p(VD *self, RM *resources) { log_call(K_addElement, TY_none, self, resources, 0, 0, 0); g_ret_p = 0; if (in_bool()) { core_alloc_failure(resources); return 0; } g_ret_p = &g_found; return &g_found; }
_Bool ArrayData__addValue_constint_r__int_r_ResourceManager_p(struct ArrayData *self, int *value, RM *resources) { log_call(K_addValue, TY_int, self, resources, (uint64_t)*value, 0, 0); if (in_bool()) { core_alloc_failure(resources); g_ret = 0; return 0; } g_ret = 1; return 1; }  /* [api_addvalue/addvalue_int] */
_Bool ArrayData__addValue_constchar_p_r__char_p_r_ResourceManager_p(struct ArrayData *self, char **value, RM *resources) { log_call(K_addValue, TY_cstr, self, resources, 0, *value, 0); if (in_bool()) { core_alloc_failure(resources); g_ret = 0; return 0; } g_ret = 1; return 1; }
VD *VariantData__getMember_StaticStringAdapter__StaticStringAdapter_ResourceManager_p(VD *self, struct StaticStringAdapter key, RM *resources) { log_call(K_getMember, TY_static, self, resources, 0, key._b_ZeroTerminatedRamString.str_, 0); g_ret_p = in_bool() ? &g_found : (VD *)0; return (VD *)g_ret_p; }
VD *VariantData__getElement__ulong_ResourceManager_p(VD *self, unsigned long index, RM *resources) { log_call(K_getElement, TY_none, self, resources, index, 0, 0); g_ret_p = in_bool() ? &g_found : (VD *)0; return (VD *)g_ret_p; }
void VariantData__removeElement__VariantData_p_ulong_ResourceManager_p(VD *var, unsigned long index, RM *resources) { log_call(K_removeElement, TY_none, var, resources, index, 0, 0); }
void VariantData__removeMember_StaticStringAdapter__VariantData_p_StaticStringAdapter_ResourceManager_p(VD *var, struct StaticStringAdapter key, RM *resources) { log_call(K_removeMember, TY_static, var, resources, 0, key._b_ZeroTerminatedRamString.str_, 0); }
static VD g_root0; static _Bool g_ovf0;
static void doc_scene(void) {
  log_reset();
  vd_havoc(&g_doc.data_); vd_havoc(&g_found);
  g_doc.resources_.overflowed_ = in_bool();
  g_root0 = g_doc.data_; g_ovf0 = g_doc.resources_.overflowed_;
}
void h_doc_reads(void) {
  doc_scene();
  VD *D = &g_doc.data_; RM *R = &g_doc.resources_;
  unsigned t = D->type_;
  unsigned sel = in_u8();
  __CPROVER_assume(sel < 16);
  unsigned long idx = in_u64();
  _Bool ok = 1, log_ok = 1;
  unsigned n_exp = 0;
  switch (sel) {
    case 0: { int r = api__dq_as_int(&g_doc); n_exp = 1; log_ok = log_is(0, K_asIntegral, TY_int, D, R, 0, 0, 0); ok = (uint64_t)r == g_ret; } break;
    case 1: { float r = api__dq_as_float(&g_doc); n_exp = 1; log_ok = log_is(0, K_asFloat, TY_float, D, R, 0, 0, 0); ok = f32_bits(r) == g_ret; } break;
    case 2: { char *r = api__dq_as_cstr(&g_doc); n_exp = 1; log_ok = log_is(0, K_asString, TY_none, D, 0, 0, 0, 0); ok = r == g_ret_str.data_; } break;
    case 3: { struct JsonArray r = api__dq_as_array(&g_doc); ok = r.resources_ == R && r.data_ == (t == VT_ARRAY ? &D->content_.asArray : (struct ArrayData *)0); } break;
    case 4: { struct JsonObjectConst r = api__dq_as_objectconst(&g_doc); ok = r.resources_ == R && r.data_ == (t == VT_OBJECT ? &D->content_.asObject : (struct ObjectData *)0); } break;
    case 5: { struct JsonVariantConst r = api__dq_as_variantconst(&g_doc); ok = r.resources_ == R && r.data_ == D; } break;
    case 6: { _Bool r = api__dq_is_int(&g_doc); n_exp = 1; log_ok = log_is(0, K_isInteger, TY_int, D, R, 0, 0, 0); ok = r == (_Bool)g_ret; } break;
    case 7: ok = api__dq_is_array(&g_doc) == (t == VT_ARRAY); break;
    case 8: ok = api__dq_isNull(&g_doc) == (t == VT_NULL); break;
    case 9: { unsigned long r = api__dq_size(&g_doc); n_exp = 1; log_ok = log_is(0, K_size, TY_none, D, R, 0, 0, 0); ok = r == g_ret; } break;
    case 10: { unsigned long r = api__dq_nesting(&g_doc); n_exp = 1; log_ok = log_is(0, K_nesting, TY_none, D, R, 0, 0, 0); ok = r == g_ret; } break;
    case 11: ok = api__dq_overflowed(&g_doc) == g_ovf0; break;
    case 12: { struct JsonVariantConst r = api__dq_get_key(&g_doc, g_text); n_exp = 1; log_ok = log_is(0, K_getMember, TY_static, D, R, 0, g_text, 0); ok = r.resources_ == R && r.data_ == (VD *)g_ret_p; } break;
    case 13: { struct JsonVariantConst r = api__dq_get_index(&g_doc, idx); n_exp = 1; log_ok = log_is(0, K_getElement, TY_none, D, R, idx, 0, 0); ok = r.resources_ == R && r.data_ == (VD *)g_ret_p; } break;
    case 14: { struct JsonVariant r = api__dq_to_variant(&g_doc); ok = r.resources_ == R && r.data_ == D; } break;
    default: { struct JsonVariantConst r = api__dq_to_variantconst(&g_doc); ok = r.resources_ == R && r.data_ == D; } break;
  }
  COVER(sel == 0); COVER(sel == 3 && t == VT_ARRAY); COVER(sel == 4 && t == VT_INT32); COVER(sel == 8 && t == VT_NULL); COVER(sel == 11 && g_ovf0); COVER(sel == 12 && g_ret_p != 0); COVER(sel == 13 && g_ret_p == 0); COVER(sel == 15);
#ifdef CANARY_DOC_READS
  CHECK(g_n == n_exp && log_ok && sel != 9, "C13/C04/C06: a read-only accessor of the document asks the matching read-only core routine about the ROOT with the document's manager (exactly T for as<T>() / is<T>()), once, and calls nothing else");
#else
  CHECK(g_n == n_exp && log_ok, "C13/C04/C06: a read-only accessor of the document asks the matching read-only core routine about the ROOT with the document's manager (exactly T for as<T>() / is<T>()), once, and calls nothing else");
#endif
  CHECK(ok, "C04: the answer is the core's, unchanged; handles designate the root and the document's manager");
  CHECK(vd_same(&g_doc.data_, &g_root0) && g_doc.resources_.overflowed_ == g_ovf0 && !g_fail_now, "C04/C06: read-only operations change nothing");
}
void h_doc_collection_ops(void) {
  doc_scene();
  VD *D = &g_doc.data_; RM *R = &g_doc.resources_;
  unsigned t0 = D->type_;
  unsigned sel = in_u8();
  __CPROVER_assume(sel < 5);
  unsigned long idx = in_u64();
  int iv = (int)in_u32();
  _Bool ok = 1, log_ok = 1;
  unsigned n_exp = 0;
  _Bool can_add = t0 == VT_NULL || t0 == VT_ARRAY;
  switch (sel) {
    case 0: { struct JsonVariant r = api__dq_add_variant(&g_doc); n_exp = 1; log_ok = log_is(0, K_addElement, TY_none, D, R, 0, 0, 0); ok = r.resources_ == R && r.data_ == (VD *)g_ret_p; } break;
    case 1: { _Bool r = api__dq_add_int(&g_doc, iv); n_exp = can_add; log_ok = !can_add || log_is(0, K_addValue, TY_int, &D->content_.asArray, R, (uint64_t)iv, 0, 0); ok = r == (can_add ? (_Bool)g_ret : 0); } break;
    case 2: { _Bool r = api__dq_add_cstr(&g_doc, g_text); n_exp = can_add; log_ok = !can_add || log_is(0, K_addValue, TY_cstr, &D->content_.asArray, R, 0, g_text, 0); ok = r == (can_add ? (_Bool)g_ret : 0); } break;
    case 3: { api__dq_remove_index(&g_doc, idx); n_exp = 1; log_ok = log_is(0, K_removeElement, TY_none, D, R, idx, 0, 0); } break;
    default: { api__dq_remove_key(&g_doc, g_text); n_exp = 1; log_ok = log_is(0, K_removeMember, TY_static, D, R, 0, g_text, 0); } break;
  }
  COVER(sel == 0 && g_ret_p != 0); COVER(sel == 1 && t0 == VT_NULL && ok); COVER(sel == 1 && t0 == VT_OBJECT); COVER(sel == 2 && can_add && g_fail_now); COVER(sel == 3); COVER(sel == 4);
#ifdef CANARY_DOC_COLL
  CHECK(g_n == n_exp && log_ok && sel != 3, "C04: add() / remove() hand the root, the document's manager and the argument, unchanged, to the matching core routine, once, and call nothing else");
#else
  CHECK(g_n == n_exp && log_ok, "C04: add() / remove() hand the root, the document's manager and the argument, unchanged, to the matching core routine, once, and call nothing else");
#endif
  CHECK(ok, "C05/C04: add<JsonVariant>() returns a handle to the new element (unbound on failure), add(v) the core's report (false for a root that is neither null nor an array)");
  if ((sel == 1 || sel == 2)) {
    if (t0 == VT_NULL) CHECK(D->type_ == VT_ARRAY && D->content_.asCollection.head_ == NSLOT && D->content_.asCollection.tail_ == NSLOT, "C04: add(v) on a null document first makes it an empty array");
    else CHECK(vd_same(D, &g_root0), "C04: add(v) on a root of another kind leaves it alone; on an array the wrapper itself writes nothing");
  }
  if (sel >= 3) CHECK(vd_same(D, &g_root0), "C04: remove() writes nothing itself");
}
#endif /* U_DOC */

/* =============================================================================================================================
 * small slot store shared by the collection-level units: NS harness-owned slots whose ids are base..base+NS-1 for an arbitrary
 * symbolic base (slot ids are HANDLES: the code only compares them with NULL_SLOT and passes them to getVariant) */
#if defined(U_ARRAY) || defined(U_OBJECT) || defined(U_ADDVALUE)
#define NS 8
static VD g_slots[NS], g_slots0[NS];
static slotid_t g_sid[NS], g_sbase;
static _Bool g_released[NS];     /* the slot went back to the manager: its bytes are the free list's now */
static unsigned g_getv_calls;
static RM g_rm;
static int sidx(slotid_t id) {
  if (id == NSLOT || id < g_sbase || (uint64_t)id - g_sbase >= NS) return -1;
  return (int)(id - g_sbase);
}
static void store_setup(void) {
  g_sbase = (slotid_t)in_u32();
  __CPROVER_assume((uint64_t)g_sbase + NS <= (uint64_t)NSLOT);
  g_getv_calls = 0;
  for (int i = 0; i < NS; i++) { g_sid[i] = (slotid_t)(g_sbase + i); vd_havoc(&g_slots[i]); g_released[i] = 0; }
}
static void store_snapshot(void) { for (int i = 0; i < NS; i++) g_slots0[i] = g_slots[i]; }
static _Bool store_unchanged_except(unsigned mask) {
  _Bool ok = 1;
  for (int i = 0; i < NS; i++) if (!((mask >> i) & 1u) && !vd_same(&g_slots[i], &g_slots0[i])) ok = 0;
  return ok;
}
/* ResourceManager::getVariant [proved: coll_resmgr/rm_get over poollist/list_getSlot_*]: the slot designated by the id, null for
 * NULL_SLOT; read-only.  A slot that was released must not be asked for any more (its bytes belong to the free list) */
VD *ResourceManager__getVariant(RM *self, slotid_t id) {
  CHECK(self == &g_rm, "getVariant is asked of the collection's own manager");
  g_getv_calls++;
  if (id == NSLOT) return (VD *)0;
  int i = sidx(id);
  CHECK(i >= 0, "getVariant receives the id of an existing slot");
  if (i < 0) return (VD *)0;
  CHECK(!g_released[i], "C04/C06: a slot that was released is not read again");
  return &g_slots[i];
}
/* link entries e[0..n-1] of the store into a list in that order */
static void store_link(struct CollectionData *c, const unsigned *e, unsigned n) {
  for (unsigned k = 0; k < 4; k++) if (k < n) g_slots[e[k]].next_ = (k + 1 < n) ? g_sid[e[k + 1]] : NSLOT;
  c->head_ = n ? g_sid[e[0]] : NSLOT;
  c->tail_ = n ? g_sid[e[n - 1]] : NSLOT;
}
#endif

/* =============================================================================================================================
 * unit api_array (modular): JsonArray / JsonArrayConst entry points against the contracts of ArrayData::addValue<T> [api_addvalue],
 * ArrayData::addElement [coll_array/addElement], CollectionData::clear [coll_loops/clear_anylen], ArrayData::removeElement
 * [coll_array/removeElement_le4], CollectionData::removeOne [coll_remove/removeOne], CollectionData::size [coll_loops/size_anylen],
 * VariantData::nesting [coll_dispatch/dispatch], ArrayData::getElement [coll_loops/array_at_anylen], VariantData::clear
 * [coll_variant/vclear] and ResourceManager::getVariant. */
#ifdef U_ARRAY
static VD g_dst;                 /* the value that holds the destination array */
static VD g_srcv;                /* the value that holds the source array (another document's) */
static RM g_src_rm;
static char g_text[3] = {'h', 'i', 0};
#define ADDVALUE_STUB(cname, PT, TY, A, P) \
  _Bool cname(struct ArrayData *self, PT *value, RM *resources) { \
    log_call(K_addValue, TY, self, resources, (uint64_t)(A), (const void *)(P), 0); \
    if (in_bool()) { core_alloc_failure(resources); g_ret = 0; return 0; } \
    g_ret = 1; return 1; }
ADDVALUE_STUB(ArrayData__addValue_const_Bool_r___Bool_r_ResourceManager_p, _Bool, TY_bool, *value, 0)
ADDVALUE_STUB(ArrayData__addValue_constsignedchar_r__signedchar_r_ResourceManager_p, signed char, TY_signedchar, *value, 0)
ADDVALUE_STUB(ArrayData__addValue_constuchar_r__uchar_r_ResourceManager_p, unsigned char, TY_uchar, *value, 0)
ADDVALUE_STUB(ArrayData__addValue_constshort_r__short_r_ResourceManager_p, short, TY_short, *value, 0)
ADDVALUE_STUB(ArrayData__addValue_constushort_r__ushort_r_ResourceManager_p, unsigned short, TY_ushort, *value, 0)
ADDVALUE_STUB(ArrayData__addValue_constint_r__int_r_ResourceManager_p, int, TY_int, *value, 0)
ADDVALUE_STUB(ArrayData__addValue_constuint_r__uint_r_ResourceManager_p, unsigned int, TY_uint, *value, 0)
ADDVALUE_STUB(ArrayData__addValue_constlong_r__long_r_ResourceManager_p, long, TY_long, *value, 0)
ADDVALUE_STUB(ArrayData__addValue_constulong_r__ulong_r_ResourceManager_p, unsigned long, TY_ulong, *value, 0)
ADDVALUE_STUB(ArrayData__addValue_constfloat_r__float_r_ResourceManager_p, float, TY_float, f32_bits(*value), 0)
ADDVALUE_STUB(ArrayData__addValue_constdouble_r__double_r_ResourceManager_p, double, TY_double, f64_bits(*value), 0)
ADDVALUE_STUB(ArrayData__addValue_constchar_p_r__char_p_r_ResourceManager_p, char *, TY_cstr, 0, *value)
ADDVALUE_STUB(ArrayData__addValue_char_p_r__char_p_r_ResourceManager_p, char *, TY_cstr_copied, 0, *value)
ADDVALUE_STUB(ArrayData__addValue_constJsonString_r__JsonString_r_ResourceManager_p, struct JsonString, TY_jsonstring, value->size_ * 2 + value->ownership_, value->data_)
ADDVALUE_STUB(ArrayData__addValue_constSerializedValue_constchar_p_r__SerializedValue_constchar_p_r_ResourceManager_p, struct SerializedValue_constchar_p, TY_raw, value->size_, value->data_)
ADDVALUE_STUB(ArrayData__addValue_constJsonVariantConst_r__JsonVariantConst_r_ResourceManager_p, struct JsonVariantConst, TY_variantconst, (uintptr_t)value->resources_, value->data_)
ADDVALUE_STUB(ArrayData__addValue_constJsonVariant_r__JsonVariant_r_ResourceManager_p, struct JsonVariant, TY_variant, (uintptr_t)value->resources_, value->data_)
ADDVALUE_STUB(ArrayData__addValue_constJsonArrayConst_r__JsonArrayConst_r_ResourceManager_p, struct JsonArrayConst, TY_arrayconst, (uintptr_t)value->resources_, value->data_)
ADDVALUE_STUB(ArrayData__addValue_void_pconst_r__void_p_r_ResourceManager_p, void *, TY_nullptr, 0, *value)
/* ArrayData::addElement: a new null element appended, or null + overflowed */
VD *ArrayData__addElement__ResourceManager_p(struct ArrayData *self, RM *resources) {
  log_call(K_arrayAddElement, TY_none, self, resources, 0, 0, 0);
  g_ret_p = 0;
  if (in_bool()) { core_alloc_failure(resources); return 0; }
  g_slots[NS - 1].type_ = VT_NULL; g_slots[NS - 1].next_ = NSLOT;
  g_ret_p = &g_slots[NS - 1];
  return &g_slots[NS - 1];
}
/* CollectionData::clear: every slot of the list is released (exactly once), the list is empty afterwards */
static unsigned g_list_n; static unsigned g_list_e[4]; /* the entries that make up the list that is cleared in this scenario */
void CollectionData__clear__ResourceManager_p(struct CollectionData *self, RM *resources) {
  log_call(K_collClear, TY_none, self, resources, 0, 0, 0);
  if (self == &g_dst.content_.asCollection)
    for (unsigned k = 0; k < 4; k++) if (k < g_list_n) { g_released[g_list_e[k]] = 1; vd_havoc(&g_slots[g_list_e[k]]); g_slots0[g_list_e[k]] = g_slots[g_list_e[k]]; }
  self->head_ = NSLOT; self->tail_ = NSLOT;
}
void VariantData__clear__ResourceManager_p(VD *self, RM *resources) { log_call(K_clear, TY_none, self, resources, 0, 0, 0); self->type_ = VT_NULL; }
void ArrayData__removeElement__ulong_ResourceManager_p(struct ArrayData *self, unsigned long index, RM *resources) { log_call(K_arrayRemoveElement, TY_none, self, resources, index, 0, 0); }
void CollectionData__removeOne(struct CollectionData *self, struct CollectionIterator it, RM *resources) { log_call(K_removeOne, TY_none, self, resources, it.currentId_, it.slot_, it.nextId_); }
unsigned long CollectionData__size(struct CollectionData *self, RM *resources) { unsigned long v = in_u64(); log_call(K_collSize, TY_none, self, resources, 0, 0, 0); g_ret = v; return v; }
unsigned long VariantData__nesting__VariantData_p_ResourceManager_p(VD *var, RM *resources) { unsigned long v = in_u64(); log_call(K_nesting, TY_none, var, resources, 0, 0, 0); if (!var) v = 0; g_ret = v; return v; }
VD *ArrayData__getElement__ulong_ResourceManager_p(struct ArrayData *self, unsigned long index, RM *resources) {
  log_call(K_getElement, TY_none, self, resources, index, 0, 0);
  g_ret_p = in_bool() ? &g_slots[0] : (VD *)0;
  return (VD *)g_ret_p;
}

static struct JsonArray mk_array(_Bool bound) {
  struct JsonArray a;
  g_dst.type_ = VT_ARRAY;
  a.data_ = bound ? &g_dst.content_.asArray : (struct ArrayData *)0;
  a.resources_ = &g_rm;
  return a;
}
static void array_scene(void) {
  log_reset();
  store_setup();
  vd_havoc(&g_dst); vd_havoc(&g_srcv);
  g_dst.type_ = VT_ARRAY; g_srcv.type_ = VT_ARRAY;
  g_list_n = 0;
  g_rm.overflowed_ = in_bool();
  store_snapshot();
}

/* add(v) for every value type: exactly v goes to ArrayData::addValue<T> of exactly its type */
#define CASE_ADD(i, fn, T, TY, INIT, A, P) \
  case i: { T v = INIT; r = fn(&a, &v); ety = TY; ea = (uint64_t)(A); ep = (const void *)(P); } break;
void h_array_add_value(void) {
  array_scene();
  _Bool bound = in_bool();
  struct JsonArray a = mk_array(bound);
  VD dst0 = g_dst;
  unsigned sel = in_u8();
  __CPROVER_assume(sel < 19);
  uint64_t bits = in_u64(), ea = 0;
  const void *ep = 0;
  unsigned ety = TY_none;
  _Bool r = 0;
  float fv; { uint32_t w = (uint32_t)bits; memcpy(&fv, &w, 4); }
  double dv; memcpy(&dv, &bits, 8);
  struct JsonString js; js.data_ = g_text; js.size_ = bits >> 8; js.ownership_ = bits & 1;
  struct SerializedValue_constchar_p sv; sv.data_ = g_text; sv.size_ = bits;
  struct JsonVariantConst vc; vc.data_ = &g_srcv; vc.resources_ = &g_src_rm;
  struct JsonVariant vv; vv.data_ = &g_srcv; vv.resources_ = &g_src_rm;
  struct JsonArrayConst ac; ac.data_ = &g_srcv.content_.asArray; ac.resources_ = &g_src_rm;
  switch (sel) {
    CASE_ADD(0, JsonArray__add__Bool, _Bool, TY_bool, (bits & 1), v, 0)
    CASE_ADD(1, JsonArray__add_signedchar, signed char, TY_signedchar, (signed char)bits, v, 0)
    CASE_ADD(2, JsonArray__add_uchar, unsigned char, TY_uchar, (unsigned char)bits, v, 0)
    CASE_ADD(3, JsonArray__add_short, short, TY_short, (short)bits, v, 0)
    CASE_ADD(4, JsonArray__add_ushort, unsigned short, TY_ushort, (unsigned short)bits, v, 0)
    CASE_ADD(5, JsonArray__add_int, int, TY_int, (int)bits, v, 0)
    CASE_ADD(6, JsonArray__add_uint, unsigned int, TY_uint, (unsigned int)bits, v, 0)
    CASE_ADD(7, JsonArray__add_long, long, TY_long, (long)bits, v, 0)
    CASE_ADD(8, JsonArray__add_ulong, unsigned long, TY_ulong, (unsigned long)bits, v, 0)
    CASE_ADD(9, JsonArray__add_float, float, TY_float, fv, f32_bits(v), 0)
    CASE_ADD(10, JsonArray__add_double, double, TY_double, dv, f64_bits(v), 0)
    case 11: { r = JsonArray__add_constchar(&a, g_text); ety = TY_cstr; ep = g_text; } break;
    case 12: { r = JsonArray__add_char(&a, g_text); ety = TY_cstr_copied; ep = g_text; } break;
    CASE_ADD(13, JsonArray__add_JsonString, struct JsonString, TY_jsonstring, js, v.size_ * 2 + v.ownership_, v.data_)
    CASE_ADD(14, JsonArray__add_SerializedValue_constchar_p, struct SerializedValue_constchar_p, TY_raw, sv, v.size_, v.data_)
    CASE_ADD(15, JsonArray__add_JsonVariantConst, struct JsonVariantConst, TY_variantconst, vc, (uintptr_t)v.resources_, v.data_)
    CASE_ADD(16, JsonArray__add_JsonVariant__JsonVariant_r, struct JsonVariant, TY_variant, vv, (uintptr_t)v.resources_, v.data_)
    CASE_ADD(17, JsonArray__add_JsonArrayConst, struct JsonArrayConst, TY_arrayconst, ac, (uintptr_t)v.resources_, v.data_)
    default: { void *np = 0; r = JsonArray__add_void_p(&a, &np); ety = TY_nullptr; } break;
  }
  COVER(sel == 5 && bound && r); COVER(sel == 12 && bound && !r); COVER(sel == 10 && !bound); COVER(sel == 15 && bound && r); COVER(sel == 1 && bound && ea == (uint64_t)-7); COVER(sel == 18 && bound);
  if (bound) {
#ifdef CANARY_ARRAY_ADD
    CHECK(g_n == 1 && log_is(0, K_addValue, ety, &g_dst.content_.asArray, &g_rm, ea, ep, 0) && sel != 8, "C04: add(v) hands exactly v to ArrayData::addValue<T> of exactly its type, on this array with this manager, once, and calls nothing else");
#else
    CHECK(g_n == 1 && log_is(0, K_addValue, ety, &g_dst.content_.asArray, &g_rm, ea, ep, 0), "C04: add(v) hands exactly v to ArrayData::addValue<T> of exactly its type, on this array with this manager, once, and calls nothing else");
#endif
    CHECK(r == (_Bool)g_ret, "C05: add(v) returns the core's report (false when the element could not be allocated or stored)");
  } else {
    CHECK(g_n == 0 && !r, "C04: add(v) on an unbound array does nothing and returns false");
  }
  CHECK(vd_same(&g_dst, &dst0) && vd_same(&g_srcv, &g_srcv) && store_unchanged_except(0), "C04: the wrapper itself writes nothing");
}

/* the other entry points of JsonArray */
void h_array_ops(void) {
  array_scene();
  _Bool bound = in_bool();
  struct JsonArray a = mk_array(bound);
  VD dst0 = g_dst;
  struct ArrayData *A = a.data_;
  unsigned sel = in_u8();
  __CPROVER_assume(sel < 16);
  unsigned long idx = in_u64();
  _Bool ok = 1, log_ok = 1;
  unsigned n_exp = 0;
  VD *E = &g_slots[NS - 1];
  switch (sel) {
    case 0: { struct JsonVariant r = JsonArray__add_JsonVariant__void(&a);
              n_exp = bound; log_ok = !bound || log_is(0, K_arrayAddElement, TY_none, A, &g_rm, 0, 0, 0); ok = r.resources_ == &g_rm && r.data_ == (bound ? (VD *)g_ret_p : (VD *)0); } break;
    case 1: { struct JsonArray r = JsonArray__add_JsonArray(&a);
              _Bool got = bound && g_ret_p != 0;
              n_exp = bound ? (got ? 2 : 1) : 0; log_ok = !bound || (log_is(0, K_arrayAddElement, TY_none, A, &g_rm, 0, 0, 0) && (!got || log_is(1, K_clear, TY_none, E, &g_rm, 0, 0, 0)));
              ok = r.resources_ == &g_rm && r.data_ == (got ? &E->content_.asArray : (struct ArrayData *)0) && (!got || (E->type_ == VT_ARRAY && E->content_.asCollection.head_ == NSLOT && E->content_.asCollection.tail_ == NSLOT)); } break;
    case 2: { struct JsonObject r = JsonArray__add_JsonObject(&a);
              _Bool got = bound && g_ret_p != 0;
              n_exp = bound ? (got ? 2 : 1) : 0; log_ok = !bound || (log_is(0, K_arrayAddElement, TY_none, A, &g_rm, 0, 0, 0) && (!got || log_is(1, K_clear, TY_none, E, &g_rm, 0, 0, 0)));
              ok = r.resources_ == &g_rm && r.data_ == (got ? &E->content_.asObject : (struct ObjectData *)0) && (!got || (E->type_ == VT_OBJECT && E->content_.asCollection.head_ == NSLOT && E->content_.asCollection.tail_ == NSLOT)); } break;
    case 3: { JsonArray__remove__ulong(&a, idx); n_exp = bound; log_ok = !bound || log_is(0, K_arrayRemoveElement, TY_none, A, &g_rm, idx, 0, 0); } break;
    case 4: { struct JsonArrayIterator it; it.iterator_.slot_ = &g_slots[1]; it.iterator_.currentId_ = g_sid[1]; it.iterator_.nextId_ = (slotid_t)in_u32(); it.resources_ = &g_rm;
              JsonArray__remove__JsonArrayIterator(&a, it);
              n_exp = bound; log_ok = !bound || log_is(0, K_removeOne, TY_none, A, &g_rm, g_sid[1], &g_slots[1], it.iterator_.nextId_); } break;
    case 5: { JsonArray__clear(&a); n_exp = bound; log_ok = !bound || log_is(0, K_collClear, TY_none, A, &g_rm, 0, 0, 0); ok = !bound || (g_dst.type_ == VT_ARRAY && g_dst.content_.asCollection.head_ == NSLOT); } break;
    case 6: { struct ElementProxy_JsonArray p = JsonArray__op_index_ulong(&a, idx); ok = p.upstream_.data_ == A && p.upstream_.resources_ == &g_rm && p.index_ == idx; } break;
    case 7: { unsigned long r = JsonArray__size(&a); n_exp = bound; log_ok = !bound || log_is(0, K_collSize, TY_none, A, &g_rm, 0, 0, 0); ok = r == (bound ? g_ret : 0); } break;
    case 8: { unsigned long r = JsonArray__nesting(&a); n_exp = 1; log_ok = log_is(0, K_nesting, TY_none, bound ? &g_dst : (VD *)0, &g_rm, 0, 0, 0); ok = r == g_ret; } break;
    case 9: ok = JsonArray__isNull(&a) == !bound; break;
    case 10: ok = JsonArray__op_conv__Bool(&a) == bound; break;
    case 11: { struct JsonVariant r = JsonArray__op_conv_JsonVariant(&a); ok = r.data_ == (bound ? &g_dst : (VD *)0) && r.resources_ == &g_rm; } break;
    case 12: { struct JsonVariantConst r = JsonArray__op_conv_JsonVariantConst(&a); ok = r.data_ == (bound ? &g_dst : (VD *)0) && r.resources_ == &g_rm; } break;
    case 13: { struct JsonArrayConst r = JsonArray__op_conv_JsonArrayConst(&a); ok = r.data_ == A && r.resources_ == &g_rm; } break;
    case 14: { /* begin(): an iterator on the first element (a read-only getVariant of head_), the end iterator for an unbound array */
               unsigned e[1] = {2}; _Bool empty = in_bool(); store_link(&g_dst.content_.asCollection, e, empty ? 0 : 1); dst0 = g_dst; store_snapshot();
               struct JsonArrayIterator it = JsonArray__begin(&a);
               ok = it.iterator_.slot_ == ((bound && !empty) ? &g_slots[2] : (VD *)0) && (!(bound && !empty) || (it.iterator_.currentId_ == g_sid[2] && it.resources_ == &g_rm)); } break;
    default: { struct JsonArrayIterator it = JsonArray__end(&a); ok = it.iterator_.slot_ == 0; } break;
  }
  COVER(sel == 0 && bound && g_ret_p != 0); COVER(sel == 1 && bound && g_ret_p == 0); COVER(sel == 2 && bound && g_ret_p != 0); COVER(sel == 4 && bound); COVER(sel == 5 && bound); COVER(sel == 7 && !bound);
  COVER(sel == 8 && !bound); COVER(sel == 14 && bound && ok && g_getv_calls == 1); COVER(sel == 13); COVER(sel == 3 && bound);
#ifdef CANARY_ARRAY_OPS
  CHECK(g_n == n_exp && log_ok && sel != 3, "C04: each entry point hands this array, this manager and its argument unchanged to the matching core routine, once, and calls nothing else (nothing at all for an unbound array)");
#else
  CHECK(g_n == n_exp && log_ok, "C04: each entry point hands this array, this manager and its argument unchanged to the matching core routine, once, and calls nothing else (nothing at all for an unbound array)");
#endif
  CHECK(ok, "C04/C05: the answer is the core's (new element handle, unbound after a failure; add<JsonArray>() / add<JsonObject>() give an EMPTY nested container; size; handles designate this array)");
  if (sel >= 6) CHECK(vd_same(&g_dst, &dst0) && store_unchanged_except(0) && !g_fail_now && g_rm.overflowed_ == (g_rm.overflowed_), "C04/C06: read-only entry points change nothing");
  if (sel >= 6 && sel != 14) CHECK(g_getv_calls == 0, "C06: no slot is looked up");
}

/* set(src): "the destination is cleared first, the elements are copied in order, false on the first failure".
 * SET_ALIAS=0: the source is another array (<= 3 elements: class B);  SET_ALIAS=1: a.set(a) (the F13 family at array level). */
#ifndef SET_ALIAS
#define SET_ALIAS 0
#endif
void h_array_set(void) {
  array_scene();
  _Bool bound = in_bool();
  struct JsonArray a = mk_array(bound);
  unsigned n = in_u8(), m = in_u8();
  __CPROVER_assume(n <= 3 && m <= 2);
  const unsigned se[4] = {0, 1, 2, 3}, de[4] = {4, 5, 6, 7};
  struct JsonArrayConst src;
#if SET_ALIAS
  __CPROVER_assume(bound && n >= 1);
  store_link(&g_dst.content_.asCollection, se, n);              /* the array holds n elements and is its own source */
  g_list_n = n; for (unsigned k = 0; k < 4; k++) g_list_e[k] = se[k];
  src.data_ = a.data_; src.resources_ = &g_rm;
#else
  _Bool src_bound = in_bool();
  store_link(&g_srcv.content_.asCollection, se, n);             /* source: n elements (entries 0..n-1) */
  store_link(&g_dst.content_.asCollection, de, m);              /* destination: m elements before the call (entries 4..) */
  g_list_n = m; for (unsigned k = 0; k < 4; k++) g_list_e[k] = de[k];
  src.data_ = src_bound ? &g_srcv.content_.asArray : (struct ArrayData *)0; src.resources_ = &g_rm; /* (same manager object: getVariant serves both lists from one store) */
  if (!src_bound) n = 0;
#endif
  store_snapshot();
  VD srcv0 = g_srcv;
  _Bool r = JsonArray__set(&a, src);
  /* expected log: clear(dst), then add(element k) for k = 0.. in order, stopping after the first one that fails */
  unsigned adds = g_n > 0 ? g_n - 1 : 0;
  _Bool order_ok = 1, failed_last = 0;
  for (unsigned k = 0; k < 3; k++)
    if (k < adds) {
      if (!log_is(1 + k, K_addValue, TY_variantconst, &g_dst.content_.asArray, &g_rm, (uint64_t)(uintptr_t)&g_rm, &g_slots[se[k]], 0)) order_ok = 0;
    }
  failed_last = g_fail_now;
#if SET_ALIAS
  COVER(n == 3); COVER(n == 1 && r);
#else
  COVER(bound && n == 3 && r); COVER(bound && n == 2 && !r && adds == 1); COVER(bound && n == 0 && m == 2 && r); COVER(!bound); COVER(bound && n == 3 && !r && adds == 3);
#endif
  if (!bound) { CHECK(g_n == 0 && !r, "C04: set() on an unbound array does nothing and returns false"); return; }
  CHECK(g_n >= 1 && log_is(0, K_collClear, TY_none, &g_dst.content_.asCollection, &g_rm, 0, 0, 0), "C04: set(src) first clears the destination (an assignment, not an append): CollectionData::clear of this array, before anything is added");
#if SET_ALIAS
  CHECK(adds == n && order_ok, "C04: a.set(a): when the copy starts the source still holds its elements (the destination must not be cleared before its own part is read)");
#else
#ifdef CANARY_ARRAY_SET
  CHECK(order_ok && adds <= n && (adds == n || failed_last) && !(n == 3 && adds == 2), "C04: then every element of the source is added, in the source's order, each exactly once, with add(JsonVariantConst) on this array");
#else
  CHECK(order_ok && adds <= n && (adds == n || failed_last), "C04: then every element of the source is added, in the source's order, each exactly once, with add(JsonVariantConst) on this array");
#endif
#endif
  CHECK(r == !g_fail_now, "C05: set() returns false exactly when an add failed, and stops at the first failure");
  CHECK(!g_fail_now || (adds >= 1 && g_log[adds].k == K_addValue), "C05: nothing is attempted after the first failure");
  CHECK(vd_same(&g_srcv, &srcv0) || SET_ALIAS, "C04: the source array is untouched");
}

/* JsonArrayConst: operator[], size, nesting, isNull, conversions, begin/end -- all read-only */
void h_array_const_ops(void) {
  array_scene();
  _Bool bound = in_bool();
  struct JsonArrayConst a;
  a.data_ = bound ? &g_dst.content_.asArray : (struct ArrayData *)0; a.resources_ = &g_rm;
  VD dst0 = g_dst;
  _Bool ovf0 = g_rm.overflowed_;
  unsigned sel = in_u8();
  __CPROVER_assume(sel < 8);
  unsigned long idx = in_u64();
  _Bool ok = 1, log_ok = 1;
  unsigned n_exp = 0;
  switch (sel) {
    case 0: { struct JsonVariantConst r = JsonArrayConst__op_index_ulong(&a, idx); n_exp = bound; log_ok = !bound || log_is(0, K_getElement, TY_none, a.data_, &g_rm, idx, 0, 0); ok = r.resources_ == &g_rm && r.data_ == (bound ? (VD *)g_ret_p : (VD *)0); } break;
    case 1: { unsigned long r = JsonArrayConst__size(&a); n_exp = bound; log_ok = !bound || log_is(0, K_collSize, TY_none, a.data_, &g_rm, 0, 0, 0); ok = r == (bound ? g_ret : 0); } break;
    case 2: { unsigned long r = JsonArrayConst__nesting(&a); n_exp = 1; log_ok = log_is(0, K_nesting, TY_none, bound ? &g_dst : (VD *)0, &g_rm, 0, 0, 0); ok = r == g_ret; } break;
    case 3: ok = JsonArrayConst__isNull(&a) == !bound; break;
    case 4: ok = JsonArrayConst__op_conv__Bool(&a) == bound; break;
    case 5: { struct JsonVariantConst r = JsonArrayConst__op_conv_JsonVariantConst(&a); ok = r.data_ == (bound ? &g_dst : (VD *)0) && r.resources_ == &g_rm; } break;
    case 6: { unsigned e[1] = {2}; _Bool empty = in_bool(); store_link(&g_dst.content_.asCollection, e, empty ? 0 : 1); dst0 = g_dst; store_snapshot();
              struct JsonArrayConstIterator it = JsonArrayConst__begin(&a);
              ok = it.iterator_.slot_ == ((bound && !empty) ? &g_slots[2] : (VD *)0) && (!(bound && !empty) || (it.iterator_.currentId_ == g_sid[2] && it.resources_ == &g_rm)); } break;
    default: { struct JsonArrayConstIterator it = JsonArrayConst__end(&a); ok = it.iterator_.slot_ == 0; } break;
  }
  COVER(sel == 0 && bound && g_ret_p != 0); COVER(sel == 1 && !bound); COVER(sel == 2 && bound); COVER(sel == 6 && bound && g_getv_calls == 1); COVER(sel == 5 && !bound);
#ifdef CANARY_ARRAY_CONST
  CHECK(g_n == n_exp && log_ok && sel != 1, "C04/C06: a read-only entry point asks the matching read-only core routine about this array, once, and calls nothing else");
#else
  CHECK(g_n == n_exp && log_ok, "C04/C06: a read-only entry point asks the matching read-only core routine about this array, once, and calls nothing else");
#endif
  CHECK(ok, "C04: the answer is the core's; handles designate this array and its manager");
  CHECK(vd_same(&g_dst, &dst0) && store_unchanged_except(0) && !g_fail_now && g_rm.overflowed_ == ovf0, "C04/C06: read-only entry points change nothing");
}
#endif /* U_ARRAY */

/* =============================================================================================================================
 * unit api_set_loops (modular, class U: sources of ANY length): JsonArray::set(JsonArrayConst) and JsonObject::set(JsonObjectConst)
 * with their range-for loops closed by loop contracts (contracts/api.loops.json).  The source is an ABSTRACT sequence: the
 * iterator stubs (begin / end / != / ++ / *) walk positions 0..N-1 of a sequence of N elements, N any value; element k is the
 * handle ELEM(k), key k the string KEY(k) [the real iterators are thin wrappers over CollectionData::createIterator /
 * CollectionIterator::next / VariantData::asString: coll_core/createIterator, iterator_next, walk_le4; the same loops run with the
 * REAL iterators over lists of <= 3 elements in api_array/array_set_le3 and api_object/object_set_le2].
 * Decides: "destination cleared first, elements copied in order, each exactly once, false on the first failure". */
#ifdef U_SETLOOPS
static RM g_rm;
static VD g_dst;
static RM g_src_rm;
static _Bool g_cleared;
#define ELEM(k) ((VD *)(uintptr_t)(0x10000000ull + 16ull * (k)))
#define KEYP(k) ((char *)(uintptr_t)(0x7000000000ull + 8ull * (k)))
#define KEYSIZE(k) ((unsigned long)((k) * 3 + 1))
void CollectionData__clear__ResourceManager_p(struct CollectionData *self, RM *resources) {
  CHECK(self == &g_dst.content_.asCollection && resources == &g_rm, "C04: what is cleared is the destination, with its own manager");
  CHECK(g_adds == 0 && g_it_pos == 0, "C04: the destination is cleared BEFORE anything is added");
  g_cleared = 1;
  self->head_ = NSLOT; self->tail_ = NSLOT;
}
/* ---- abstract iterators ------------------------------------------------------------------------------------------------------ */
struct JsonArrayConstIterator JsonArrayConst__begin(struct JsonArrayConst *self) { struct JsonArrayConstIterator it; it.iterator_.slot_ = 0; it.iterator_.currentId_ = NSLOT; it.iterator_.nextId_ = NSLOT; it.resources_ = self->resources_; g_it_pos = 0; return it; }
struct JsonArrayConstIterator JsonArrayConst__end(struct JsonArrayConst *self) { struct JsonArrayConstIterator it; it.iterator_.slot_ = 0; it.iterator_.currentId_ = NSLOT; it.iterator_.nextId_ = NSLOT; it.resources_ = 0; return it; }
_Bool JsonArrayConstIterator__op_ne(struct JsonArrayConstIterator *self, struct JsonArrayConstIterator *other) { return g_it_pos < g_N; }
struct JsonArrayConstIterator *JsonArrayConstIterator__op_inc(struct JsonArrayConstIterator *self) { g_it_pos++; return self; }
struct JsonVariantConst JsonArrayConstIterator__op_star(struct JsonArrayConstIterator *self) { struct JsonVariantConst v; v.data_ = ELEM(g_it_pos); v.resources_ = &g_src_rm; return v; }
struct JsonObjectConstIterator JsonObjectConst__begin(struct JsonObjectConst *self) { struct JsonObjectConstIterator it; it.iterator_.slot_ = 0; it.iterator_.currentId_ = NSLOT; it.iterator_.nextId_ = NSLOT; it.resources_ = self->resources_; g_it_pos = 0; return it; }
struct JsonObjectConstIterator JsonObjectConst__end(struct JsonObjectConst *self) { struct JsonObjectConstIterator it; it.iterator_.slot_ = 0; it.iterator_.currentId_ = NSLOT; it.iterator_.nextId_ = NSLOT; it.resources_ = 0; return it; }
_Bool JsonObjectConstIterator__op_ne(struct JsonObjectConstIterator *self, struct JsonObjectConstIterator *other) { return g_it_pos < g_N; }
struct JsonObjectConstIterator *JsonObjectConstIterator__op_inc(struct JsonObjectConstIterator *self) { g_it_pos++; return self; }
struct JsonPairConst JsonObjectConstIterator__op_star(struct JsonObjectConstIterator *self) {
  struct JsonPairConst p;
  p.key_.data_ = KEYP(g_it_pos); p.key_.size_ = KEYSIZE(g_it_pos); p.key_.ownership_ = (unsigned)(g_it_pos & 1);
  p.value_.data_ = ELEM(g_it_pos); p.value_.resources_ = &g_src_rm;
  return p;
}
/* ---- the per-element core routines ------------------------------------------------------------------------------------------- */
_Bool ArrayData__addValue_constJsonVariantConst_r__JsonVariantConst_r_ResourceManager_p(struct ArrayData *self, struct JsonVariantConst *value, RM *resources) {
  CHECK(g_cleared, "C04: the destination is cleared BEFORE anything is added");
  if (!(self == &g_dst.content_.asArray && resources == &g_rm && value->data_ == ELEM(g_adds) && value->resources_ == &g_src_rm && g_adds == g_it_pos)) g_order_ok = 0;
#ifdef CANARY_ARRAY_SET_U
  CHECK(g_order_ok && g_adds != 5, "C04: the k-th add() on the destination receives the k-th element of the source (source order, each element exactly once)");
#else
  CHECK(g_order_ok, "C04: the k-th add() on the destination receives the k-th element of the source (source order, each element exactly once)");
#endif
  g_adds++;
  if (in_bool()) { g_step_failed = 1; resources->overflowed_ = 1; return 0; }
  return 1;
}
static VD g_member_slot;
VD *VariantData__getOrAddMember_JsonStringAdapter(VD *self, struct JsonStringAdapter key, RM *resources) {
  CHECK(g_cleared, "C04: the destination is cleared BEFORE anything is added");
  if (!(self == &g_dst && resources == &g_rm && key._b_SizedRamString.str_ == KEYP(g_adds) && key._b_SizedRamString.size_ == KEYSIZE(g_adds) && key.linked_ == (_Bool)(g_adds & 1) && g_adds == g_it_pos && g_copies == g_adds)) g_order_ok = 0;
#ifdef CANARY_OBJECT_SET_U
  CHECK(g_order_ok && g_adds != 4, "C04: the k-th member created in the destination has the k-th key of the source (same bytes, size, ownership; source order, each exactly once)");
#else
  CHECK(g_order_ok, "C04: the k-th member created in the destination has the k-th key of the source (same bytes, size, ownership; source order, each exactly once)");
#endif
  g_adds++;
  if (in_bool()) { g_step_failed = 1; resources->overflowed_ = 1; g_last_member = 0; return 0; }
  g_last_member = &g_member_slot;
  return &g_member_slot;
}
_Bool copyVariant(struct JsonVariant dst, struct JsonVariantConst src) {
  if (!(dst.data_ == g_last_member && dst.resources_ == &g_rm && src.data_ == ELEM(g_copies) && src.resources_ == &g_src_rm && g_copies + 1 == g_adds && g_copies == g_it_pos)) g_order_ok = 0;
  CHECK(g_order_ok, "C04: the k-th member receives a copy of the k-th value of the source");
  g_copies++;
  if (!dst.data_) return 0;
  if (in_bool()) { g_step_failed = 1; dst.resources_->overflowed_ = 1; return 0; }
  return 1;
}
static void setloops_scene(void) {
  g_N = in_u64(); g_it_pos = 0; g_adds = 0; g_copies = 0; g_step_failed = 0; g_order_ok = 1; g_cleared = 0; g_last_member = 0;
  g_rmp = &g_rm;
  g_rm.overflowed_ = in_bool();
  g_ovf0 = g_rm.overflowed_;
  vd_havoc(&g_dst);
}
void h_array_set_anylen(void) {
  setloops_scene();
  g_dst.type_ = VT_ARRAY;
  _Bool bound = in_bool(), src_bound = in_bool();
  struct JsonArray a; a.data_ = bound ? &g_dst.content_.asArray : (struct ArrayData *)0; a.resources_ = &g_rm;
  struct JsonArrayConst src; src.data_ = src_bound ? (struct ArrayData *)ELEM(1000000) : (struct ArrayData *)0; src.resources_ = &g_src_rm;
  if (!src_bound) g_N = 0; /* an unbound source has no elements */
  _Bool r = JsonArray__set(&a, src);
  COVER(bound && r && g_N > 100000); COVER(bound && !r && g_adds == 3); COVER(!bound); COVER(bound && r && g_N == 0);
  if (!bound) { CHECK(!r && !g_cleared && g_adds == 0, "C04: set() on an unbound array does nothing and returns false"); return; }
  CHECK(g_cleared, "C04: set(src) clears the destination first (an assignment, not an append)");
  CHECK(g_order_ok, "C04: the elements are added in the source's order, each exactly once");
  CHECK(r == !g_step_failed, "C05: set() returns false exactly when an add failed");
  if (r) CHECK(g_adds == g_N && g_it_pos == g_N, "C04: on success EVERY element of the source was added (sources of any length)");
  else CHECK(g_adds == g_it_pos + 1 && g_adds <= g_N, "C05: set() stops at the first failure: nothing is attempted after it");
}
void h_object_set_anylen(void) {
  setloops_scene();
  g_dst.type_ = VT_OBJECT;
  _Bool bound = in_bool(), src_bound = in_bool();
  struct JsonObject o; o.data_ = bound ? &g_dst.content_.asObject : (struct ObjectData *)0; o.resources_ = &g_rm;
  struct JsonObjectConst src; src.data_ = src_bound ? (struct ObjectData *)ELEM(1000000) : (struct ObjectData *)0; src.resources_ = &g_src_rm;
  _Bool r = JsonObject__set(&o, src);
  COVER(bound && src_bound && r && g_N > 100000); COVER(bound && src_bound && !r && g_adds == 3 && g_copies == 3 && !g_ovf0); COVER(bound && src_bound && !r && g_adds == 2 && g_copies == 2 && g_last_member == 0); COVER(!bound || !src_bound); COVER(bound && src_bound && r && g_N == 0);
  if (!bound || !src_bound) { CHECK(!r && !g_cleared && g_adds == 0, "C04: set() with an unbound destination or source does nothing and returns false"); return; }
  CHECK(g_cleared, "C04: set(src) clears the destination first (an assignment, not a merge)");
  CHECK(g_order_ok, "C04: the members are created and filled in the source's order, key then value, each exactly once");
  CHECK(!g_step_failed || !r, "C05: set() returns false when a member could not be created or its value not copied");
  if (r) CHECK(g_adds == g_N && g_copies == g_N && !g_step_failed, "C04: on success EVERY member of the source was copied (sources of any length)");
  else CHECK(g_adds == g_it_pos + 1 && g_copies == g_adds && g_adds <= g_N && (g_step_failed || g_ovf0), "C05: set() stops at the first member whose set() reports failure (an allocation failure, or a document that had already reported one)");
  if (!g_ovf0) CHECK(r == !g_step_failed, "C05/C04: on a document that reported no failure before, set() returns true exactly when every member was copied");
}
#endif /* U_SETLOOPS */

/* =============================================================================================================================
 * unit api_addvalue (modular, class U): ArrayData::addValue<T>(value, resources) for every T the API instantiates, real
 * CollectionData::appendOne, against the contracts of ResourceManager::allocVariant / freeVariant [coll_resmgr/rm_alloc, rm_free],
 * getVariant and VariantRefBase<JsonVariant>::set<T> [api_ref_variant/set_scalar, set_other].
 * C05 (mechanism named by the property): "value is set before the slot is linked; slot released on failure";
 * C19/C06: "slots released ... are reused": LEDGER of slot ids -- every slot obtained from allocVariant is, when addValue returns,
 * either linked into the array or given back with freeVariant, exactly once; none is lost. */
#ifdef U_ADDVALUE
static struct ArrayData g_arr, g_arr0;
static unsigned g_allocs, g_frees, g_sets;
static _Bool g_alloc_failed, g_set_ok, g_set_args_ok, g_set_before_link;
static uint64_t g_set_a; static const void *g_set_p;   /* the value set() received */
#define E_NEW (NS - 1)
struct Slot_VariantData ResourceManager__allocVariant(RM *self) {
  struct Slot_VariantData r;
  CHECK(self == &g_rm, "allocVariant is asked of the array's own manager");
  g_allocs++;
  if (g_allocs > 1 || in_bool()) { g_alloc_failed = 1; self->overflowed_ = 1; r.ptr_ = (VD *)0; r.id_ = NSLOT; return r; }
  vd_havoc(&g_slots[E_NEW]);                 /* whatever the slot held before (a free-list link) ... */
  g_slots[E_NEW].type_ = VT_NULL; g_slots[E_NEW].next_ = NSLOT; /* ... a null, detached VariantData is constructed in it */
  g_slots0[E_NEW] = g_slots[E_NEW];
  r.ptr_ = &g_slots[E_NEW]; r.id_ = g_sid[E_NEW];
  return r;
}
void ResourceManager__freeVariant(RM *self, struct Slot_VariantData v) {
  CHECK(self == &g_rm, "freeVariant is asked of the array's own manager");
  CHECK(v.ptr_ == &g_slots[E_NEW] && v.id_ == g_sid[E_NEW], "C06: what is given back is the (address, id) pair allocVariant handed out");
  CHECK(!g_released[E_NEW], "C06: a slot is released at most once");
  g_released[E_NEW] = 1;
  g_frees++;
  vd_havoc(&g_slots[E_NEW]); g_slots0[E_NEW] = g_slots[E_NEW];
}
/* contract of JsonVariant::set<T>(value): stores the value in the variant it is called on (type_, content_; never next_) and
 * reports it; false when it could not be stored (allocation failure: overflowed raised) */
static _Bool set_contract(struct VariantRefBase_JsonVariant *self, uint64_t a, const void *p) {
  struct JsonVariant *v = (struct JsonVariant *)self;
  g_sets++;
  g_set_args_ok = v->data_ == &g_slots[E_NEW] && v->resources_ == &g_rm && g_slots[E_NEW].type_ == VT_NULL;
  g_set_before_link = g_arr._b_CollectionData.head_ == g_arr0._b_CollectionData.head_ && g_arr._b_CollectionData.tail_ == g_arr0._b_CollectionData.tail_ && g_getv_calls == 0;
  g_set_a = a; g_set_p = p;
  slotid_t keep = g_slots[E_NEW].next_;
  vd_havoc(&g_slots[E_NEW]);
  g_slots[E_NEW].next_ = keep;
  g_set_ok = in_bool();
  if (!g_set_ok) { g_slots[E_NEW].type_ = VT_NULL; g_rm.overflowed_ = 1; }
  g_slots0[E_NEW] = g_slots[E_NEW];
  return g_set_ok;
}
_Bool VariantRefBase_JsonVariant__set__Bool(struct VariantRefBase_JsonVariant *self, _Bool *value) { return set_contract(self, *value, 0); }
_Bool VariantRefBase_JsonVariant__set_signedchar(struct VariantRefBase_JsonVariant *self, signed char *value) { return set_contract(self, (uint64_t)*value, 0); }
_Bool VariantRefBase_JsonVariant__set_uchar(struct VariantRefBase_JsonVariant *self, unsigned char *value) { return set_contract(self, (uint64_t)*value, 0); }
_Bool VariantRefBase_JsonVariant__set_short(struct VariantRefBase_JsonVariant *self, short *value) { return set_contract(self, (uint64_t)*value, 0); }
_Bool VariantRefBase_JsonVariant__set_ushort(struct VariantRefBase_JsonVariant *self, unsigned short *value) { return set_contract(self, (uint64_t)*value, 0); }
_Bool VariantRefBase_JsonVariant__set_int(struct VariantRefBase_JsonVariant *self, int *value) { return set_contract(self, (uint64_t)*value, 0); }
_Bool VariantRefBase_JsonVariant__set_uint(struct VariantRefBase_JsonVariant *self, unsigned int *value) { return set_contract(self, (uint64_t)*value, 0); }
_Bool VariantRefBase_JsonVariant__set_long(struct VariantRefBase_JsonVariant *self, long *value) { return set_contract(self, (uint64_t)*value, 0); }
_Bool VariantRefBase_JsonVariant__set_ulong(struct VariantRefBase_JsonVariant *self, unsigned long *value) { return set_contract(self, (uint64_t)*value, 0); }
_Bool VariantRefBase_JsonVariant__set_float(struct VariantRefBase_JsonVariant *self, float *value) { return set_contract(self, f32_bits(*value), 0); }
_Bool VariantRefBase_JsonVariant__set_double(struct VariantRefBase_JsonVariant *self, double *value) { return set_contract(self, f64_bits(*value), 0); }
_Bool VariantRefBase_JsonVariant__set_constchar(struct VariantRefBase_JsonVariant *self, char *value) { return set_contract(self, 1, value); }
_Bool VariantRefBase_JsonVariant__set_char(struct VariantRefBase_JsonVariant *self, char *value) { return set_contract(self, 2, value); }
_Bool VariantRefBase_JsonVariant__set_JsonString(struct VariantRefBase_JsonVariant *self, struct JsonString *value) { return set_contract(self, value->size_ * 2 + value->ownership_, value->data_); }
_Bool VariantRefBase_JsonVariant__set_SerializedValue_constchar_p(struct VariantRefBase_JsonVariant *self, struct SerializedValue_constchar_p *value) { return set_contract(self, value->size_, value->data_); }
_Bool VariantRefBase_JsonVariant__set_JsonVariantConst(struct VariantRefBase_JsonVariant *self, struct JsonVariantConst *value) { return set_contract(self, (uintptr_t)value->resources_, value->data_); }
_Bool VariantRefBase_JsonVariant__set_JsonVariant(struct VariantRefBase_JsonVariant *self, struct JsonVariant *value) { return set_contract(self, (uintptr_t)value->resources_ + 1, value->data_); }
_Bool VariantRefBase_JsonVariant__set_JsonArrayConst(struct VariantRefBase_JsonVariant *self, struct JsonArrayConst *value) { return set_contract(self, (uintptr_t)value->resources_ + 2, value->data_); }
_Bool VariantRefBase_JsonVariant__set_void_p(struct VariantRefBase_JsonVariant *self, void **value) { return set_contract(self, 3, *value); }

static unsigned g_tail_e; static _Bool g_empty;
static void addvalue_scene(void) {
  store_setup();
  g_allocs = g_frees = g_sets = 0; g_alloc_failed = g_set_ok = g_set_args_ok = g_set_before_link = 0; g_set_a = 0; g_set_p = 0;
  g_rm.overflowed_ = in_bool();
  /* any array: empty, or head = entry 0 and tail = entry 0 or 1 (only head_, tail_ and the tail slot matter to an append) */
  g_empty = in_bool();
  g_tail_e = in_bool() ? 1 : 0;
  __CPROVER_assume(g_slots[g_tail_e].next_ == NSLOT);
  g_arr._b_CollectionData.head_ = g_empty ? NSLOT : g_sid[0];
  g_arr._b_CollectionData.tail_ = g_empty ? NSLOT : g_sid[g_tail_e];
  g_arr0 = g_arr;
  store_snapshot();
}
static void addvalue_post(_Bool r, _Bool ovf0, uint64_t ea, const void *ep) {
  VD *E = &g_slots[E_NEW];
  _Bool linked = g_arr._b_CollectionData.tail_ == g_sid[E_NEW];
  CHECK(g_allocs == 1, "addValue asks the manager for exactly one slot");
  if (g_alloc_failed) {
    CHECK(!r && g_sets == 0 && g_frees == 0, "C05: when no slot can be allocated addValue reports it (false) and attempts nothing else");
    CHECK(g_arr._b_CollectionData.head_ == g_arr0._b_CollectionData.head_ && g_arr._b_CollectionData.tail_ == g_arr0._b_CollectionData.tail_ && store_unchanged_except(0), "C05: the array is unchanged");
    return;
  }
  CHECK(g_sets == 1 && g_set_args_ok, "the value is stored exactly once, by set() on the freshly allocated (null, detached) slot with the array's manager");
  CHECK(g_set_a == ea && g_set_p == ep, "C04: set() receives exactly the value addValue was given, with its type unchanged");
  CHECK(g_set_before_link, "C05: the value is set BEFORE the slot is linked (a failing set() never leaves a half-made element in the list)");
#ifdef CANARY_ADDVALUE
  CHECK(g_allocs == (linked ? 1u : 0u) + g_frees + (g_tail_e == 1 && !g_set_ok), "C19/C06 (ledger of slot ids): every slot obtained from allocVariant is either linked into the array or given back with freeVariant: none is lost");
#else
  CHECK(g_allocs == (linked ? 1u : 0u) + g_frees, "C19/C06 (ledger of slot ids): every slot obtained from allocVariant is either linked into the array or given back with freeVariant: none is lost");
#endif
  if (!g_set_ok) {
    CHECK(!r, "C05: a value that could not be stored is reported (false)");
    CHECK(g_frees == 1 && g_released[E_NEW], "C05/C06/C19: the slot allocated for it is given back with freeVariant, exactly once (it is reused by the next allocation)");
    CHECK(g_arr._b_CollectionData.head_ == g_arr0._b_CollectionData.head_ && g_arr._b_CollectionData.tail_ == g_arr0._b_CollectionData.tail_ && store_unchanged_except(1u << E_NEW), "C05: the array is unchanged (no spurious element)");
  } else {
    CHECK(r && g_frees == 0, "success: true, nothing is released");
    CHECK(linked && E->next_ == NSLOT && vd_same(E, &g_slots0[E_NEW]), "C04: the new element is appended last and holds what set() stored");
    if (g_empty) CHECK(g_arr._b_CollectionData.head_ == g_sid[E_NEW] && store_unchanged_except(0), "C04: first element: head' = id, no other slot written");
    else CHECK(g_arr._b_CollectionData.head_ == g_arr0._b_CollectionData.head_ && g_slots[g_tail_e].next_ == g_sid[E_NEW] && g_slots[g_tail_e].type_ == g_slots0[g_tail_e].type_ && vd_bits(&g_slots[g_tail_e]) == vd_bits(&g_slots0[g_tail_e]) &&
                    store_unchanged_except(1u << g_tail_e), "C04: next(old tail) = id; head_ and the existing elements keep their values");
  }
  CHECK(g_rm.overflowed_ == (ovf0 || g_alloc_failed || (g_sets == 1 && !g_set_ok)), "C05: addValue itself neither raises nor resets the overflowed report");
}
#define H_ADDVALUE(name, fn, DECL, ARG, A, P) \
  void h_addvalue_##name(void) { \
    addvalue_scene(); \
    _Bool ovf0 = g_rm.overflowed_; \
    uint64_t bits = in_u64(); (void)bits; \
    DECL; \
    _Bool r = fn(&g_arr, ARG, &g_rm); \
    COVER(g_alloc_failed); COVER(!g_alloc_failed && !g_set_ok && !g_empty); COVER(r && g_empty); COVER(r && !g_empty && g_tail_e == 1); \
    addvalue_post(r, ovf0, (uint64_t)(A), (const void *)(P)); \
  }
static VD g_srcv; static RM g_src_rm; static char g_text[3] = {'h', 'i', 0};
H_ADDVALUE(bool, ArrayData__addValue_const_Bool_r___Bool_r_ResourceManager_p, _Bool v = bits & 1, &v, v, 0)
H_ADDVALUE(signedchar, ArrayData__addValue_constsignedchar_r__signedchar_r_ResourceManager_p, signed char v = (signed char)bits, &v, v, 0)
H_ADDVALUE(uchar, ArrayData__addValue_constuchar_r__uchar_r_ResourceManager_p, unsigned char v = (unsigned char)bits, &v, v, 0)
H_ADDVALUE(short, ArrayData__addValue_constshort_r__short_r_ResourceManager_p, short v = (short)bits, &v, v, 0)
H_ADDVALUE(ushort, ArrayData__addValue_constushort_r__ushort_r_ResourceManager_p, unsigned short v = (unsigned short)bits, &v, v, 0)
H_ADDVALUE(int, ArrayData__addValue_constint_r__int_r_ResourceManager_p, int v = (int)bits, &v, v, 0)
H_ADDVALUE(uint, ArrayData__addValue_constuint_r__uint_r_ResourceManager_p, unsigned int v = (unsigned int)bits, &v, v, 0)
H_ADDVALUE(long, ArrayData__addValue_constlong_r__long_r_ResourceManager_p, long v = (long)bits, &v, v, 0)
H_ADDVALUE(ulong, ArrayData__addValue_constulong_r__ulong_r_ResourceManager_p, unsigned long v = (unsigned long)bits, &v, v, 0)
H_ADDVALUE(float, ArrayData__addValue_constfloat_r__float_r_ResourceManager_p, float v; { uint32_t w = (uint32_t)bits; memcpy(&v, &w, 4); }, &v, f32_bits(v), 0)
H_ADDVALUE(double, ArrayData__addValue_constdouble_r__double_r_ResourceManager_p, double v; memcpy(&v, &bits, 8), &v, f64_bits(v), 0)
H_ADDVALUE(cstr, ArrayData__addValue_constchar_p_r__char_p_r_ResourceManager_p, char *v = (bits & 1) ? g_text : (char *)0, &v, 1, v)
H_ADDVALUE(chars, ArrayData__addValue_char_p_r__char_p_r_ResourceManager_p, char *v = (bits & 1) ? g_text : (char *)0, &v, 2, v)
H_ADDVALUE(jsonstring, ArrayData__addValue_constJsonString_r__JsonString_r_ResourceManager_p, struct JsonString v; v.data_ = g_text; v.size_ = bits >> 8; v.ownership_ = bits & 1, &v, v.size_ * 2 + v.ownership_, v.data_)
H_ADDVALUE(serialized, ArrayData__addValue_constSerializedValue_constchar_p_r__SerializedValue_constchar_p_r_ResourceManager_p, struct SerializedValue_constchar_p v; v.data_ = g_text; v.size_ = bits, &v, v.size_, v.data_)
H_ADDVALUE(variantconst, ArrayData__addValue_constJsonVariantConst_r__JsonVariantConst_r_ResourceManager_p, struct JsonVariantConst v; v.data_ = (bits & 1) ? &g_srcv : (VD *)0; v.resources_ = &g_src_rm, &v, (uintptr_t)v.resources_, v.data_)
H_ADDVALUE(variant, ArrayData__addValue_constJsonVariant_r__JsonVariant_r_ResourceManager_p, struct JsonVariant v; v.data_ = (bits & 1) ? &g_srcv : (VD *)0; v.resources_ = &g_src_rm, &v, (uintptr_t)v.resources_ + 1, v.data_)
H_ADDVALUE(arrayconst, ArrayData__addValue_constJsonArrayConst_r__JsonArrayConst_r_ResourceManager_p, struct JsonArrayConst v; v.data_ = (bits & 1) ? &g_srcv.content_.asArray : (struct ArrayData *)0; v.resources_ = &g_src_rm, &v, (uintptr_t)v.resources_ + 2, v.data_)
H_ADDVALUE(nullptr, ArrayData__addValue_void_pconst_r__void_p_r_ResourceManager_p, void *v = 0, &v, 3, v)
#endif /* U_ADDVALUE */

/* =============================================================================================================================
 * unit api_object (modular): JsonObject / JsonObjectConst entry points against the contracts of CollectionData::clear
 * [coll_loops/clear_anylen], ObjectData::removeMember / getMember [coll_object/removeMember_le2, getMember_le2, findKey_le2],
 * CollectionData::removePair [coll_remove/removePair], CollectionData::size, VariantData::nesting, VariantData::asString,
 * VariantData::getOrAddMember [coll_dispatch/dispatch, coll_object/getOrAddMember_le2], copyVariant [facade_variant_copy, api_e2e]
 * and ResourceManager::getVariant. */
#ifdef U_OBJECT
static VD g_dst, g_srcv;
static char g_text[3] = {'h', 'i', 0};
static char g_k0[2] = {'a', 0}, g_k1[2] = {'b', 0};
static struct JsonString g_keystr[NS];   /* the string each slot holds when it is a key */
void CollectionData__clear__ResourceManager_p(struct CollectionData *self, RM *resources) {
  log_call(K_collClear, TY_none, self, resources, 0, 0, 0);
  self->head_ = NSLOT; self->tail_ = NSLOT;
}
void CollectionData__removePair(struct CollectionData *self, struct CollectionIterator it, RM *resources) { log_call(K_removePair, TY_none, self, resources, it.currentId_, it.slot_, it.nextId_); }
unsigned long CollectionData__size(struct CollectionData *self, RM *resources) { unsigned long v = in_u64(); log_call(K_collSize, TY_none, self, resources, 0, 0, 0); g_ret = v; return v; }
unsigned long VariantData__nesting__VariantData_p_ResourceManager_p(VD *var, RM *resources) { unsigned long v = in_u64(); log_call(K_nesting, TY_none, var, resources, 0, 0, 0); if (!var) v = 0; g_ret = v; return v; }
/* asString of a key slot: the key it holds (read-only) */
struct JsonString VariantData__asString(VD *self) {
  struct JsonString s; s.data_ = 0; s.size_ = 0; s.ownership_ = 1;
  for (int i = 0; i < NS; i++) if (self == &g_slots[i]) s = g_keystr[i];
  return s;
}
void ObjectData__removeMember_StaticStringAdapter__StaticStringAdapter_ResourceManager_p(struct ObjectData *self, struct StaticStringAdapter key, RM *resources) { log_call(K_objRemoveMember, TY_static, self, resources, 0, key._b_ZeroTerminatedRamString.str_, 0); }
void ObjectData__removeMember_ZeroTerminatedRamString__ZeroTerminatedRamString_ResourceManager_p(struct ObjectData *self, struct ZeroTerminatedRamString key, RM *resources) { log_call(K_objRemoveMember, TY_zt, self, resources, 0, key.str_, 0); }
void ObjectData__removeMember_JsonStringAdapter__JsonStringAdapter_ResourceManager_p(struct ObjectData *self, struct JsonStringAdapter key, RM *resources) { log_call(K_objRemoveMember, TY_jsonstring, self, resources, key._b_SizedRamString.size_, key._b_SizedRamString.str_, key.linked_); }
VD *ObjectData__getMember_StaticStringAdapter__StaticStringAdapter_ResourceManager_p(struct ObjectData *self, struct StaticStringAdapter key, RM *resources) {
  log_call(K_getMember, TY_static, self, resources, 0, key._b_ZeroTerminatedRamString.str_, 0);
  g_ret_p = in_bool() ? &g_slots[0] : (VD *)0; return (VD *)g_ret_p;
}
VD *ObjectData__getMember_JsonStringAdapter__JsonStringAdapter_ResourceManager_p(struct ObjectData *self, struct JsonStringAdapter key, RM *resources) {
  log_call(K_getMember, TY_jsonstring, self, resources, key._b_SizedRamString.size_, key._b_SizedRamString.str_, key.linked_);
  g_ret_p = in_bool() ? &g_slots[0] : (VD *)0; return (VD *)g_ret_p;
}
/* getOrAddMember(key) on the destination: the member's value slot (entries 6, 7 in turn), or null + overflowed */
static unsigned g_members_made;
VD *VariantData__getOrAddMember_JsonStringAdapter(VD *self, struct JsonStringAdapter key, RM *resources) {
  log_call(K_getOrAddMember, TY_jsonstring, self, resources, key._b_SizedRamString.size_, key._b_SizedRamString.str_, key.linked_);
  if (g_members_made >= 2 || in_bool()) { core_alloc_failure(resources); return 0; }
  return &g_slots[6 + g_members_made++];
}
_Bool copyVariant(struct JsonVariant dst, struct JsonVariantConst src) {
  log_call(K_copyVariant, TY_variantconst, dst.data_, dst.resources_, (uint64_t)(uintptr_t)src.resources_, src.data_, 0);
  if (!dst.data_) return 0;
  if (in_bool()) { core_alloc_failure(dst.resources_); return 0; }
  return 1;
}
static void object_scene(void) {
  log_reset();
  store_setup();
  vd_havoc(&g_dst); vd_havoc(&g_srcv);
  g_dst.type_ = VT_OBJECT; g_srcv.type_ = VT_OBJECT;
  g_members_made = 0;
  g_rm.overflowed_ = in_bool();
  for (int i = 0; i < NS; i++) { g_keystr[i].data_ = (i & 2) ? g_k1 : g_k0; g_keystr[i].size_ = in_u64(); g_keystr[i].ownership_ = in_u8() & 1; }
  store_snapshot();
}
void h_object_ops(void) {
  object_scene();
  _Bool bound = in_bool();
  struct JsonObject o;
  o.data_ = bound ? &g_dst.content_.asObject : (struct ObjectData *)0; o.resources_ = &g_rm;
  struct ObjectData *O = o.data_;
  VD dst0 = g_dst;
  _Bool ovf0 = g_rm.overflowed_;
  unsigned sel = in_u8();
  __CPROVER_assume(sel < 17);
  _Bool ok = 1, log_ok = 1;
  unsigned n_exp = 0;
  struct JsonString jk; jk.data_ = g_text; jk.size_ = in_u64(); jk.ownership_ = in_u8() & 1;
  switch (sel) {
    case 0: { JsonObject__remove_constchar(&o, g_text); n_exp = bound; log_ok = !bound || log_is(0, K_objRemoveMember, TY_static, O, &g_rm, 0, g_text, 0); } break;
    case 1: { JsonObject__remove_char(&o, g_text); n_exp = bound; log_ok = !bound || log_is(0, K_objRemoveMember, TY_zt, O, &g_rm, 0, g_text, 0); } break;
    case 2: { JsonObject__remove_JsonString(&o, &jk); n_exp = bound; log_ok = !bound || log_is(0, K_objRemoveMember, TY_jsonstring, O, &g_rm, jk.size_, g_text, jk.ownership_ == 1); } break;
    case 3: { struct JsonObjectIterator it; it.iterator_.slot_ = &g_slots[1]; it.iterator_.currentId_ = g_sid[1]; it.iterator_.nextId_ = (slotid_t)in_u32(); it.resources_ = &g_rm;
              JsonObject__remove(&o, it);
              n_exp = bound; log_ok = !bound || log_is(0, K_removePair, TY_none, O, &g_rm, g_sid[1], &g_slots[1], it.iterator_.nextId_); } break;
    case 4: { JsonObject__clear(&o); n_exp = bound; log_ok = !bound || log_is(0, K_collClear, TY_none, O, &g_rm, 0, 0, 0); ok = !bound || (g_dst.type_ == VT_OBJECT && g_dst.content_.asCollection.head_ == NSLOT); } break;
    case 5: { struct MemberProxy_JsonObject_constchar_p p = JsonObject__op_index_constchar(&o, g_text); ok = p.upstream_.data_ == O && p.upstream_.resources_ == &g_rm && p.key_ == g_text; } break;
    case 6: { struct MemberProxy_JsonObject_char_p p = JsonObject__op_index_char(&o, g_text); ok = p.upstream_.data_ == O && p.upstream_.resources_ == &g_rm && p.key_ == g_text; } break;
    case 7: { struct MemberProxy_JsonObject_JsonString p = JsonObject__op_index_JsonString(&o, &jk); ok = p.upstream_.data_ == O && p.upstream_.resources_ == &g_rm && p.key_.data_ == g_text && p.key_.size_ == jk.size_ && p.key_.ownership_ == jk.ownership_; } break;
    case 8: { unsigned long r = JsonObject__size(&o); n_exp = bound; log_ok = !bound || log_is(0, K_collSize, TY_none, O, &g_rm, 0, 0, 0); ok = r == (bound ? g_ret / 2 : 0); } break; /* a member takes two slots: key and value */
    case 9: { unsigned long r = JsonObject__nesting(&o); n_exp = 1; log_ok = log_is(0, K_nesting, TY_none, bound ? &g_dst : (VD *)0, &g_rm, 0, 0, 0); ok = r == g_ret; } break;
    case 10: ok = JsonObject__isNull(&o) == !bound; break;
    case 11: ok = JsonObject__op_conv__Bool(&o) == bound; break;
    case 12: { struct JsonVariant r = JsonObject__op_conv_JsonVariant(&o); ok = r.data_ == (bound ? &g_dst : (VD *)0) && r.resources_ == &g_rm; } break;
    case 13: { struct JsonVariantConst r = JsonObject__op_conv_JsonVariantConst(&o); ok = r.data_ == (bound ? &g_dst : (VD *)0) && r.resources_ == &g_rm; } break;
    case 14: { struct JsonObjectConst r = JsonObject__op_conv_JsonObjectConst(&o); ok = r.data_ == O && r.resources_ == &g_rm; } break;
    case 15: { unsigned e[2] = {2, 3}; _Bool empty = in_bool(); store_link(&g_dst.content_.asCollection, e, empty ? 0 : 2); dst0 = g_dst; store_snapshot();
               struct JsonObjectIterator it = JsonObject__begin(&o);
               ok = it.iterator_.slot_ == ((bound && !empty) ? &g_slots[2] : (VD *)0) && (!(bound && !empty) || (it.iterator_.currentId_ == g_sid[2] && it.iterator_.nextId_ == g_sid[3] && it.resources_ == &g_rm)); } break;
    default: { struct JsonObjectIterator it = JsonObject__end(&o); ok = it.iterator_.slot_ == 0; } break;
  }
  COVER(sel == 0 && bound); COVER(sel == 2 && !bound); COVER(sel == 3 && bound); COVER(sel == 4 && bound); COVER(sel == 7); COVER(sel == 8 && bound && g_ret == 7); COVER(sel == 9 && !bound); COVER(sel == 15 && bound && g_getv_calls == 1); COVER(sel == 14);
#ifdef CANARY_OBJECT_OPS
  CHECK(g_n == n_exp && log_ok && sel != 1, "C04: each entry point hands this object, this manager and its argument unchanged (same key bytes, size and ownership) to the matching core routine, once, and calls nothing else (nothing at all for an unbound object)");
#else
  CHECK(g_n == n_exp && log_ok, "C04: each entry point hands this object, this manager and its argument unchanged (same key bytes, size and ownership) to the matching core routine, once, and calls nothing else (nothing at all for an unbound object)");
#endif
  CHECK(ok, "C04: the answer is the core's (size() counts members = slots / 2); handles and proxies designate this object, this manager and the given key");
  if (sel >= 5) CHECK(vd_same(&g_dst, &dst0) && store_unchanged_except(0) && !g_fail_now && g_rm.overflowed_ == ovf0, "C04/C06: read-only entry points (and making a proxy) change nothing");
  if (sel >= 5 && sel != 15) CHECK(g_getv_calls == 0, "C06: no slot is looked up");
}

/* set(src): "the destination is cleared first, the members are copied in order (key, then value), false on the first failure" */
#ifndef SET_ALIAS
#define SET_ALIAS 0
#endif
void h_object_set(void) {
  object_scene();
  _Bool bound = in_bool();
  struct JsonObject o;
  o.data_ = bound ? &g_dst.content_.asObject : (struct ObjectData *)0; o.resources_ = &g_rm;
  unsigned n = in_u8();   /* members of the source */
  __CPROVER_assume(n <= 2);
  const unsigned se[4] = {0, 1, 2, 3}, de[4] = {4, 5, 4, 5};
  struct JsonObjectConst src;
#if SET_ALIAS
  __CPROVER_assume(bound && n >= 1);
  store_link(&g_dst.content_.asCollection, se, 2 * n);
  src.data_ = o.data_; src.resources_ = &g_rm;
  _Bool src_bound = 1;
#else
  _Bool src_bound = in_bool();
  _Bool had = in_bool();
  store_link(&g_srcv.content_.asCollection, se, 2 * n);
  store_link(&g_dst.content_.asCollection, de, had ? 2 : 0);
  src.data_ = src_bound ? &g_srcv.content_.asObject : (struct ObjectData *)0; src.resources_ = &g_rm;
#endif
  store_snapshot();
  VD srcv0 = g_srcv;
  _Bool ovf0 = g_rm.overflowed_;
  _Bool r = JsonObject__set(&o, src);
#if SET_ALIAS
  COVER(n == 2); COVER(n == 1 && r);
#else
  COVER(bound && src_bound && n == 2 && r); COVER(bound && src_bound && n == 2 && !r && g_n == 3 && !ovf0); COVER(!bound); COVER(bound && !src_bound); COVER(bound && src_bound && n == 0 && r);
#endif
  if (!bound || !src_bound) { CHECK(g_n == 0 && !r, "C04: set() with an unbound destination or source does nothing and returns false"); return; }
  CHECK(g_n >= 1 && log_is(0, K_collClear, TY_none, &g_dst.content_.asCollection, &g_rm, 0, 0, 0), "C04: set(src) first clears the destination (an assignment, not a merge): CollectionData::clear of this object, before anything is added");
  /* expected: for member k (key slot se[2k], value slot se[2k+1]): getOrAddMember(dst, key_k), copyVariant(member, value_k); stop after the first pair that reports failure */
  unsigned pairs = 0;
  _Bool order_ok = 1;
  unsigned i = 1;
  for (unsigned k = 0; k < 2; k++)
    if (i < g_n) {
      const struct JsonString *ks = &g_keystr[se[2 * k]];
      if (!log_is(i, K_getOrAddMember, TY_jsonstring, &g_dst, &g_rm, ks->size_, ks->data_, ks->ownership_ == 1)) order_ok = 0;
      i++;
      if (i < g_n && g_log[i].k == K_copyVariant) {
        if (!(g_log[i].res == &g_rm && g_log[i].p == &g_slots[se[2 * k + 1]] && g_log[i].a == (uint64_t)(uintptr_t)&g_rm && (g_log[i].self == &g_slots[6] || g_log[i].self == &g_slots[7] || g_log[i].self == 0))) order_ok = 0;
        i++;
      } else order_ok = 0; /* every member is followed by exactly one copy of its value (into an unbound handle when the member could not be created) */
      pairs++;
    }
#if SET_ALIAS
  CHECK(pairs == n && order_ok && i == g_n, "C04: o.set(o): when the copy starts the source still holds its members (the destination must not be cleared before its own part is read)");
#else
#ifdef CANARY_OBJECT_SET
  CHECK(order_ok && i == g_n && pairs <= n && (pairs == n || g_fail_now || ovf0) && !(n == 2 && pairs == 1 && g_fail_now), "C04: then every member of the source is created in the destination under the same key (bytes, size, ownership) and receives a copy of the source's value, in the source's order, each exactly once");
#else
  CHECK(order_ok && i == g_n && pairs <= n && (pairs == n || g_fail_now || ovf0), "C04: then every member of the source is created in the destination under the same key (bytes, size, ownership) and receives a copy of the source's value, in the source's order, each exactly once");
#endif
#endif
  CHECK(!g_fail_now || !r, "C05: set() returns false when an allocation failed during the copy");
  CHECK(ovf0 || r == !g_fail_now, "C05/C04: on a document that reported no failure before, set() returns true exactly when every member was copied");
  CHECK(r || pairs <= 1 || !ovf0 || g_fail_now, "C05: nothing is attempted after the first reported failure");
  CHECK(vd_same(&g_srcv, &srcv0) || SET_ALIAS, "C04: the source object is untouched");
}

/* JsonObjectConst: operator[], size, nesting, isNull, conversions, begin/end -- all read-only */
void h_object_const_ops(void) {
  object_scene();
  _Bool bound = in_bool();
  struct JsonObjectConst o;
  o.data_ = bound ? &g_dst.content_.asObject : (struct ObjectData *)0; o.resources_ = &g_rm;
  VD dst0 = g_dst;
  _Bool ovf0 = g_rm.overflowed_;
  unsigned sel = in_u8();
  __CPROVER_assume(sel < 9);
  _Bool ok = 1, log_ok = 1;
  unsigned n_exp = 0;
  struct JsonString jk; jk.data_ = g_text; jk.size_ = in_u64(); jk.ownership_ = in_u8() & 1;
  switch (sel) {
    case 0: { struct JsonVariantConst r = JsonObjectConst__op_index_constchar(&o, g_text); n_exp = bound; log_ok = !bound || log_is(0, K_getMember, TY_static, o.data_, &g_rm, 0, g_text, 0); ok = r.resources_ == &g_rm && r.data_ == (bound ? (VD *)g_ret_p : (VD *)0); } break;
    case 1: { struct JsonVariantConst r = JsonObjectConst__op_index_JsonString(&o, &jk); n_exp = bound; log_ok = !bound || log_is(0, K_getMember, TY_jsonstring, o.data_, &g_rm, jk.size_, g_text, jk.ownership_ == 1); ok = r.resources_ == &g_rm && r.data_ == (bound ? (VD *)g_ret_p : (VD *)0); } break;
    case 2: { unsigned long r = JsonObjectConst__size(&o); n_exp = bound; log_ok = !bound || log_is(0, K_collSize, TY_none, o.data_, &g_rm, 0, 0, 0); ok = r == (bound ? g_ret / 2 : 0); } break;
    case 3: { unsigned long r = JsonObjectConst__nesting(&o); n_exp = 1; log_ok = log_is(0, K_nesting, TY_none, bound ? &g_dst : (VD *)0, &g_rm, 0, 0, 0); ok = r == g_ret; } break;
    case 4: ok = JsonObjectConst__isNull(&o) == !bound; break;
    case 5: ok = JsonObjectConst__op_conv__Bool(&o) == bound; break;
    case 6: { struct JsonVariantConst r = JsonObjectConst__op_conv_JsonVariantConst(&o); ok = r.data_ == (bound ? &g_dst : (VD *)0) && r.resources_ == &g_rm; } break;
    case 7: { unsigned e[2] = {2, 3}; _Bool empty = in_bool(); store_link(&g_dst.content_.asCollection, e, empty ? 0 : 2); dst0 = g_dst; store_snapshot();
              struct JsonObjectConstIterator it = JsonObjectConst__begin(&o);
              ok = it.iterator_.slot_ == ((bound && !empty) ? &g_slots[2] : (VD *)0) && (!(bound && !empty) || (it.iterator_.currentId_ == g_sid[2] && it.resources_ == &g_rm)); } break;
    default: { struct JsonObjectConstIterator it = JsonObjectConst__end(&o); ok = it.iterator_.slot_ == 0; } break;
  }
  COVER(sel == 0 && bound && g_ret_p != 0); COVER(sel == 1 && bound); COVER(sel == 2 && !bound); COVER(sel == 3 && bound); COVER(sel == 7 && bound && g_getv_calls == 1);
#ifdef CANARY_OBJECT_CONST
  CHECK(g_n == n_exp && log_ok && sel != 2, "C04/C06: a read-only entry point asks the matching read-only core routine about this object (same key), once, and calls nothing else");
#else
  CHECK(g_n == n_exp && log_ok, "C04/C06: a read-only entry point asks the matching read-only core routine about this object (same key), once, and calls nothing else");
#endif
  CHECK(ok, "C04: the answer is the core's; handles designate this object and its manager");
  CHECK(vd_same(&g_dst, &dst0) && store_unchanged_except(0) && !g_fail_now && g_rm.overflowed_ == ovf0, "C04/C06: read-only entry points change nothing");
}
#endif /* U_OBJECT */

/* =============================================================================================================================
 * units api_doc_set, api_strkind (modular, class U): WHICH string storage path a wrapper selects for each SOURCE KIND.
 * C14: "a string given as a string literal or const char* (kept by address), or as char*, char[], ... JsonString ... (copied)".
 * The overload is chosen at the user's call site (template deduction on the argument's type), so each source kind is a call in
 * tu/api.cpp (namespace api, functions sk_*); the obligation runs the lowered call down to the core routine and reads, in the call
 * log, the ADAPTER the string arrived with:
 *      ZeroTerminatedRamString  -> VariantData::setString copies it (saveString)        [var_setstring_e2e_cstr/setstring_cstr_copied]
 *      StaticStringAdapter      -> VariantData::setString keeps the address (setLinkedString) [var_setstring/setstring_linked]
 *      JsonStringAdapter        -> copies or keeps according to JsonString::isLinked()   [var_setstring_e2e/setstring_jsonstring_*]
 * and for array elements the addValue instantiation (char*& -> set<char>(char*) -> copy; const char*& -> set<const char> -> address)
 * [api_addvalue/addvalue_chars, addvalue_cstr; api_ref_variant/set_other]. */
#ifdef U_STRKIND
static struct JsonDocument g_doc;
static RM g_rm;
static VD g_A, g_up, g_member;
static char g_buf[8];                 /* the caller's MUTABLE buffer (char[8] / char*) */
static char g_ctext[4] = {'c', 's', 't', 0}; /* a string the caller promises not to change (const char*) */
static char g_key[2] = {'k', 0};
void JsonDocument__clear(struct JsonDocument *self) { log_call(K_docClear, TY_none, self, 0, 0, 0, 0); self->data_.type_ = VT_NULL; self->resources_.overflowed_ = 0; } /* [facade_doc_e2e/doc_clear_dtor] */
void VariantData__clear__ResourceManager_p(VD *self, RM *resources) { log_call(K_clear, TY_none, self, resources, 0, 0, 0); self->type_ = VT_NULL; }
static _Bool sk_setstring(VD *self, unsigned ty, const char *str, uint64_t size, _Bool linked, RM *resources) {
  log_call(K_setString, ty, self, resources, size, str, linked);
  if (!str) return 0;
  if (!linked && in_bool()) { core_alloc_failure(resources); return 0; }
  self->type_ = linked ? VT_LINKED : VT_OWNED;
  return 1;
}
_Bool VariantData__setString_StaticStringAdapter__StaticStringAdapter_ResourceManager_p(VD *self, struct StaticStringAdapter value, RM *resources) { return sk_setstring(self, TY_static, value._b_ZeroTerminatedRamString.str_, 0, 1, resources); }
_Bool VariantData__setString_ZeroTerminatedRamString__ZeroTerminatedRamString_ResourceManager_p(VD *self, struct ZeroTerminatedRamString value, RM *resources) { return sk_setstring(self, TY_zt, value.str_, 0, 0, resources); }
#ifdef SK_DOC
_Bool VariantData__setString_JsonStringAdapter__JsonStringAdapter_ResourceManager_p(VD *self, struct JsonStringAdapter value, RM *resources) { return sk_setstring(self, TY_jsonstring, value._b_SizedRamString.str_, value._b_SizedRamString.size_, value.linked_, resources); }
#endif
#ifdef SK_REST
VD *VariantData__getOrAddMember_StaticStringAdapter(VD *self, struct StaticStringAdapter key, RM *resources) { log_call(K_getOrAddMember, TY_static, self, resources, 0, key._b_ZeroTerminatedRamString.str_, 1); return &g_member; }
VD *VariantData__getOrAddMember_ZeroTerminatedRamString(VD *self, struct ZeroTerminatedRamString key, RM *resources) { log_call(K_getOrAddMember, TY_zt, self, resources, 0, key.str_, 0); return &g_member; }
VD *VariantData__getOrAddMember_JsonStringAdapter(VD *self, struct JsonStringAdapter key, RM *resources) { log_call(K_getOrAddMember, TY_jsonstring, self, resources, key._b_SizedRamString.size_, key._b_SizedRamString.str_, key.linked_); return &g_member; }
VD *VariantData__getOrAddElement(VD *self, unsigned long index, RM *resources) { log_call(K_getOrAddElement, TY_none, self, resources, index, 0, 0); return &g_member; }
_Bool VariantData__setInteger_int(VD *self, int value, RM *resources) { log_call(K_setInteger, TY_int, self, resources, (uint64_t)value, 0, 0); self->type_ = VT_INT32; return 1; }
_Bool ArrayData__addValue_char_p_r__char_p_r_ResourceManager_p(struct ArrayData *self, char **value, RM *resources) { log_call(K_addValue, TY_cstr_copied, self, resources, 0, *value, 0); return 1; }
_Bool ArrayData__addValue_constchar_p_r__char_p_r_ResourceManager_p(struct ArrayData *self, char **value, RM *resources) { log_call(K_addValue, TY_cstr, self, resources, 0, *value, 0); return 1; }
#endif
static void sk_scene(void) {
  log_reset();
  vd_havoc(&g_A); vd_havoc(&g_up); vd_havoc(&g_member); vd_havoc(&g_doc.data_);
  g_doc.resources_.overflowed_ = in_bool(); g_rm.overflowed_ = in_bool();
  for (unsigned i = 0; i < 7; i++) g_buf[i] = in_char();
  g_buf[7] = 0;
}
/* is p the literal "lit" of the call site? */
static _Bool is_lit(const void *p) { const char *c = (const char *)p; return c != 0 && c[0] == 'l' && c[1] == 'i' && c[2] == 't' && c[3] == 0; }

#ifdef SK_DOC
/* JsonDocument::set(x): the document is cleared, then x goes to the root through the string routine of its source kind */
static _Bool doc_set_prefix_ok(void) {
  VD *root = &g_doc.data_; RM *R = &g_doc.resources_;
  return g_n == 4 && log_is(0, K_docClear, TY_none, &g_doc, 0, 0, 0, 0) && log_is(1, K_clear, TY_none, root, R, 0, 0, 0) && log_is(2, K_clear, TY_none, root, R, 0, 0, 0) &&
         g_log[3].k == K_setString && g_log[3].self == root && g_log[3].res == R;
}
void h_sk_doc_set_array(void) {
  sk_scene();
  _Bool r = api__sk_doc_set_array(&g_doc, &g_buf);          /* char buf[8]; doc.set(buf); */
  COVER(r); COVER(g_buf[0] == 'x' && g_buf[1] == 0);
  CHECK(doc_set_prefix_ok(), "C04: doc.set(x) clears the document, then hands x to one string routine on the root, with the document's manager");
  CHECK(g_log[3].p == (const void *)g_buf, "C14: the string routine receives the caller's buffer");
#ifdef CANARY_SK_DOC_ARRAY
  CHECK(g_log[3].ty == TY_zt && g_log[3].b == 0 && g_buf[0] != 'x', "C14: a char[] source is copied (same storage path as char*)");
#else
  CHECK(g_log[3].ty == TY_zt && g_log[3].b == 0, "C14: a char[] source is copied (same storage path as char*)");
#endif
  CHECK(!g_fail_now || !r, "C05: an allocation failure while storing is reported");
}
void h_sk_doc_set_other(void) {
  sk_scene();
  unsigned sel = in_u8();
  __CPROVER_assume(sel < 5);
  _Bool r = 0, ok = 0;
  struct JsonString js; js.data_ = g_buf; js.size_ = in_u64(); js.ownership_ = in_u8() & 1; /* 0 Copied, 1 Linked */
  switch (sel) {
    case 0: r = api__sk_doc_set_ptr(&g_doc, g_buf); ok = g_log[3].ty == TY_zt && g_log[3].p == (const void *)g_buf && g_log[3].b == 0; break;            /* char* : copied */
    case 1: r = api__sk_doc_set_cptr(&g_doc, g_ctext); ok = g_log[3].ty == TY_static && g_log[3].p == (const void *)g_ctext && g_log[3].b == 1; break;   /* const char* : kept by address */
    case 2: r = api__sk_doc_set_literal(&g_doc); ok = g_log[3].ty == TY_static && is_lit(g_log[3].p) && g_log[3].b == 1; break;                          /* literal : kept by address */
    case 3: js.ownership_ = 0; r = api__sk_doc_set_jsonstring(&g_doc, js); ok = g_log[3].ty == TY_jsonstring && g_log[3].p == (const void *)g_buf && g_log[3].a == js.size_ && g_log[3].b == 0; break; /* JsonString Copied */
    default: js.ownership_ = 1; r = api__sk_doc_set_jsonstring(&g_doc, js); ok = g_log[3].ty == TY_jsonstring && g_log[3].p == (const void *)g_buf && g_log[3].a == js.size_ && g_log[3].b == 1; break; /* JsonString Linked */
  }
  COVER(sel == 0 && r); COVER(sel == 1); COVER(sel == 2 && r); COVER(sel == 3 && !r); COVER(sel == 4);
  CHECK(doc_set_prefix_ok(), "C04: doc.set(x) clears the document, then hands x to one string routine on the root, with the document's manager");
#ifdef CANARY_SK_DOC_OTHER
  CHECK(ok && sel != 1, "C14: char* is copied; const char* and string literals are kept by address; a JsonString is copied or kept as it says (same bytes, same size)");
#else
  CHECK(ok, "C14: char* is copied; const char* and string literals are kept by address; a JsonString is copied or kept as it says (same bytes, same size)");
#endif
  CHECK(!g_fail_now || !r, "C05: an allocation failure while storing is reported");
}
#endif /* SK_DOC */

#ifdef SK_REST
/* v.set(x), doc[k].set(x), doc[k] = x, doc[i].set(x), doc[i] = x */
void h_sk_values(void) {
  sk_scene();
  unsigned sel = in_u8();
  __CPROVER_assume(sel < 17);
  unsigned long idx = in_u64();
  struct JsonVariant v; v.data_ = &g_A; v.resources_ = &g_rm;
  unsigned want = TY_none; const void *wp = 0; _Bool lit = 0;
  unsigned pre = 0; /* lookups before the store */
  VD *T = &g_member; RM *R = &g_doc.resources_;
#define WANT_COPY(P) do { want = TY_zt; wp = (P); } while (0)
#define WANT_LINK(P) do { want = TY_static; wp = (P); } while (0)
  switch (sel) {
    case 0: api__sk_variant_set_array(v, &g_buf); WANT_COPY(g_buf); T = &g_A; R = &g_rm; break;
    case 1: api__sk_variant_set_ptr(v, g_buf); WANT_COPY(g_buf); T = &g_A; R = &g_rm; break;
    case 2: api__sk_variant_set_cptr(v, g_ctext); WANT_LINK(g_ctext); T = &g_A; R = &g_rm; break;
    case 3: api__sk_variant_set_literal(v); want = TY_static; lit = 1; T = &g_A; R = &g_rm; break;
    case 4: api__sk_member_set_array(&g_doc, g_key, &g_buf); WANT_COPY(g_buf); pre = 1; break;
    case 5: api__sk_member_set_ptr(&g_doc, g_key, g_buf); WANT_COPY(g_buf); pre = 1; break;
    case 6: api__sk_member_set_cptr(&g_doc, g_key, g_ctext); WANT_LINK(g_ctext); pre = 1; break;
    case 7: api__sk_member_set_literal(&g_doc, g_key); want = TY_static; lit = 1; pre = 1; break;
    case 8: api__sk_member_assign_array(&g_doc, g_key, &g_buf); WANT_COPY(g_buf); pre = 1; break;
    case 9: api__sk_member_assign_ptr(&g_doc, g_key, g_buf); WANT_COPY(g_buf); pre = 1; break;
    case 10: api__sk_member_assign_cptr(&g_doc, g_key, g_ctext); WANT_LINK(g_ctext); pre = 1; break;
    case 11: api__sk_member_assign_literal(&g_doc, g_key); want = TY_static; lit = 1; pre = 1; break;
    case 12: api__sk_element_set_array(&g_doc, idx, &g_buf); WANT_COPY(g_buf); pre = 2; break;
    case 13: api__sk_element_set_ptr(&g_doc, idx, g_buf); WANT_COPY(g_buf); pre = 2; break;
    case 14: api__sk_element_set_cptr(&g_doc, idx, g_ctext); WANT_LINK(g_ctext); pre = 2; break;
    case 15: api__sk_element_assign_array(&g_doc, idx, &g_buf); WANT_COPY(g_buf); pre = 2; break;
    default: api__sk_element_assign_literal(&g_doc, idx); want = TY_static; lit = 1; pre = 2; break;
  }
  unsigned base = pre ? 1 : 0;
  COVER(sel == 0); COVER(sel == 3); COVER(sel == 8); COVER(sel == 11); COVER(sel == 12); COVER(sel == 16); COVER(sel == 6);
  if (pre == 1) CHECK(log_is(0, K_getOrAddMember, TY_static, &g_doc.data_, R, 0, g_key, 1), "the member is reached (or created) under the caller's key");
  if (pre == 2) CHECK(log_is(0, K_getOrAddElement, TY_none, &g_doc.data_, R, idx, 0, 0), "the element is reached (or created) at the caller's index");
  CHECK(g_n == base + 2 && log_is(base, K_clear, TY_none, T, R, 0, 0, 0) && g_log[base + 1].k == K_setString && g_log[base + 1].self == T && g_log[base + 1].res == R,
        "C04: the value is cleared and x goes to one string routine on it, nothing else");
#ifdef CANARY_SK_VALUES
  CHECK(g_log[base + 1].ty == want && (lit ? is_lit(g_log[base + 1].p) : g_log[base + 1].p == wp) && sel != 9,
        "C14: set(x) / operator=(x): a char[] or char* source is copied, a const char* or string literal is kept by address (the caller's bytes, unchanged)");
#else
  CHECK(g_log[base + 1].ty == want && (lit ? is_lit(g_log[base + 1].p) : g_log[base + 1].p == wp),
        "C14: set(x) / operator=(x): a char[] or char* source is copied, a const char* or string literal is kept by address (the caller's bytes, unchanged)");
#endif
}
/* arr.add(x), doc.add(x) */
void h_sk_adds(void) {
  sk_scene();
  unsigned sel = in_u8();
  __CPROVER_assume(sel < 8);
  g_up.type_ = VT_ARRAY; g_doc.data_.type_ = VT_ARRAY;
  struct JsonArray a; a.data_ = &g_up.content_.asArray; a.resources_ = &g_rm;
  unsigned want = TY_none; const void *wp = 0; _Bool lit = 0, r = 0;
  const void *arr = sel < 4 ? (const void *)&g_up.content_.asArray : (const void *)&g_doc.data_.content_.asArray;
  RM *R = sel < 4 ? &g_rm : &g_doc.resources_;
  switch (sel) {
    case 0: r = api__sk_array_add_array(a, &g_buf); want = TY_cstr_copied; wp = g_buf; break;
    case 1: r = api__sk_array_add_ptr(a, g_buf); want = TY_cstr_copied; wp = g_buf; break;
    case 2: r = api__sk_array_add_cptr(a, g_ctext); want = TY_cstr; wp = g_ctext; break;
    case 3: r = api__sk_array_add_literal(a); want = TY_cstr; lit = 1; break;
    case 4: r = api__sk_docadd_array(&g_doc, &g_buf); want = TY_cstr_copied; wp = g_buf; break;
    case 5: r = api__sk_docadd_ptr(&g_doc, g_buf); want = TY_cstr_copied; wp = g_buf; break;
    case 6: r = api__sk_docadd_cptr(&g_doc, g_ctext); want = TY_cstr; wp = g_ctext; break;
    default: r = api__sk_docadd_literal(&g_doc); want = TY_cstr; lit = 1; break;
  }
  COVER(sel == 0 && r); COVER(sel == 3); COVER(sel == 4); COVER(sel == 7);
  CHECK(g_n == 1 && g_log[0].k == K_addValue && g_log[0].self == arr && g_log[0].res == R && r, "C04: add(x) hands x to ArrayData::addValue on this array with its manager, once");
#ifdef CANARY_SK_ADDS
  CHECK(g_log[0].ty == want && (lit ? is_lit(g_log[0].p) : g_log[0].p == wp) && sel != 5,
        "C14: add(x): a char[] or char* source takes the copying instantiation (addValue<char*&>), a const char* or string literal the address-keeping one (addValue<const char*&>)");
#else
  CHECK(g_log[0].ty == want && (lit ? is_lit(g_log[0].p) : g_log[0].p == wp),
        "C14: add(x): a char[] or char* source takes the copying instantiation (addValue<char*&>), a const char* or string literal the address-keeping one (addValue<const char*&>)");
#endif
}
/* doc[x], obj[x], variant[x] as the KEY of a member that is created: the key is stored like a value */
void h_sk_keys(void) {
  sk_scene();
  unsigned sel = in_u8();
  __CPROVER_assume(sel < 14);
  g_up.type_ = VT_OBJECT;
  struct JsonObject o; o.data_ = &g_up.content_.asObject; o.resources_ = &g_rm;
  struct JsonVariant v; v.data_ = &g_A; v.resources_ = &g_rm;
  struct JsonString js; js.data_ = g_buf; js.size_ = in_u64(); js.ownership_ = in_u8() & 1;
  unsigned want = TY_none; const void *wp = 0; _Bool lit = 0, r = 0; uint64_t wa = 0, wb = 0;
  VD *base = sel < 5 ? &g_doc.data_ : sel < 10 ? &g_up : &g_A;
  RM *R = sel < 5 ? &g_doc.resources_ : &g_rm;
  switch (sel) {
    case 0: r = api__sk_dockey_array(&g_doc, &g_buf); want = TY_zt; wp = g_buf; break;
    case 1: r = api__sk_dockey_ptr(&g_doc, g_buf); want = TY_zt; wp = g_buf; break;
    case 2: r = api__sk_dockey_cptr(&g_doc, g_ctext); want = TY_static; wp = g_ctext; wb = 1; break;
    case 3: r = api__sk_dockey_literal(&g_doc); want = TY_static; lit = 1; wb = 1; break;
    case 4: r = api__sk_dockey_jsonstring(&g_doc, js); want = TY_jsonstring; wp = g_buf; wa = js.size_; wb = js.ownership_ == 1; break;
    case 5: r = api__sk_objkey_array(o, &g_buf); want = TY_zt; wp = g_buf; break;
    case 6: r = api__sk_objkey_ptr(o, g_buf); want = TY_zt; wp = g_buf; break;
    case 7: r = api__sk_objkey_cptr(o, g_ctext); want = TY_static; wp = g_ctext; wb = 1; break;
    case 8: r = api__sk_objkey_literal(o); want = TY_static; lit = 1; wb = 1; break;
    case 9: r = api__sk_objkey_jsonstring(o, js); want = TY_jsonstring; wp = g_buf; wa = js.size_; wb = js.ownership_ == 1; break;
    case 10: r = api__sk_varkey_array(v, &g_buf); want = TY_zt; wp = g_buf; break;
    case 11: r = api__sk_varkey_ptr(v, g_buf); want = TY_zt; wp = g_buf; break;
    case 12: r = api__sk_varkey_cptr(v, g_ctext); want = TY_static; wp = g_ctext; wb = 1; break;
    default: r = api__sk_varkey_literal(v); want = TY_static; lit = 1; wb = 1; break;
  }
  COVER(sel == 0 && r); COVER(sel == 4 && wb == 0); COVER(sel == 9 && wb == 1); COVER(sel == 8); COVER(sel == 10); COVER(sel == 13);
  CHECK(g_n == 3 && g_log[0].k == K_getOrAddMember && g_log[0].self == base && g_log[0].res == R && log_is(1, K_clear, TY_none, &g_member, R, 0, 0, 0) && log_is(2, K_setInteger, TY_int, &g_member, R, 1, 0, 0) && r,
        "C04: x[key].set(1) creates (or finds) the member of this value under the key, then stores 1 in it");
#ifdef CANARY_SK_KEYS
  CHECK(g_log[0].ty == want && (lit ? is_lit(g_log[0].p) : g_log[0].p == wp) && g_log[0].a == wa && g_log[0].b == wb && sel != 6,
        "C14: a key given as char[] or char* is copied, as const char* or string literal kept by address, as JsonString as it says (same bytes, same size)");
#else
  CHECK(g_log[0].ty == want && (lit ? is_lit(g_log[0].p) : g_log[0].p == wp) && g_log[0].a == wa && g_log[0].b == wb,
        "C14: a key given as char[] or char* is copied, as const char* or string literal kept by address, as JsonString as it says (same bytes, same size)");
#endif
}
#endif /* SK_REST */
#endif /* U_STRKIND */

/* =============================================================================================================================
 * units api_e2e_* (REAL callees down to the allocator stub of alloc.h; natively replayable): the same entry points on small
 * concrete documents.  They decide the same sentences of the properties on the code that runs, so a counterexample is re-run on
 * the real C++ through the shim.  DefaultAllocator::instance() (a function-local singleton) is a stub returning allocator 3. */
#ifdef U_E2E
#include "alloc.h"
typedef struct JsonDocument Doc;
#ifndef VERIF_NATIVE
struct Allocator *DefaultAllocator__instance(void) { return verif_allocator(3); }
#if defined(E2E_ARRAYSET)
_Bool VariantRefBase_JsonVariant__set_JsonArrayConst(struct VariantRefBase_JsonVariant *self, struct JsonArrayConst *value) { CHECK(0, "flat scenario: the nested array copy is not reached"); return 0; }
_Bool VariantRefBase_JsonVariant__set_JsonObjectConst(struct VariantRefBase_JsonVariant *self, struct JsonObjectConst *value) { CHECK(0, "flat scenario: the nested object copy is not reached"); return 0; }
#endif
#if defined(E2E_UNSTORED)
void CollectionData__clear__ResourceManager_p(struct CollectionData *self, RM *resources) { CHECK(0, "scalar scenario: no collection is released slot by slot"); }
#endif
#if defined(E2E_SET) || defined(E2E_COPY) || defined(E2E_ADD)
/* container copies and slot-by-slot releases of collections are outside these scalar scenarios (never reached: CHECKed) */
_Bool VariantRefBase_JsonVariant__set_JsonArrayConst(struct VariantRefBase_JsonVariant *self, struct JsonArrayConst *value) { CHECK(0, "scalar scenario: the array copy is not reached"); return 0; }
_Bool VariantRefBase_JsonVariant__set_JsonObjectConst(struct VariantRefBase_JsonVariant *self, struct JsonObjectConst *value) { CHECK(0, "scalar scenario: the object copy is not reached"); return 0; }
void CollectionData__clear__ResourceManager_p(struct CollectionData *self, RM *resources) { CHECK(0, "scalar scenario: no collection is released slot by slot"); }
#endif
#endif
static char g_k1[2] = {'a', 0}, g_k2[2] = {'b', 0};
static void set_empty_collection(VD *v, unsigned kind) { v->type_ = (unsigned char)kind; v->content_.asCollection.head_ = NSLOT; v->content_.asCollection.tail_ = NSLOT; }

/* ---- C06 "read-only operations never call the allocator", C04 "read-only operations change nothing": queries through the lazy
 *      proxies doc[key] / doc[index] / doc[k1][k2] on a member or element that does NOT exist -------------------------------- */
#ifdef E2E_READ
void h_e2e_read_missing(void) {
  alloc_reset();
  struct Allocator *a = verif_allocator(0);
  g_expected_allocator = a;
  static Doc s_d;
  Doc *d = &s_d;
  JsonDocument__ctor__Allocator_p(d, a);
#ifdef READ_ROOT
  const unsigned root = READ_ROOT; /* (one scenario per obligation: on a tree that DOES allocate here, the merged paths of all entry points are too large a formula) */
#else
  unsigned root = in_u8();
#endif
  __CPROVER_assume(root == VT_NULL || root == VT_OBJECT || root == VT_ARRAY); /* a new document, {} or [] */
  if (root != VT_NULL) set_empty_collection(&d->data_, root);
  VD root0 = d->data_;
#ifdef READ_SEL
  const unsigned sel = READ_SEL;
#else
  unsigned sel = in_u8();
#endif
  __CPROVER_assume(sel < 9);
  unsigned long idx = in_u8();
  __CPROVER_assume(idx <= 2);
  long got = 0;
  switch (sel) {
    case 0: got = api__e2e_member_is_object(d, g_k1); break;
    case 1: got = api__e2e_member_is_array(d, g_k1); break;
    case 2: got = api__e2e_member_as_array_bound(d, g_k1); break;
    case 3: got = api__e2e_member_as_object_bound(d, g_k1); break;
    case 4: got = api__e2e_member_as_variant_bound(d, g_k1); break;
    case 5: got = api__e2e_element_is_array(d, idx); break;
    case 6: got = api__e2e_element_as_variant_bound(d, idx); break;
    case 7: got = api__e2e_nested_is_object(d, g_k1, g_k2); break;
    default: got = api__e2e_member_as_int(d, g_k1); break;
  }
#ifdef READ_SEL
  COVER(idx == 2); COVER(idx == 0);
#else
  COVER(sel == 0 && root == VT_NULL); COVER(sel == 2 && root == VT_OBJECT); COVER(sel == 6 && root == VT_ARRAY && idx == 2); COVER(sel == 7 && root == VT_OBJECT); COVER(sel == 4 && root == VT_ARRAY);
#endif
#ifdef CANARY_E2E_READ
  CHECK(g_alloc_calls + g_realloc_calls + g_dealloc_calls == (idx == 1), "C06: read-only operations never call the allocator (is<T>() / as<T>() on a missing member or element)");
#else
  CHECK(g_alloc_calls + g_realloc_calls + g_dealloc_calls == 0, "C06: read-only operations never call the allocator (is<T>() / as<T>() on a missing member or element)");
#endif
  CHECK(vd_same(&d->data_, &root0) && d->resources_.variantPools_.count_ == 0 && d->resources_.stringPool_.strings_ == 0 && !d->resources_.overflowed_,
        "C04: read-only operations change nothing: the document is still the null / empty document it was (no member, no element, no slot appeared)");
  CHECK(got == 0, "C04: a missing member / element is not an object or array, gives unbound handles and 0");
  JsonDocument__dtor(d);
  CHECK(g_live_blocks == 0, "C06: nothing to return");
}
#endif

/* a 64-bit value stored the way the API stores it: in an extension slot of the manager */
#if defined(E2E_SET) || defined(E2E_COPY) || defined(E2E_ADD) || defined(E2E_FLOAT)
static void put_ext(VD *v, RM *rm, unsigned kind, uint64_t bits) {
  struct Slot_VariantExtension x = ResourceManager__allocExtension(rm);
  __CPROVER_assume(x.ptr_ != 0);
#if ARDUINOJSON_USE_LONG_LONG
  x.ptr_->asUint64 = bits;
#else
  memcpy(x.ptr_, &bits, sizeof *x.ptr_ < 8 ? sizeof *x.ptr_ : 8);
#endif
  v->type_ = (unsigned char)kind;
  v->content_.asSlotId = x.id_;
}
static uint64_t ext_bits(RM *rm, const VD *v) {
  uint64_t b = 0;
  memcpy(&b, ResourceManager__getExtension(rm, v->content_.asSlotId), 8);
  return b;
}
/* kinds that live in an extension slot, with the values the API stores there (narrower ones take the 32-bit kinds) */
#ifdef EXT_KIND
#define PICK_EXT_KIND() ((unsigned)EXT_KIND) /* one kind per obligation: the visitor dispatch over a symbolic kind is a much larger formula */
#else
#define PICK_EXT_KIND() ((unsigned)in_u8())
#endif
static void assume_ext_value(unsigned kind, uint64_t bits) {
  __CPROVER_assume(kind == VT_UINT64 || kind == VT_INT64 || kind == VT_DOUBLE);
  __CPROVER_assume(kind_exists(kind));
  if (kind == VT_UINT64) __CPROVER_assume(bits > 0xFFFFFFFFull);
  if (kind == VT_INT64) __CPROVER_assume((int64_t)bits < -2147483648LL || (int64_t)bits > 2147483647LL);
  if (kind == VT_DOUBLE) { double dv; memcpy(&dv, &bits, 8); __CPROVER_assume(dv != dv || !((double)(float)dv == dv)); }
}
#endif

/* ---- C05 "the affected operation reports the failure": two set() of a value that needs an allocation, on one document, with
 *      every fault schedule: EACH call in which an allocation failed returns false -- also the second one --------------------- */
#ifdef E2E_SET
void h_e2e_set_twice(void) {
  alloc_reset();
  g_expected_allocator = 0;
  struct Allocator *ad = verif_allocator(0), *ae = verif_allocator(1);
  static Doc s_d, s_e;
  Doc *d = &s_d, *e = &s_e;
  JsonDocument__ctor__Allocator_p(d, ad);
  JsonDocument__ctor__Allocator_p(e, ae);
  const unsigned kind = PICK_EXT_KIND();
  uint64_t bits = in_u64();
  assume_ext_value(kind, bits);
  g_alloc_may_fail = 0; /* the SOURCE is built without faults */
  put_ext(&e->data_, &e->resources_, kind, bits);
  g_alloc_may_fail = 1;
  struct JsonVariant dst; dst.data_ = &d->data_; dst.resources_ = &d->resources_;
  struct JsonVariantConst src; src.data_ = &e->data_; src.resources_ = &e->resources_;
  g_expected_allocator = ad;
  unsigned f0 = g_alloc_failures;
  _Bool r1 = api__e2e_set_variant(dst, src);
  unsigned f1 = g_alloc_failures;
  _Bool stored1 = d->data_.type_ == kind && ext_bits(&d->resources_, &d->data_) == bits;
  _Bool r2 = api__e2e_set_variant(dst, src);
  unsigned f2 = g_alloc_failures;
  _Bool stored2 = d->data_.type_ == kind && ext_bits(&d->resources_, &d->data_) == bits;
  COVER(f1 > f0 && f2 > f1); COVER(f1 > f0 && f2 == f1 && stored2); COVER(f1 == f0 && r1 && r2);
  CHECK(f1 == f0 || !r1, "C05: the first set() reports the allocation failure it met (false)");
#ifdef CANARY_E2E_SET
  CHECK((f2 == f1 || !r2) && !(f2 > f1 && (bits & 1)), "C05: the second set() reports the allocation failure IT met (false), although the document had already reported one");
#else
  CHECK(f2 == f1 || !r2, "C05: the second set() reports the allocation failure IT met (false), although the document had already reported one");
#endif
  CHECK((!r1 || stored1) && (!r2 || stored2), "C04/C05: set() returns true only if the value is stored");
  CHECK(f1 > f0 || (r1 && stored1), "C05: with no failure the first set() stores the value and returns true");
  CHECK((f1 == f0 && f2 == f1) == !d->resources_.overflowed_, "C05: overflowed() is raised exactly by a failed allocation");
  CHECK(d->data_.type_ == kind || d->data_.type_ == VT_NULL, "C05: after a failure the value is null, never half-written");
  JsonDocument__dtor(d);
  g_expected_allocator = ae;
  JsonDocument__dtor(e);
  CHECK(g_live_blocks == 0, "C06: both documents destroyed: no block remains");
}
#endif

/* ---- C13 "for a floating T as<T>() returns the nearest representable value": as<float>() / as<double>() of a stored integer is
 *      the integer converted ONCE to T (C's own int -> T conversion rounds to nearest) ----------------------------------------- */
#ifdef E2E_FLOAT
#ifndef VERIF_NATIVE
float parseNumber_float(char *s) { CHECK(0, "number scenario: no string is parsed"); return 0; }
double parseNumber_double(char *s) { CHECK(0, "number scenario: no string is parsed"); return 0; }
#endif
void h_e2e_as_float(void) {
  alloc_reset();
  struct Allocator *a = verif_allocator(0);
  g_expected_allocator = a;
  g_alloc_may_fail = 0;
  static Doc s_d;
  Doc *d = &s_d;
  JsonDocument__ctor__Allocator_p(d, a);
  unsigned kind = in_u8();
  uint64_t bits = in_u64();
  __CPROVER_assume(kind == VT_UINT32 || kind == VT_INT32 || ((kind == VT_UINT64 || kind == VT_INT64) && kind_exists(kind)));
  if (kind == VT_UINT32) d->data_.content_.asUint32 = (uint32_t)bits;
  else if (kind == VT_INT32) d->data_.content_.asInt32 = (int32_t)(uint32_t)bits;
  else put_ext(&d->data_, &d->resources_, kind, bits);
  d->data_.type_ = (unsigned char)kind;
  struct JsonVariantConst v; v.data_ = &d->data_; v.resources_ = &d->resources_;
  float f = api__e2e_as_float(v);
  double g = api__e2e_as_double(v);
  float wf; double wg;
  if (kind == VT_UINT32) { wf = (float)(uint32_t)bits; wg = (double)(uint32_t)bits; }
  else if (kind == VT_INT32) { wf = (float)(int32_t)(uint32_t)bits; wg = (double)(int32_t)(uint32_t)bits; }
  else if (kind == VT_UINT64) { wf = (float)bits; wg = (double)bits; }
  else { wf = (float)(int64_t)bits; wg = (double)(int64_t)bits; }
  COVER(kind == VT_UINT64 && bits == 0x8000008000000001ull); COVER(kind == VT_INT32 && (int32_t)(uint32_t)bits == 16777217); COVER(kind == VT_UINT32 && (uint32_t)bits == 0xFFFFFFFFu); COVER(kind == VT_INT64 && (int64_t)bits < 0);
#ifdef CANARY_E2E_FLOAT
  CHECK(f32_bits(f) == f32_bits(wf) && !(kind == VT_INT32 && (uint32_t)bits == 77), "C13: as<float>() of a stored integer is the nearest float (one rounding, not two)");
#else
  CHECK(f32_bits(f) == f32_bits(wf), "C13: as<float>() of a stored integer is the nearest float (one rounding, not two)");
#endif
  CHECK(f64_bits(g) == f64_bits(wg), "C13: as<double>() of a stored integer is the nearest double (exact below 2^53; never squeezed through a float)");
  JsonDocument__dtor(d);
}
#endif

/* ---- C04 "copies are deep and independent of their source", C06: a 64-bit value copied between two values of ONE document owns
 *      its OWN extension slot: removing the copy leaves the source intact, and the slot it releases is not the source's ---------- */
#ifdef E2E_COPY
void h_e2e_copy_ext(void) {
  alloc_reset();
  struct Allocator *a = verif_allocator(0);
  g_expected_allocator = a;
  g_alloc_may_fail = 0; /* C04 speaks about runs in which no allocation fails */
  static RM s_rm;
  RM *rm = &s_rm;
  ResourceManager__ctor__Allocator_p(rm, a);
  struct Slot_VariantData s1 = ResourceManager__allocVariant(rm), s2 = ResourceManager__allocVariant(rm);
  VD *v1 = s1.ptr_, *v2 = s2.ptr_; /* two distinct slots of the document: destination and source */
  const unsigned kind = PICK_EXT_KIND();
  uint64_t bits = in_u64();
  assume_ext_value(kind, bits);
  put_ext(v2, rm, kind, bits);
  slotid_t src_slot = v2->content_.asSlotId;
  struct JsonVariant dst; dst.data_ = v1; dst.resources_ = rm;
  struct JsonVariantConst src; src.data_ = v2; src.resources_ = rm;
  _Bool r = copyVariant(dst, src);
  COVER(r); COVER((bits >> 40) == 0x123456);
  CHECK(r && v1->type_ == kind && ext_bits(rm, v1) == bits, "C04: the copy holds the same 64-bit value, same kind");
#ifdef CANARY_E2E_COPY
  CHECK(v1->content_.asSlotId != src_slot && v1->content_.asSlotId != (slotid_t)(src_slot + 1), "C04/C06: the copy lives in its OWN extension slot (two values never share one)");
#else
  CHECK(v1->content_.asSlotId != src_slot, "C04/C06: the copy lives in its OWN extension slot (two values never share one)");
#endif
  CHECK(v2->type_ == kind && v2->content_.asSlotId == src_slot && ext_bits(rm, v2) == bits, "C04: the source is untouched");
  /* remove the copy: the source must stay what it was, and the slot given back must not be the source's */
  VariantData__clear__VariantData_p_ResourceManager_p(v1, rm);
  CHECK(v1->type_ == VT_NULL, "clear() leaves null");
  CHECK(v2->type_ == kind && ext_bits(rm, v2) == bits, "C04: removing one of the two values leaves the other intact (a mutation changes only its target)");
  struct Slot_VariantExtension y = ResourceManager__allocExtension(rm);
  CHECK(y.ptr_ != 0 && y.id_ != src_slot, "C06/C04: the slot released with the copy is not the source's: a later allocation never hands out a slot that is still in use");
  y.ptr_->asUint64 = ~bits;
  CHECK(ext_bits(rm, v2) == bits, "C04: ... so writing the new value does not change the source");
  ResourceManager__clear(rm);
  CHECK(g_live_blocks == 0, "C06: clear() returns everything");
}
#endif

/* ---- C19/C06 "slots released ... are reused", C05 "slot released on failure": after an add() that failed because its value could
 *      not be stored, the slot it had taken is back: the next add() of a small value needs no new pool (the element takes the
 *      last slot of the first pool, its 64-bit value needs a slot of a new pool, whose allocation may fail) ------------------- */
#ifdef E2E_ADD
void h_e2e_add_failure(void) {
  alloc_reset();
  g_expected_allocator = 0;
  struct Allocator *ad = verif_allocator(0), *ae = verif_allocator(1);
  static Doc s_d, s_e;
  Doc *d = &s_d, *e = &s_e;
  JsonDocument__ctor__Allocator_p(d, ad);
  JsonDocument__ctor__Allocator_p(e, ae);
  const unsigned kind = PICK_EXT_KIND();
  uint64_t bits = in_u64();
  assume_ext_value(kind, bits);
  g_alloc_may_fail = 0;
  put_ext(&e->data_, &e->resources_, kind, bits);     /* the value to add: a 64-bit number of another document */
  set_empty_collection(&d->data_, VT_ARRAY);
  struct JsonArray arr; arr.data_ = &d->data_.content_.asArray; arr.resources_ = &d->resources_;
  struct JsonVariantConst big; big.data_ = &e->data_; big.resources_ = &e->resources_;
  g_expected_allocator = ad;
  /* the document already handed out all but `left` slots of its first pool (a state every history of CAP - left allocations reaches;
   * built directly: a pool block of CAP slots entered in the ledger, usage CAP - left, empty free list, inline table) */
  const unsigned left = 1; /* (a constant: with a symbolic usage every slot access is a symbolic index into the block) */
  {
    struct MemoryPoolList_ResourceManager__SlotData *l = &d->resources_.variantPools_;
    union ResourceManager__SlotData *blk = (union ResourceManager__SlotData *)Allocator__allocate(ad, (size_t)CFG_CAP * sizeof(union ResourceManager__SlotData));
    l->pools_[0].slots_ = blk;
    l->pools_[0].capacity_ = (__typeof__(l->pools_[0].capacity_))CFG_CAP;
    l->pools_[0].usage_ = (__typeof__(l->pools_[0].usage_))(CFG_CAP - left);
    l->count_ = 1;
  }
  g_alloc_may_fail = 1;
  unsigned calls0 = g_alloc_calls, fails0 = g_alloc_failures;
  _Bool r = api__e2e_array_add_variant(arr, big);      /* takes one slot for the element, one more for the 64-bit value */
  unsigned calls1 = g_alloc_calls, fails1 = g_alloc_failures;
  g_alloc_may_fail = 0;
  COVER(!r && fails1 > fails0); COVER(r); COVER(!r && (bits >> 60) == 5);
  CHECK(r == (fails1 == fails0), "C05: add() returns false exactly when an allocation failed");
  CHECK(r || d->resources_.overflowed_, "C05: the failure is reported by overflowed() too");
  /* the next add of a small value */
  unsigned calls2 = g_alloc_calls;
  _Bool r2 = api__e2e_array_add_int(arr, 7);
  CHECK(r2, "C05/C19: the document is usable after the failure: a small value can be added");
  if (!r) {
#ifdef CANARY_E2E_ADD
    CHECK(g_alloc_calls == calls2 + ((bits & 3) == 2), "C19/C06: the slot the failed add() had taken was given back: the next add() reuses it and requests no new pool");
#else
    CHECK(g_alloc_calls == calls2, "C19/C06: the slot the failed add() had taken was given back: the next add() reuses it and requests no new pool");
#endif
  }
  (void)calls0; (void)calls1;
  JsonDocument__dtor(d);
  g_expected_allocator = ae;
  JsonDocument__dtor(e);
  CHECK(g_live_blocks == 0, "C06: both documents destroyed: no block remains");
}
#endif

/* ---- candidate finding (C04): set() of a string / variant / array / object on a reference whose value cannot exist -- an element of
 *      something that is not an array, a member of something that is not an object, a null key -- returns TRUE although nothing
 *      was stored (the integer / bool / float overloads return false there).  Exactly one CHECK fails on the unchanged tree. ---- */
#ifdef E2E_UNSTORED
void h_e2e_unstored(void) {
  alloc_reset();
  struct Allocator *a = verif_allocator(0);
  g_expected_allocator = a;
  static Doc s_d;
  static char txt[3] = {'h', 'i', 0};
  Doc *d = &s_d;
  JsonDocument__ctor__Allocator_p(d, a);
#ifdef UNSTORED_SCEN
  const unsigned scen = UNSTORED_SCEN; /* (one scenario per obligation: the creating paths of all entry points merged are too large a formula) */
#else
  unsigned scen = in_u8();
#endif
  __CPROVER_assume(scen < 4);
  _Bool r = 0;
  /* 0: {}[0].set("hi")   1: []["a"].set("hi")   2: null document, doc[(const char*)0].set("hi")   3: {}[0].set(7) */
  if (scen == 0 || scen == 3) set_empty_collection(&d->data_, VT_OBJECT);
  if (scen == 1) set_empty_collection(&d->data_, VT_ARRAY);
  VD root0 = d->data_;
  if (scen == 0) r = api__e2e_element_set_cstr(d, 0, txt);
  else if (scen == 1) r = api__e2e_member_set_cstr(d, g_k1, txt);
  else if (scen == 2) r = api__e2e_member_set_cstr(d, (char *)0, txt);
  else r = api__e2e_element_set_int(d, 0, 7);
  COVER(scen < 4);
  CHECK(vd_same(&d->data_, &root0) && g_alloc_calls == 0 && !d->resources_.overflowed_, "C04: a value of another kind is never clobbered: the document is unchanged, nothing was requested, nothing is reported");
#ifdef CANARY_E2E_UNSTORED
  CHECK(!r && scen > 3, "C04: set() returns true only if the value was stored (here no element / member can exist, nothing was stored)");
#else
  CHECK(!r, "C04: set() returns true only if the value was stored (here no element / member can exist, nothing was stored)");
#endif
  JsonDocument__dtor(d);
}
#endif

/* ---- C04 "JsonArray::set(src): afterwards the target equals a copy of src" with the REAL callees (clear, iteration, add, copy):
 *      destination with one element, source (another document) with <= 1 element (class B shapes) ------------------------------- */
#ifdef E2E_ARRAYSET
void h_e2e_array_set(void) {
  alloc_reset();
  g_expected_allocator = 0;
  struct Allocator *ad = verif_allocator(0), *ae = verif_allocator(1);
  static Doc s_d, s_e;
  Doc *d = &s_d, *e = &s_e;
  JsonDocument__ctor__Allocator_p(d, ad);
  JsonDocument__ctor__Allocator_p(e, ae);
  set_empty_collection(&d->data_, VT_ARRAY);
  set_empty_collection(&e->data_, VT_ARRAY);
  struct JsonArray dst; dst.data_ = &d->data_.content_.asArray; dst.resources_ = &d->resources_;
  struct JsonArray srcw; srcw.data_ = &e->data_.content_.asArray; srcw.resources_ = &e->resources_;
  struct JsonArrayConst src; src.data_ = srcw.data_; src.resources_ = srcw.resources_;
#ifdef ARRAYSET_N
  const unsigned n = ARRAYSET_N;
#else
  unsigned n = in_u8();
#endif
  __CPROVER_assume(n <= 1);
  int v = (int)in_u32();
  g_alloc_may_fail = 0;                 /* both arrays are built without faults */
  _Bool okb = api__e2e_array_add_int(dst, 99);
  if (n == 1) okb = okb && api__e2e_array_add_int(srcw, v);
  __CPROVER_assume(okb);
  g_alloc_may_fail = 1;
  g_expected_allocator = ad;
  unsigned fails0 = g_alloc_failures;
  _Bool r = api__e2e_array_set(dst, src);
  COVER(r); COVER(v == 7);
  CHECK(r == (g_alloc_failures == fails0), "C05: set() returns false exactly when an allocation failed");
  /* the destination now holds exactly the source's elements (all of them on success, none of its own former ones) */
  slotid_t h = d->data_.content_.asCollection.head_;
  if (r) {
    if (n == 0) CHECK(h == NSLOT && d->data_.content_.asCollection.tail_ == NSLOT, "C04: set() from an empty array leaves the destination empty (an assignment, not an append)");
    else {
      VD *x = h == NSLOT ? (VD *)0 : ResourceManager__getVariant(&d->resources_, h);
#ifdef CANARY_E2E_ARRAYSET
      CHECK(x != 0 && x->type_ == VT_INT32 && x->content_.asInt32 == v && x->next_ == NSLOT && d->data_.content_.asCollection.tail_ == h && v != 5,
            "C04: after set() the destination holds exactly the source's elements, in order (its former elements are gone)");
#else
      CHECK(x != 0 && x->type_ == VT_INT32 && x->content_.asInt32 == v && x->next_ == NSLOT && d->data_.content_.asCollection.tail_ == h,
            "C04: after set() the destination holds exactly the source's elements, in order (its former elements are gone)");
#endif
    }
  }
  CHECK(d->data_.type_ == VT_ARRAY && e->data_.type_ == VT_ARRAY, "the destination stays an array; the source is untouched");
  JsonDocument__dtor(d);
  g_expected_allocator = ae;
  JsonDocument__dtor(e);
  CHECK(g_live_blocks == 0, "C06: both documents destroyed: no block remains");
}
#endif
#endif /* U_E2E */
