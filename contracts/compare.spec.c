/* C18 (comparison operators form one coherent relation) and the comparison clause of C14 (string storage unobservable).
 * Oracles come from the property text: numbers compare by MATHEMATICAL value (integers exactly, any floating operand => as
 * doubles), strings / raw values are equal iff same length and same bytes, null equals only null, and the operators are the
 * stated functions of one three-way result.  Nothing here is copied from the code under test.
 *
 * One spec file serves several units (each has its own lowered.c); the unit is selected by -DUNIT_xxx on the obligation. */
#include "verif.h"
#ifdef UNIT_STRINGS_U
/* ghost witness named by the loop invariants of contracts/compare.loops.json: "the strings first differ at index g_diff_at" */
static _Bool g_has_diff;
static size_t g_diff_at;
#endif
#ifdef VERIF_NATIVE
#include "lowered_types.h"
#else
#include "lowered.c"
#endif

/* CompareResult (arithmeticCompare.hpp) -- values restated from the header's enum, the meaning comes from the names */
#define DIFFER 0u
#define EQUAL 1u
#define GREATER 2u
#define LESS 4u

/* ---- independent spec functions ---------------------------------------------------------------------------------- */
/* an integer of any width/signedness as sign + magnitude: the mathematical value, no conversion between C types involved */
struct mathint { _Bool neg; uint64_t mag; };
static struct mathint mi_s(int64_t v) {
  struct mathint m;
  m.neg = v < 0;
  m.mag = m.neg ? (uint64_t)0 - (uint64_t)v : (uint64_t)v;
  return m;
}
static struct mathint mi_u(uint64_t v) {
  struct mathint m;
  m.neg = 0;
  m.mag = v;
  return m;
}
static unsigned spec_cmp_int(struct mathint a, struct mathint b) {
  if (a.neg != b.neg) return a.neg ? LESS : GREATER; /* sign test first */
  if (a.mag == b.mag) return EQUAL;
  if (a.neg) return a.mag > b.mag ? LESS : GREATER;  /* both negative: larger magnitude is smaller */
  return a.mag < b.mag ? LESS : GREATER;
}
/* "otherwise as doubles". NaN is neither less nor greater nor equal: the property claims nothing; SPEC_NAN marks it and the
 * harness pins what the code does (its three-way test falls through to EQUAL -- both ways round, so the laws of C18 still hold) */
#define SPEC_NAN 8u
static unsigned spec_cmp_f64(double a, double b) {
  if (a < b) return LESS;
  if (a > b) return GREATER;
  if (a == b) return EQUAL;
  return SPEC_NAN;
}
/* the mirror image of a three-way result: what compare(b,a) must be when compare(a,b) is r */
static unsigned spec_mirror(unsigned r) { return r == LESS ? GREATER : r == GREATER ? LESS : r; }
static _Bool spec_is_result(unsigned r) { return r == DIFFER || r == EQUAL || r == GREATER || r == LESS; }

#define MI_schar(v) mi_s((int64_t)(v))
#define MI_short(v) mi_s((int64_t)(v))
#define MI_int(v) mi_s((int64_t)(v))
#define MI_long(v) mi_s((int64_t)(v))
#define MI_uchar(v) mi_u((uint64_t)(v))
#define MI_ushort(v) mi_u((uint64_t)(v))
#define MI_uint(v) mi_u((uint64_t)(v))
#define MI_ulong(v) mi_u((uint64_t)(v))
#define MI_bool(v) mi_u((v) ? 1u : 0u) /* a boolean compared with a number counts as 0 / 1 (C++ integral promotion) */

#define T_schar signed char
#define T_short short
#define T_int int
#define T_long long
#define T_uchar unsigned char
#define T_ushort unsigned short
#define T_uint unsigned int
#define T_ulong unsigned long
#define T_bool _Bool
#define T_float float
#define T_double double
#define IN_schar() ((signed char)in_i8())
#define IN_short() in_i16()
#define IN_int() in_i32()
#define IN_long() ((long)in_i64())
#define IN_uchar() in_u8()
#define IN_ushort() in_u16()
#define IN_uint() in_u32()
#define IN_ulong() ((unsigned long)in_u64())
#define IN_bool() in_bool()
#define IN_float() in_f32()
#define IN_double() in_f64()

#define COVER3(want) do { COVER((want) == LESS); COVER((want) == GREATER); COVER((want) == EQUAL); } while (0)

/* ================================================================================================================= */
#ifdef UNIT_ARITH
/* arithmeticCompare<T1,T2>(lhs, rhs): every instantiated overload, full input domain, result == spec of the mathematical values */
#define AC2_INT(fn, A) do { T_##A a = IN_##A(); T_##A b = IN_##A(); unsigned r = fn(&a, &b); \
    unsigned want = spec_cmp_int(MI_##A(a), MI_##A(b)); COVER3(want); CANARY_HOOK(want, a, b) \
    CHECK(r == want, #fn ": three-way result of the mathematical values"); } while (0)
#define AC2_FLT(fn, A) do { T_##A a = IN_##A(); T_##A b = IN_##A(); unsigned r = fn(&a, &b); \
    unsigned want = spec_cmp_f64((double)a, (double)b); COVER3(want); COVER(want == SPEC_NAN); CANARY_HOOK(want, a, b) \
    CHECK(want == SPEC_NAN || r == want, #fn ": three-way result of the values as doubles"); \
    CHECK(want != SPEC_NAN || r == EQUAL, #fn ": NaN operand -> EQUAL (pinned: the code's three-way test falls through)"); } while (0)
#define AC_INT(fn, A, B) do { T_##A a = IN_##A(); T_##B b = IN_##B(); unsigned r = fn(&a, &b, (void *)0); \
    unsigned want = spec_cmp_int(MI_##A(a), MI_##B(b)); COVER3(want); CANARY_HOOK(want, a, b) \
    CHECK(r == want, #fn ": three-way result of the mathematical values"); } while (0)
#define AC_FLT(fn, A, B) do { T_##A a = IN_##A(); T_##B b = IN_##B(); unsigned r = fn(&a, &b, (void *)0); \
    unsigned want = spec_cmp_f64((double)a, (double)b); COVER3(want); CANARY_HOOK(want, a, b) \
    CHECK(want == SPEC_NAN || r == want, #fn ": three-way result of the values as doubles"); \
    CHECK(want != SPEC_NAN || r == EQUAL, #fn ": NaN operand -> EQUAL (pinned: the code's three-way test falls through)"); } while (0)

/* canary: the expected result is wrong for exactly one pair of inputs */
#ifdef CANARY_ARITH
#define CANARY_HOOK(want, a, b) if ((a) == 1 && (b) == 1) want = LESS;
#else
#define CANARY_HOOK(want, a, b)
#endif

void h_arith_same(void) {
  AC2_INT(arithmeticCompare__Bool, bool);
  AC2_INT(arithmeticCompare_short, short);
  AC2_INT(arithmeticCompare_ushort, ushort);
  AC2_INT(arithmeticCompare_int, int);
  AC2_INT(arithmeticCompare_uint, uint);
  AC2_INT(arithmeticCompare_long, long);
  AC2_INT(arithmeticCompare_ulong, ulong);
  AC2_FLT(arithmeticCompare_float, float);
  AC2_FLT(arithmeticCompare_double, double);
}

/* mixed integer pairs that widen without changing the value, and the same-width signed/unsigned pairs with their sign test */
void h_arith_int_mixed(void) {
  AC_INT(arithmeticCompare__Bool_short, bool, short);
  AC_INT(arithmeticCompare__Bool_ushort, bool, ushort);
  AC_INT(arithmeticCompare__Bool_int, bool, int);
  AC_INT(arithmeticCompare__Bool_uint, bool, uint);
  AC_INT(arithmeticCompare__Bool_long, bool, long);
  AC_INT(arithmeticCompare__Bool_ulong, bool, ulong);
  AC_INT(arithmeticCompare_int_long, int, long);
  AC_INT(arithmeticCompare_int_uint, int, uint);
  AC_INT(arithmeticCompare_long__Bool, long, bool);
  AC_INT(arithmeticCompare_long_signedchar, long, schar);
  AC_INT(arithmeticCompare_long_uchar, long, uchar);
  AC_INT(arithmeticCompare_long_short, long, short);
  AC_INT(arithmeticCompare_long_ushort, long, ushort);
  AC_INT(arithmeticCompare_long_int, long, int);
  AC_INT(arithmeticCompare_long_uint, long, uint);
  AC_INT(arithmeticCompare_long_ulong, long, ulong);
  AC_INT(arithmeticCompare_signedchar_long, schar, long);
  AC_INT(arithmeticCompare_uchar_long, uchar, long);
  AC_INT(arithmeticCompare_uint_int, uint, int);
  AC_INT(arithmeticCompare_uint_long, uint, long);
  AC_INT(arithmeticCompare_uint_ulong, uint, ulong);
  AC_INT(arithmeticCompare_ulong__Bool, ulong, bool);
  AC_INT(arithmeticCompare_ulong_uchar, ulong, uchar);
  AC_INT(arithmeticCompare_ulong_ushort, ulong, ushort);
  AC_INT(arithmeticCompare_ulong_uint, ulong, uint);
  AC_INT(arithmeticCompare_ulong_long, ulong, long);
}

void h_arith_float(void) {
  AC_FLT(arithmeticCompare__Bool_float, bool, float);
  AC_FLT(arithmeticCompare__Bool_double, bool, double);
  AC_FLT(arithmeticCompare_long_float, long, float);
  AC_FLT(arithmeticCompare_long_double, long, double);
  AC_FLT(arithmeticCompare_ulong_float, ulong, float);
  AC_FLT(arithmeticCompare_ulong_double, ulong, double);
  AC_FLT(arithmeticCompare_float__Bool, float, bool);
  AC_FLT(arithmeticCompare_float_signedchar, float, schar);
  AC_FLT(arithmeticCompare_float_uchar, float, uchar);
  AC_FLT(arithmeticCompare_float_short, float, short);
  AC_FLT(arithmeticCompare_float_ushort, float, ushort);
  AC_FLT(arithmeticCompare_float_int, float, int);
  AC_FLT(arithmeticCompare_float_uint, float, uint);
  AC_FLT(arithmeticCompare_float_long, float, long);
  AC_FLT(arithmeticCompare_float_ulong, float, ulong);
  AC_FLT(arithmeticCompare_float_double, float, double);
  AC_FLT(arithmeticCompare_double__Bool, double, bool);
  AC_FLT(arithmeticCompare_double_signedchar, double, schar);
  AC_FLT(arithmeticCompare_double_uchar, double, uchar);
  AC_FLT(arithmeticCompare_double_short, double, short);
  AC_FLT(arithmeticCompare_double_ushort, double, ushort);
  AC_FLT(arithmeticCompare_double_int, double, int);
  AC_FLT(arithmeticCompare_double_uint, double, uint);
  AC_FLT(arithmeticCompare_double_long, double, long);
  AC_FLT(arithmeticCompare_double_ulong, double, ulong);
  AC_FLT(arithmeticCompare_double_float, double, float);
}

/* F11 group: unsigned 64-bit lhs (a JsonUInt stored in a variant) against a NARROWER SIGNED rhs (the user's int/short/int8_t) */
void h_arith_ulong_vs_narrow_signed(void) {
  AC_INT(arithmeticCompare_ulong_signedchar, ulong, schar);
  AC_INT(arithmeticCompare_ulong_short, ulong, short);
  AC_INT(arithmeticCompare_ulong_int, ulong, int);
}
/* mirror case: narrower signed lhs against unsigned 64-bit rhs. Only instantiated by tu/all.cpp (force::cmp_all); the
 * library itself always passes a JsonInteger/JsonUInt/JsonFloat/bool lhs, so this overload is latent, not reachable */
void h_arith_narrow_signed_vs_ulong(void) {
  AC_INT(arithmeticCompare_int_ulong, int, ulong);
}
/* bool lhs (a boolean stored in a variant) against a one-byte integer rhs: same size => the rhs is cast to bool */
void h_arith_bool_vs_char(void) {
  AC_INT(arithmeticCompare__Bool_signedchar, bool, schar);
  AC_INT(arithmeticCompare__Bool_uchar, bool, uchar);
}

/* lemma (over the spec only): the spec relation is antisymmetric and total on numbers, so "compare(b,a) is the mirror of
 * compare(a,b)" follows for every pair of overloads that both satisfy their contract */
void h_spec_antisym(void) {
  uint64_t x = in_u64(), y = in_u64();
  _Bool sx = in_bool(), sy = in_bool();
  struct mathint a = sx ? mi_s((int64_t)x) : mi_u(x), b = sy ? mi_s((int64_t)y) : mi_u(y);
  unsigned ab = spec_cmp_int(a, b), ba = spec_cmp_int(b, a);
  COVER(ab == LESS && sx && !sy); COVER(ab == GREATER && !sx && sy); COVER(ab == EQUAL);
#ifdef CANARY_ANTISYM
  CHECK(ab == spec_mirror(ba) && !(x == 5 && y == 5), "spec_cmp_int(a,b) is the mirror of spec_cmp_int(b,a)");
#else
  CHECK(ab == spec_mirror(ba), "spec_cmp_int(a,b) is the mirror of spec_cmp_int(b,a)");
#endif
  CHECK(ab == LESS || ab == GREATER || ab == EQUAL, "integers are totally ordered: never DIFFER");
  CHECK((ab == EQUAL) == (a.neg == b.neg && a.mag == b.mag), "EQUAL iff same mathematical value");
  double f = in_f64(), g = in_f64();
  unsigned fg = spec_cmp_f64(f, g), gf = spec_cmp_f64(g, f);
  COVER(fg == SPEC_NAN); COVER(fg == LESS);
  CHECK(fg == spec_mirror(gf), "spec_cmp_f64(a,b) is the mirror of spec_cmp_f64(b,a) (NaN both ways round)");
}
#endif /* UNIT_ARITH */

/* ---- name plumbing for the instantiation matrix (C names produced by ajlower) ------------------------------------------ */
#define N_bool _Bool
#define N_schar signedchar
#define N_uchar uchar
#define N_short short
#define N_ushort ushort
#define N_int int
#define N_uint uint
#define N_long long
#define N_ulong ulong
#define N_float float
#define N_double double
#define CAT2_(a, b) a##b
#define CAT2(a, b) CAT2_(a, b)
#define CAT4_(a, b, c, d) a##b##c##d
#define CAT4(a, b, c, d) CAT4_(a, b, c, d)
#define AC_NAME(U, T) CAT4(arithmeticCompare_, N_##U, _, N_##T)            /* arithmeticCompare<U,T>(lhs, rhs, 0) */
#define AC1_NAME(T) CAT2(arithmeticCompare_, N_##T)                        /* arithmeticCompare<T>(lhs, rhs) */
#define CMP_STRUCT(T) CAT4(Comparer_, N_##T, _void, )                      /* struct Comparer<T> { T rhs; } */
#define CMP_CTOR(T) CAT4(Comparer_, N_##T, _void__ctor__, N_##T)
#define CMP_VISIT(T, U) CAT4(Comparer_, N_##T, _void__visit_, N_##U)       /* Comparer<T>::visit<U>(const U& lhs) */
#define CMP_VISIT_X(T, X) CAT4(Comparer_, N_##T, _void__visit_, X)
#define COMPARE_NAME(T) CAT2(compare_, N_##T)                              /* compare<T>(JsonVariantConst, const T&) */
#define ACCEPT_NAME(T) CAT2(accept_Comparer_, N_##T)

/* the variant-side value types U that VariantData::accept hands to a visitor, against every scalar type T of the user:
 * P(kind, U, T) mixed pair (kind INT: both integral, FLT: a floating operand), S(kind, T) same type */
#define NUMERIC_MATRIX(P, S) \
  P(INT, bool, schar) P(FLT, double, schar) P(FLT, float, schar) P(INT, long, schar) P(INT, ulong, schar) \
  P(INT, bool, uchar) P(FLT, double, uchar) P(FLT, float, uchar) P(INT, long, uchar) P(INT, ulong, uchar) \
  P(INT, bool, short) P(FLT, double, short) P(FLT, float, short) P(INT, long, short) P(INT, ulong, short) \
  P(INT, bool, ushort) P(FLT, double, ushort) P(FLT, float, ushort) P(INT, long, ushort) P(INT, ulong, ushort) \
  P(INT, bool, int) P(FLT, double, int) P(FLT, float, int) P(INT, long, int) P(INT, ulong, int) \
  P(INT, bool, uint) P(FLT, double, uint) P(FLT, float, uint) P(INT, long, uint) P(INT, ulong, uint) \
  P(INT, bool, long) P(FLT, double, long) P(FLT, float, long) S(INT, long) P(INT, ulong, long) \
  P(INT, bool, ulong) P(FLT, double, ulong) P(FLT, float, ulong) P(INT, long, ulong) S(INT, ulong) \
  P(FLT, bool, float) P(FLT, double, float) S(FLT, float) P(FLT, long, float) P(FLT, ulong, float) \
  P(FLT, bool, double) S(FLT, double) P(FLT, float, double) P(FLT, long, double) P(FLT, ulong, double) \
  S(INT, bool) P(FLT, double, bool) P(FLT, float, bool) P(INT, long, bool) P(INT, ulong, bool)
#define SCALAR_TYPES(X) X(schar) X(uchar) X(short) X(ushort) X(int) X(uint) X(long) X(ulong) X(float) X(double) X(bool)

/* the contract of arithmeticCompare<U,T> as a function of its operands (what unit cmp_arith enforces) */
#define WANT_INT(U, T, a, b) spec_cmp_int(MI_##U(a), MI_##T(b))
static unsigned spec_cmp_dbl_pinned(double a, double b) { unsigned w = spec_cmp_f64(a, b); return w == SPEC_NAN ? EQUAL : w; }
#define WANT_FLT(U, T, a, b) spec_cmp_dbl_pinned((double)(a), (double)(b))

/* ================================================================================================================= */
#ifdef UNIT_COMPARERS
/* ghost state of the stubs */
static unsigned g_acc_result, g_acc_calls;
static struct JsonVariantConst g_acc_variant;
static const void *g_acc_visitor;
static long g_snap_long; static unsigned long g_snap_ulong; static double g_snap_double; static _Bool g_snap_bool;
static float g_snap_float; static int g_snap_int; static unsigned g_snap_uint; static short g_snap_short;
static unsigned short g_snap_ushort; static signed char g_snap_schar; static unsigned char g_snap_uchar;
static struct JsonString g_snap_js; static struct SerializedValue_constchar_p g_snap_raw; static char *g_snap_cstr;
static struct JsonArrayConst g_snap_arr; static struct JsonObjectConst g_snap_obj; static struct JsonVariantConst g_snap_var;
static struct VariantData g_vd[2];
static struct ResourceManager g_rm[2];

#ifndef VERIF_NATIVE
/* callee contracts: arithmeticCompare<U,T> replaced by its contract (ensures result == spec of the operands) */
#define STUB_P(kind, U, T) unsigned int AC_NAME(U, T)(T_##U *lhs, T_##T *rhs, void *_p2) { (void)_p2; return WANT_##kind(U, T, *lhs, *rhs); }
#define STUB_S(kind, T) unsigned int AC1_NAME(T)(T_##T *lhs, T_##T *rhs) { return WANT_##kind(T, T, *lhs, *rhs); }
NUMERIC_MATRIX(STUB_P, STUB_S)

/* accept(variant, comparer): the dispatch on the variant's kind -- abstracted to "returns some three-way result";
 * the stub records what it was given (the comparer's stored operand is snapshotted: it is a local of the caller) */
#define ACCEPT_STUB(name, ST, SNAP) unsigned int name(struct JsonVariantConst variant, struct ST *visit) { \
    g_acc_calls++; g_acc_variant = variant; g_acc_visitor = visit; SNAP; return g_acc_result; }
ACCEPT_STUB(accept_Comparer_signedchar, Comparer_signedchar_void, g_snap_schar = visit->rhs)
ACCEPT_STUB(accept_Comparer_uchar, Comparer_uchar_void, g_snap_uchar = visit->rhs)
ACCEPT_STUB(accept_Comparer_short, Comparer_short_void, g_snap_short = visit->rhs)
ACCEPT_STUB(accept_Comparer_ushort, Comparer_ushort_void, g_snap_ushort = visit->rhs)
ACCEPT_STUB(accept_Comparer_int, Comparer_int_void, g_snap_int = visit->rhs)
ACCEPT_STUB(accept_Comparer_uint, Comparer_uint_void, g_snap_uint = visit->rhs)
ACCEPT_STUB(accept_Comparer_long, Comparer_long_void, g_snap_long = visit->rhs)
ACCEPT_STUB(accept_Comparer_ulong, Comparer_ulong_void, g_snap_ulong = visit->rhs)
ACCEPT_STUB(accept_Comparer_float, Comparer_float_void, g_snap_float = visit->rhs)
ACCEPT_STUB(accept_Comparer_double, Comparer_double_void, g_snap_double = visit->rhs)
ACCEPT_STUB(accept_Comparer__Bool, Comparer__Bool_void, g_snap_bool = visit->rhs)
ACCEPT_STUB(accept_Comparer_JsonString, Comparer_JsonString_void, g_snap_js = visit->rhs)
ACCEPT_STUB(accept_Comparer_constchar_p, Comparer_constchar_p_void, g_snap_cstr = visit->rhs)
ACCEPT_STUB(accept_Comparer_SerializedValue_constchar_p, Comparer_SerializedValue_constchar_p_void, g_snap_raw = visit->rhs)
ACCEPT_STUB(accept_Comparer_JsonVariantConst, Comparer_JsonVariantConst_void, g_snap_var = visit->_b_VariantComparer.rhs)
ACCEPT_STUB(accept_RawComparer, RawComparer, g_snap_raw = visit->rhs_)
ACCEPT_STUB(accept_ArrayComparer, ArrayComparer, g_snap_arr = visit->rhs_)
ACCEPT_STUB(accept_ObjectComparer, ObjectComparer, g_snap_obj = visit->rhs_)
ACCEPT_STUB(accept_NullComparer, NullComparer, (void)0)

/* container equality: abstracted to "returns some boolean"; operands recorded */
static _Bool g_eq_result; static unsigned g_eq_calls;
static struct JsonArrayConst g_eq_arr[2]; static struct JsonObjectConst g_eq_obj[2];
_Bool op_eq__JsonArrayConst_JsonArrayConst(struct JsonArrayConst lhs, struct JsonArrayConst rhs) {
  g_eq_calls++; g_eq_arr[0] = lhs; g_eq_arr[1] = rhs; return g_eq_result;
}
_Bool op_eq__JsonObjectConst_JsonObjectConst(struct JsonObjectConst lhs, struct JsonObjectConst rhs) {
  g_eq_calls++; g_eq_obj[0] = lhs; g_eq_obj[1] = rhs; return g_eq_result;
}
#endif

static unsigned pick_result(void) { unsigned r = in_u8(); __CPROVER_assume(spec_is_result(r)); return r; }
static struct JsonVariantConst pick_variant(void) {
  struct JsonVariantConst v;
  uint8_t k = in_u8();
  __CPROVER_assume(k < 3);
  v.data_ = k == 0 ? (struct VariantData *)0 : &g_vd[k - 1];
  v.resources_ = k == 0 ? (struct ResourceManager *)0 : &g_rm[k - 1];
  return v;
}
static _Bool same_variant(struct JsonVariantConst a, struct JsonVariantConst b) { return a.data_ == b.data_ && a.resources_ == b.resources_; }

/* Comparer<T>{rhs}.visit<U>(lhs) for numeric T and U: three-way result of (lhs, rhs) IN THAT ORDER, callee by contract */
#ifdef CANARY_CMP_NUM
#define CMPNUM_CANARY(want, l, r) if ((l) == 3 && (r) == 2) want = LESS;
#else
#define CMPNUM_CANARY(want, l, r)
#endif
#define CHK_P(kind, U, T) do { struct CMP_STRUCT(T) c; T_##T rhs = IN_##T(); CMP_CTOR(T)(&c, rhs); T_##U lhs = IN_##U(); \
    unsigned r = CMP_VISIT(T, U)(&c, &lhs); unsigned want = WANT_##kind(U, T, lhs, rhs); COVER3(want); CMPNUM_CANARY(want, lhs, rhs) \
    CHECK(c.rhs == rhs || rhs != rhs, "Comparer<" #T "> constructor stores its operand"); \
    CHECK(r == want, "Comparer<" #T ">::visit<" #U ">: three-way result of (variant value, user value) in this order"); \
    CHECK(spec_is_result(r) && r != DIFFER, "numbers are always ordered: LESS, EQUAL or GREATER"); } while (0);
#define CHK_S(kind, T) CHK_P(kind, T, T)
void h_comparer_numeric_visit(void) { NUMERIC_MATRIX(CHK_P, CHK_S) }

/* a number against a non-number (string, raw, array, object, null): ComparerBase default => DIFFER ("equals only ...") */
#define CHK_DEFAULTS(T) do { struct CMP_STRUCT(T) c; CMP_CTOR(T)(&c, IN_##T()); \
    struct JsonString js; memset(&js, 0, sizeof js); struct SerializedValue_constchar_p raw; memset(&raw, 0, sizeof raw); \
    struct JsonArrayConst arr; memset(&arr, 0, sizeof arr); struct JsonObjectConst obj; memset(&obj, 0, sizeof obj); void *nul = (void *)0; \
    CHECK(CMP_VISIT_X(T, JsonString)(&c, &js) == DIFFER_OR_CANARY, "number vs string: DIFFER"); \
    CHECK(CMP_VISIT_X(T, SerializedValue_constchar_p)(&c, &raw) == DIFFER, "number vs raw: DIFFER"); \
    CHECK(CMP_VISIT_X(T, JsonArrayConst)(&c, &arr) == DIFFER, "number vs array: DIFFER"); \
    CHECK(CMP_VISIT_X(T, JsonObjectConst)(&c, &obj) == DIFFER, "number vs object: DIFFER"); \
    CHECK(CMP_VISIT_X(T, void_p)(&c, &nul) == DIFFER, "number vs null: DIFFER (null equals only null)"); } while (0);
#ifdef CANARY_CMP_DEF
#define DIFFER_OR_CANARY EQUAL
#else
#define DIFFER_OR_CANARY DIFFER
#endif
void h_comparer_defaults(void) {
  COVER(1);
  SCALAR_TYPES(CHK_DEFAULTS)
}

/* NullComparer and the ComparerBase defaults themselves */
void h_null_comparer(void) {
  struct NullComparer nc; memset(&nc, 0, sizeof nc);
  struct JsonVariantVisitor_CompareResult base; memset(&base, 0, sizeof base);
  struct JsonString js; memset(&js, 0, sizeof js); struct SerializedValue_constchar_p raw; memset(&raw, 0, sizeof raw);
  struct JsonArrayConst arr; memset(&arr, 0, sizeof arr); struct JsonObjectConst obj; memset(&obj, 0, sizeof obj); void *nul = (void *)0;
  long l = in_i64(); unsigned long ul = in_u64(); double d = in_f64(); float f = in_f32(); _Bool b = in_bool();
  COVER(1);
#ifdef CANARY_NULLCMP
  CHECK(NullComparer__visit(&nc, (void *)0) == DIFFER, "null == null: EQUAL");
#else
  CHECK(NullComparer__visit(&nc, (void *)0) == EQUAL, "null == null: EQUAL");
#endif
  /* every other kind met by a NullComparer (using ComparerBase::visit) and every default of the base: DIFFER */
  CHECK(JsonVariantVisitor_CompareResult__visit_JsonString(&base, &js) == DIFFER, "default visit(string): DIFFER");
  CHECK(JsonVariantVisitor_CompareResult__visit_SerializedValue_constchar_p(&base, &raw) == DIFFER, "default visit(raw): DIFFER");
  CHECK(JsonVariantVisitor_CompareResult__visit_JsonArrayConst(&base, &arr) == DIFFER, "default visit(array): DIFFER");
  CHECK(JsonVariantVisitor_CompareResult__visit_JsonObjectConst(&base, &obj) == DIFFER, "default visit(object): DIFFER");
  CHECK(JsonVariantVisitor_CompareResult__visit_long(&base, &l) == DIFFER, "default visit(integer): DIFFER");
  CHECK(JsonVariantVisitor_CompareResult__visit_ulong(&base, &ul) == DIFFER, "default visit(unsigned): DIFFER");
  CHECK(JsonVariantVisitor_CompareResult__visit_double(&base, &d) == DIFFER, "default visit(double): DIFFER");
  CHECK(JsonVariantVisitor_CompareResult__visit_float(&base, &f) == DIFFER, "default visit(float): DIFFER");
  CHECK(JsonVariantVisitor_CompareResult__visit__Bool(&base, &b) == DIFFER, "default visit(bool): DIFFER");
  CHECK(JsonVariantVisitor_CompareResult__visit_void_p(&base, &nul) == DIFFER, "default visit(null): DIFFER");
}

/* VariantComparer::reverseResult<C>(comparer): accept(rhs, comparer) with LESS<->GREATER swapped, everything else kept */
#ifdef CANARY_REVERSE
#define REV_WANT(x) ((x) == EQUAL ? DIFFER : spec_mirror(x))
#else
#define REV_WANT(x) spec_mirror(x)
#endif
#define CHK_REVERSE(fn, ST) do { struct VariantComparer vc; vc.rhs = pick_variant(); struct ST c; memset(&c, 0, sizeof c); \
    g_acc_result = pick_result(); g_acc_calls = 0; unsigned r = fn(&vc, &c); \
    COVER(g_acc_result == LESS); COVER(g_acc_result == GREATER); COVER(g_acc_result == EQUAL); COVER(g_acc_result == DIFFER); \
    CHECK(g_acc_calls == 1 && same_variant(g_acc_variant, vc.rhs) && g_acc_visitor == (const void *)&c, #fn ": one accept(rhs, comparer) call"); \
    CHECK(r == REV_WANT(g_acc_result), #fn ": LESS<->GREATER swapped, EQUAL and DIFFER kept"); } while (0)
void h_reverse_result(void) {
  CHK_REVERSE(VariantComparer__reverseResult_Comparer_long, Comparer_long_void);
  CHK_REVERSE(VariantComparer__reverseResult_Comparer_ulong, Comparer_ulong_void);
  CHK_REVERSE(VariantComparer__reverseResult_Comparer_double, Comparer_double_void);
  CHK_REVERSE(VariantComparer__reverseResult_Comparer__Bool, Comparer__Bool_void);
  CHK_REVERSE(VariantComparer__reverseResult_Comparer_JsonString, Comparer_JsonString_void);
  CHK_REVERSE(VariantComparer__reverseResult_RawComparer, RawComparer);
  CHK_REVERSE(VariantComparer__reverseResult_ArrayComparer, ArrayComparer);
  CHK_REVERSE(VariantComparer__reverseResult_ObjectComparer, ObjectComparer);
  CHK_REVERSE(VariantComparer__reverseResult_NullComparer, NullComparer);
}

/* VariantComparer{rhs}.visit(lhs of kind K): builds the comparer of kind K around lhs, lets rhs accept it, mirrors the result.
 * (so that compare(a,b) for two variants is mirror(kind-K comparison of (b's value, a's value)) = comparison of (a, b)) */
#define VC_BEGIN struct VariantComparer vc; VariantComparer__ctor__JsonVariantConst(&vc, pick_variant()); g_acc_result = pick_result(); g_acc_calls = 0; unsigned r;
#define VC_END(name, snapok) CHECK(g_acc_calls == 1 && same_variant(g_acc_variant, vc.rhs), name ": rhs accepts exactly one comparer"); \
    CHECK(snapok, name ": the comparer carries the visited value"); CHECK(r == VC_WANT(g_acc_result), name ": result mirrored");
#ifdef CANARY_VCVISIT
#define VC_WANT(x) ((x) == GREATER ? GREATER : spec_mirror(x))
#else
#define VC_WANT(x) spec_mirror(x)
#endif
void h_variant_comparer_visit(void) {
  { VC_BEGIN long v = in_i64(); r = VariantComparer__visit__long(&vc, v); COVER(g_acc_result == GREATER); VC_END("VariantComparer::visit(JsonInteger)", g_snap_long == v) }
  { VC_BEGIN unsigned long v = in_u64(); r = VariantComparer__visit__ulong(&vc, v); VC_END("VariantComparer::visit(JsonUInt)", g_snap_ulong == v) }
  { VC_BEGIN uint64_t bits = in_u64(); double v; memcpy(&v, &bits, 8); r = VariantComparer__visit__double(&vc, v);
    uint64_t got; memcpy(&got, &g_snap_double, 8); VC_END("VariantComparer::visit(JsonFloat)", got == bits) }
  { VC_BEGIN _Bool v = in_bool(); r = VariantComparer__visit___Bool(&vc, v); VC_END("VariantComparer::visit(bool)", g_snap_bool == v) }
  { VC_BEGIN struct JsonString v; v.data_ = (char *)&g_vd[0]; v.size_ = in_size(); v.ownership_ = in_bool(); r = VariantComparer__visit__JsonString(&vc, v);
    VC_END("VariantComparer::visit(JsonString)", g_snap_js.data_ == v.data_ && g_snap_js.size_ == v.size_ && g_snap_js.ownership_ == v.ownership_) }
  { VC_BEGIN struct SerializedValue_constchar_p v; v.data_ = (char *)&g_vd[1]; v.size_ = in_size(); r = VariantComparer__visit__SerializedValue_constchar_p(&vc, v);
    VC_END("VariantComparer::visit(RawString)", g_snap_raw.data_ == v.data_ && g_snap_raw.size_ == v.size_) }
  { VC_BEGIN struct JsonArrayConst v; v.data_ = (struct ArrayData *)&g_vd[0]; v.resources_ = &g_rm[1]; r = VariantComparer__visit__JsonArrayConst(&vc, v);
    VC_END("VariantComparer::visit(JsonArrayConst)", g_snap_arr.data_ == v.data_ && g_snap_arr.resources_ == v.resources_) }
  { VC_BEGIN struct JsonObjectConst v; v.data_ = (struct ObjectData *)&g_vd[1]; v.resources_ = &g_rm[0]; r = VariantComparer__visit__JsonObjectConst(&vc, v);
    VC_END("VariantComparer::visit(JsonObjectConst)", g_snap_obj.data_ == v.data_ && g_snap_obj.resources_ == v.resources_) }
  { VC_BEGIN r = VariantComparer__visit__void_p(&vc, (void *)0); VC_END("VariantComparer::visit(nullptr)", 1) }
}

/* ArrayComparer / ObjectComparer: EQUAL iff the containers are ==, otherwise DIFFER (containers are never ordered) */
void h_container_comparers(void) {
  struct JsonArrayConst a1, a2; a1.data_ = (struct ArrayData *)&g_vd[0]; a1.resources_ = &g_rm[0]; a2.data_ = (struct ArrayData *)&g_vd[1]; a2.resources_ = &g_rm[1];
  struct ArrayComparer ac; ArrayComparer__ctor__JsonArrayConst(&ac, a1);
  g_eq_result = in_bool(); g_eq_calls = 0;
  unsigned r = ArrayComparer__visit(&ac, a2);
  COVER(g_eq_result); COVER(!g_eq_result);
  CHECK(g_eq_calls == 1 && ((g_eq_arr[0].data_ == a1.data_ && g_eq_arr[1].data_ == a2.data_) || (g_eq_arr[0].data_ == a2.data_ && g_eq_arr[1].data_ == a1.data_)),
        "ArrayComparer::visit: one == between the stored and the visited array");
#ifdef CANARY_CONTAINERS
  CHECK(r == (g_eq_result ? EQUAL : LESS), "ArrayComparer::visit: EQUAL iff arrays ==, else DIFFER");
#else
  CHECK(r == (g_eq_result ? EQUAL : DIFFER), "ArrayComparer::visit: EQUAL iff arrays ==, else DIFFER");
#endif
  struct JsonObjectConst o1, o2; o1.data_ = (struct ObjectData *)&g_vd[0]; o1.resources_ = &g_rm[0]; o2.data_ = (struct ObjectData *)&g_vd[1]; o2.resources_ = &g_rm[1];
  struct ObjectComparer oc; ObjectComparer__ctor__JsonObjectConst(&oc, o1);
  g_eq_result = in_bool(); g_eq_calls = 0;
  r = ObjectComparer__visit(&oc, o2);
  CHECK(g_eq_calls == 1 && ((g_eq_obj[0].data_ == o1.data_ && g_eq_obj[1].data_ == o2.data_) || (g_eq_obj[0].data_ == o2.data_ && g_eq_obj[1].data_ == o1.data_)),
        "ObjectComparer::visit: one == between the stored and the visited object");
  CHECK(r == (g_eq_result ? EQUAL : DIFFER), "ObjectComparer::visit: EQUAL iff objects ==, else DIFFER");
}

/* compare<T>(lhs, rhs): Comparer<T>(rhs) accepted by lhs; result passed through unchanged */
#ifdef CANARY_COMPARE_FN
#define CF_WANT(x) ((x) == LESS ? GREATER : (x))
#else
#define CF_WANT(x) (x)
#endif
#define CHK_COMPARE(T) do { struct JsonVariantConst lhs = pick_variant(); T_##T rhs = IN_##T(); g_acc_result = pick_result(); g_acc_calls = 0; \
    unsigned r = COMPARE_NAME(T)(lhs, &rhs); COVER(g_acc_result == LESS); \
    CHECK(g_acc_calls == 1 && same_variant(g_acc_variant, lhs), "compare<" #T ">: lhs accepts exactly one comparer"); \
    CHECK(SNAP_##T == rhs || rhs != rhs, "compare<" #T ">: the comparer carries rhs"); \
    CHECK(r == CF_WANT(g_acc_result), "compare<" #T ">: the visitor's result unchanged"); } while (0);
#define SNAP_schar g_snap_schar
#define SNAP_uchar g_snap_uchar
#define SNAP_short g_snap_short
#define SNAP_ushort g_snap_ushort
#define SNAP_int g_snap_int
#define SNAP_uint g_snap_uint
#define SNAP_long g_snap_long
#define SNAP_ulong g_snap_ulong
#define SNAP_float g_snap_float
#define SNAP_double g_snap_double
#define SNAP_bool g_snap_bool
void h_compare_fn(void) {
  SCALAR_TYPES(CHK_COMPARE)
  { struct JsonVariantConst lhs = pick_variant(), rhs = pick_variant(); g_acc_result = pick_result(); g_acc_calls = 0;
    unsigned r = compare_JsonVariantConst(lhs, &rhs);
    CHECK(g_acc_calls == 1 && same_variant(g_acc_variant, lhs) && same_variant(g_snap_var, rhs), "compare<JsonVariantConst>: lhs accepts a VariantComparer around rhs");
    CHECK(r == g_acc_result, "compare<JsonVariantConst>: the visitor's result unchanged"); }
  { struct JsonVariantConst lhs = pick_variant(); struct JsonString rhs; rhs.data_ = (char *)&g_vd[0]; rhs.size_ = in_size(); rhs.ownership_ = in_bool();
    g_acc_result = pick_result(); g_acc_calls = 0;
    unsigned r = compare_JsonString(lhs, &rhs);
    CHECK(g_acc_calls == 1 && same_variant(g_acc_variant, lhs) && g_snap_js.data_ == rhs.data_ && g_snap_js.size_ == rhs.size_, "compare<JsonString>: comparer carries rhs");
    CHECK(r == g_acc_result, "compare<JsonString>: the visitor's result unchanged"); }
  { struct JsonVariantConst lhs = pick_variant(); char *rhs = in_bool() ? (char *)&g_vd[1] : (char *)0;
    g_acc_result = pick_result(); g_acc_calls = 0;
    unsigned r = compare_constchar_p(lhs, &rhs);
    CHECK(g_acc_calls == 1 && same_variant(g_acc_variant, lhs) && g_snap_cstr == rhs, "compare<const char*>: comparer carries rhs");
    CHECK(r == g_acc_result, "compare<const char*>: the visitor's result unchanged"); }
  { struct JsonVariantConst lhs = pick_variant(); struct SerializedValue_constchar_p rhs; rhs.data_ = (char *)&g_vd[1]; rhs.size_ = in_size();
    g_acc_result = pick_result(); g_acc_calls = 0;
    unsigned r = compare_SerializedValue_constchar_p(lhs, &rhs);
    CHECK(g_acc_calls == 1 && same_variant(g_acc_variant, lhs) && g_snap_raw.data_ == rhs.data_ && g_snap_raw.size_ == rhs.size_, "compare<SerializedValue>: comparer carries rhs");
    CHECK(r == g_acc_result, "compare<SerializedValue>: the visitor's result unchanged"); }
}
#endif /* UNIT_COMPARERS */

/* ================================================================================================================= */
#if defined(UNIT_STRINGS) || defined(UNIT_RAW)
/* Symbolic byte strings of length <= SMAX (bounded stand-in for the byte loops: class B).  Each string lives in its own heap
 * block of EXACTLY its length (+1 for the terminator of a zero-terminated kind), so any read past the end is a pointer-check
 * failure.  A "general" string may contain NUL anywhere (sized kinds: embedded NUL preserved); a "zt" string has none. */
#define SMAX 8
struct str { char *p; size_t n; };
static struct str mkstr(_Bool zt) {
  struct str s;
  s.n = in_u8();
  __CPROVER_assume(s.n <= SMAX);
  s.p = (char *)malloc(s.n + (zt ? 1 : 0));
#ifndef VERIF_NATIVE
  __CPROVER_assume(s.p != (char *)0);
#endif
  char c[SMAX];
  c[0] = in_char(); c[1] = in_char(); c[2] = in_char(); c[3] = in_char(); c[4] = in_char(); c[5] = in_char(); c[6] = in_char(); c[7] = in_char();
  for (size_t i = 0; i < SMAX; i++)
    if (i < s.n) {
      if (zt) __CPROVER_assume(c[i] != 0);
      s.p[i] = c[i];
    }
  if (zt) s.p[s.n] = 0;
  return s;
}
/* the oracle of the property: same length and same bytes */
static _Bool spec_same(struct str a, struct str b) {
  if (a.n != b.n) return 0;
  for (size_t i = 0; i < SMAX; i++)
    if (i < a.n && a.p[i] != b.p[i]) return 0;
  return 1;
}
static int sgn(int x) { return (x > 0) - (x < 0); }
#endif

#ifdef UNIT_STRINGS
static struct SizedRamString as_sized(struct str s) { struct SizedRamString r; r.str_ = s.p; r.size_ = s.n; return r; }
static struct JsonStringAdapter as_jsa(struct str s, _Bool linked) { struct JsonStringAdapter r; r._b_SizedRamString = as_sized(s); r.linked_ = linked; return r; }
static struct ZeroTerminatedRamString as_zt(struct str s) { struct ZeroTerminatedRamString r; r.str_ = s.p; return r; }
static struct StaticStringAdapter as_ssa(struct str s) { struct StaticStringAdapter r; r._b_ZeroTerminatedRamString = as_zt(s); return r; }
static struct JsonString as_js(struct str s, _Bool linked) { struct JsonString r; r.data_ = s.p; r.size_ = s.n; r.ownership_ = linked ? 1u : 0u; return r; }

#ifdef CANARY_STR
#define SAME_OR_CANARY(a, b) (spec_same(a, b) || ((a).n == 2 && (b).n == 3))
#else
#define SAME_OR_CANARY(a, b) spec_same(a, b)
#endif

/* sized x sized: every adapter pairing, storage flag (linked/copied) symbolic and absent from the oracle (C14) */
void h_str_sized_sized(void) {
  struct str a = mkstr(0), b = mkstr(0);
  _Bool la = in_bool(), lb = in_bool();
  _Bool same = SAME_OR_CANARY(a, b);
  COVER(same && a.n == SMAX); COVER(!same && a.n == b.n); COVER(a.n != b.n); COVER(a.n > 1 && a.p[0] == 0 && same);
  CHECK(stringEquals_SizedRamString_SizedRamString(as_sized(a), as_sized(b)) == same, "stringEquals(sized,sized): true iff same length and bytes");
  CHECK(stringEquals_JsonStringAdapter_SizedRamString(as_jsa(a, la), as_sized(b)) == same, "stringEquals(JsonString,sized): true iff same length and bytes");
  CHECK(stringEquals_SizedRamString_JsonStringAdapter(as_sized(a), as_jsa(b, lb)) == same, "stringEquals(sized,JsonString): true iff same length and bytes");
  CHECK(stringEquals_JsonStringAdapter_JsonStringAdapter(as_jsa(a, la), as_jsa(b, lb)) == same, "stringEquals(JsonString,JsonString): true iff same length and bytes");
  int c1 = stringCompare_JsonStringAdapter_JsonStringAdapter(as_jsa(a, la), as_jsa(b, lb));
  int c1r = stringCompare_JsonStringAdapter_JsonStringAdapter(as_jsa(b, lb), as_jsa(a, la));
  int c2 = stringCompare_SizedRamString_JsonStringAdapter(as_sized(a), as_jsa(b, lb));
  int c2r = stringCompare_SizedRamString_JsonStringAdapter(as_sized(b), as_jsa(a, la));
  CHECK((c1 == 0) == same, "stringCompare(JsonString,JsonString) == 0 iff stringEquals");
  CHECK((c2 == 0) == same, "stringCompare(sized,JsonString) == 0 iff stringEquals");
  CHECK(sgn(c1) == -sgn(c1r), "stringCompare(JsonString,JsonString) antisymmetric");
  CHECK(sgn(c2) == -sgn(c2r), "stringCompare(sized,JsonString) antisymmetric");
  CHECK(sgn(c1) == sgn(c2), "stringCompare depends only on (length, bytes), not on the adapter kind or the linked flag");
}

/* sized x zero-terminated (the kind of a user's const char*): its length is where its first NUL is, by definition of the kind */
void h_str_sized_zt(void) {
  struct str a = mkstr(0), b = mkstr(1);
  _Bool la = in_bool();
  _Bool same = SAME_OR_CANARY(a, b);
  COVER(same && a.n == SMAX); COVER(!same && a.n == b.n); COVER(a.n != b.n);
  CHECK(stringEquals_SizedRamString_StaticStringAdapter(as_sized(a), as_ssa(b)) == same, "stringEquals(sized,cstr): true iff same length and bytes");
  CHECK(stringEquals_StaticStringAdapter_SizedRamString(as_ssa(b), as_sized(a)) == same, "stringEquals(cstr,sized): true iff same length and bytes");
  CHECK(stringEquals_JsonStringAdapter_StaticStringAdapter(as_jsa(a, la), as_ssa(b)) == same, "stringEquals(JsonString,cstr): true iff same length and bytes");
  CHECK(stringEquals_StaticStringAdapter_JsonStringAdapter(as_ssa(b), as_jsa(a, la)) == same, "stringEquals(cstr,JsonString): true iff same length and bytes");
  int c = stringCompare_JsonStringAdapter_StaticStringAdapter(as_jsa(a, la), as_ssa(b));
  int cr = stringCompare_StaticStringAdapter_JsonStringAdapter(as_ssa(b), as_jsa(a, la));
  CHECK((c == 0) == same, "stringCompare(JsonString,cstr) == 0 iff stringEquals");
  CHECK((cr == 0) == same, "stringCompare(cstr,JsonString) == 0 iff stringEquals");
  CHECK(sgn(c) == -sgn(cr), "stringCompare(JsonString,cstr) and (cstr,JsonString) have opposite signs");
  /* same bytes seen through a sized adapter on both sides: same sign (storage/adapter kind unobservable) */
  struct str b2; b2.p = b.p; b2.n = b.n;
  CHECK(sgn(c) == sgn(stringCompare_JsonStringAdapter_JsonStringAdapter(as_jsa(a, la), as_jsa(b2, !la))), "stringCompare depends only on (length, bytes), not on the adapter kind");
}

/* zero-terminated x zero-terminated (friend overloads built on strcmp; not reached by variant comparisons) */
void h_str_zt_zt(void) {
  struct str a = mkstr(1), b = mkstr(1);
  _Bool same = SAME_OR_CANARY(a, b);
  COVER(same && a.n == SMAX); COVER(!same && a.n == b.n); COVER(a.n != b.n);
  CHECK(stringEquals(as_zt(a), as_zt(b)) == same, "stringEquals(cstr,cstr): true iff same length and bytes");
  int c = stringCompare(as_zt(a), as_zt(b)), cr = stringCompare(as_zt(b), as_zt(a));
  CHECK((c == 0) == same, "stringCompare(cstr,cstr) == 0 iff stringEquals");
  CHECK(sgn(c) == -sgn(cr), "stringCompare(cstr,cstr) antisymmetric");
}

/* JsonString == / != : equal iff same length and bytes; a null JsonString equals only a null JsonString */
void h_jsonstring_eq(void) {
  struct str a = mkstr(0), b = mkstr(0);
  _Bool la = in_bool(), lb = in_bool();
  uint8_t mode = in_u8();
  __CPROVER_assume(mode < 4);
  struct JsonString x = as_js(a, la), y = as_js(b, lb);
  _Bool want;
  if (mode == 1) { x.data_ = (char *)0; x.size_ = 0; want = 0; }                                 /* null vs non-null (possibly "") */
  else if (mode == 2) { x.data_ = (char *)0; x.size_ = 0; y.data_ = (char *)0; y.size_ = 0; want = 1; } /* null vs null */
  else if (mode == 3) { y = x; y.ownership_ = lb ? 1u : 0u; want = 1; }                          /* same block, other storage flag */
  else want = spec_same(a, b);
  COVER(mode == 0 && want && a.n == SMAX); COVER(mode == 0 && !want && a.n == b.n); COVER(mode == 1 && b.n == 0); COVER(mode == 2); COVER(mode == 3);
#ifdef CANARY_JSEQ
  CHECK(op_eq__JsonString_JsonString(x, y) == (want || (mode == 1 && b.n == 0)), "JsonString ==: true iff same length and bytes (null only equals null)");
#else
  CHECK(op_eq__JsonString_JsonString(x, y) == want, "JsonString ==: true iff same length and bytes (null only equals null)");
#endif
  CHECK(op_eq__JsonString_JsonString(y, x) == want, "JsonString ==: symmetric");
  CHECK(op_ne__JsonString_JsonString(x, y) == !want, "JsonString !=: not ==");
}

/* Comparer<string kind>{rhs}.visit(JsonString lhs) with a NON-NULL rhs; lhs is the string held by a variant (never null) */
#ifdef CANARY_STRCMP
#define STRCMP_EQ_WANT(same, a) ((same) && (a).n != 3)
#else
#define STRCMP_EQ_WANT(same, a) (same)
#endif
void h_string_comparers(void) {
  struct str a = mkstr(0), b = mkstr(0), z = mkstr(1);
  _Bool la = in_bool(), lb = in_bool();
  /* the user's string may be a view of the variant's own buffer (a prefix of a linked literal, the C-string view of a stored
   * string): equality is still decided by (length, bytes), never by the address alone */
  _Bool alias = in_bool();
  if (alias) { __CPROVER_assume(b.n <= a.n); b.p = a.p; }
  _Bool same = spec_same(a, b);
  COVER(same && a.n == SMAX); COVER(!same && a.n == b.n); COVER(a.n != b.n);
  COVER(alias && !same); COVER(alias && same && a.n > 0);
  struct Comparer_JsonString_void cb, ca;
  Comparer_JsonString_void__ctor__JsonString(&cb, as_js(b, lb));
  Comparer_JsonString_void__ctor__JsonString(&ca, as_js(a, la));
  unsigned r_ab = Comparer_JsonString_void__visit__JsonString(&cb, as_js(a, la));  /* variant a ? user b */
  unsigned r_ba = Comparer_JsonString_void__visit__JsonString(&ca, as_js(b, lb));  /* variant b ? user a */
  CHECK((r_ab == EQUAL) == STRCMP_EQ_WANT(same, a), "Comparer<JsonString>: EQUAL iff same length and bytes");
  CHECK(r_ab == LESS || r_ab == GREATER || r_ab == EQUAL, "strings are always ordered: never DIFFER");
  CHECK(r_ab == spec_mirror(r_ba), "Comparer<JsonString>: swapping the operands mirrors the result");
  CHECK(Comparer_JsonString_void__visit__JsonString(&cb, as_js(a, !la)) == r_ab, "C14: linked/copied flag of the variant's string is unobservable");
  Comparer_JsonString_void__ctor__JsonString(&cb, as_js(b, !lb));
  CHECK(Comparer_JsonString_void__visit__JsonString(&cb, as_js(a, la)) == r_ab, "C14: linked/copied flag of the user's JsonString is unobservable");
  CHECK(Comparer_JsonString_void__visit__void_p(&cb, (void *)0) == DIFFER, "non-null JsonString vs null variant: DIFFER");
  /* serialized("...") on the user side is compared as a sized string */
  struct Comparer_SerializedValue_constchar_p_void cs;
  struct SerializedValue_constchar_p sv; sv.data_ = b.p; sv.size_ = b.n;
  Comparer_SerializedValue_constchar_p_void__ctor__SerializedValue_constchar_p(&cs, sv);
  CHECK(Comparer_SerializedValue_constchar_p_void__visit__JsonString(&cs, as_js(a, la)) == r_ab, "Comparer<SerializedValue>: same result as the JsonString with the same bytes");
  CHECK(Comparer_SerializedValue_constchar_p_void__visit__void_p(&cs, (void *)0) == DIFFER, "non-null serialized vs null variant: DIFFER");
  /* const char* on the user side */
  struct Comparer_constchar_p_void cz;
  Comparer_constchar_p_void__ctor__char_p(&cz, z.p);
  struct Comparer_JsonString_void czj;
  Comparer_JsonString_void__ctor__JsonString(&czj, as_js(z, lb));
  unsigned r_az = Comparer_constchar_p_void__visit__JsonString(&cz, as_js(a, la));
  CHECK((r_az == EQUAL) == spec_same(a, z), "Comparer<const char*>: EQUAL iff same length and bytes");
  CHECK(r_az == Comparer_JsonString_void__visit__JsonString(&czj, as_js(a, la)), "C14: const char* and JsonString with the same bytes compare alike");
  CHECK(Comparer_constchar_p_void__visit__void_p(&cz, (void *)0) == DIFFER, "non-null const char* vs null variant: DIFFER");
}

/* null on the user side ((const char*)0, JsonString(), serialized((char*)0)): equals a null variant and NOTHING else */
void h_string_comparers_null_rhs(void) {
  struct str a = mkstr(0);
  _Bool la = in_bool();
  COVER(a.n == 0); COVER(a.n == SMAX);
  struct Comparer_constchar_p_void cz;
  Comparer_constchar_p_void__ctor__char_p(&cz, (char *)0);
  struct Comparer_JsonString_void cj;
  struct JsonString nulljs; nulljs.data_ = (char *)0; nulljs.size_ = 0; nulljs.ownership_ = 1u;
  Comparer_JsonString_void__ctor__JsonString(&cj, nulljs);
  struct Comparer_SerializedValue_constchar_p_void cs;
  struct SerializedValue_constchar_p sv; sv.data_ = (char *)0; sv.size_ = 0;
  Comparer_SerializedValue_constchar_p_void__ctor__SerializedValue_constchar_p(&cs, sv);
  CHECK(Comparer_constchar_p_void__visit__void_p(&cz, (void *)0) == EQUAL, "null const char* vs null variant: EQUAL");
  CHECK(Comparer_JsonString_void__visit__void_p(&cj, (void *)0) == EQUAL, "null JsonString vs null variant: EQUAL");
  CHECK(Comparer_SerializedValue_constchar_p_void__visit__void_p(&cs, (void *)0) == EQUAL, "null serialized vs null variant: EQUAL");
#ifdef CANARY_STRNULL
  CHECK(Comparer_constchar_p_void__visit__JsonString(&cz, as_js(a, la)) == EQUAL, "null const char* vs string variant: not EQUAL (null equals only null)");
#else
  CHECK(Comparer_constchar_p_void__visit__JsonString(&cz, as_js(a, la)) != EQUAL, "null const char* vs string variant: not EQUAL (null equals only null)");
#endif
  CHECK(Comparer_JsonString_void__visit__JsonString(&cj, as_js(a, la)) != EQUAL, "null JsonString vs string variant: not EQUAL (null equals only null)");
  CHECK(Comparer_SerializedValue_constchar_p_void__visit__JsonString(&cs, as_js(a, la)) != EQUAL, "null serialized vs string variant: not EQUAL (null equals only null)");
}
#endif /* UNIT_STRINGS */

/* ================================================================================================================= */
#ifdef UNIT_RAW
/* RawComparer{rhs}.visit(lhs): "raw values are equal only when their bytes are identical" */
void h_raw_comparer(void) {
  struct str a = mkstr(0), b = mkstr(0);
  _Bool same = spec_same(a, b);
  COVER(same && a.n == SMAX); COVER(!same && a.n == b.n); COVER(a.n != b.n);
  struct SerializedValue_constchar_p ra, rb; ra.data_ = a.p; ra.size_ = a.n; rb.data_ = b.p; rb.size_ = b.n;
  struct RawComparer cb, ca;
  RawComparer__ctor__SerializedValue_constchar_p(&cb, rb);
  RawComparer__ctor__SerializedValue_constchar_p(&ca, ra);
  unsigned r_ab = RawComparer__visit(&cb, ra), r_ba = RawComparer__visit(&ca, rb);
#ifdef CANARY_RAW
  CHECK((r_ab == EQUAL) == (same && a.n != 1), "RawComparer: EQUAL iff same length and same bytes");
#else
  CHECK((r_ab == EQUAL) == same, "RawComparer: EQUAL iff same length and same bytes");
#endif
  CHECK(spec_is_result(r_ab), "RawComparer: a three-way result");
  CHECK(r_ab == spec_mirror(r_ba), "RawComparer: swapping the operands mirrors the result");
}
#endif /* UNIT_RAW */

/* ================================================================================================================= */
#if defined(UNIT_OPS) || defined(UNIT_OPS_PTR)
/* VariantOperators: compare() is abstracted to "a deterministic function returning a three-way result"; the stub returns the
 * result chosen by the harness for the operand pair it is called with and records the call */
static struct VariantData g_ovd[2];
static struct ResourceManager g_orm[2];
static unsigned g_cmp_result, g_cmp_calls;
static struct JsonVariantConst g_cmp_lhs;
static _Bool ops_same_variant(struct JsonVariantConst a, struct JsonVariantConst b) { return a.data_ == b.data_ && a.resources_ == b.resources_; }
static unsigned ops_pick_result(void) { unsigned r = in_u8(); __CPROVER_assume(spec_is_result(r)); return r; }
/* the stated function of each operator in terms of the one three-way result c = compare(a, b) */
static _Bool spec_eq(unsigned c) { return c == EQUAL; }
static _Bool spec_ne(unsigned c) { return c != EQUAL; }
static _Bool spec_lt(unsigned c) { return c == LESS; }
static _Bool spec_le(unsigned c) { return c == LESS || c == EQUAL; }
static _Bool spec_gt(unsigned c) { return c == GREATER; }
static _Bool spec_ge(unsigned c) { return c == GREATER || c == EQUAL; }
/* C18 laws over the six results of one ordered pair (a, b) and the six of (b, a) */
#define LAWS(eq_ab, ne_ab, lt_ab, le_ab, gt_ab, ge_ab, eq_ba, ne_ba, lt_ba, le_ba, gt_ba, ge_ba) do { \
    CHECK((eq_ab) == (eq_ba), "law: a==b iff b==a"); \
    CHECK((ne_ab) == !(eq_ab) && (ne_ba) == !(eq_ba), "law: a!=b iff not a==b"); \
    CHECK((lt_ab) == (gt_ba) && (lt_ba) == (gt_ab), "law: a<b iff b>a"); \
    CHECK((le_ab) == ((lt_ab) || (eq_ab)) && (le_ba) == ((lt_ba) || (eq_ba)), "law: a<=b iff a<b or a==b"); \
    CHECK((ge_ab) == ((gt_ab) || (eq_ab)) && (ge_ba) == ((gt_ba) || (eq_ba)), "law: a>=b iff a>b or a==b"); \
    CHECK((lt_ab) + (eq_ab) + (gt_ab) <= LAW_MAX, "law: at most one of a<b, a==b, a>b"); } while (0)
#ifdef CANARY_LAWS
#define LAW_MAX 0
#else
#define LAW_MAX 1
#endif
#endif

#ifdef UNIT_OPS
static int g_cmp_int; static _Bool g_cmp_bool;
static struct JsonVariantConst g_va, g_vb; static unsigned g_c_ab, g_c_ba;
#ifndef VERIF_NATIVE
unsigned int compare_int(struct JsonVariantConst lhs, int *rhs) { g_cmp_calls++; g_cmp_lhs = lhs; g_cmp_int = *rhs; return g_cmp_result; }
unsigned int compare__Bool(struct JsonVariantConst lhs, _Bool *rhs) { g_cmp_calls++; g_cmp_lhs = lhs; g_cmp_bool = *rhs; return g_cmp_result; }
unsigned int compare_JsonVariantConst(struct JsonVariantConst lhs, struct JsonVariantConst *rhs) {
  g_cmp_calls++;
  if (ops_same_variant(lhs, g_va) && ops_same_variant(*rhs, g_vb)) return g_c_ab;
  if (ops_same_variant(lhs, g_vb) && ops_same_variant(*rhs, g_va)) return g_c_ba;
  __CPROVER_assert(0, "compare<JsonVariantConst> called with the two operands of the operator");
  return DIFFER;
}
#endif

#ifdef CANARY_OPS
#define OPS_GE(c) ((c) == GREATER)
#else
#define OPS_GE(c) spec_ge(c)
#endif
/* variant (op) scalar and scalar (op) variant: all twelve forms are the stated function of compare(variant, scalar) */
void h_ops_scalar(void) {
  struct JsonVariantConst v; v.data_ = &g_ovd[0]; v.resources_ = &g_orm[0];
  int x = in_i32();
  unsigned c = g_cmp_result = ops_pick_result();
  COVER(c == LESS); COVER(c == GREATER); COVER(c == EQUAL); COVER(c == DIFFER);
  g_cmp_calls = 0;
  _Bool eq_vx = op_eq_int__JsonVariantConst_int_r(v, &x), ne_vx = op_ne_int__JsonVariantConst_int_r(v, &x);
  _Bool lt_vx = op_lt_int__JsonVariantConst_int_r(v, &x), le_vx = op_le_int__JsonVariantConst_int_r(v, &x);
  _Bool gt_vx = op_gt_int__JsonVariantConst_int_r(v, &x), ge_vx = op_ge_int__JsonVariantConst_int_r(v, &x);
  _Bool eq_xv = op_eq_int__int_r_JsonVariantConst(&x, v), ne_xv = op_ne_int__int_r_JsonVariantConst(&x, v);
  _Bool lt_xv = op_lt_int__int_r_JsonVariantConst(&x, v), le_xv = op_le_int__int_r_JsonVariantConst(&x, v);
  _Bool gt_xv = op_gt_int__int_r_JsonVariantConst(&x, v), ge_xv = op_ge_int__int_r_JsonVariantConst(&x, v);
  CHECK(g_cmp_calls == 12 && ops_same_variant(g_cmp_lhs, v) && g_cmp_int == x, "every operator makes one compare(variant, scalar) call");
  CHECK(eq_vx == spec_eq(c), "v == x iff compare(v,x) is EQUAL");
  CHECK(ne_vx == spec_ne(c), "v != x iff compare(v,x) is not EQUAL");
  CHECK(lt_vx == spec_lt(c), "v < x iff compare(v,x) is LESS");
  CHECK(le_vx == spec_le(c), "v <= x iff compare(v,x) is LESS or EQUAL");
  CHECK(gt_vx == spec_gt(c), "v > x iff compare(v,x) is GREATER");
  CHECK(ge_vx == OPS_GE(c), "v >= x iff compare(v,x) is GREATER or EQUAL");
  CHECK(eq_xv == spec_eq(c), "x == v iff compare(v,x) is EQUAL");
  CHECK(ne_xv == spec_ne(c), "x != v iff compare(v,x) is not EQUAL");
  CHECK(lt_xv == spec_gt(c), "x < v iff compare(v,x) is GREATER (mirrored)");
  CHECK(le_xv == spec_ge(c), "x <= v iff compare(v,x) is GREATER or EQUAL (mirrored)");
  CHECK(gt_xv == spec_lt(c), "x > v iff compare(v,x) is LESS (mirrored)");
  CHECK(ge_xv == spec_le(c), "x >= v iff compare(v,x) is LESS or EQUAL (mirrored)");
  _Bool b = in_bool();
  g_cmp_calls = 0;
  CHECK(op_eq__Bool(v, &b) == spec_eq(c) && g_cmp_calls == 1 && g_cmp_bool == b, "v == bool iff compare(v,bool) is EQUAL");
  /* coherence of the twelve real operator results (a = variant, b = scalar) */
  LAWS(eq_vx, ne_vx, lt_vx, le_vx, gt_vx, ge_vx, eq_xv, ne_xv, lt_xv, le_xv, gt_xv, ge_xv);
}

/* variant (op) variant: `a op b` binds to operator op(const T& lhs, TVariant rhs) with T = JsonVariantConst, i.e. it is stated in
 * terms of compare(b, a).  Coherence between (a op b) and (b op a) then needs compare(b,a) == mirror(compare(a,b)): lemma
 * L-C18-antisym (props_meta), assumed here through the stub */
void h_ops_variant(void) {
  g_va.data_ = &g_ovd[0]; g_va.resources_ = &g_orm[0]; g_vb.data_ = &g_ovd[1]; g_vb.resources_ = &g_orm[1];
  g_c_ab = ops_pick_result(); g_c_ba = spec_mirror(g_c_ab);
  COVER(g_c_ab == LESS); COVER(g_c_ab == GREATER); COVER(g_c_ab == EQUAL); COVER(g_c_ab == DIFFER);
  struct JsonVariantConst a = g_va, b = g_vb;
  g_cmp_calls = 0;
  _Bool eq_ab = op_eq_JsonVariantConst(&a, b), ne_ab = op_ne_JsonVariantConst(&a, b), lt_ab = op_lt_JsonVariantConst(&a, b);
  _Bool le_ab = op_le_JsonVariantConst(&a, b), gt_ab = op_gt_JsonVariantConst(&a, b), ge_ab = op_ge_JsonVariantConst(&a, b);
  _Bool eq_ba = op_eq_JsonVariantConst(&b, a), ne_ba = op_ne_JsonVariantConst(&b, a), lt_ba = op_lt_JsonVariantConst(&b, a);
  _Bool le_ba = op_le_JsonVariantConst(&b, a), gt_ba = op_gt_JsonVariantConst(&b, a), ge_ba = op_ge_JsonVariantConst(&b, a);
  CHECK(g_cmp_calls == 12, "every operator makes one compare call");
  /* stated function: a op b  ==  (b mirrored-op a)  ==  mirrored test of compare(b, a) */
  CHECK(eq_ab == spec_eq(g_c_ba), "a == b iff compare(b,a) is EQUAL");
  CHECK(ne_ab == spec_ne(g_c_ba), "a != b iff compare(b,a) is not EQUAL");
  CHECK(lt_ab == spec_gt(g_c_ba), "a < b iff compare(b,a) is GREATER");
  CHECK(le_ab == spec_ge(g_c_ba), "a <= b iff compare(b,a) is GREATER or EQUAL");
  CHECK(gt_ab == spec_lt(g_c_ba), "a > b iff compare(b,a) is LESS");
#ifdef CANARY_OPSV
  CHECK(ge_ab == spec_lt(g_c_ba), "a >= b iff compare(b,a) is LESS or EQUAL");
#else
  CHECK(ge_ab == spec_le(g_c_ba), "a >= b iff compare(b,a) is LESS or EQUAL");
#endif
  LAWS(eq_ab, ne_ab, lt_ab, le_ab, gt_ab, ge_ab, eq_ba, ne_ba, lt_ba, le_ba, gt_ba, ge_ba);
}

/* the laws over the spec functions alone (any three-way result, its mirror for the swapped pair) */
void h_laws_spec(void) {
  unsigned c = ops_pick_result(), m = spec_mirror(c);
  COVER(c == LESS); COVER(c == DIFFER);
  LAWS(spec_eq(c), spec_ne(c), spec_lt(c), spec_le(c), spec_gt(c), spec_ge(c), spec_eq(m), spec_ne(m), spec_lt(m), spec_le(m), spec_gt(m), spec_ge(m));
}
#endif /* UNIT_OPS */

#ifdef UNIT_OPS_PTR
/* the pointer forms: variant (op) T* and T* (op) variant, instantiated with T = const char (tu/compare.cpp) */
static char *g_cmp_ptr;
#ifndef VERIF_NATIVE
unsigned int compare_constchar_p(struct JsonVariantConst lhs, char **rhs) { g_cmp_calls++; g_cmp_lhs = lhs; g_cmp_ptr = *rhs; return g_cmp_result; }
#endif
void h_ops_pointer(void) {
  struct JsonVariantConst v; v.data_ = &g_ovd[0]; v.resources_ = &g_orm[0];
  char *s = in_bool() ? (char *)&g_ovd[1] : (char *)0;
  unsigned c = g_cmp_result = ops_pick_result();
  COVER(c == LESS); COVER(c == GREATER); COVER(c == EQUAL); COVER(c == DIFFER);
  g_cmp_calls = 0;
  _Bool eq_vs = op_eq_constchar__JsonVariantConst_char_p(v, s), ne_vs = op_ne_constchar__JsonVariantConst_char_p(v, s);
  _Bool lt_vs = op_lt_constchar__JsonVariantConst_char_p(v, s), le_vs = op_le_constchar__JsonVariantConst_char_p(v, s);
  _Bool gt_vs = op_gt_constchar__JsonVariantConst_char_p(v, s), ge_vs = op_ge_constchar__JsonVariantConst_char_p(v, s);
  _Bool eq_sv = op_eq_constchar__char_p_JsonVariantConst(s, v), ne_sv = op_ne_constchar__char_p_JsonVariantConst(s, v);
  _Bool lt_sv = op_lt_constchar__char_p_JsonVariantConst(s, v), le_sv = op_le_constchar__char_p_JsonVariantConst(s, v);
  _Bool gt_sv = op_gt_constchar__char_p_JsonVariantConst(s, v), ge_sv = op_ge_constchar__char_p_JsonVariantConst(s, v);
  CHECK(g_cmp_calls == 12 && ops_same_variant(g_cmp_lhs, v) && g_cmp_ptr == s, "every operator makes one compare(variant, pointer) call");
  CHECK(eq_vs == spec_eq(c), "v == p iff compare(v,p) is EQUAL");
  CHECK(ne_vs == spec_ne(c), "v != p iff compare(v,p) is not EQUAL");
  CHECK(lt_vs == spec_lt(c), "v < p iff compare(v,p) is LESS");
  CHECK(le_vs == spec_le(c), "v <= p iff compare(v,p) is LESS or EQUAL");
  CHECK(gt_vs == spec_gt(c), "v > p iff compare(v,p) is GREATER");
  CHECK(ge_vs == spec_ge(c), "v >= p iff compare(v,p) is GREATER or EQUAL");
  CHECK(eq_sv == spec_eq(c), "p == v iff compare(v,p) is EQUAL");
  CHECK(ne_sv == spec_ne(c), "p != v iff compare(v,p) is not EQUAL");
#ifdef CANARY_OPSP
  CHECK(lt_sv == spec_lt(c), "p < v iff compare(v,p) is GREATER (mirrored)");
#else
  CHECK(lt_sv == spec_gt(c), "p < v iff compare(v,p) is GREATER (mirrored)");
#endif
  CHECK(le_sv == spec_ge(c), "p <= v iff compare(v,p) is GREATER or EQUAL (mirrored)");
  CHECK(gt_sv == spec_lt(c), "p > v iff compare(v,p) is LESS (mirrored)");
  CHECK(ge_sv == spec_le(c), "p >= v iff compare(v,p) is LESS or EQUAL (mirrored)");
  LAWS(eq_vs, ne_vs, lt_vs, le_vs, gt_vs, ge_vs, eq_sv, ne_sv, lt_sv, le_sv, gt_sv, ge_sv);
}
#endif /* UNIT_OPS_PTR */

/* ================================================================================================================= */
#ifdef UNIT_CONTAINERS
/* JsonArrayConst == / JsonObjectConst == on REAL collection structures (slots of a real pool, linked by next_), small sizes
 * (class B: arrays of <= 3 elements, objects of <= 2 members, keys of one byte).  Elements are Int32 variants; the element
 * comparison (variant != variant) is replaced by its contract for that kind: "differ iff the integers differ". */
#define C_NULL_SLOT 0xFFFFFFFFu /* def64: SlotId is uint32_t, NULL_SLOT = SlotId(-1) */
#define VT_LINKED_STRING 4      /* VariantType::LinkedString */
#define VT_INT32 12             /* VariantType::Int32 */
static union ResourceManager__SlotData g_slots[16];
static struct ResourceManager g_crm;
static char g_keys[3][2] = {"a", "b", "c"};
static void pool_init(void) {
  memset(&g_crm, 0, sizeof g_crm);
  memset(g_slots, 0, sizeof g_slots);
  g_crm.variantPools_.pools_ = g_crm.variantPools_.preallocatedPools_;
  g_crm.variantPools_.pools_[0].slots_ = g_slots;
  g_crm.variantPools_.pools_[0].capacity_ = 16;
  g_crm.variantPools_.pools_[0].usage_ = 16;
  g_crm.variantPools_.count_ = 1;
  g_crm.variantPools_.capacity_ = 4;
  g_crm.variantPools_.freeList_ = C_NULL_SLOT;
}
static void slot_int(unsigned id, int v, unsigned next) {
  g_slots[id].variant.type_ = VT_INT32; g_slots[id].variant.content_.asInt32 = v; g_slots[id].variant.next_ = next;
}
static void slot_key(unsigned id, unsigned k, unsigned next) {
  g_slots[id].variant.type_ = VT_LINKED_STRING; g_slots[id].variant.content_.asLinkedString = g_keys[k]; g_slots[id].variant.next_ = next;
}
#ifndef VERIF_NATIVE
/* contract of stringEquals(JsonString, JsonString) (unit cmp_strings), specialised to the keys used here (length <= 1) */
_Bool stringEquals_JsonStringAdapter_JsonStringAdapter(struct JsonStringAdapter s1, struct JsonStringAdapter s2) {
  unsigned long n1 = s1._b_SizedRamString.size_, n2 = s2._b_SizedRamString.size_;
  __CPROVER_assert(s1._b_SizedRamString.str_ && s2._b_SizedRamString.str_ && n1 <= 1 && n2 <= 1, "key comparison gets two non-null keys of the harness");
  return n1 == n2 && (n1 == 0 || s1._b_SizedRamString.str_[0] == s2._b_SizedRamString.str_[0]);
}
/* contract of ResourceManager::getVariant for the pool built by pool_init (memory-layer units own the real function):
 * the slot with that id, null for NULL_SLOT */
struct VariantData *ResourceManager__getVariant(struct ResourceManager *self, unsigned int id) {
  __CPROVER_assert(self == &g_crm && (id == C_NULL_SLOT || id < 16), "getVariant: an id of this pool");
  return id == C_NULL_SLOT ? (struct VariantData *)0 : &g_slots[id].variant;
}
/* contract of variant != variant for two Int32 variants (C18 numbers clause, enforced by units cmp_arith/cmp_comparers) */
_Bool op_ne_JsonVariantConst(struct JsonVariantConst *lhs, struct JsonVariantConst rhs) {
  __CPROVER_assert(lhs->data_ && rhs.data_ && lhs->data_->type_ == VT_INT32 && rhs.data_->type_ == VT_INT32, "element comparison gets two bound elements");
  return lhs->data_->content_.asInt32 != rhs.data_->content_.asInt32;
}
#endif

/* arrays compare element-wise in order */
void h_array_eq(void) {
  pool_init();
  unsigned la = in_u8(), lb = in_u8();
  __CPROVER_assume(la <= 3 && lb <= 3);
  int a[3], b[3];
  a[0] = in_i8(); a[1] = in_i8(); a[2] = in_i8(); b[0] = in_i8(); b[1] = in_i8(); b[2] = in_i8();
  for (unsigned i = 0; i < 3; i++) {
    if (i < la) slot_int(i, a[i], i + 1 < la ? i + 1 : C_NULL_SLOT);
    if (i < lb) slot_int(8 + i, b[i], i + 1 < lb ? 8 + i + 1 : C_NULL_SLOT);
  }
  struct ArrayData da, db;
  da._b_CollectionData.head_ = la ? 0 : C_NULL_SLOT; da._b_CollectionData.tail_ = la ? la - 1 : C_NULL_SLOT;
  db._b_CollectionData.head_ = lb ? 8 : C_NULL_SLOT; db._b_CollectionData.tail_ = lb ? 8 + lb - 1 : C_NULL_SLOT;
  struct JsonArrayConst A, B;
  A.data_ = &da; A.resources_ = &g_crm; B.data_ = &db; B.resources_ = &g_crm;
  _Bool want = la == lb;
  for (unsigned i = 0; i < 3; i++)
    if (i < la && i < lb && a[i] != b[i]) want = 0;
  uint8_t mode = in_u8();
  __CPROVER_assume(mode < 4);
  if (mode == 1) { A.data_ = (struct ArrayData *)0; want = 0; }                                  /* unbound vs bound (even empty) */
  if (mode == 2) { A.data_ = (struct ArrayData *)0; B.data_ = (struct ArrayData *)0; want = 1; } /* unbound vs unbound */
  if (mode == 3) { B = A; want = 1; }                                                              /* an array and itself */
  COVER(mode == 0 && want && la == 3); COVER(mode == 0 && !want && la == lb && la == 3 && a[0] == b[0] && a[1] == b[1]);
  COVER(mode == 0 && la == 2 && lb == 3 && a[0] == b[0] && a[1] == b[1]); COVER(mode == 1 && lb == 0); COVER(mode == 2); COVER(mode == 3);
  _Bool r = op_eq__JsonArrayConst_JsonArrayConst(A, B);
#ifdef CANARY_ARRAY
  CHECK(r == (want || (mode == 0 && la == 2 && lb == 3 && a[0] == b[0] && a[1] == b[1])), "array ==: same length and pairwise equal elements in order (unbound equals only unbound)");
#else
  CHECK(r == want, "array ==: same length and pairwise equal elements in order (unbound equals only unbound)");
#endif
  CHECK(op_eq__JsonArrayConst_JsonArrayConst(B, A) == r, "array ==: symmetric");
}

/* objects compare member-wise regardless of order.  dup = 0: keys distinct within each object (well-formed objects);
 * dup = 1: no such assumption (objects with a repeated key exist only through the NUL-in-key defect of the parser) */
static unsigned g_o_mode, g_o_na, g_o_nb; static _Bool g_o_want, g_o_swapped, g_o_same_keys;
#define OBJECT_COVERS do { COVER(g_o_mode == 0 && g_o_want && g_o_swapped); /* equal, members in a different order */ \
    COVER(g_o_mode == 0 && !g_o_want && g_o_same_keys); COVER(g_o_mode == 0 && g_o_na != g_o_nb); COVER(g_o_mode == 1 && g_o_nb == 0); COVER(g_o_mode == 2); } while (0)
static void object_eq(_Bool dup) {
  pool_init();
  unsigned na = in_u8(), nb = in_u8();
  __CPROVER_assume(na <= 2 && nb <= 2);
  unsigned ka[2], kb[2];
  int va[2], vb[2];
  ka[0] = in_u8(); ka[1] = in_u8(); kb[0] = in_u8(); kb[1] = in_u8();
  __CPROVER_assume(ka[0] < 3 && ka[1] < 3 && kb[0] < 3 && kb[1] < 3);
  if (!dup) __CPROVER_assume((na < 2 || ka[0] != ka[1]) && (nb < 2 || kb[0] != kb[1]));
  va[0] = in_i8(); va[1] = in_i8(); vb[0] = in_i8(); vb[1] = in_i8();
  for (unsigned i = 0; i < 2; i++) {
    if (i < na) { slot_key(2 * i, ka[i], 2 * i + 1); slot_int(2 * i + 1, va[i], i + 1 < na ? 2 * i + 2 : C_NULL_SLOT); }
    if (i < nb) { slot_key(8 + 2 * i, kb[i], 8 + 2 * i + 1); slot_int(8 + 2 * i + 1, vb[i], i + 1 < nb ? 8 + 2 * i + 2 : C_NULL_SLOT); }
  }
  struct ObjectData da, db;
  da._b_CollectionData.head_ = na ? 0 : C_NULL_SLOT; da._b_CollectionData.tail_ = na ? 2 * na - 1 : C_NULL_SLOT;
  db._b_CollectionData.head_ = nb ? 8 : C_NULL_SLOT; db._b_CollectionData.tail_ = nb ? 8 + 2 * nb - 1 : C_NULL_SLOT;
  struct JsonObjectConst A, B;
  A.data_ = &da; A.resources_ = &g_crm; B.data_ = &db; B.resources_ = &g_crm;
  /* oracle: same member count, and every member of A has a member of B with the same key and an equal value */
  _Bool want = na == nb;
  for (unsigned i = 0; i < 2; i++)
    if (i < na) {
      _Bool found = 0;
      for (unsigned j = 0; j < 2; j++)
        if (j < nb && ka[i] == kb[j] && va[i] == vb[j]) found = 1;
      if (!found) want = 0;
    }
  uint8_t mode = in_u8();
  __CPROVER_assume(mode < 3);
  if (mode == 1) { A.data_ = (struct ObjectData *)0; want = 0; }
  if (mode == 2) { A.data_ = (struct ObjectData *)0; B.data_ = (struct ObjectData *)0; want = 1; }
  g_o_mode = mode; g_o_want = want; g_o_na = na; g_o_nb = nb; g_o_swapped = na == 2 && ka[0] == kb[1]; g_o_same_keys = na == 2 && nb == 2 && ka[0] == kb[0] && ka[1] == kb[1];
  _Bool r = op_eq__JsonObjectConst_JsonObjectConst(A, B), rr = op_eq__JsonObjectConst_JsonObjectConst(B, A);
  if (!dup) {
#ifdef CANARY_OBJECT
    CHECK(r == (want && !(mode == 0 && na == 2 && ka[0] == kb[1])), "object ==: same members regardless of order (unbound equals only unbound)");
#else
    CHECK(r == want, "object ==: same members regardless of order (unbound equals only unbound)");
#endif
  }
#ifdef CANARY_OBJECT_DUP
  CHECK(r != rr, "object ==: symmetric (a==b iff b==a)");
#else
  CHECK(r == rr, "object ==: symmetric (a==b iff b==a)");
#endif
}
void h_object_eq(void) { object_eq(0); OBJECT_COVERS; }
void h_object_eq_dup(void) { object_eq(1); OBJECT_COVERS; }
#endif /* UNIT_CONTAINERS */

/* ================================================================================================================= */
#ifdef UNIT_E2E
/* End to end: compare<T>(variant, scalar) on a REAL VariantData of every numeric storage kind, through the real accept()
 * dispatch, VisitorAdapter, Comparer<T>::visit and arithmeticCompare -- nothing stubbed.  "Numbers compare by numeric value
 * whatever their storage".  String kinds are excluded by assumption (their byte loops belong to unit cmp_strings); the
 * unwinding assertions (unwind 1) show that no loop body is reachable on the paths under contract. */
#define E_NULL_SLOT 0xFFFFFFFFu
#define VT_NULL 0
#define VT_BOOLEAN 6
#define VT_UINT32 10
#define VT_INT32 12
#define VT_FLOAT 14
#define VT_UINT64 26
#define VT_INT64 28
#define VT_DOUBLE 30
static union ResourceManager__SlotData g_eslots[4];
static struct ResourceManager g_erm;
static struct VariantData g_evd;
struct num { int cls; /* 0 integer, 1 floating, 2 null/unbound, 3 boolean */ struct mathint mi; double d; _Bool b; unsigned kind; };
static struct num g_num;
static struct JsonVariantConst mk_variant(void) {
  unsigned kind = in_u8();
  uint64_t payload = in_u64();
  memset(&g_erm, 0, sizeof g_erm); memset(g_eslots, 0, sizeof g_eslots); memset(&g_evd, 0, sizeof g_evd);
  g_erm.variantPools_.pools_ = g_erm.variantPools_.preallocatedPools_;
  g_erm.variantPools_.pools_[0].slots_ = g_eslots; g_erm.variantPools_.pools_[0].capacity_ = 4; g_erm.variantPools_.pools_[0].usage_ = 4;
  g_erm.variantPools_.count_ = 1; g_erm.variantPools_.capacity_ = 4; g_erm.variantPools_.freeList_ = E_NULL_SLOT;
  struct JsonVariantConst v; v.data_ = &g_evd; v.resources_ = &g_erm;
  g_evd.next_ = E_NULL_SLOT;
  g_num.kind = kind; g_num.cls = 2; g_num.d = 0; g_num.b = 0; g_num.mi = mi_u(0);
  if (kind == 255) { v.data_ = (struct VariantData *)0; v.resources_ = (struct ResourceManager *)0; return v; } /* unbound reference */
  __CPROVER_assume(kind == VT_NULL || kind == VT_BOOLEAN || kind == VT_UINT32 || kind == VT_INT32 || kind == VT_FLOAT || kind == VT_UINT64 || kind == VT_INT64 || kind == VT_DOUBLE);
  g_evd.type_ = (unsigned char)kind;
  if (kind == VT_BOOLEAN) { g_evd.content_.asBoolean = (payload & 1) != 0; g_num.cls = 3; g_num.b = (payload & 1) != 0; }
  if (kind == VT_UINT32) { g_evd.content_.asUint32 = (uint32_t)payload; g_num.cls = 0; g_num.mi = mi_u((uint32_t)payload); g_num.d = (double)(uint32_t)payload; }
  if (kind == VT_INT32) { g_evd.content_.asInt32 = (int32_t)(uint32_t)payload; g_num.cls = 0; g_num.mi = mi_s((int32_t)(uint32_t)payload); g_num.d = (double)(int32_t)(uint32_t)payload; }
  if (kind == VT_FLOAT) { uint32_t bits = (uint32_t)payload; float f; memcpy(&f, &bits, 4); g_evd.content_.asFloat = f; g_num.cls = 1; g_num.d = (double)f; }
  if (kind == VT_UINT64) { g_evd.content_.asSlotId = 1; g_eslots[1].extension.asUint64 = payload; g_num.cls = 0; g_num.mi = mi_u(payload); g_num.d = (double)payload; }
  if (kind == VT_INT64) { g_evd.content_.asSlotId = 1; g_eslots[1].extension.asInt64 = (int64_t)payload; g_num.cls = 0; g_num.mi = mi_s((int64_t)payload); g_num.d = (double)(int64_t)payload; }
  if (kind == VT_DOUBLE) { double d; memcpy(&d, &payload, 8); g_evd.content_.asSlotId = 1; g_eslots[1].extension.asDouble = d; g_num.cls = 1; g_num.d = d; }
  return v;
}
static _Bool kind_unsigned(void) { return g_num.kind == VT_UINT32 || g_num.kind == VT_UINT64; }
#ifdef CANARY_E2E
#define E2E_CANARY(want) if (g_num.kind == VT_INT64 && g_num.mi.mag == 3 && (want) == EQUAL) want = DIFFER;
#else
#define E2E_CANARY(want)
#endif
/* integral user type T: integer kinds compare exactly, floating kinds as doubles, null/unbound DIFFER */
#define E2E_INT(T, COND, COVERS) do { struct JsonVariantConst v = mk_variant(); T_##T rhs = IN_##T(); \
    __CPROVER_assume(g_num.cls != 3); __CPROVER_assume(COND); \
    unsigned want = g_num.cls == 2 ? DIFFER : g_num.cls == 0 ? spec_cmp_int(g_num.mi, MI_##T(rhs)) : spec_cmp_dbl_pinned(g_num.d, (double)rhs); \
    COVERS(want); E2E_CANARY(want) \
    CHECK(COMPARE_NAME(T)(v, &rhs) == want, "compare<" #T ">(variant, x): numeric value of the variant whatever its storage kind; null/unbound DIFFER"); } while (0)
#define COV_UNSIGNED(want) do { COVER(g_num.kind == VT_UINT64 && want == EQUAL); COVER(g_num.kind == VT_UINT32 && want == LESS); COVER(g_num.kind == VT_UINT32 && want == GREATER); } while (0)
#define COV_OTHER(want) do { COVER(g_num.kind == VT_INT64 && want == EQUAL); COVER(g_num.kind == VT_INT32 && want == LESS); COVER(g_num.kind == VT_DOUBLE && want == GREATER); \
    COVER(g_num.kind == VT_NULL); COVER(g_num.kind == 255); } while (0)
#define COV_ALL(want) do { COV_UNSIGNED(want); COV_OTHER(want); } while (0)
/* floating user type T: everything as doubles */
#define E2E_FLT(T) do { struct JsonVariantConst v = mk_variant(); T_##T rhs = IN_##T(); \
    __CPROVER_assume(g_num.cls != 3); \
    unsigned want = g_num.cls == 2 ? DIFFER : spec_cmp_dbl_pinned(g_num.d, (double)rhs); \
    COVER(g_num.kind == VT_UINT64 && want == EQUAL); COVER(g_num.kind == VT_FLOAT && want == LESS); E2E_CANARY(want) \
    CHECK(COMPARE_NAME(T)(v, &rhs) == want, "compare<" #T ">(variant, x): values as doubles; null/unbound DIFFER"); } while (0)

/* the combination "unsigned storage kind vs int8/int16/int32" is the known F11 group: own obligation below */
void h_e2e_narrow_signed(void) {
  E2E_INT(schar, !kind_unsigned(), COV_OTHER); E2E_INT(short, !kind_unsigned(), COV_OTHER); E2E_INT(int, !kind_unsigned(), COV_OTHER);
}
void h_e2e_unsigned_and_wide(void) {
  E2E_INT(uchar, 1, COV_ALL); E2E_INT(ushort, 1, COV_ALL); E2E_INT(uint, 1, COV_ALL); E2E_INT(long, 1, COV_ALL); E2E_INT(ulong, 1, COV_ALL);
}
void h_e2e_floating(void) {
  E2E_FLT(float); E2E_FLT(double);
}
/* F11 as the user sees it: a variant holding an unsigned number (e.g. a parsed 5) against a negative int */
void h_e2e_unsigned_vs_narrow_signed(void) {
  E2E_INT(schar, kind_unsigned(), COV_UNSIGNED); E2E_INT(short, kind_unsigned(), COV_UNSIGNED); E2E_INT(int, kind_unsigned(), COV_UNSIGNED);
#ifdef CANARY_E2E
  CHECK(in_u8() != 7, "canary: deliberately false for a reachable case");
#endif
}
/* booleans: bool against bool; null/unbound against bool DIFFER */
void h_e2e_bool(void) {
  struct JsonVariantConst v = mk_variant();
  _Bool rhs = in_bool();
  __CPROVER_assume(g_num.cls == 3 || g_num.cls == 2);
  unsigned r = compare__Bool(v, &rhs);
  COVER(g_num.cls == 3 && g_num.b == rhs); COVER(g_num.cls == 3 && g_num.b != rhs); COVER(g_num.kind == 255);
#ifdef CANARY_E2E
  CHECK(g_num.cls != 3 || (r == EQUAL) == (g_num.b != rhs), "compare<bool>(boolean variant, b): EQUAL iff same truth value");
#else
  CHECK(g_num.cls != 3 || (r == EQUAL) == (g_num.b == rhs), "compare<bool>(boolean variant, b): EQUAL iff same truth value");
#endif
  CHECK(g_num.cls != 2 || r == DIFFER, "compare<bool>(null or unbound, b): DIFFER");
}
#endif /* UNIT_E2E */

/* ================================================================================================================= */
#ifdef UNIT_STRINGS_U
/* The byte loops of the generic stringEquals / stringCompare for strings of ANY length (class U, loop contracts).
 * No quantifier is needed:
 *  - scenario "first difference at k": both buffers have EXACTLY k+1 bytes, b2 is a copy of b1 except byte k.  The loop
 *    invariant (i <= k while a difference is pending) shows the loop cannot get past k; reading anything after k would be an
 *    out-of-bounds failure, so the result cannot depend on the tails, whatever the two lengths (> k) are;
 *  - scenario "equal over the common length": both buffers have exactly min(n1,n2) bytes and b2 is a copy of b1
 *    (array theory: b2[i] == b1[i] for the havocked loop index), so the result is decided by the lengths alone.
 * Every pair of byte strings is in one of the two scenarios.  strlen (libc, trusted) is replaced by its contract. */
#define UCAP 100000
static char *nd_buf(size_t cap) {
#ifdef VERIF_NATIVE
  return (char *)calloc(cap ? cap : 1, 1);
#else
  char *p = (char *)malloc(cap);
  __CPROVER_assume(p != (char *)0);
  return p;
#endif
}
#ifdef VERIF_NATIVE
#define COPY_BUF(dst, src, cap) memcpy(dst, src, cap)
#else
#define COPY_BUF(dst, src, cap) __CPROVER_array_copy(dst, src)
static const char *g_zt_ptr; static size_t g_zt_len;
size_t strlen(const char *s) {
  __CPROVER_assert(s == g_zt_ptr, "strlen: called on the zero-terminated operand only");
  return g_zt_len;
}
#endif
static struct SizedRamString u_sized(char *p, size_t n) { struct SizedRamString r; r.str_ = p; r.size_ = n; return r; }
static struct JsonStringAdapter u_jsa(char *p, size_t n, _Bool linked) { struct JsonStringAdapter r; r._b_SizedRamString = u_sized(p, n); r.linked_ = linked; return r; }
static struct StaticStringAdapter u_ssa(char *p, size_t n) {
  struct StaticStringAdapter r; r._b_ZeroTerminatedRamString.str_ = p;
#ifndef VERIF_NATIVE
  g_zt_ptr = p; g_zt_len = n;
#endif
  return r;
}
static int usgn(int x) { return (x > 0) - (x < 0); }

void h_stru_first_difference(void) {
  size_t k = in_size();
  __CPROVER_assume(k < UCAP);
  char *b1 = nd_buf(k + 1), *b2 = nd_buf(k + 1);
  COPY_BUF(b2, b1, k + 1);
  char x = in_char();
#ifndef CANARY_STRU_DIFF
  __CPROVER_assume(x != b1[k]);
#endif
  b2[k] = x;
  size_t n1 = in_size(), n2 = in_size();
  __CPROVER_assume(n1 > k && n2 > k);
  _Bool l1 = in_bool(), l2 = in_bool();
  g_has_diff = 1; g_diff_at = k;
  COVER(k == 0 && n1 == n2); COVER(k > 1000 && n1 != n2); COVER(n1 > UCAP);
  /* equality (same declared length, otherwise the answer is false before any byte is read) */
  CHECK(!stringEquals_SizedRamString_SizedRamString(u_sized(b1, n1), u_sized(b2, n2)), "stringEquals(sized,sized): a differing byte => false");
  CHECK(!stringEquals_JsonStringAdapter_SizedRamString(u_jsa(b1, n1, l1), u_sized(b2, n2)), "stringEquals(JsonString,sized): a differing byte => false");
  CHECK(!stringEquals_SizedRamString_JsonStringAdapter(u_sized(b1, n1), u_jsa(b2, n2, l2)), "stringEquals(sized,JsonString): a differing byte => false");
  CHECK(!stringEquals_JsonStringAdapter_JsonStringAdapter(u_jsa(b1, n1, l1), u_jsa(b2, n2, l2)), "stringEquals(JsonString,JsonString): a differing byte => false");
  CHECK(!stringEquals_SizedRamString_StaticStringAdapter(u_sized(b1, n1), u_ssa(b2, n2)), "stringEquals(sized,cstr): a differing byte => false");
  CHECK(!stringEquals_StaticStringAdapter_SizedRamString(u_ssa(b2, n2), u_sized(b1, n1)), "stringEquals(cstr,sized): a differing byte => false");
  CHECK(!stringEquals_JsonStringAdapter_StaticStringAdapter(u_jsa(b1, n1, l1), u_ssa(b2, n2)), "stringEquals(JsonString,cstr): a differing byte => false");
  CHECK(!stringEquals_StaticStringAdapter_JsonStringAdapter(u_ssa(b2, n2), u_jsa(b1, n1, l1)), "stringEquals(cstr,JsonString): a differing byte => false");
  /* ordering: non-zero, antisymmetric, same sign through every adapter pairing, linked flag irrelevant */
  int c = stringCompare_JsonStringAdapter_JsonStringAdapter(u_jsa(b1, n1, l1), u_jsa(b2, n2, l2));
  int cr = stringCompare_JsonStringAdapter_JsonStringAdapter(u_jsa(b2, n2, l2), u_jsa(b1, n1, l1));
  int cs = stringCompare_SizedRamString_JsonStringAdapter(u_sized(b1, n1), u_jsa(b2, n2, !l2));
  int cz = stringCompare_JsonStringAdapter_StaticStringAdapter(u_jsa(b1, n1, !l1), u_ssa(b2, n2));
  int czr = stringCompare_StaticStringAdapter_JsonStringAdapter(u_ssa(b2, n2), u_jsa(b1, n1, l1));
  CHECK(c != 0, "stringCompare: a differing byte => non-zero");
  CHECK(usgn(c) == -usgn(cr), "stringCompare(JsonString,JsonString): antisymmetric");
  CHECK(usgn(cs) == usgn(c) && usgn(cz) == usgn(c), "stringCompare: same sign through every adapter pairing and linked flag (C14)");
  CHECK(usgn(czr) == -usgn(c), "stringCompare(cstr,JsonString): opposite sign of (JsonString,cstr)");
}

void h_stru_equal_prefix(void) {
  size_t n1 = in_size(), n2 = in_size();
  __CPROVER_assume(n1 < UCAP && n2 < UCAP);
  size_t m = n1 < n2 ? n1 : n2;
  char *b1 = nd_buf(m), *b2 = nd_buf(m);
#ifndef CANARY_STRU_EQ
  COPY_BUF(b2, b1, m);
#endif
  _Bool l1 = in_bool(), l2 = in_bool();
  g_has_diff = 0;
  _Bool same = n1 == n2;
  int want = n1 < n2 ? -1 : n1 > n2 ? 1 : 0;
  COVER(same && n1 > 1000); COVER(n1 < n2 && n1 > 1000); COVER(n1 > n2); COVER(same && n1 == 0);
  CHECK(stringEquals_SizedRamString_SizedRamString(u_sized(b1, n1), u_sized(b2, n2)) == same, "stringEquals(sized,sized): equal bytes => true iff same length");
  CHECK(stringEquals_JsonStringAdapter_SizedRamString(u_jsa(b1, n1, l1), u_sized(b2, n2)) == same, "stringEquals(JsonString,sized): equal bytes => true iff same length");
  CHECK(stringEquals_SizedRamString_JsonStringAdapter(u_sized(b1, n1), u_jsa(b2, n2, l2)) == same, "stringEquals(sized,JsonString): equal bytes => true iff same length");
  CHECK(stringEquals_JsonStringAdapter_JsonStringAdapter(u_jsa(b1, n1, l1), u_jsa(b2, n2, l2)) == same, "stringEquals(JsonString,JsonString): equal bytes => true iff same length");
  CHECK(stringEquals_SizedRamString_StaticStringAdapter(u_sized(b1, n1), u_ssa(b2, n2)) == same, "stringEquals(sized,cstr): equal bytes => true iff same length");
  CHECK(stringEquals_StaticStringAdapter_SizedRamString(u_ssa(b2, n2), u_sized(b1, n1)) == same, "stringEquals(cstr,sized): equal bytes => true iff same length");
  CHECK(stringEquals_JsonStringAdapter_StaticStringAdapter(u_jsa(b1, n1, l1), u_ssa(b2, n2)) == same, "stringEquals(JsonString,cstr): equal bytes => true iff same length");
  CHECK(stringEquals_StaticStringAdapter_JsonStringAdapter(u_ssa(b2, n2), u_jsa(b1, n1, l1)) == same, "stringEquals(cstr,JsonString): equal bytes => true iff same length");
  int c = stringCompare_JsonStringAdapter_JsonStringAdapter(u_jsa(b1, n1, l1), u_jsa(b2, n2, l2));
  int cr = stringCompare_JsonStringAdapter_JsonStringAdapter(u_jsa(b2, n2, l2), u_jsa(b1, n1, l1));
  int cs = stringCompare_SizedRamString_JsonStringAdapter(u_sized(b1, n1), u_jsa(b2, n2, !l2));
  int cz = stringCompare_JsonStringAdapter_StaticStringAdapter(u_jsa(b1, n1, !l1), u_ssa(b2, n2));
  int czr = stringCompare_StaticStringAdapter_JsonStringAdapter(u_ssa(b2, n2), u_jsa(b1, n1, l1));
  CHECK(usgn(c) == want, "stringCompare: equal over the common length => decided by the lengths; 0 iff same length (== stringEquals)");
  CHECK(usgn(cr) == -want, "stringCompare(JsonString,JsonString): antisymmetric");
  CHECK(usgn(cs) == want && usgn(cz) == want, "stringCompare: same sign through every adapter pairing and linked flag (C14)");
  CHECK(usgn(czr) == -want, "stringCompare(cstr,JsonString): opposite sign of (JsonString,cstr)");
}
#endif /* UNIT_STRINGS_U */
