/* C02 (family "jsonser"): serializeJson / serializeJsonPretty emit exactly the document, on every destination.
 * One spec file, several units (units/jsonser.json); each obligation selects its unit's part with -DU_xxx.
 * Oracles come from the property text and RFC 8259, never from the code:
 *   - a JSON string character is either an unescaped byte >= 0x20 other than quote/backslash, a two-character escape,
 *     or \uXXXX (RFC 8259 section 7);
 *   - a JSON integer is '-'? followed by the decimal representation: digits, no leading zero, Horner value == v;
 *   - C17: "serializeJson never changes bytes other than the quote, the backslash, \b \f \n \r \t and NUL".
 */
#include "verif.h"

/* ---- ghost state named by the loop invariants of contracts/jsonser.loops.json, jsonser_visit.loops.json and
 * jsonser_pretty.loops.json (spliced into the lowered text, so it must be declared before it) -------------------------- */
static const char *g_ws_src;      /* writeString: the source buffer */
static unsigned long g_ws_n;      /* writeString(p,n): n ; writeString(p): index of the last byte of the buffer */
static unsigned long g_wc_calls;  /* number of writeChar calls so far */
static _Bool g_ws_open, g_ws_close;
static char *g_ssw_buf;           /* StaticStringWriter: destination object, its capacity, source, requested count */
static unsigned long g_ssw_cap, g_ssw_p0, g_ssw_n0;
static const unsigned char *g_ssw_src;
static unsigned long g_k, g_j;    /* arbitrary (universally quantified) positions: in the source, in the block */
static unsigned char g_old_j;     /* content of block[g_j] before the call */
/* container visitors */
static unsigned long g_vis_calls;  /* accept() calls so far == number of slots walked */
static unsigned long g_vis_len;    /* length of the list */
static unsigned long g_vis_seps;   /* separators written so far */
static unsigned long g_vis_child;  /* bytes written by the children (accept contract: any number) */
static unsigned long g_vis_c0;     /* count before the call */
static _Bool g_vis_open, g_vis_close;
static unsigned int g_cur_id;      /* id handed to the last getVariant */
static void *g_node_p;             /* the slot object returned by getVariant */
static unsigned long g_p_ind;      /* pretty: indentation units written since the last other token */
static unsigned long g_p_n0;       /* pretty: nesting_ at entry */
static unsigned long g_p_lookups;  /* pretty: getVariant calls so far */
static unsigned long g_p_bytes;    /* pretty: bytes produced so far = count at entry + own tokens + children */
#define VIS_SUCC(k) ((k) + 1 < g_vis_len ? (unsigned int)((k) + 1) : 0xffffffffu) /* id after slot k; ids are 0..len-1 in list order */
#define VIS_SEPS_AT_HEAD (g_vis_calls < g_vis_len ? g_vis_calls : (g_vis_len ? g_vis_len - 1 : 0))

unsigned long nondet_child_bytes(void);
#ifdef VERIF_NATIVE
#include "lowered_types.h"
#else
#include "lowered.c"
#endif

#define MIN(a, b) ((a) < (b) ? (a) : (b))

/* ---- LogWriter contract (DESIGN 4.2) ---------------------------------------------------------------------------------
 * g_out/g_out_len: every byte OFFERED to the destination, in order == the text.  The value returned is the number of
 * bytes the destination accepted: all of them (std::string / DummyWriter behaviour) while g_room allows, min(n, room)
 * afterwards (StaticStringWriter behaviour, proved on the real StaticStringWriter::write x2 in unit jsonser_sw). */
#define LOG_CAP 64
static unsigned char g_out[LOG_CAP];
static unsigned long g_out_len;
static unsigned long g_ret_sum; /* sum of the returned counts */
static unsigned long g_room;    /* capacity of the destination */

#if defined(U_FMT) || defined(U_FLOAT) || defined(U_TEXT)
unsigned long LogWriter__write__uchar(struct LogWriter *self, unsigned char c) {
  (void)self;
  if (g_out_len < LOG_CAP) g_out[g_out_len] = c;
  g_out_len++;
  unsigned long r = g_ret_sum < g_room ? 1 : 0;
  g_ret_sum += r;
  return r;
}
unsigned long LogWriter__write__uchar_p_ulong(struct LogWriter *self, unsigned char *s, unsigned long n) {
  (void)self;
  for (unsigned long i = 0; i < n; i++) {
    unsigned char c = s[i]; /* read of s[0..n) is bounds-checked by cbmc: the code must hand over n readable bytes */
    if (g_out_len < LOG_CAP) g_out[g_out_len] = c;
    g_out_len++;
  }
  unsigned long room = g_room - g_ret_sum;
  unsigned long r = MIN(n, room);
  g_ret_sum += r;
  return r;
}
static void log_reset(void) {
  g_out_len = 0;
  g_ret_sum = 0;
  g_room = in_u8(); /* texts of these units are < 64 bytes: room >= 64 is the non-truncating destination */
}
#define OUT_IS(i, ch) (g_out[i] == (unsigned char)(ch))
#endif

/* ---- independent spec functions ------------------------------------------------------------------------------------ */
/* RFC 8259 section 7: what byte does this JSON string-character denote? -1 if it is not a valid `char` production.
 * Bytes >= 0x80 are parts of UTF-8 sequences and pass as unescaped. */
static int spec_hexdigit(unsigned char c) {
  if (c >= '0' && c <= '9') return c - '0';
  if (c >= 'a' && c <= 'f') return c - 'a' + 10;
  if (c >= 'A' && c <= 'F') return c - 'A' + 10;
  return -1;
}
static int spec_json_char_denotes(const unsigned char *t, unsigned long len) {
  if (len == 1) {
    if (t[0] < 0x20 || t[0] == '"' || t[0] == '\\') return -1; /* MUST be escaped */
    return t[0];
  }
  if (len == 2 && t[0] == '\\') {
    switch (t[1]) {
      case '"': return '"'; case '\\': return '\\'; case '/': return '/';
      case 'b': return 8; case 'f': return 12; case 'n': return 10; case 'r': return 13; case 't': return 9;
      default: return -1;
    }
  }
  if (len == 6 && t[0] == '\\' && t[1] == 'u') {
    int a = spec_hexdigit(t[2]), b = spec_hexdigit(t[3]), c = spec_hexdigit(t[4]), d = spec_hexdigit(t[5]);
    if (a < 0 || b < 0 || c < 0 || d < 0) return -1;
    return (a << 12) | (b << 8) | (c << 4) | d;
  }
  return -1;
}
/* C17 clause: the only bytes serializeJson may change, and the two-character escape letter of each (0 = unchanged) */
static char spec_escape_letter(unsigned char c) {
  switch (c) {
    case '"': return '"'; case '\\': return '\\';
    case 8: return 'b'; case 12: return 'f'; case 10: return 'n'; case 13: return 'r'; case 9: return 't';
    default: return 0;
  }
}
/* Horner value of a digit string, in 128 bits so that 20 digits cannot wrap; -1 (all ones) if a non-digit occurs */
static unsigned __int128 spec_horner(const unsigned char *d, unsigned long n) {
  unsigned __int128 v = 0;
  for (unsigned long i = 0; i < n; i++) {
    if (d[i] < '0' || d[i] > '9') return ~(unsigned __int128)0;
    v = v * 10 + (unsigned)(d[i] - '0');
  }
  return v;
}

/* ===================================================================================================================
 * unit jsonser_fmt: TextFormatter<LogWriter> scalars
 * =================================================================================================================== */
#ifdef U_FMT
static void fmt_init(struct TextFormatter_LogWriter *tf) {
  struct LogWriter w;
  memset(&w, 0, sizeof w);
  memset(tf, 0, sizeof *tf);
  log_reset();
  TextFormatter_LogWriter__ctor__LogWriter(tf, w);
}
#define COUNT_OK(tf) (TextFormatter_LogWriter__bytesWritten(tf) == MIN(g_out_len, g_room))
#define COUNT_NAME "returned count == number of bytes the destination accepted == min(capacity, length of the text)"

/* 1. writeChar, all 256 bytes (C02 + C17) */
void h_writechar(void) {
  struct TextFormatter_LogWriter tf;
  fmt_init(&tf);
  unsigned char c = in_u8();
  TextFormatter_LogWriter__writeChar(&tf, (char)c);
  char e = spec_escape_letter(c);
  COVER(e != 0); COVER(c == 0); COVER(c >= 0x80); COVER(c == 1); COVER(c == '/'); COVER(c == 0x7f);
  if (e) {
    CHECK(g_out_len == 2 && OUT_IS(0, '\\') && OUT_IS(1, e), "quote, backslash, \\b \\f \\n \\r \\t become backslash + their RFC 8259 letter");
  } else if (c == 0) {
    CHECK(g_out_len == 6 && OUT_IS(0, '\\') && OUT_IS(1, 'u') && OUT_IS(2, '0') && OUT_IS(3, '0') && OUT_IS(4, '0') && OUT_IS(5, '0'),
          "NUL becomes \\u0000");
  } else {
#ifdef CANARY_WRITECHAR
    CHECK(g_out_len == 1 && g_out[0] == (c == 0x7f ? 0x3f : c), "serializeJson never changes bytes other than quote, backslash, \\b \\f \\n \\r \\t and NUL");
#else
    CHECK(g_out_len == 1 && g_out[0] == c, "serializeJson never changes bytes other than quote, backslash, \\b \\f \\n \\r \\t and NUL");
#endif
  }
  CHECK(COUNT_OK(&tf), COUNT_NAME);
}

/* 1b. C02 "a text that an independent RFC 8259 parser accepts ... every string byte preserved": what writeChar emits for
 * byte c must be a `char` production of RFC 8259 section 7 that denotes c. */
void h_writechar_rfc(void) {
  struct TextFormatter_LogWriter tf;
  fmt_init(&tf);
  unsigned char c = in_u8();
  TextFormatter_LogWriter__writeChar(&tf, (char)c);
  CHECK(g_out_len >= 1 && g_out_len <= 6, "writeChar emits 1..6 bytes");
  int d = spec_json_char_denotes(g_out, g_out_len);
  COVER(d == c && g_out_len == 1); COVER(d == c && g_out_len == 2); COVER(d == c && g_out_len == 6);
#ifdef CANARY_WRITECHAR_RFC
  CHECK(c < 0x20 || d == (c == 'n' ? 10 : c), "RFC 8259 section 7: emitted characters denote the byte");
#else
  CHECK(c < 0x20 || d == c, "RFC 8259 section 7: emitted characters denote the byte");
#endif
  CHECK(c >= 0x20 || d == c, "RFC 8259 section 7: control characters U+0000..U+001F are emitted escaped and denote the byte");
}

/* 3. writeInteger: '-'? then the decimal representation of |v|.
 * Full domain [W]: 1..maxdigits bytes, digits only, no leading zero, EXACT LENGTH (10^(len-1) <= |v| < 10^len), the least
 * significant digit == |v| mod 10, '-' iff negative, count.  Together these pin the magnitude's order and charset.
 * Digit-exact value (Horner(digits) == |v|): full domain for the 16-bit instantiations [W]; for 32/64 bits SAT does not
 * finish (exponential in the number of digits: 6 digits 15 s, 7 digits > 120 s), so it is a bounded stand-in [B] on the
 * bands |v| < 10^5 and the 65536 values at each end of the type's range (UINT64_MAX, INT64_MIN, INT64_MAX ...). */
static const uint64_t P10[20] = {1ull, 10ull, 100ull, 1000ull, 10000ull, 100000ull, 1000000ull, 10000000ull, 100000000ull,
  1000000000ull, 10000000000ull, 100000000000ull, 1000000000000ull, 10000000000000ull, 100000000000000ull,
  1000000000000000ull, 10000000000000000ull, 100000000000000000ull, 1000000000000000000ull, 10000000000000000000ull};
/* structural facts of a magnitude written at g_out[neg .. g_out_len) */
static void check_decimal_shape(unsigned neg, uint64_t mag, unsigned maxdigits) {
  CHECK(g_out_len >= 1ul + neg && g_out_len <= (unsigned long)maxdigits + neg, "integer: between 1 and maxdigits digits");
  if (g_out_len < 1ul + neg || g_out_len > (unsigned long)maxdigits + neg) return;
  unsigned long n = g_out_len - neg;
  const unsigned char *d = g_out + neg;
  unsigned long j = in_u8(); /* any position */
  if (j < n) CHECK(d[j] >= '0' && d[j] <= '9', "integer: digits only");
  CHECK(n == 1 || d[0] != '0', "integer: no leading zero");
  CHECK(d[n - 1] == '0' + mag % 10, "integer: least significant digit == |v| mod 10");
#ifdef CANARY_INTSHAPE
  CHECK(n == 1 || mag >= P10[n - 1] + (n == 4), "integer: exact length, 10^(len-1) <= |v|");
#else
  CHECK(n == 1 || mag >= P10[n - 1], "integer: exact length, 10^(len-1) <= |v|");
#endif
  CHECK(n == 20 || mag < P10[n], "integer: exact length, |v| < 10^len");
}
static void check_decimal_value(unsigned neg, uint64_t mag, unsigned maxdigits) {
  CHECK(g_out_len >= 1ul + neg && g_out_len <= (unsigned long)maxdigits + neg, "integer: between 1 and maxdigits digits");
  if (g_out_len < 1ul + neg || g_out_len > (unsigned long)maxdigits + neg) return;
  CHECK(g_out_len - neg == 1 || g_out[neg] != '0', "integer: no leading zero");
#ifdef CANARY_INT
  CHECK(spec_horner(g_out + neg, g_out_len - neg) == (unsigned __int128)mag + (mag == 1000), "integer: digit-exact (digits only, sum d_i*10^i == |v|)");
#else
  CHECK(spec_horner(g_out + neg, g_out_len - neg) == (unsigned __int128)mag, "integer: digit-exact (digits only, sum d_i*10^i == |v|)");
#endif
}
#define MAG(v) ((v) < 0 ? (uint64_t)0 - (uint64_t)(v) : (uint64_t)(v)) /* |v| without signed overflow, from the value not the code */
#define SIGNED_COMMON(v) \
  unsigned neg = (v) < 0; \
  CHECK(g_out_len >= 1 && OUT_IS(0, '-') == neg, "integer: '-' first iff negative"); \
  if (g_out_len < 1 || OUT_IS(0, '-') != neg) return;

void h_int_u64(void) {
  struct TextFormatter_LogWriter tf;
  fmt_init(&tf);
  uint64_t v = in_u64();
  TextFormatter_LogWriter__writeInteger_ulong(&tf, v);
  COVER(v == 0); COVER(v == 18446744073709551615ull); COVER(g_out_len == 20); COVER(v == 1000);
  check_decimal_shape(0, v, 20);
  CHECK(COUNT_OK(&tf), COUNT_NAME);
}
void h_int_u64_value(void) { /* [B] */
  struct TextFormatter_LogWriter tf;
  fmt_init(&tf);
  uint64_t v = in_u64();
  __CPROVER_assume(v < 100000 || v > UINT64_MAX - 65536);
  TextFormatter_LogWriter__writeInteger_ulong(&tf, v);
  COVER(v == 0); COVER(v == UINT64_MAX); COVER(v == 1000); COVER(v == 99999);
  check_decimal_value(0, v, 20);
}
void h_int_u32(void) {
  struct TextFormatter_LogWriter tf;
  fmt_init(&tf);
  uint32_t v = in_u32();
  TextFormatter_LogWriter__writeInteger_uint(&tf, v);
  COVER(v == 0); COVER(v == 4294967295u); COVER(g_out_len == 10); COVER(v == 1000);
  check_decimal_shape(0, v, 10);
  CHECK(COUNT_OK(&tf), COUNT_NAME);
}
void h_int_u32_value(void) { /* [B] */
  struct TextFormatter_LogWriter tf;
  fmt_init(&tf);
  uint32_t v = in_u32();
  __CPROVER_assume(v < 100000 || v > UINT32_MAX - 65536);
  TextFormatter_LogWriter__writeInteger_uint(&tf, v);
  COVER(v == 0); COVER(v == UINT32_MAX); COVER(v == 1000); COVER(v == 99999);
  check_decimal_value(0, v, 10);
}
void h_int_u16(void) {
  struct TextFormatter_LogWriter tf;
  fmt_init(&tf);
  uint16_t v = in_u16();
  TextFormatter_LogWriter__writeInteger_ushort(&tf, v);
  COVER(v == 0); COVER(v == 65535); COVER(g_out_len == 5); COVER(v == 1000);
  check_decimal_value(0, v, 5);
  CHECK(COUNT_OK(&tf), COUNT_NAME);
}
void h_int_i64(void) {
  struct TextFormatter_LogWriter tf;
  fmt_init(&tf);
  int64_t v = in_i64();
  TextFormatter_LogWriter__writeInteger_long(&tf, v);
  COVER(v == 0); COVER(v == INT64_MIN); COVER(v == INT64_MAX); COVER(v == -1); COVER(v == 1000);
  CHECK(COUNT_OK(&tf), COUNT_NAME);
  SIGNED_COMMON(v)
  check_decimal_shape(neg, MAG(v), 19);
}
void h_int_i64_value(void) { /* [B] */
  struct TextFormatter_LogWriter tf;
  fmt_init(&tf);
  int64_t v = in_i64();
  __CPROVER_assume((v > -100000 && v < 100000) || v < INT64_MIN + 65536 || v > INT64_MAX - 65536);
  TextFormatter_LogWriter__writeInteger_long(&tf, v);
  COVER(v == 0); COVER(v == INT64_MIN); COVER(v == INT64_MAX); COVER(v == -1); COVER(v == -99999);
  SIGNED_COMMON(v)
  check_decimal_value(neg, MAG(v), 19);
}
void h_int_i16(void) {
  struct TextFormatter_LogWriter tf;
  fmt_init(&tf);
  int16_t v = in_i16();
  TextFormatter_LogWriter__writeInteger_short(&tf, v);
  COVER(v == 0); COVER(v == -32768); COVER(v == 32767); COVER(v == -1); COVER(v == 1000);
  CHECK(COUNT_OK(&tf), COUNT_NAME);
  SIGNED_COMMON(v)
  check_decimal_value(neg, MAG(v), 5);
}

/* 4a. writeDecimals(value, width): '.' then exactly `width` digits, the zero-padded decimal representation of value.
 * Precondition (ensured by the decomposeFloat contract of unit jsonser_float): 0 <= width <= 9, value < 10^width.
 * The shape harness lets width range over [0,15] (what buffer[16] can hold) so that the buffer bound is explicit
 * (the canary admits 16 and must trip the bounds check). */
void h_decimals(void) {
  struct TextFormatter_LogWriter tf;
  fmt_init(&tf);
  uint32_t v = in_u32();
  int8_t width = in_i8();
#ifdef CANARY_DECIMALS
  __CPROVER_assume(width >= 0 && width <= 16);
#else
  __CPROVER_assume(width >= 0 && width <= 15);
#endif
  TextFormatter_LogWriter__writeDecimals(&tf, v, width);
  COVER(width == 0); COVER(width == 9 && v == 999999999u); COVER(width == 15); COVER(width == 3 && v == 5);
  CHECK(g_out_len == 1ul + (unsigned long)width && OUT_IS(0, '.'), "decimals: '.' followed by exactly width bytes");
  unsigned long j = in_u8();
  if (j >= 1 && j < g_out_len && j < LOG_CAP) CHECK(g_out[j] >= '0' && g_out[j] <= '9', "decimals: digits only");
  if (width >= 1 && g_out_len == 1ul + (unsigned long)width) CHECK(g_out[width] == '0' + v % 10, "decimals: last digit == value mod 10");
  CHECK(COUNT_OK(&tf), COUNT_NAME);
}
void h_decimals_value(void) { /* [B] value < 10^5 */
  struct TextFormatter_LogWriter tf;
  fmt_init(&tf);
  uint32_t v = in_u32();
  int8_t width = in_i8();
  __CPROVER_assume(width >= 0 && width <= 9 && v < P10[width] && v < 100000);
  TextFormatter_LogWriter__writeDecimals(&tf, v, width);
  COVER(width == 0); COVER(width == 9 && v == 99999); COVER(width == 3 && v == 5); COVER(width == 5 && v == 1000);
  CHECK(g_out_len == 1ul + (unsigned long)width && OUT_IS(0, '.'), "decimals: '.' followed by exactly width bytes");
  if (g_out_len != 1ul + (unsigned long)width) return;
#ifdef CANARY_DECVAL
  CHECK(spec_horner(g_out + 1, (unsigned long)width) == v + (v == 50 && width == 3), "decimals: the digits are the zero-padded decimal representation of value");
#else
  CHECK(spec_horner(g_out + 1, (unsigned long)width) == v, "decimals: the digits are the zero-padded decimal representation of value");
#endif
}

/* 9a. writeBoolean */
void h_boolean(void) {
  struct TextFormatter_LogWriter tf;
  fmt_init(&tf);
  _Bool b = in_bool();
  TextFormatter_LogWriter__writeBoolean(&tf, b);
  COVER(b); COVER(!b);
  if (b) {
    CHECK(g_out_len == 4 && OUT_IS(0, 't') && OUT_IS(1, 'r') && OUT_IS(2, 'u') && OUT_IS(3, 'e'), "true is written as the literal true");
  } else {
#ifdef CANARY_BOOLEAN
    CHECK(g_out_len == 5 && OUT_IS(0, 'f') && OUT_IS(1, 'a') && OUT_IS(2, 'l') && OUT_IS(3, 's') && OUT_IS(4, 'E'), "false is written as the literal false");
#else
    CHECK(g_out_len == 5 && OUT_IS(0, 'f') && OUT_IS(1, 'a') && OUT_IS(2, 'l') && OUT_IS(3, 's') && OUT_IS(4, 'e'), "false is written as the literal false");
#endif
  }
  CHECK(COUNT_OK(&tf), COUNT_NAME);
}
/* 2b. [B] writeString composed with the real writeChar, strings of at most 3 bytes: the whole text and the count.
 * (unbounded version: unit jsonser_sw with writeChar as a monitor) */
static unsigned long spec_expand(unsigned char c, unsigned char *out) { /* C17 clause + NUL as \u0000 */
  char e = spec_escape_letter(c);
  if (e) { out[0] = '\\'; out[1] = (unsigned char)e; return 2; }
  if (c == 0) { out[0] = '\\'; out[1] = 'u'; out[2] = '0'; out[3] = '0'; out[4] = '0'; out[5] = '0'; return 6; }
  out[0] = c; return 1;
}
static unsigned long string_b(_Bool sized) {
  struct TextFormatter_LogWriter tf;
  fmt_init(&tf);
  unsigned long n = in_u8();
  __CPROVER_assume(n <= 3);
  char src[4];
  src[0] = in_char(); src[1] = in_char(); src[2] = in_char(); src[3] = in_char();
  unsigned char want[2 + 3 * 6];
  unsigned long k = 0;
  want[k++] = '"';
  if (sized) {
    TextFormatter_LogWriter__writeString__char_p_ulong(&tf, src, n);
    if (n > 0) k += spec_expand((unsigned char)src[0], want + k);
    if (n > 1) k += spec_expand((unsigned char)src[1], want + k);
    if (n > 2) k += spec_expand((unsigned char)src[2], want + k);
  } else {
    __CPROVER_assume(src[n] == 0);
    TextFormatter_LogWriter__writeString__char_p(&tf, src);
    if (src[0]) { k += spec_expand((unsigned char)src[0], want + k);
      if (src[1]) { k += spec_expand((unsigned char)src[1], want + k);
        if (src[2]) k += spec_expand((unsigned char)src[2], want + k); } }
  }
  want[k++] = '"';
#ifdef CANARY_STRB
  CHECK(g_out_len == k + (k == 7), "string: quote, every byte through writeChar, quote - length");
#else
  CHECK(g_out_len == k, "string: quote, every byte through writeChar, quote - length");
#endif
  unsigned long j = in_u8();
  if (j < k && j < g_out_len) CHECK(g_out[j] == want[j], "string: quote, every byte through writeChar, quote - bytes");
  CHECK(COUNT_OK(&tf), COUNT_NAME);
  return k;
}
void h_string_b_sized(void) { unsigned long k = string_b(1); COVER(k == 2); COVER(k == 20); COVER(k == 5); }
void h_string_b_nul(void) { unsigned long k = string_b(0); COVER(k == 2); COVER(k == 8); COVER(k == 5); }
#endif /* U_FMT */


/* ===================================================================================================================
 * unit jsonser_float: TextFormatter<LogWriter>::writeFloat with its callees under contract
 *   decomposeFloat(value, places): requires value finite and >= 0, 0 <= places <= 9;
 *                                  ensures 0 <= decimalPlaces <= places, decimal < 10^decimalPlaces (any integral/exponent)
 *   writeInteger<uint32>/<int16>, writeDecimals: proved in unit jsonser_fmt; here they append one marker byte and record
 *   their argument, so that the text is the sequence of calls.
 * =================================================================================================================== */
#ifdef U_FLOAT
static struct FloatParts g_parts;
static double g_df_value;
static int g_df_places, g_df_calls;
static uint32_t g_wi_arg, g_wd_arg;
static int g_wd_width, g_we_arg;
static const uint32_t P10u[10] = {1u, 10u, 100u, 1000u, 10000u, 100000u, 1000000u, 10000000u, 100000000u, 1000000000u};
struct FloatParts decomposeFloat(double value, signed char decimalPlaces) {
  CHECK(value == value && value >= 0.0 && value <= 1.7976931348623157e308, "decomposeFloat is called with a finite non-negative value only");
  CHECK(decimalPlaces >= 0 && decimalPlaces <= 9, "decomposeFloat is called with 0 <= decimalPlaces <= 9");
  g_df_calls++;
  g_df_value = value;
  g_df_places = decimalPlaces;
  return g_parts;
}
void TextFormatter_LogWriter__writeInteger_uint(struct TextFormatter_LogWriter *self, unsigned int value) {
  g_wi_arg = value;
  CountingDecorator_LogWriter__write__uchar(&self->writer_, 'I');
}
void TextFormatter_LogWriter__writeInteger_short(struct TextFormatter_LogWriter *self, short value) {
  g_we_arg = value;
  CountingDecorator_LogWriter__write__uchar(&self->writer_, 'X');
}
void TextFormatter_LogWriter__writeDecimals(struct TextFormatter_LogWriter *self, unsigned int value, signed char width) {
  CHECK(width >= 1 && width <= 9, "writeDecimals is called with 1 <= width <= 9 (its buffer[16] precondition)");
  CHECK(width < 0 || width > 9 || value < P10u[width], "writeDecimals is called with value < 10^width");
  g_wd_arg = value;
  g_wd_width = width;
  CountingDecorator_LogWriter__write__uchar(&self->writer_, 'D');
}
static void float_init(struct TextFormatter_LogWriter *tf, int places_in) {
  struct LogWriter w;
  memset(&w, 0, sizeof w);
  memset(tf, 0, sizeof *tf);
  g_out_len = 0; g_ret_sum = 0; g_room = ~0ul;
  g_df_calls = 0;
  TextFormatter_LogWriter__ctor__LogWriter(tf, w);
  /* the callee's ensures: any parts with 0 <= decimalPlaces <= places_in and decimal < 10^decimalPlaces */
  g_parts.integral = in_u32();
  g_parts.decimal = in_u32();
  g_parts.exponent = in_i16();
  g_parts.decimalPlaces = in_i8();
  __CPROVER_assume(g_parts.decimalPlaces >= 0 && g_parts.decimalPlaces <= places_in && g_parts.decimal < P10u[g_parts.decimalPlaces]);
}
#if defined(CFG_nan) || defined(CFG_inf)
#define FLOAT_OPTION_CONFIG 1
#else
#define FLOAT_OPTION_CONFIG 0
#endif
static _Bool is_nonfinite(double v) { return v != v || v > 1.7976931348623157e308 || v < -1.7976931348623157e308; }
/* expected text for a finite value: ['-'] I [D] ['e' X] */
static void check_float_text(double v) {
  unsigned long k = 0;
  _Bool neg = v < 0.0;
  COVER(neg); COVER(!neg && g_parts.decimalPlaces == 0 && g_parts.exponent == 0); COVER(g_parts.decimalPlaces != 0 && g_parts.exponent != 0);
  COVER(g_parts.exponent < 0);
  CHECK(g_df_calls == 1 && g_df_value == (neg ? -v : v), "float: the magnitude is decomposed once");
  if (neg) { CHECK(g_out_len > k && OUT_IS(k, '-'), "float: '-' first iff negative"); k++; }
  CHECK(g_out_len > k && OUT_IS(k, 'I') && g_wi_arg == g_parts.integral, "float: integral part written by writeInteger<uint32_t>");
  k++;
  if (g_parts.decimalPlaces != 0) {
    CHECK(g_out_len > k && OUT_IS(k, 'D') && g_wd_arg == g_parts.decimal && g_wd_width == g_parts.decimalPlaces, "float: '.' and decimals written iff decimalPlaces != 0");
    k++;
  }
  if (g_parts.exponent != 0) {
#if defined(CANARY_FLOAT) && !FLOAT_OPTION_CONFIG
    CHECK(g_out_len > k + 1 && OUT_IS(k, 'e') && OUT_IS(k + 1, 'X') && g_we_arg == g_parts.exponent + (g_parts.exponent == -7), "float: 'e' and exponent written iff exponent != 0");
#else
    CHECK(g_out_len > k + 1 && OUT_IS(k, 'e') && OUT_IS(k + 1, 'X') && g_we_arg == g_parts.exponent, "float: 'e' and exponent written iff exponent != 0");
#endif
    k += 2;
  }
  CHECK(g_out_len == k, "float: nothing else is written");
}
/* Non-finite values, per configuration (configs.json passes -DCFG_<config>=1):
 *   def64  C02: "non-finite numbers as null in the default configuration";
 *   nan    ARDUINOJSON_ENABLE_NAN=1: NaN is written as the word NaN (the word C10 admits on input when the option is enabled);
 *          infinity is still null (ENABLE_INFINITY is off);
 *   inf    ARDUINOJSON_ENABLE_INFINITY=1: +infinity is written Infinity, -infinity is written -Infinity (sign first, once);
 *          NaN is still null (ENABLE_NAN is off).
 * In nan / inf the canary of the three writefloat obligations is option-specific: it demands the default text (null) for NaN
 * resp. the unsigned word for -infinity. */
static _Bool out_null(void) { return g_out_len == 4 && OUT_IS(0, 'n') && OUT_IS(1, 'u') && OUT_IS(2, 'l') && OUT_IS(3, 'l'); }
static _Bool out_NaN(void) { return g_out_len == 3 && OUT_IS(0, 'N') && OUT_IS(1, 'a') && OUT_IS(2, 'N'); }
static _Bool out_Infinity(unsigned long k) { /* the word behind k bytes, nothing after it */
  return g_out_len == k + 8 && OUT_IS(k, 'I') && OUT_IS(k + 1, 'n') && OUT_IS(k + 2, 'f') && OUT_IS(k + 3, 'i') && OUT_IS(k + 4, 'n') &&
         OUT_IS(k + 5, 'i') && OUT_IS(k + 6, 't') && OUT_IS(k + 7, 'y');
}
/* option-specific cover goals (they must stand in the harness function itself) */
#if defined(CFG_nan)
#define NONFINITE_COVERS(v) COVER((v) != (v) && g_out_len == 3 && OUT_IS(0, 'N')); COVER((v) == (v) && (v) < 0.0 && is_nonfinite(v) && g_out_len == 4)
#elif defined(CFG_inf)
#define NONFINITE_COVERS(v) COVER((v) < 0.0 && is_nonfinite(v) && g_out_len == 9 && OUT_IS(0, '-')); COVER((v) > 0.0 && is_nonfinite(v) && g_out_len == 8 && OUT_IS(0, 'I')); COVER((v) != (v) && g_out_len == 4)
#else
#define NONFINITE_COVERS(v) ((void)0)
#endif
static void check_nonfinite(double v) {
  _Bool is_nan = v != v;
  _Bool neg = v < 0.0;
  (void)is_nan; (void)neg;
#if defined(CFG_nan)
  if (is_nan) {
#ifdef CANARY_FLOAT
    CHECK(out_null(), "ENABLE_NAN: NaN is written as NaN");
#else
    CHECK(out_NaN(), "ENABLE_NAN: NaN is written as NaN");
#endif
  } else CHECK(out_null(), "ENABLE_NAN without ENABLE_INFINITY: an infinity is written as null");
#elif defined(CFG_inf)
  if (is_nan) CHECK(out_null(), "ENABLE_INFINITY without ENABLE_NAN: NaN is written as null");
  else if (!neg) CHECK(out_Infinity(0), "ENABLE_INFINITY: +infinity is written as Infinity");
  else {
#ifdef CANARY_FLOAT
    CHECK(out_Infinity(0), "ENABLE_INFINITY: -infinity is written as -Infinity (one sign, first)");
#else
    CHECK(OUT_IS(0, '-') && out_Infinity(1), "ENABLE_INFINITY: -infinity is written as -Infinity (one sign, first)");
#endif
  }
#else
  CHECK(g_out_len == 4 && OUT_IS(0, 'n') && OUT_IS(1, 'u') && OUT_IS(2, 'l') && OUT_IS(3, 'l'), "non-finite numbers are written as null in the default configuration");
#endif
  CHECK(g_df_calls == 0, "non-finite numbers are not decomposed");
}
void h_float(void) {
  struct TextFormatter_LogWriter tf;
  int8_t places = in_i8();
  __CPROVER_assume(places >= 0 && places <= 9);
  float_init(&tf, places);
  double v = in_f64();
  TextFormatter_LogWriter__writeFloat(&tf, v, places);
  COVER(v != v); COVER(v > 1.7976931348623157e308); COVER(v < -1.7976931348623157e308); COVER(v == 0.0);
  NONFINITE_COVERS(v);
  if (is_nonfinite(v)) check_nonfinite(v);
  else {
    CHECK(g_df_places == places, "float: decimalPlaces handed over unchanged");
    check_float_text(v);
  }
  CHECK(TextFormatter_LogWriter__bytesWritten(&tf) == g_out_len, "returned count == number of bytes produced");
}
void h_float_double(void) {
  struct TextFormatter_LogWriter tf;
  float_init(&tf, 9);
  double v = in_f64();
  TextFormatter_LogWriter__writeFloat_double(&tf, v);
  COVER(is_nonfinite(v)); COVER(!is_nonfinite(v));
  NONFINITE_COVERS(v);
  if (is_nonfinite(v)) check_nonfinite(v);
  else {
    CHECK(g_df_places == 9, "double: 9 decimal places requested");
    check_float_text(v);
  }
}
void h_float_float(void) {
  struct TextFormatter_LogWriter tf;
  float_init(&tf, 6);
  float v = in_f32();
  TextFormatter_LogWriter__writeFloat_float(&tf, v);
  COVER(is_nonfinite(v)); COVER(!is_nonfinite(v));
  NONFINITE_COVERS((double)v);
  if (is_nonfinite((double)v)) check_nonfinite((double)v);
  else {
    CHECK(g_df_places == 6, "float: 6 decimal places requested");
    check_float_text((double)v);
  }
}
#endif /* U_FLOAT */

/* ===================================================================================================================
 * unit jsonser_decompose: the real decomposeFloat/normalize against the contract assumed by jsonser_float  [B]
 * (floating multiplications; bounded stand-in on value bands, see units/jsonser.json)
 * =================================================================================================================== */
#ifdef U_DECOMPOSE
static const uint32_t P10u[10] = {1u, 10u, 100u, 1000u, 10000u, 100000u, 1000000u, 10000000u, 100000000u, 1000000000u};
#ifndef DEC_BAND
#define DEC_BAND(v) 1
#define DEC_COVER(p) 1
#endif
void h_decompose(void) {
  double v = in_f64();
  uint8_t places_u = in_u8();
  __CPROVER_assume(v == v && v >= 0.0 && v <= 1.7976931348623157e308);
  __CPROVER_assume(places_u == 6 || places_u == 9); /* the two values TextFormatter::writeFloat<T> passes */
  int8_t places = (int8_t)places_u;
  __CPROVER_assume(DEC_BAND(v));
  struct FloatParts p = decomposeFloat(v, places);
  COVER(p.decimalPlaces == 0); COVER(p.decimalPlaces == places); COVER(p.integral >= 1); COVER(DEC_COVER(p));
#ifdef CANARY_DECOMPOSE
  CHECK(p.decimalPlaces >= 0 && p.decimalPlaces < places, "decomposeFloat ensures 0 <= decimalPlaces <= requested places");
#else
  CHECK(p.decimalPlaces >= 0 && p.decimalPlaces <= places, "decomposeFloat ensures 0 <= decimalPlaces <= requested places");
#endif
  if (p.decimalPlaces >= 0 && p.decimalPlaces <= 9) CHECK(p.decimal < P10u[p.decimalPlaces], "decomposeFloat ensures decimal < 10^decimalPlaces");
  /* NOT required (and not true): one integral digit when an exponent is written; 0x59435CEAEB2D28C0 (9.9999999999999983e121) gives
   * integral 10, exponent 121, printed "10e121" - valid JSON, an accuracy/normal-form matter that belongs to C12 */
  CHECK(p.integral <= 10000000u, "decomposeFloat ensures integral <= 10^7 (normalised)");
}
#endif /* U_DECOMPOSE */

/* ===================================================================================================================
 * unit jsonser_sw (loop contracts in contracts/jsonser.loops.json, class U):
 *   TextFormatter<LogWriter>::writeString(p,n) / writeString(p)   with writeChar as a monitor stub
 *   StaticStringWriter::write(c) / write(s,n)
 *   CountingDecorator<LogWriter>::write x2, CountingDecorator<DummyWriter>::write x2, DummyWriter::write x2
 * =================================================================================================================== */
#ifdef U_SW
static int g_lw_mode; /* 0: writeString monitor (only the two quotes may come through); 1: returns the arbitrary value g_lw_ret */
static _Bool g_ws_sized;
static unsigned long g_lw_ret, g_lw_calls, g_lw_n;
static unsigned char g_lw_c;
static unsigned char *g_lw_s;

unsigned long LogWriter__write__uchar(struct LogWriter *self, unsigned char c) {
  (void)self;
  if (g_lw_mode == 1) { g_lw_calls++; g_lw_c = c; return g_lw_ret; }
  CHECK(c == '"', "writeString itself writes nothing but the two quotes");
  if (!g_ws_open) {
    CHECK(g_wc_calls == 0, "the opening quote precedes every character");
    g_ws_open = 1;
  } else {
    CHECK(!g_ws_close, "exactly two quotes");
    if (g_ws_sized) CHECK(g_wc_calls == g_ws_n, "writeString(p,n): closing quote after exactly n characters");
    else CHECK(g_ws_src[g_wc_calls] == 0, "writeString(p): closing quote at the terminating NUL");
    g_ws_close = 1;
  }
  return 1;
}
unsigned long LogWriter__write__uchar_p_ulong(struct LogWriter *self, unsigned char *s, unsigned long n) {
  (void)self;
  if (g_lw_mode == 1) { g_lw_calls++; g_lw_s = s; g_lw_n = n; return g_lw_ret; }
  CHECK(0, "writeString itself writes no block");
  return n;
}
/* monitor: the k-th call receives the k-th byte of the source, between the quotes (reading g_ws_src[k] is bounds-checked) */
void TextFormatter_LogWriter__writeChar(struct TextFormatter_LogWriter *self, char c) {
  (void)self;
  CHECK(g_ws_open && !g_ws_close, "characters are written between the quotes");
#ifdef CANARY_STR
  CHECK(c == (char)(g_ws_src[g_wc_calls] + (g_wc_calls == 3)), "the k-th writeChar receives the k-th byte of the string");
#else
  CHECK(c == g_ws_src[g_wc_calls], "the k-th writeChar receives the k-th byte of the string");
#endif
  if (!g_ws_sized) CHECK(c != 0, "writeString(p): stops at the first NUL");
  g_wc_calls++;
}
static void sw_tf_init(struct TextFormatter_LogWriter *tf) {
  struct LogWriter w;
  memset(&w, 0, sizeof w);
  memset(tf, 0, sizeof *tf);
  g_lw_mode = 0; g_wc_calls = 0; g_ws_open = 0; g_ws_close = 0;
  TextFormatter_LogWriter__ctor__LogWriter(tf, w);
}
#define STR_MAX 0x7fffffffUL
void h_string_n(void) {
  struct TextFormatter_LogWriter tf;
  sw_tf_init(&tf);
  unsigned long n = in_size();
  __CPROVER_assume(n <= STR_MAX);
  char *src = malloc(n); /* exactly n readable bytes, arbitrary content (NULs included): any read past n is a cbmc failure */
  __CPROVER_assume(src != 0);
  g_ws_src = src; g_ws_n = n; g_ws_sized = 1;
  TextFormatter_LogWriter__writeString__char_p_ulong(&tf, src, n);
  COVER(n == 0); COVER(n == 1); COVER(n > 70000);
  CHECK(g_ws_open && g_ws_close, "string: opening and closing quote");
  CHECK(g_wc_calls == n, "string: exactly n bytes are written, each through writeChar");
}
void h_string_z(void) {
  struct TextFormatter_LogWriter tf;
  sw_tf_init(&tf);
  unsigned long last = in_size();
  __CPROVER_assume(last < STR_MAX);
  char *src = malloc(last + 1); /* arbitrary content, NUL-terminated; the first NUL may come earlier */
  __CPROVER_assume(src != 0);
  __CPROVER_assume(src[last] == 0);
  g_ws_src = src; g_ws_n = last; g_ws_sized = 0;
  TextFormatter_LogWriter__writeString__char_p(&tf, src);
  COVER(g_wc_calls == 0); COVER(g_wc_calls == last && last > 2); COVER(g_wc_calls < last);
  CHECK(g_ws_open && g_ws_close, "string: opening and closing quote");
  CHECK(g_wc_calls <= last && src[g_wc_calls] == 0, "string: every byte before the first NUL is written, nothing after it is read");
}

/* ---- StaticStringWriter -------------------------------------------------------------------------------------------- */
#define SSW_MAX 0x7fffffffUL
/* destination = a heap block of exactly cap bytes: any access outside it is a cbmc bounds failure, any write to another
 * object violates the loop's assigns clause; bytes of the block outside [old p, old p + count) are compared with their old value */
static void ssw_setup(struct StaticStringWriter *w, char **block, unsigned long *blocksize) {
  unsigned long cap = in_size(), p0 = in_size();
  __CPROVER_assume(cap <= SSW_MAX && p0 <= cap);
  *blocksize = cap;
  *block = malloc(cap);
  __CPROVER_assume(*block != 0);
  StaticStringWriter__ctor__char_p_ulong(w, *block, cap);
  CHECK(w->p == *block && w->end == *block + cap, "StaticStringWriter(buf,size): p == buf, end == buf + size");
  w->p = *block + p0; /* any reachable state: p0 bytes already written */
  g_ssw_buf = *block; g_ssw_cap = cap; g_ssw_p0 = p0;
  g_j = in_size();
  __CPROVER_assume(g_j < cap || cap == 0);
  g_old_j = cap ? (unsigned char)(*block)[g_j] : 0;
}
void h_ssw_block(void) {
  struct StaticStringWriter w;
  char *block; unsigned long bs;
  ssw_setup(&w, &block, &bs);
  unsigned long n = in_size();
  __CPROVER_assume(n <= SSW_MAX);
  unsigned char *src = malloc(n);
  __CPROVER_assume(src != 0);
  g_ssw_src = src; g_ssw_n0 = n;
  g_k = in_size();
  unsigned long want = MIN(n, g_ssw_cap - g_ssw_p0);
  unsigned long r = StaticStringWriter__write__uchar_p_ulong(&w, src, n);
  COVER(want == 0 && n > 0); COVER(want == n && n > 70000); COVER(want < n && want > 0); COVER(n == 0);
#ifdef CANARY_SSW
  CHECK(r == want + (n == want + 1), "writer: returns min(n, room)");
#else
  CHECK(r == want, "writer: returns min(n, room)");
#endif
  CHECK(w.p == block + g_ssw_p0 + want && w.end == block + g_ssw_cap, "writer: p advanced by the count, p <= end, end unchanged");
  if (g_k < want) CHECK((unsigned char)block[g_ssw_p0 + g_k] == src[g_k], "writer: stored bytes are the first min(n, room) bytes of s, at [old p, ...)");
  if (g_ssw_cap && (g_j < g_ssw_p0 || g_j >= g_ssw_p0 + want)) CHECK((unsigned char)block[g_j] == g_old_j, "writer: no byte outside [old p, old p + count) is written");
}
void h_ssw_char(void) {
  struct StaticStringWriter w;
  char *block; unsigned long bs;
  ssw_setup(&w, &block, &bs);
  unsigned char c = in_u8();
  unsigned long want = g_ssw_p0 < g_ssw_cap ? 1 : 0;
  unsigned long r = StaticStringWriter__write__uchar(&w, c);
  COVER(want == 0); COVER(want == 1 && g_ssw_p0 + 1 == g_ssw_cap); COVER(g_ssw_cap == 0);
#ifdef CANARY_SSW
  CHECK(r == (g_ssw_p0 + 1 == g_ssw_cap ? 0 : want), "writer: returns 1 iff there is room");
#else
  CHECK(r == want, "writer: returns 1 iff there is room");
#endif
  CHECK(w.p == block + g_ssw_p0 + want && w.end == block + g_ssw_cap, "writer: p advanced by the count, p <= end, end unchanged");
  if (want) CHECK((unsigned char)block[g_ssw_p0] == c, "writer: the byte is stored at old p");
  if (g_ssw_cap && (g_j != g_ssw_p0 || !want)) CHECK((unsigned char)block[g_j] == g_old_j, "writer: no other byte is written");
}

/* ---- CountingDecorator / DummyWriter ----------------------------------------------------------------------------------- */
void h_counting(void) {
  struct CountingDecorator_LogWriter cd;
  struct LogWriter w;
  memset(&w, 0, sizeof w);
  memset(&cd, 0xff, sizeof cd);
  CountingDecorator_LogWriter__ctor__LogWriter_r(&cd, &w);
  CHECK(CountingDecorator_LogWriter__count(&cd) == 0, "count starts at 0");
  g_lw_mode = 1; g_lw_calls = 0;
  unsigned long c0 = in_size();
  cd.count_ = c0; /* any earlier count */
  g_lw_ret = in_size();
  unsigned long r1 = g_lw_ret;
  unsigned char c = in_u8();
  CountingDecorator_LogWriter__write__uchar(&cd, c);
  CHECK(g_lw_calls == 1 && g_lw_c == c, "counting: the byte is forwarded once, unchanged");
#ifdef CANARY_COUNT
  CHECK(CountingDecorator_LogWriter__count(&cd) == c0 + (r1 ? 1 : 0), "counting: count' == count + value returned by the writer");
#else
  CHECK(CountingDecorator_LogWriter__count(&cd) == c0 + r1, "counting: count' == count + value returned by the writer");
#endif
  g_lw_ret = in_size();
  unsigned long r2 = g_lw_ret, n = in_size();
  unsigned char buf[4];
  CountingDecorator_LogWriter__write__uchar_p_ulong(&cd, buf, n);
  COVER(r2 < n); COVER(r2 == n && n > 0);
  CHECK(g_lw_calls == 2 && g_lw_s == buf && g_lw_n == n, "counting: the block is forwarded once, unchanged");
  CHECK(CountingDecorator_LogWriter__count(&cd) == c0 + r1 + r2, "counting: count' == count + value returned by the writer");
}
void h_dummy(void) {
  struct DummyWriter dw;
  memset(&dw, 0, sizeof dw);
  unsigned long n = in_size();
  unsigned char buf[1];
  COVER(n == 0); COVER(n > 1);
  CHECK(DummyWriter__write__uchar(&dw, in_u8()) == 1, "DummyWriter::write(c) returns 1");
#ifdef CANARY_DUMMY
  CHECK(DummyWriter__write__uchar_p_ulong(&dw, buf, n) == (n == 7 ? 8 : n), "DummyWriter::write(s,n) returns n");
#else
  CHECK(DummyWriter__write__uchar_p_ulong(&dw, buf, n) == n, "DummyWriter::write(s,n) returns n");
#endif
  /* measure: the same decorator over DummyWriter counts every offered byte */
  struct CountingDecorator_DummyWriter cd;
  memset(&cd, 0xff, sizeof cd);
  CountingDecorator_DummyWriter__ctor__DummyWriter_r(&cd, &dw);
  unsigned long c0 = in_size();
  cd.count_ = c0;
  CountingDecorator_DummyWriter__write__uchar(&cd, in_u8());
  CountingDecorator_DummyWriter__write__uchar_p_ulong(&cd, buf, n);
  CHECK(CountingDecorator_DummyWriter__count(&cd) == c0 + 1 + n, "measure: the count is the number of bytes offered");
}
#endif /* U_SW */

/* ===================================================================================================================
 * unit jsonser_tail: serialize<JsonSerializer>(source, buffer, size) - the terminator  (class U, loop-free)
 * doSerialize<JsonSerializer, StaticStringWriter> is under contract: it receives a writer for exactly [buffer, buffer+size)
 * and the source unchanged, and returns a count n.  n is left ARBITRARY (the writer contract gives n <= size; the check
 * does not rely on it): the terminating NUL is stored iff n < size, at buffer[n], and nothing else is touched.
 * =================================================================================================================== */
#ifdef U_TAIL
static unsigned long g_ds_ret, g_ds_calls;
static struct JsonVariantConst g_ds_src;
static struct StaticStringWriter g_ds_writer;
unsigned long doSerialize_StaticStringWriter__JsonVariantConst_StaticStringWriter(struct JsonVariantConst source, struct StaticStringWriter writer) {
  g_ds_calls++;
  g_ds_src = source;
  g_ds_writer = writer;
  return g_ds_ret;
}
#define TAIL_MAX 0x7fffffffUL
void h_tail(void) {
  unsigned long size = in_size();
  __CPROVER_assume(size <= TAIL_MAX);
  char *buf = malloc(size); /* exactly size bytes: a store at buf[size] is a cbmc bounds failure */
  __CPROVER_assume(buf != 0);
  unsigned long j = in_size(); /* any position of the buffer */
  __CPROVER_assume(size == 0 || j < size);
  unsigned char old_j = size ? (unsigned char)buf[j] : 0;
  __CPROVER_assume(size == 0 || old_j != 0); /* so that a stored NUL is observable */
  struct VariantData *vd = 0;
  struct ResourceManager *rm = 0;
  struct JsonVariantConst src;
  src.data_ = in_bool() ? vd : (struct VariantData *)buf; /* two distinguishable pointer values; never dereferenced here */
  src.resources_ = rm;
  g_ds_ret = in_size();
  g_ds_calls = 0;
  unsigned long n = g_ds_ret;
  unsigned long r = force__ser_buf_json(src, buf, size);
  COVER(n < size); COVER(n == size && size > 0); COVER(n > size); COVER(size == 0); COVER(n + 1 == size);
  CHECK(g_ds_calls == 1 && g_ds_src.data_ == src.data_ && g_ds_src.resources_ == src.resources_, "the source is serialized once");
  CHECK(g_ds_writer.p == buf && g_ds_writer.end == buf + size, "the writer covers exactly [buffer, buffer + size)");
  CHECK(r == n, "the returned count is the number of bytes produced (terminator not counted)");
  if (size) {
    if (j == n) CHECK(buf[j] == 0, "a terminating NUL is stored iff length < n: stored at buffer[length]");
#ifdef CANARY_TAIL
    /* the snprintf reading of the sentence ("always terminated, inside the buffer") is NOT what the property says */
    else if (j == size - 1 && n >= size) CHECK(buf[j] == 0, "canary: truncated output is terminated");
#endif
    else CHECK((unsigned char)buf[j] == old_j, "no byte other than buffer[length] is written by the tail; none when length >= n");
  }
}
/* measure<JsonSerializer>(source): a JsonSerializer<DummyWriter> with count 0 over the source's resources visits the
 * source's data; its result is returned (L-C02a: the same visitor template over the writer that returns 1 / n) */
static unsigned long g_ms_ret, g_ms_calls, g_ms_count0;
static struct VariantData *g_ms_var;
static struct ResourceManager *g_ms_res, *g_ms_ser_res;
unsigned long VariantData__accept_JsonSerializer_DummyWriter__VariantData_p_ResourceManager_p_JsonSerializer_DummyWriter_r(struct VariantData *var, struct ResourceManager *resources, struct JsonSerializer_DummyWriter *visit) {
  g_ms_calls++;
  g_ms_var = var; g_ms_res = resources;
  g_ms_ser_res = visit->resources_;
  g_ms_count0 = visit->formatter_.writer_.count_;
  return g_ms_ret;
}
void h_measure(void) {
  char a, b;
  struct JsonVariantConst src;
  src.data_ = in_bool() ? (struct VariantData *)0 : (struct VariantData *)&a; /* distinguishable addresses, never dereferenced */
  src.resources_ = in_bool() ? (struct ResourceManager *)0 : (struct ResourceManager *)&b;
  g_ms_ret = in_size(); g_ms_calls = 0;
  unsigned long r = force__meas_json(src);
  COVER(src.data_ == 0); COVER(src.data_ != 0 && src.resources_ != 0);
  CHECK(g_ms_calls == 1 && g_ms_var == src.data_ && g_ms_res == src.resources_ && g_ms_ser_res == src.resources_, "measure: the source is visited once, with its own resources");
#ifdef CANARY_MEASURE
  CHECK(g_ms_count0 == 1, "measure: counting starts at 0");
#else
  CHECK(g_ms_count0 == 0, "measure: counting starts at 0");
#endif
  CHECK(r == g_ms_ret, "measure: returns the visitor's count");
}
#endif /* U_TAIL */


/* ===================================================================================================================
 * unit jsonser_visit: JsonSerializer<LogWriter>::visit(...)   (loop contracts in contracts/jsonser_visit.loops.json)
 * Containers [U]: the list is under contract - getVariant(id) returns a slot whose next() is the successor id, ids are
 * 0..len-1 in list order (the visitor only compares ids with NULL_SLOT and hands them to getVariant); accept(slot) is under
 * contract: it may write any number of bytes through the same formatter.  A monitor in the writer/accept/getVariant stubs
 * checks the token sequence:  '[' accept(0) ',' accept(1) ... ']'   and   '{' accept(0) ':' accept(1) ',' accept(2) ':' ... '}'.
 * Scalars [U]: each visit hands its argument unchanged to the TextFormatter routine proved in jsonser_fmt/jsonser_sw/jsonser_float,
 * literals and raw values are checked on the writer.
 * =================================================================================================================== */
#ifdef U_VISIT
static int g_lw_mode; /* 0: container monitor; 1: record the call */
static _Bool g_vis_object;
static struct VariantData g_node;  /* the slot returned by getVariant */
static struct ResourceManager *g_rm;
static struct JsonSerializer_LogWriter *g_ser;
static unsigned long g_lw_calls, g_lw_n;
static unsigned char *g_lw_s;
static unsigned char g_lw_c;

unsigned long LogWriter__write__uchar(struct LogWriter *self, unsigned char c) {
  (void)self;
  if (g_lw_mode == 1) { g_lw_calls++; g_lw_c = c; return 1; }
  if (!g_vis_open) {
    CHECK(c == (g_vis_object ? '{' : '['), "container: opening bracket first");
    CHECK(g_vis_calls == 0, "container: opening bracket before any element");
    g_vis_open = 1;
  } else if (g_vis_calls == g_vis_len && g_vis_seps == (g_vis_len ? g_vis_len - 1 : 0)) {
    CHECK(!g_vis_close, "container: one closing bracket");
    CHECK(c == (g_vis_object ? '}' : ']'), "container: closing bracket after the last element");
    g_vis_close = 1;
  } else {
    CHECK(!g_vis_close, "container: nothing after the closing bracket");
    CHECK(g_vis_seps + 1 == g_vis_calls && g_vis_calls < g_vis_len, "container: exactly one separator between two elements, none after the last");
#ifdef CANARY_VISIT
    if (g_vis_object) CHECK(c == ((g_vis_calls & 1) && g_vis_calls != 5 ? ':' : ','), "object: ':' after a key, ',' after a value");
#else
    if (g_vis_object) CHECK(c == ((g_vis_calls & 1) ? ':' : ','), "object: ':' after a key, ',' after a value");
#endif
    else CHECK(c == ',', "array: elements separated by ','");
    g_vis_seps++;
  }
  return 1;
}
unsigned long LogWriter__write__uchar_p_ulong(struct LogWriter *self, unsigned char *s, unsigned long n) {
  (void)self;
  if (g_lw_mode == 1) { g_lw_calls++; g_lw_s = s; g_lw_n = n; return n; }
  CHECK(0, "container: the compact visitor writes single characters only");
  return n;
}
struct VariantData *ResourceManager__getVariant(struct ResourceManager *self, unsigned int id) {
  CHECK(self == g_rm, "container: slots are looked up in the serializer's resources");
#ifdef CANARY_VISIT_ORDER
  CHECK(id == g_vis_calls + (g_vis_calls == 2) && g_vis_calls < g_vis_len, "container: slots are visited in list order, each once");
#else
  CHECK(id == g_vis_calls && g_vis_calls < g_vis_len, "container: slots are visited in list order, each once");
#endif
  g_cur_id = id;
  g_node.next_ = VIS_SUCC((unsigned long)id);
  return &g_node;
}
unsigned long VariantData__accept_JsonSerializer_LogWriter__JsonSerializer_LogWriter_r_ResourceManager_p(struct VariantData *self, struct JsonSerializer_LogWriter *visit, struct ResourceManager *resources) {
  CHECK(self == &g_node && g_cur_id == g_vis_calls, "container: the slot just looked up is serialized");
  CHECK(visit == g_ser && resources == g_rm, "container: children are serialized by the same serializer and resources");
  CHECK(g_vis_open && !g_vis_close && g_vis_seps == g_vis_calls, "container: one separator precedes every element but the first");
  g_vis_calls++;
  unsigned long nbytes = nondet_child_bytes();
  g_vis_child += nbytes;
  visit->formatter_.writer_.count_ += nbytes; /* the child writes any number of bytes through the same counting writer */
  return visit->formatter_.writer_.count_;
}
static void visit_init(struct JsonSerializer_LogWriter *ser) {
  struct LogWriter w;
  memset(&w, 0, sizeof w);
  memset(ser, 0, sizeof *ser);
  g_rm = (struct ResourceManager *)malloc(1); /* an address; never dereferenced by the visitor (getVariant is a stub) */
  JsonSerializer_LogWriter__ctor__LogWriter_ResourceManager_p(ser, w, g_rm);
  CHECK(ser->resources_ == g_rm && ser->formatter_.writer_.count_ == 0, "serializer constructed with count 0");
  g_ser = ser;
  g_node_p = &g_node;
  g_vis_c0 = in_size();
  ser->formatter_.writer_.count_ = g_vis_c0; /* any number of bytes already written by the enclosing containers */
  g_vis_calls = 0; g_vis_seps = 0; g_vis_child = 0; g_vis_open = 0; g_vis_close = 0;
  g_lw_mode = 0; g_lw_calls = 0;
}
#define VIS_MAX 0x7ffffffful
static void check_container(struct JsonSerializer_LogWriter *ser, unsigned long r) {
  CHECK(g_vis_open && g_vis_close, "container: opened and closed");
  CHECK(g_vis_calls == g_vis_len, "container: every slot of the list is serialized exactly once");
  CHECK(g_vis_seps == (g_vis_len ? g_vis_len - 1 : 0), "container: len-1 separators");
  CHECK(r == g_vis_c0 + 2 + g_vis_seps + g_vis_child && r == ser->formatter_.writer_.count_, "returned count == number of bytes produced so far");
}
void h_visit_array(void) {
  struct JsonSerializer_LogWriter ser;
  visit_init(&ser);
  g_vis_object = 0;
  g_vis_len = in_size();
  __CPROVER_assume(g_vis_len <= VIS_MAX);
  struct ArrayData arr;
  memset(&arr, 0, sizeof arr);
  arr._b_CollectionData.head_ = g_vis_len ? 0u : NULL_SLOT;
  arr._b_CollectionData.tail_ = g_vis_len ? (unsigned int)(g_vis_len - 1) : NULL_SLOT;
  unsigned long r = JsonSerializer_LogWriter__visit__ArrayData_r(&ser, &arr);
  COVER(g_vis_len == 0); COVER(g_vis_len == 1); COVER(g_vis_len > 70000);
  check_container(&ser, r);
}
void h_visit_object(void) {
  struct JsonSerializer_LogWriter ser;
  visit_init(&ser);
  g_vis_object = 1;
  g_vis_len = in_size(); /* key and value slots alternate; even for a well-formed object, not needed by the check */
  __CPROVER_assume(g_vis_len <= VIS_MAX);
  struct ObjectData obj;
  memset(&obj, 0, sizeof obj);
  obj._b_CollectionData.head_ = g_vis_len ? 0u : NULL_SLOT;
  obj._b_CollectionData.tail_ = g_vis_len ? (unsigned int)(g_vis_len - 1) : NULL_SLOT;
  unsigned long r = JsonSerializer_LogWriter__visit__ObjectData_r(&ser, &obj);
  COVER(g_vis_len == 0); COVER(g_vis_len == 2); COVER(g_vis_len == 4); COVER(g_vis_len > 70000);
  check_container(&ser, r);
}
/* ---- scalar visits: the argument reaches the TextFormatter routine unchanged; literals / raw values reach the writer ---- */
static int g_ev;              /* which formatter routine was called (0 none) */
static unsigned g_ev_calls;
static int64_t g_ev_i64; static uint64_t g_ev_u64; static double g_ev_f64; static float g_ev_f32;
static char *g_ev_p; static unsigned long g_ev_n;
#define EV(code) do { g_ev = (code); g_ev_calls++; self->writer_.count_ += nondet_child_bytes(); } while (0)
void TextFormatter_LogWriter__writeInteger_long(struct TextFormatter_LogWriter *self, long value) { g_ev_i64 = value; EV(1); }
void TextFormatter_LogWriter__writeInteger_ulong(struct TextFormatter_LogWriter *self, unsigned long value) { g_ev_u64 = value; EV(2); }
void TextFormatter_LogWriter__writeString__char_p(struct TextFormatter_LogWriter *self, char *value) { g_ev_p = value; EV(3); }
void TextFormatter_LogWriter__writeString__char_p_ulong(struct TextFormatter_LogWriter *self, char *value, unsigned long n) { g_ev_p = value; g_ev_n = n; EV(4); }
void TextFormatter_LogWriter__writeFloat_double(struct TextFormatter_LogWriter *self, double value) { g_ev_f64 = value; EV(5); }
void TextFormatter_LogWriter__writeFloat_float(struct TextFormatter_LogWriter *self, float value) { g_ev_f32 = value; EV(6); }
static void scalar_init(struct JsonSerializer_LogWriter *ser) {
  visit_init(ser);
  g_lw_mode = 1; g_ev = 0; g_ev_calls = 0;
}
#define RET_OK(ser, r) CHECK((r) == (ser)->formatter_.writer_.count_, "visit returns the number of bytes written so far")
#define LITERAL(lit) (g_lw_calls == 1 && g_ev_calls == 0 && g_lw_n == sizeof(lit) - 1 && memcmp(g_lw_s, lit, sizeof(lit) - 1) == 0)
void h_visit_scalars(void) {
  struct JsonSerializer_LogWriter ser;
  scalar_init(&ser);
  unsigned which = in_u8();
  unsigned long r;
  static char text[4] = {'a', 0, 'b', 'c'};
  COVER(which == 0); COVER(which == 1); COVER(which == 2); COVER(which == 3); COVER(which == 4); COVER(which == 5);
  COVER(which == 6); COVER(which == 7); COVER(which == 8);
  switch (which) {
    case 0: { int64_t v = in_i64(); r = JsonSerializer_LogWriter__visit__long(&ser, v);
      CHECK(g_ev == 1 && g_ev_calls == 1 && g_lw_calls == 0 && g_ev_i64 == v, "JsonInteger: every bit reaches writeInteger<int64_t>"); break; }
    case 1: { uint64_t v = in_u64(); r = JsonSerializer_LogWriter__visit__ulong(&ser, v);
#ifdef CANARY_SCALARS
      CHECK(g_ev == 2 && g_ev_calls == 1 && g_lw_calls == 0 && g_ev_u64 == (v == (1ull << 63) ? 0 : v), "JsonUInt: every bit reaches writeInteger<uint64_t>"); break; }
#else
      CHECK(g_ev == 2 && g_ev_calls == 1 && g_lw_calls == 0 && g_ev_u64 == v, "JsonUInt: every bit reaches writeInteger<uint64_t>"); break; }
#endif
    case 2: { r = JsonSerializer_LogWriter__visit__char_p(&ser, text);
      CHECK(g_ev == 3 && g_ev_calls == 1 && g_lw_calls == 0 && g_ev_p == text, "const char*: written by writeString(p)"); break; }
    case 3: { struct JsonString js; memset(&js, 0, sizeof js); js.data_ = text; js.size_ = in_size(); js.ownership_ = in_bool();
      r = JsonSerializer_LogWriter__visit__JsonString(&ser, js);
      CHECK(g_ev == 4 && g_ev_calls == 1 && g_lw_calls == 0 && g_ev_p == text && g_ev_n == js.size_, "JsonString: written by writeString(p, size) - sized, NULs included"); break; }
    case 4: { struct SerializedValue_constchar_p raw; memset(&raw, 0, sizeof raw); raw.data_ = text; raw.size_ = in_size();
      r = JsonSerializer_LogWriter__visit__SerializedValue_constchar_p(&ser, raw);
      CHECK(g_ev_calls == 0 && g_lw_calls == 1 && g_lw_s == (unsigned char *)text && g_lw_n == raw.size_, "raw values are written verbatim: exactly size bytes from data"); break; }
    case 5: { _Bool b = in_bool(); r = JsonSerializer_LogWriter__visit___Bool(&ser, b);
      CHECK(b ? LITERAL("true") : LITERAL("false"), "booleans are the literals true / false"); break; }
    case 6: { r = JsonSerializer_LogWriter__visit__void_p(&ser, 0);
      CHECK(LITERAL("null"), "null is the literal null"); break; }
    case 7: { double v = in_f64(); r = JsonSerializer_LogWriter__visit_double(&ser, v);
      CHECK(g_ev == 5 && g_ev_calls == 1 && g_lw_calls == 0 && memcmp(&g_ev_f64, &v, 8) == 0, "double: every bit reaches writeFloat<double>"); break; }
    default: { float v = in_f32(); r = JsonSerializer_LogWriter__visit_float(&ser, v);
      CHECK(g_ev == 6 && g_ev_calls == 1 && g_lw_calls == 0 && memcmp(&g_ev_f32, &v, 4) == 0, "float: every bit reaches writeFloat<float>"); break; }
  }
  RET_OK(&ser, r);
}
#endif /* U_VISIT */


/* ===================================================================================================================
 * unit jsonser_pretty: PrettyJsonSerializer<LogWriter>::visit(ArrayData/ObjectData), indent
 * (loop contracts in contracts/jsonser_pretty.loops.json, class U; strlen of the literals unwound)
 * Same contracts for the list and for accept as in jsonser_visit.  Token monitor on the writer: with T = ARDUINOJSON_TAB ("  ")
 * and n = nesting_ at entry,
 *   empty:  "[]" / "{}"
 *   array:  "[\r\n"  { T^(n+1) accept(k) (",\r\n" | "\r\n" after the last) }  T^n "]"
 *   object: "{\r\n"  { T^(n+1) accept(key) ": " accept(value) (",\r\n" | "\r\n" after the last) }  T^n "}"
 * i.e. the compact token sequence '[' e ',' e ']' / '{' k ':' v ',' ... '}' with only CR LF, T and one space after ':' inserted.
 * Precondition: nesting_ <= 254 at entry (uint8_t nesting_ wraps at 256 levels: indentation only, stated in the evidence).
 * =================================================================================================================== */
#ifdef U_PRETTY_V
enum { T_BAD, T_CLOSE, T_EMPTY, T_INDENT, T_NL, T_COLON, T_OPEN, T_SEPNL };
static _Bool g_vis_object;
static struct VariantData g_node;
static struct ResourceManager *g_rm;
static struct PrettyJsonSerializer_LogWriter *g_pser;
static int tok(const unsigned char *s, unsigned long n) {
  char open = g_vis_object ? '{' : '[', close = g_vis_object ? '}' : ']';
  if (n == 1) return s[0] == close ? T_CLOSE : T_BAD;
  if (n == 2) {
    if (s[0] == open && s[1] == close) return T_EMPTY;
    if (s[0] == ' ' && s[1] == ' ') return T_INDENT; /* ARDUINOJSON_TAB, default configuration */
    if (s[0] == '\r' && s[1] == '\n') return T_NL;
    if (s[0] == ':' && s[1] == ' ') return T_COLON;
    return T_BAD;
  }
  if (n == 3 && s[1] == '\r' && s[2] == '\n') return s[0] == open ? T_OPEN : s[0] == ',' ? T_SEPNL : T_BAD;
  return T_BAD;
}
unsigned long LogWriter__write__uchar(struct LogWriter *self, unsigned char c) {
  (void)self; (void)c;
  CHECK(0, "pretty: the container visitors write literal strings only");
  return 1;
}
unsigned long LogWriter__write__uchar_p_ulong(struct LogWriter *self, unsigned char *s, unsigned long n) {
  (void)self;
  CHECK(n >= 1 && n <= 3, "pretty: tokens of 1..3 bytes");
  int t = (n >= 1 && n <= 3) ? tok(s, n) : T_BAD;
  _Bool all_done = g_vis_calls == g_vis_len && g_vis_seps == g_vis_len;
  g_p_bytes += n; /* == value returned below: bytes produced so far, updated in lockstep with the counting decorator */
  switch (t) {
    case T_EMPTY:
      CHECK(!g_vis_open && g_vis_len == 0, "pretty: an empty container is [] / {}");
      g_vis_open = 1; g_vis_close = 1;
      break;
    case T_OPEN:
      CHECK(!g_vis_open && g_vis_len > 0, "pretty: opening bracket + CR LF first");
      g_vis_open = 1;
      break;
    case T_INDENT:
      CHECK(g_vis_open && !g_vis_close, "pretty: indentation inside the container only");
      CHECK(g_vis_seps == g_vis_calls, "pretty: indentation only at the beginning of a line");
      CHECK(g_p_ind < (all_done ? g_p_n0 : g_p_n0 + 1), "pretty: at most nesting indentation units per line");
      if (g_vis_object && !all_done) CHECK((g_vis_calls & 1) == 0, "pretty: no indentation between ':' and the value");
      g_p_ind++;
      break;
    case T_COLON:
      CHECK(g_vis_object && g_vis_open && !g_vis_close && g_vis_seps + 1 == g_vis_calls && (g_vis_calls & 1) && g_p_ind == 0,
            "pretty: ':' and one space after a key");
      g_vis_seps++;
      break;
    case T_SEPNL:
      CHECK(g_vis_open && !g_vis_close && g_vis_seps + 1 == g_vis_calls && g_vis_calls < g_vis_len && g_p_ind == 0 && (!g_vis_object || !(g_vis_calls & 1)),
            "pretty: ',' CR LF between two elements / members");
      g_vis_seps++;
      break;
    case T_NL:
      CHECK(g_vis_open && !g_vis_close && g_vis_seps + 1 == g_vis_calls && g_vis_calls == g_vis_len && g_p_ind == 0 && (!g_vis_object || !(g_vis_calls & 1)),
            "pretty: CR LF without ',' after the last element / member");
      g_vis_seps++;
      break;
    case T_CLOSE:
      CHECK(g_vis_open && !g_vis_close && all_done && g_vis_len > 0, "pretty: closing bracket after the last line");
#ifdef CANARY_PRETTY
      CHECK(g_p_ind == g_p_n0 + (g_p_n0 == 3), "pretty: the closing bracket is indented by the enclosing nesting");
#else
      CHECK(g_p_ind == g_p_n0, "pretty: the closing bracket is indented by the enclosing nesting");
#endif
      g_vis_close = 1;
      break;
    default:
      CHECK(0, "pretty: only [ ] { } , : CR LF, TAB and one space are written by the container visitors");
  }
  return n;
}
struct VariantData *ResourceManager__getVariant(struct ResourceManager *self, unsigned int id) {
  CHECK(self == g_rm, "container: slots are looked up in the serializer's resources");
  CHECK(id == (g_p_lookups < g_vis_len ? (unsigned int)g_p_lookups : NULL_SLOT), "container: slots are looked up in list order, then the end of the list");
  g_p_lookups++;
  if (id == NULL_SLOT) return 0;
  g_cur_id = id;
  g_node.next_ = VIS_SUCC((unsigned long)id);
  return &g_node;
}
unsigned long VariantData__accept_PrettyJsonSerializer_LogWriter__PrettyJsonSerializer_LogWriter_r_ResourceManager_p(struct VariantData *self, struct PrettyJsonSerializer_LogWriter *visit, struct ResourceManager *resources) {
  CHECK(self == &g_node && g_cur_id == g_vis_calls && g_vis_calls < g_vis_len, "container: slots are serialized in list order, each once");
  CHECK(visit == g_pser && resources == g_rm, "container: children are serialized by the same serializer and resources");
  CHECK(visit->nesting_ == g_p_n0 + 1, "pretty: children are serialized one level deeper");
  CHECK(g_vis_open && !g_vis_close && g_vis_seps == g_vis_calls, "pretty: a separator precedes every element but the first");
  CHECK(g_p_ind == ((g_vis_object && (g_vis_calls & 1)) ? 0 : g_p_n0 + 1), "pretty: every element / key is indented by nesting + 1 units, values follow ': ' directly");
  g_p_ind = 0;
  g_vis_calls++;
  unsigned long nbytes = nondet_child_bytes();
  g_p_bytes += nbytes;
  visit->_b_JsonSerializer_LogWriter.formatter_.writer_.count_ += nbytes;
  return visit->_b_JsonSerializer_LogWriter.formatter_.writer_.count_;
}
#define PCOUNT(ser) ((ser)->_b_JsonSerializer_LogWriter.formatter_.writer_.count_)
static void pretty_init(struct PrettyJsonSerializer_LogWriter *ser, _Bool object) {
  struct LogWriter w;
  memset(&w, 0, sizeof w);
  memset(ser, 0xff, sizeof *ser);
  g_rm = (struct ResourceManager *)malloc(1);
  PrettyJsonSerializer_LogWriter__ctor__LogWriter_ResourceManager_p(ser, w, g_rm);
  CHECK(ser->_b_JsonSerializer_LogWriter.resources_ == g_rm && PCOUNT(ser) == 0 && ser->nesting_ == 0, "pretty serializer constructed with count 0, nesting 0");
  g_pser = ser; g_node_p = &g_node; g_vis_object = object;
  g_vis_c0 = in_size();
  PCOUNT(ser) = g_vis_c0;
  g_p_n0 = in_u8();
  __CPROVER_assume(g_p_n0 <= 254);
  ser->nesting_ = (unsigned char)g_p_n0;
  g_vis_len = in_size();
  __CPROVER_assume(g_vis_len <= 0x7ffffffful);
  g_vis_calls = 0; g_vis_seps = 0; g_vis_child = 0; g_vis_open = 0; g_vis_close = 0; g_p_ind = 0; g_p_lookups = 0; g_p_bytes = g_vis_c0;
}
static void check_pretty(struct PrettyJsonSerializer_LogWriter *ser, unsigned long r) {
  CHECK(g_vis_open && g_vis_close, "container: opened and closed");
  CHECK(g_vis_calls == g_vis_len, "container: every slot of the list is serialized exactly once");
  CHECK(ser->nesting_ == g_p_n0, "pretty: nesting restored");
  CHECK(r == g_p_bytes && r == PCOUNT(ser), "returned count == number of bytes produced so far (own tokens + children)");
}
void h_pretty_array(void) {
  struct PrettyJsonSerializer_LogWriter ser;
  pretty_init(&ser, 0);
  struct ArrayData arr;
  memset(&arr, 0, sizeof arr);
  arr._b_CollectionData.head_ = g_vis_len ? 0u : NULL_SLOT;
  arr._b_CollectionData.tail_ = g_vis_len ? (unsigned int)(g_vis_len - 1) : NULL_SLOT;
  unsigned long r = PrettyJsonSerializer_LogWriter__visit__ArrayData_r(&ser, &arr);
  COVER(g_vis_len == 0); COVER(g_vis_len == 1); COVER(g_vis_len > 70000); COVER(g_p_n0 == 254); COVER(g_p_n0 == 0);
  check_pretty(&ser, r);
}
void h_pretty_object(void) {
  struct PrettyJsonSerializer_LogWriter ser;
  pretty_init(&ser, 1);
  __CPROVER_assume((g_vis_len & 1) == 0); /* well-formed object list: key and value slots alternate (C04 collection invariant) */
  struct ObjectData obj;
  memset(&obj, 0, sizeof obj);
  obj._b_CollectionData.head_ = g_vis_len ? 0u : NULL_SLOT;
  obj._b_CollectionData.tail_ = g_vis_len ? (unsigned int)(g_vis_len - 1) : NULL_SLOT;
  unsigned long r = PrettyJsonSerializer_LogWriter__visit__ObjectData_r(&ser, &obj);
  COVER(g_vis_len == 0); COVER(g_vis_len == 2); COVER(g_vis_len > 70000); COVER(g_p_n0 == 254); COVER(g_p_n0 == 0);
  check_pretty(&ser, r);
}
#endif /* U_PRETTY_V */

/* ===================================================================================================================
 * unit jsonser_text [B]: the two serializers on the same list of at most 4 slots, nesting 0..2, texts compared byte by byte:
 * "the two differing only in insignificant whitespace".  Children write one letter ('a' + slot id).
 * (unbounded statements: units jsonser_visit and jsonser_pretty)
 * =================================================================================================================== */
#ifdef U_TEXT
static struct VariantData g_nodes[4];
static unsigned long g_tlen;
struct VariantData *ResourceManager__getVariant(struct ResourceManager *self, unsigned int id) {
  (void)self;
  if (id == NULL_SLOT) return 0;
  CHECK(id < g_tlen, "only slots of the list are looked up");
  return &g_nodes[id < 4 ? id : 0];
}
unsigned long VariantData__accept_JsonSerializer_LogWriter__JsonSerializer_LogWriter_r_ResourceManager_p(struct VariantData *self, struct JsonSerializer_LogWriter *visit, struct ResourceManager *resources) {
  (void)resources;
  JsonSerializer_LogWriter__write__char(visit, (char)('a' + (self - g_nodes)));
  return JsonSerializer_LogWriter__bytesWritten(visit);
}
unsigned long VariantData__accept_PrettyJsonSerializer_LogWriter__PrettyJsonSerializer_LogWriter_r_ResourceManager_p(struct VariantData *self, struct PrettyJsonSerializer_LogWriter *visit, struct ResourceManager *resources) {
  (void)resources;
  JsonSerializer_LogWriter__write__char(&visit->_b_JsonSerializer_LogWriter, (char)('a' + (self - g_nodes)));
  return JsonSerializer_LogWriter__bytesWritten(&visit->_b_JsonSerializer_LogWriter);
}
static void text_both(_Bool object) {
  struct LogWriter w;
  memset(&w, 0, sizeof w);
  g_tlen = in_u8();
  __CPROVER_assume(g_tlen <= (object ? 4 : 3) && (!object || !(g_tlen & 1)));
  unsigned nesting = in_u8();
  __CPROVER_assume(nesting <= 1);
  memset(g_nodes, 0, sizeof g_nodes);
  g_nodes[0].next_ = 1 < g_tlen ? 1u : NULL_SLOT; g_nodes[1].next_ = 2 < g_tlen ? 2u : NULL_SLOT;
  g_nodes[2].next_ = 3 < g_tlen ? 3u : NULL_SLOT; g_nodes[3].next_ = NULL_SLOT;
  struct ArrayData arr; struct ObjectData obj;
  memset(&arr, 0, sizeof arr); memset(&obj, 0, sizeof obj);
  arr._b_CollectionData.head_ = obj._b_CollectionData.head_ = g_tlen ? 0u : NULL_SLOT;
  arr._b_CollectionData.tail_ = obj._b_CollectionData.tail_ = g_tlen ? (unsigned int)(g_tlen - 1) : NULL_SLOT;
  /* compact */
  struct JsonSerializer_LogWriter cs;
  memset(&cs, 0, sizeof cs);
  g_out_len = 0; g_ret_sum = 0; g_room = ~0ul;
  JsonSerializer_LogWriter__ctor__LogWriter_ResourceManager_p(&cs, w, 0);
  unsigned long rc = object ? JsonSerializer_LogWriter__visit__ObjectData_r(&cs, &obj) : JsonSerializer_LogWriter__visit__ArrayData_r(&cs, &arr);
  unsigned char compact[16];
  unsigned long clen = g_out_len;
  CHECK(rc == clen, "compact: returned count == length of the text");
  CHECK(clen == (g_tlen ? 2 * g_tlen + 1 : 2), "compact: brackets, one letter per slot, one separator between slots");
  for (unsigned i = 0; i < 16; i++) compact[i] = g_out[i];
  /* expected compact text, written out */
  unsigned char want[16]; unsigned long k = 0;
  want[k++] = object ? '{' : '[';
  for (unsigned i = 0; i < 4; i++) if (i < g_tlen) { if (i) want[k++] = (object && (i & 1)) ? ':' : ','; want[k++] = (unsigned char)('a' + i); }
  want[k++] = object ? '}' : ']';
  unsigned long j = in_u8();
#ifdef CANARY_TEXT
  if (j < k && j < clen) CHECK(compact[j] == (j == 3 ? want[j] + 1 : want[j]), "compact: the text is [a,b,..] / {a:b,c:d}");
#else
  if (j < k && j < clen) CHECK(compact[j] == want[j], "compact: the text is [a,b,..] / {a:b,c:d}");
#endif
  /* pretty */
  struct PrettyJsonSerializer_LogWriter ps;
  memset(&ps, 0, sizeof ps);
  g_out_len = 0; g_ret_sum = 0;
  PrettyJsonSerializer_LogWriter__ctor__LogWriter_ResourceManager_p(&ps, w, 0);
  ps.nesting_ = (unsigned char)nesting;
  unsigned long rp = object ? PrettyJsonSerializer_LogWriter__visit__ObjectData_r(&ps, &obj) : PrettyJsonSerializer_LogWriter__visit__ArrayData_r(&ps, &arr);
  CHECK(rp == g_out_len && g_out_len <= LOG_CAP, "pretty: returned count == length of the text");
  CHECK(g_out_len <= 32, "pretty: at most 32 bytes for these lists");
  unsigned char stripped[32]; unsigned long slen = 0;
  for (unsigned long i = 0; i < 32; i++)
    if (i < g_out_len && g_out[i] != '\r' && g_out[i] != '\n' && g_out[i] != ' ') stripped[slen++] = g_out[i];
  CHECK(slen == clen, "pretty and compact differ only in insignificant whitespace (CR, LF, space): length");
  if (j < clen && j < slen) CHECK(stripped[j] == compact[j], "pretty and compact differ only in insignificant whitespace (CR, LF, space): bytes");
}
void h_text_array(void) { text_both(0); COVER(g_tlen == 0); COVER(g_tlen == 3); COVER(g_out_len == 29); }
void h_text_object(void) { text_both(1); COVER(g_tlen == 0); COVER(g_tlen == 4); COVER(g_out_len == 27); }
#endif /* U_TEXT */

/* ===================================================================================================================
 * unit jsonser_accept: VariantData::accept<JsonSerializer<LogWriter>> and <PrettyJsonSerializer<LogWriter>>  (class U/W)
 * Every stored kind reaches the visit overload of its kind with its payload unchanged ("every integer digit-exact, raw
 * values verbatim, every string byte preserved" between the slot and the formatter); anything else is written as null.
 * All visit overloads are stubs that record their argument; ResourceManager::getExtension is under contract
 * (returns the extension slot of the id it is given).
 * =================================================================================================================== */
#ifdef U_ACCEPT
enum { AV_NONE, AV_FLOAT, AV_DOUBLE, AV_ARRAY, AV_OBJECT, AV_STRING, AV_RAW, AV_LONG, AV_ULONG, AV_BOOL, AV_NULL, AV_PARRAY, AV_POBJECT };
static int g_av; static unsigned g_av_calls;
static float g_av_f32; static double g_av_f64; static void *g_av_ptr; static struct JsonString g_av_str;
static struct SerializedValue_constchar_p g_av_raw; static long g_av_i64; static unsigned long g_av_u64; static _Bool g_av_bool;
static void *g_av_self; static unsigned long g_av_ret;
static union VariantExtension g_ext; static unsigned int g_ext_id; static unsigned g_ext_calls; static struct ResourceManager *g_rm;
#define AV(code) do { g_av = (code); g_av_calls++; g_av_self = self; return g_av_ret; } while (0)
unsigned long JsonSerializer_LogWriter__visit_float(struct JsonSerializer_LogWriter *self, float value) { g_av_f32 = value; AV(AV_FLOAT); }
unsigned long JsonSerializer_LogWriter__visit_double(struct JsonSerializer_LogWriter *self, double value) { g_av_f64 = value; AV(AV_DOUBLE); }
unsigned long JsonSerializer_LogWriter__visit__ArrayData_r(struct JsonSerializer_LogWriter *self, struct ArrayData *array) { g_av_ptr = array; AV(AV_ARRAY); }
unsigned long JsonSerializer_LogWriter__visit__ObjectData_r(struct JsonSerializer_LogWriter *self, struct ObjectData *object) { g_av_ptr = object; AV(AV_OBJECT); }
unsigned long PrettyJsonSerializer_LogWriter__visit__ArrayData_r(struct PrettyJsonSerializer_LogWriter *self, struct ArrayData *array) { g_av_ptr = array; AV(AV_PARRAY); }
unsigned long PrettyJsonSerializer_LogWriter__visit__ObjectData_r(struct PrettyJsonSerializer_LogWriter *self, struct ObjectData *object) { g_av_ptr = object; AV(AV_POBJECT); }
unsigned long JsonSerializer_LogWriter__visit__JsonString(struct JsonSerializer_LogWriter *self, struct JsonString value) { g_av_str = value; AV(AV_STRING); }
unsigned long JsonSerializer_LogWriter__visit__SerializedValue_constchar_p(struct JsonSerializer_LogWriter *self, struct SerializedValue_constchar_p value) { g_av_raw = value; AV(AV_RAW); }
unsigned long JsonSerializer_LogWriter__visit__long(struct JsonSerializer_LogWriter *self, long value) { g_av_i64 = value; AV(AV_LONG); }
unsigned long JsonSerializer_LogWriter__visit__ulong(struct JsonSerializer_LogWriter *self, unsigned long value) { g_av_u64 = value; AV(AV_ULONG); }
unsigned long JsonSerializer_LogWriter__visit___Bool(struct JsonSerializer_LogWriter *self, _Bool value) { g_av_bool = value; AV(AV_BOOL); }
unsigned long JsonSerializer_LogWriter__visit__void_p(struct JsonSerializer_LogWriter *self, void *p) { (void)p; AV(AV_NULL); }
union VariantExtension *ResourceManager__getExtension(struct ResourceManager *self, unsigned int id) {
  CHECK(self == g_rm, "extension looked up in the resources handed to accept");
  g_ext_calls++; g_ext_id = id;
  return &g_ext;
}
static void accept_common(_Bool pretty) {
  struct PrettyJsonSerializer_LogWriter pser; /* its base subobject is the compact serializer */
  memset(&pser, 0, sizeof pser);
  struct JsonSerializer_LogWriter *ser = &pser._b_JsonSerializer_LogWriter;
  g_rm = (struct ResourceManager *)malloc(1);
  struct VariantData v;
  memset(&v, 0, sizeof v);
  uint8_t type = in_u8();
  v.type_ = type;
  static char text[3] = {'a', 'b', 0};
  struct StringNode *node = malloc(sizeof(struct StringNode) + 3);
  __CPROVER_assume(node != 0);
  uint16_t nlen = in_u16();
  __CPROVER_assume(nlen <= 3);
  node->length = nlen; node->next = 0; node->references = 1;
  uint32_t u32 = in_u32(); uint64_t u64 = in_u64(); _Bool b = in_bool(); float f = in_f32();
  g_ext.asUint64 = u64;
  switch (type) {
    case 0x03: case 0x05: v.content_.asOwnedString = node; break;
    case 0x04: v.content_.asLinkedString = text; break;
    case 0x06: v.content_.asBoolean = b; break;
    case 0x0A: case 0x0C: v.content_.asUint32 = u32; break;
    case 0x0E: v.content_.asFloat = f; break;
    case 0x1A: case 0x1C: case 0x1E: v.content_.asSlotId = u32; break;
    default: break;
  }
  unsigned int slot_id = v.content_.asSlotId;
  _Bool isnull = in_bool();
  g_av = AV_NONE; g_av_calls = 0; g_ext_calls = 0; g_av_ret = in_size();
  unsigned long r = pretty
    ? VariantData__accept_PrettyJsonSerializer_LogWriter__VariantData_p_ResourceManager_p_PrettyJsonSerializer_LogWriter_r(isnull ? 0 : &v, g_rm, &pser)
    : VariantData__accept_JsonSerializer_LogWriter__VariantData_p_ResourceManager_p_JsonSerializer_LogWriter_r(isnull ? 0 : &v, g_rm, ser);
  CHECK(g_av_calls == 1 && r == g_av_ret, "accept: exactly one visit, its result returned");
  CHECK(g_av_self == (void *)ser || g_av_self == (void *)&pser, "accept: the visitor handed in is used");
  if (isnull) { CHECK(g_av == AV_NULL && g_ext_calls == 0, "accept: an unbound variant is written as null"); return; }
  if (type & 0x10) CHECK(g_ext_calls == 1 && g_ext_id == slot_id, "accept: 64-bit payloads are read from the extension slot named by the variant");
  else CHECK(g_ext_calls == 0, "accept: no extension lookup for the other kinds");
  switch (type) {
    case 0x00: CHECK(g_av == AV_NULL, "Null -> null"); break;
    case 0x03: CHECK(g_av == AV_RAW && g_av_raw.data_ == node->data && g_av_raw.size_ == nlen, "RawString -> raw value: the node's bytes, its length"); break;
    case 0x04: CHECK(g_av == AV_STRING && g_av_str.data_ == text && g_av_str.size_ == 2, "LinkedString -> string: the pointer, strlen bytes"); break;
    case 0x05: CHECK(g_av == AV_STRING && g_av_str.data_ == node->data && g_av_str.size_ == nlen, "OwnedString -> string: the node's bytes, its length (NULs included)"); break;
    case 0x06: CHECK(g_av == AV_BOOL && g_av_bool == b, "Boolean -> bool"); break;
#ifdef CANARY_ACCEPT
    case 0x0A: CHECK(g_av == AV_ULONG && g_av_u64 == (u32 == 0x80000000u ? 0xffffffff80000000ul : u32), "Uint32 -> unsigned integer, zero-extended"); break;
#else
    case 0x0A: CHECK(g_av == AV_ULONG && g_av_u64 == u32, "Uint32 -> unsigned integer, zero-extended"); break;
#endif
    case 0x0C: CHECK(g_av == AV_LONG && g_av_i64 == (int32_t)u32, "Int32 -> signed integer, sign-extended"); break;
    case 0x0E: CHECK(g_av == AV_FLOAT && memcmp(&g_av_f32, &f, 4) == 0, "Float -> float, every bit"); break;
    case 0x1A: CHECK(g_av == AV_ULONG && g_av_u64 == u64, "Uint64 -> unsigned integer, every bit"); break;
    case 0x1C: CHECK(g_av == AV_LONG && g_av_i64 == (int64_t)u64, "Int64 -> signed integer, every bit"); break;
    case 0x1E: CHECK(g_av == AV_DOUBLE && memcmp(&g_av_f64, &u64, 8) == 0, "Double -> double, every bit"); break;
    case 0x20: CHECK(g_av == (pretty ? AV_POBJECT : AV_OBJECT) && g_av_ptr == &v.content_.asObject, "Object -> the object visitor of the serializer in use, on the variant's own list"); break;
    case 0x40: CHECK(g_av == (pretty ? AV_PARRAY : AV_ARRAY) && g_av_ptr == &v.content_.asArray, "Array -> the array visitor of the serializer in use, on the variant's own list"); break;
    default: CHECK(g_av == AV_NULL, "any other tag is written as null"); break;
  }
}
#define ACCEPT_COVERS COVER(g_av == AV_NULL); COVER(g_av == AV_RAW); COVER(g_av == AV_STRING); COVER(g_av == AV_BOOL); COVER(g_av == AV_ULONG); \
  COVER(g_av == AV_LONG); COVER(g_av == AV_FLOAT); COVER(g_av == AV_DOUBLE); COVER(g_ext_calls == 1 && g_av == AV_LONG);
void h_accept_compact(void) { accept_common(0); ACCEPT_COVERS COVER(g_av == AV_ARRAY); COVER(g_av == AV_OBJECT); }
void h_accept_pretty(void) { accept_common(1); ACCEPT_COVERS COVER(g_av == AV_PARRAY); COVER(g_av == AV_POBJECT); }
#endif /* U_ACCEPT */
