/* Allocator stub (DESIGN 4.3): may fail at EVERY call (= every fault schedule), ledger in ghost counters, CBMC's own
 * dynamic-object checks give double free / use after free / invalid free. A shrinking reallocate never fails (C05 assumption). */
#ifndef VERIF_ALLOC_H
#define VERIF_ALLOC_H
#include "verif.h"

static unsigned g_alloc_calls, g_dealloc_calls, g_realloc_calls;
static unsigned g_alloc_failures; /* times the stub returned null */
static int g_live_blocks;
static struct Allocator *g_expected_allocator; /* every call must use the allocator the document was given */
static _Bool g_alloc_may_fail = 1;

#ifdef VERIF_NATIVE
struct Allocator *verif_allocator(int i);
#else
static struct Allocator g_allocators[4];
static struct Allocator *verif_allocator(int i) { return &g_allocators[i & 3]; }
#endif

/* size of a live block is tracked for the realloc rule with a small ghost table (last 4 blocks) */
static void *g_blk_ptr[4];
static size_t g_blk_size[4];
static unsigned g_blk_next;
static void ledger_add(void *p, size_t n) { g_blk_ptr[g_blk_next & 3] = p; g_blk_size[g_blk_next & 3] = n; g_blk_next++; g_live_blocks++; }
static size_t ledger_size(void *p, size_t dflt) {
  for (unsigned i = 0; i < 4; i++) if (g_blk_ptr[i] == p) return g_blk_size[i];
  return dflt;
}
static void ledger_del(void *p) { for (unsigned i = 0; i < 4; i++) if (g_blk_ptr[i] == p) g_blk_ptr[i] = 0; g_live_blocks--; }

/* explicit initialisation of the stub's ghost state (statics are not reliably zeroed once loop contracts are applied) */
static void alloc_reset(void) {
  g_alloc_calls = g_dealloc_calls = g_realloc_calls = g_alloc_failures = 0;
  g_live_blocks = 0; g_blk_next = 0;
  for (unsigned i = 0; i < 4; i++) { g_blk_ptr[i] = 0; g_blk_size[i] = 0; }
}

void *Allocator__allocate(struct Allocator *self, size_t n) {
  CHECK(g_expected_allocator == 0 || self == g_expected_allocator, "allocate goes to the document's allocator");
  g_alloc_calls++;
  if (g_alloc_may_fail && in_bool()) { g_alloc_failures++; return 0; }
  void *p = malloc(n);
  __CPROVER_assume(p != 0);
  ledger_add(p, n);
  return p;
}
void Allocator__deallocate(struct Allocator *self, void *p) {
  CHECK(g_expected_allocator == 0 || self == g_expected_allocator, "deallocate goes to the document's allocator");
  g_dealloc_calls++;
  if (p) { ledger_del(p); free(p); }
}
void *Allocator__reallocate(struct Allocator *self, void *p, size_t n) {
  CHECK(g_expected_allocator == 0 || self == g_expected_allocator, "reallocate goes to the document's allocator");
  g_realloc_calls++;
  size_t old = ledger_size(p, (size_t)-1);
  if (g_alloc_may_fail && (p == 0 || n > old) && in_bool()) { g_alloc_failures++; return 0; } /* only a growing reallocate may fail */
#ifdef ALLOC_SHRINK_IN_PLACE
  if (p != 0 && n != 0 && n <= old) return p; /* a shrinking reallocate is modelled in place (cbmc's realloc with a symbolic smaller
                                                 size loses the contents); it never fails, as C05 assumes */
#endif
  void *q = realloc(p, n);
  __CPROVER_assume(q != 0);
  if (p) ledger_del(p);
  ledger_add(q, n);
  return q;
}
#endif
