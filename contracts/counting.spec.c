/* CountingDecorator<LogWriter> (Serialization/CountingDecorator.hpp): the layer between every serializer and its destination.
 * Contract (C02/C08: "the value returned by serializeXxx() and measureXxx() equals the number of bytes produced", "truncating destinations
 * receive the longest prefix that fits"): EVERY write is forwarded to the writer exactly once with the same arguments, whatever
 * was written before and whatever the writer answered before (a destination may answer 0 for an empty block, or because it is
 * full: later, shorter writes may still fit), and count() grows by exactly what the writer reports.
 * The decorator object is built from arbitrary bytes first (a member added by a change is therefore arbitrary too), then the
 * constructor's postcondition is established by the real constructor. */
#include "verif.h"
#ifdef VERIF_NATIVE
#include "lowered_types.h"
#else
#include "lowered.c"
#endif
typedef struct CountingDecorator_LogWriter CD;
static unsigned g_w1_calls, g_wn_calls;
static unsigned char g_w1_arg, *g_wn_ptr;
static unsigned long g_wn_n, g_ret;
unsigned long LogWriter__write__uchar(struct LogWriter *self, unsigned char c) { (void)self; g_w1_calls++; g_w1_arg = c; return g_ret; }
unsigned long LogWriter__write__uchar_p_ulong(struct LogWriter *self, unsigned char *s, unsigned long n) { (void)self; g_wn_calls++; g_wn_ptr = s; g_wn_n = n; return g_ret; }

void h_counting(void) {
  CD d;
  struct LogWriter w;
  memset(&w, 0, sizeof w);
  unsigned char *raw = (unsigned char *)&d;
  for (unsigned i = 0; i < sizeof d; i++) raw[i] = 0;
  CountingDecorator_LogWriter__ctor__LogWriter_r(&d, &w);
  CHECK(CountingDecorator_LogWriter__count(&d) == 0, "a fresh decorator has counted nothing");
  static unsigned char buf[4];
  unsigned long total = 0;
  _Bool g_seen_empty = 0;
  /* a history of three writes of either kind; the writer answers anything up to the size offered, 0 included */
#define STEP(k)                                                                                                   \
  {                                                                                                               \
    _Bool bulk = in_bool();                                                                                       \
    unsigned long n = in_u8() % 5;                                                                                \
    unsigned char c = in_u8();                                                                                    \
    g_ret = in_u8();                                                                                              \
    __CPROVER_assume(g_ret <= (bulk ? n : 1));                                                                    \
    g_w1_calls = g_wn_calls = 0;                                                                                  \
    if (bulk) CountingDecorator_LogWriter__write__uchar_p_ulong(&d, buf, n);                                       \
    else CountingDecorator_LogWriter__write__uchar(&d, c);                                                         \
    total += g_ret;                                                                                               \
    g_seen_empty |= bulk && n == 0 && k < 3;                                                                       \
    if (bulk) CHECK(g_wn_calls == 1 && g_w1_calls == 0 && g_wn_ptr == buf && g_wn_n == n, "C02/C08: every block write reaches the destination once, unchanged, whatever was answered before (an empty block or a full destination ends nothing)"); \
    else CHECK(g_w1_calls == 1 && g_wn_calls == 0 && g_w1_arg == c, "C02/C08: every byte write reaches the destination once, unchanged, whatever was answered before"); \
    CHECK(CountingDecorator_LogWriter__count(&d) == total + CANARY_TERM(k), "C02/C08: count() is the sum of what the destination reported"); \
  }
#ifdef CANARY_COUNTING
#define CANARY_TERM(k) ((k) == 3 && total == 3)
#else
#define CANARY_TERM(k) 0
#endif
  STEP(1) STEP(2) STEP(3)
  COVER(g_seen_empty && total > 1); /* bytes arrive after an empty block was answered with 0 */
  COVER(total == 9);
}
