/* C13: typed extraction is exact when it fits and zero otherwise.
 * Five units share this file (selected by -DUNIT_... from units/numbers.json):
 *   UNIT_CONV  canConvertNumber<TOut,TIn> / convertNumber<TOut,TIn>, 10 x 6 instantiations, full input domain
 *   UNIT_VAR   VariantData::asIntegral<T> / asFloat<T> / isInteger<T> / asBoolean per stored non-string kind
 *   UNIT_STR   the same accessors on the two string kinds (pointer handed to parseNumber<T>)
 *   UNIT_COPY_INT  copyArray(JsonArrayConst, int*, len)      UNIT_COPY_STR  copyArray(JsonVariantConst, char(&)[16])
 * Oracles are written from the property text (mathematical range test, truncation toward zero, nearest representable),
 * with the limits of <stdint.h>, never from numeric_limits<> / FloatTraits<>::highest_for of the code under test. */
#include "verif.h"
#ifdef UNIT_COPY_INT
static unsigned int g_n; /* ghost: number of elements of the source array (named by the loop contract spliced into lowered.c) */
#endif
#ifdef VERIF_NATIVE
#include "lowered_types.h"
#else
/* "never an undefined result": every floating -> integer cast of the lowered code asserts that the truncated value is
 * representable in the destination type (C11 6.3.1.4 / C++ [conv.fpint]); natively UBSan float-cast-overflow does it */
static inline double aj_f2i_defined(double x, unsigned size, _Bool is_signed) {
  _Bool ok = size == 1 ? (is_signed ? x > -129.0 && x < 128.0 : x > -1.0 && x < 256.0)
           : size == 2 ? (is_signed ? x > -32769.0 && x < 32768.0 : x > -1.0 && x < 65536.0)
           : size == 4 ? (is_signed ? x > -2147483649.0 && x < 2147483648.0 : x > -1.0 && x < 4294967296.0)
                       : (is_signed ? x >= -0x1p63 && x < 0x1p63 : x > -1.0 && x < 0x1p64);
  __CPROVER_assert(ok, "floating to integer conversion is defined: truncated value representable in the destination type");
  return x;
}
#define AJ_FLOAT_TO_INT(T, x) ((T)aj_f2i_defined((double)(x), sizeof(T), (T)-1 < (T)0))
#include "lowered.c"
#endif

typedef __int128 wide_t; /* holds every int64/uint64 value and every float/double integer up to 2^65 exactly */

/* ---- independent spec functions -------------------------------------------------------------------------------- */
static uint32_t f32_bits(float f) { uint32_t b; memcpy(&b, &f, 4); return b; }
static uint64_t f64_bits(double f) { uint64_t b; memcpy(&b, &f, 8); return b; }
static float f32_of(uint32_t b) { float f; memcpy(&f, &b, 4); return f; }
static double f64_of(uint64_t b) { double f; memcpy(&f, &b, 8); return f; }
static _Bool f32_isnan(float f) { return (f32_bits(f) & 0x7fffffffu) > 0x7f800000u; }
static _Bool f64_isnan(double f) { return (f64_bits(f) & 0x7fffffffffffffffull) > 0x7ff0000000000000ull; }
/* neighbours of a finite non-zero value of magnitude >= 1: step the magnitude bits */
static float f32_away(float f) { return f32_of(f32_bits(f) + 1); }    /* next larger magnitude */
static float f32_toward0(float f) { return f32_of(f32_bits(f) - 1); } /* next smaller magnitude */
static double f64_away(double f) { return f64_of(f64_bits(f) + 1); }
static double f64_toward0(double f) { return f64_of(f64_bits(f) - 1); }
static wide_t wabs(wide_t x) { return x < 0 ? -x : x; }

/* "v truncated toward zero": r is the integer with |r| <= |w| < |r|+1 and the sign of w.
 * For |w| >= 2^53 a double is an integer, so r must equal it; below, (double)r and the difference are exact. */
static _Bool spec_is_trunc(double w, wide_t r) {
  if (w >= 0x1p53 || w <= -0x1p53) return (double)r == w;
  if (r > ((wide_t)1 << 53) || r < -((wide_t)1 << 53)) return 0;
  double d = w - (double)r;
  return w >= 0 ? (d >= 0.0 && d < 1.0) : (d <= 0.0 && d > -1.0);
}

/* "nearest representable value" of the integer V in float / double, ties to even.  r is the candidate. */
static _Bool spec_nearest_f32(wide_t V, float r) {
  if (f32_isnan(r) || r >= 0x1p66f || r <= -0x1p66f) return 0;
  wide_t R = (wide_t)r;
  if ((float)R != r) return 0; /* an integer has an integer nearest value */
  if (R == V) return 1;
  if (r < 0x1p24f && r > -0x1p24f) return 0; /* every integer of that magnitude is representable: must be exact */
  wide_t A = (wide_t)f32_away(r), Z = (wide_t)f32_toward0(r);
  wide_t e = wabs(R - V), ea = wabs(A - V), ez = wabs(Z - V);
  if (e > ea || e > ez) return 0;
  if (e == ea || e == ez) return (f32_bits(r) & 1) == 0;
  return 1;
}
static _Bool spec_nearest_f64(wide_t V, double r) {
  if (f64_isnan(r) || r >= 0x1p66 || r <= -0x1p66) return 0;
  wide_t R = (wide_t)r;
  if ((double)R != r) return 0;
  if (R == V) return 1;
  if (r < 0x1p53 && r > -0x1p53) return 0;
  wide_t A = (wide_t)f64_away(r), Z = (wide_t)f64_toward0(r);
  wide_t e = wabs(R - V), ea = wabs(A - V), ez = wabs(Z - V);
  if (e > ea || e > ez) return 0;
  if (e == ea || e == ez) return (f64_bits(r) & 1) == 0;
  return 1;
}
/* nearest float of a double: exact, or v lies between r and its neighbour on v's side, not beyond their midpoint
 * (the midpoint of two adjacent floats has 25 significant bits: exact in double); beyond FLT_MAX the IEEE answer is
 * FLT_MAX below FLT_MAX + ulp/2 and infinity from there on. */
static _Bool spec_nearest_f32_of_f64(double v, float r) {
  if (f64_isnan(v)) return f32_isnan(r);
  if (f32_isnan(r)) return 0;
  double a = (double)r;
  if (a == v) return (f64_bits(v) >> 63) == (f32_bits(r) >> 31); /* keeps the sign of zero */
  const double fmax = 0x1.fffffep127, over = 0x1.ffffffp127;
  if (v >= over) return r == f32_of(0x7f800000u);
  if (v <= -over) return r == -f32_of(0x7f800000u);
  if (v > fmax) return a == fmax;
  if (v < -fmax) return a == -fmax;
  /* |v| <= FLT_MAX, r finite expected */
  if (a > fmax || a < -fmax) return 0;
  uint32_t rb = f32_bits(r);
  double n; /* neighbour of r on v's side */
  if (a < v) n = (rb >> 31) ? ((rb & 0x7fffffffu) == 0 ? (double)f32_of(1u) : (double)f32_toward0(r)) : (double)f32_away(r);
  else n = (rb >> 31) ? (double)f32_away(r) : ((rb & 0x7fffffffu) == 0 ? (double)f32_of(0x80000001u) : (double)f32_toward0(r));
  if (n > fmax) n = 0x1p128;   /* the rounding boundary above FLT_MAX is FLT_MAX + ulp/2 = (FLT_MAX + 2^128)/2 */
  if (n < -fmax) n = -0x1p128;
  double mid = a * 0.5 + n * 0.5; /* exact */
  if (a < v) { if (v > mid) return 0; if (v == mid) return (rb & 1) == 0; return 1; }
  if (v < mid) return 0;
  if (v == mid) return (rb & 1) == 0;
  return 1;
}

/* is v (exact, as a double) within [lo, hi]?  lo is 0 or a negative power of two and hi + 1 a power of two, so
 * (double)lo is exact; (double)hi is exact below 2^53, and no double lies strictly between 2^63-1 (2^64-1) and 2^63 (2^64) */
static _Bool spec_double_in_range(double w, wide_t lo, wide_t hi) {
  if (w != w) return 0;
  if (!(w >= (double)lo)) return 0;
  return hi < ((wide_t)1 << 53) ? w <= (double)hi : w < (double)(hi + 1);
}

/* ================================================================================================================ */
#ifdef UNIT_CONV

#ifdef CANARY_CONV
#define CANARY_BUMP(v) ((v) == 77)
#else
#define CANARY_BUMP(v) 0
#endif

/* ---- integer source -> integer destination ---------------------------------------------------------------------- */
#define H_II(ON, OT, IN, IT, INFN, LO, HI, COVERS)                                                                       \
  void h_conv_##ON##_##IN(void) {                                                                                         \
    IT v = (IT)INFN();                                                                                                    \
    _Bool fits = (wide_t)v >= (wide_t)(LO) && (wide_t)v <= (wide_t)(HI);                                                 \
    _Bool can = canConvertNumber_##ON##_##IN(v);                                                                          \
    OT r = convertNumber_##ON##_##IN(v);                                                                                  \
    COVERS                                                                                                                \
    CHECK(can == fits, "canConvertNumber holds exactly when v lies within the range of T");                               \
    CHECK(!fits || (wide_t)r == (wide_t)v + CANARY_BUMP(v), "as<T>() returns v exactly when v lies within the range of T"); \
    CHECK(fits || r == 0, "as<T>() returns 0 when v is out of the range of T (never wrapped or saturated)");              \
  }
#define COV_BOTH COVER(fits); COVER(!fits); COVER(fits && v != 0);
#define COV_FITS COVER(fits && v != 0);

/* ---- floating source -> integer destination --------------------------------------------------------------------- */
#define H_FI(ON, OT, IN, IT, INFN, ISNAN, FITS, COVERS)                                                                  \
  void h_conv_##ON##_##IN(void) {                                                                                         \
    IT v = INFN();                                                                                                        \
    double w = (double)v; /* exact */                                                                                     \
    _Bool fits = !ISNAN(v) && (FITS);                                                                                     \
    _Bool can = canConvertNumber_##ON##_##IN(v);                                                                          \
    OT r = convertNumber_##ON##_##IN(v);                                                                                  \
    COVER(fits); COVER(!fits && !ISNAN(v)); COVER(ISNAN(v)); COVER(fits && w > 1.25 && w < 1.75); COVERS                  \
    CHECK(can == fits, "canConvertNumber holds exactly when v lies within the range of T (NaN never does)");              \
    CHECK(!fits || spec_is_trunc(w, (wide_t)r + CANARY_BUMP(w)), "as<T>() returns v truncated toward zero when v lies within the range of T"); \
    CHECK(fits || r == 0, "as<T>() returns 0 when v is out of the range of T (never wrapped, saturated or undefined)");   \
  }
#define COV_SIGNED COVER(fits && w < -1.25 && w > -1.75);
#define COV_UNSIGNED COVER(!fits && w < 0.0 && w > -1.0); COVER(fits && (f64_bits(w) >> 63)); /* -0.5 -> 0 (not in range), -0.0 -> 0 */
/* range tests over doubles: the limits of the 8/16/32-bit types are exact doubles; 2^63-1 and 2^64-1 are not, and
 * no double lies strictly between them and 2^63 / 2^64 */
#define FITS_i8 (w >= -128.0 && w <= 127.0)
#define FITS_u8 (w >= 0.0 && w <= 255.0)
#define FITS_i16 (w >= -32768.0 && w <= 32767.0)
#define FITS_u16 (w >= 0.0 && w <= 65535.0)
#define FITS_i32 (w >= -2147483648.0 && w <= 2147483647.0)
#define FITS_u32 (w >= 0.0 && w <= 4294967295.0)
#define FITS_i64 (w >= -0x1p63 && w < 0x1p63)
#define FITS_u64 (w >= 0.0 && w < 0x1p64)

/* ---- integer source -> floating destination --------------------------------------------------------------------- */
#define H_IF(ON, OT, IN, IT, INFN, NEAREST)                                                                              \
  void h_conv_##ON##_##IN(void) {                                                                                         \
    IT v = (IT)INFN();                                                                                                    \
    _Bool can = canConvertNumber_##ON##_##IN(v);                                                                          \
    OT r = convertNumber_##ON##_##IN(v);                                                                                  \
    COVER(v != 0 && (wide_t)r == (wide_t)v); COVER((wide_t)r != (wide_t)v);                                               \
    CHECK(can, "every integer converts to a floating type");                                                              \
    CHECK(NEAREST((wide_t)v + CANARY_BUMP(v), r), "for a floating T as<T>() returns the nearest representable value");    \
  }
#define H_IF_EXACT(ON, OT, IN, IT, INFN)                                                                                 \
  void h_conv_##ON##_##IN(void) {                                                                                         \
    IT v = (IT)INFN();                                                                                                    \
    _Bool can = canConvertNumber_##ON##_##IN(v);                                                                          \
    OT r = convertNumber_##ON##_##IN(v);                                                                                  \
    COVER(v != 0);                                                                                                        \
    CHECK(can, "every integer converts to a floating type");                                                              \
    CHECK(r < 0x1p40 && r > -0x1p40 && (wide_t)r == (wide_t)v + CANARY_BUMP(v), "32-bit integers are exact in double");   \
  }

/* ---- floating source -> floating destination --------------------------------------------------------------------- */
#define H_FF_SAME(ON, OT, IN, IT, INFN, ISNAN_IN, BITS_OUT, SIGNSHIFT_IN, SIGNSHIFT_OUT, BITS_IN)                      \
  void h_conv_##ON##_##IN(void) {                                                                                         \
    IT v = INFN();                                                                                                        \
    _Bool can = canConvertNumber_##ON##_##IN(v);                                                                          \
    OT r = convertNumber_##ON##_##IN(v);                                                                                  \
    COVER(ISNAN_IN(v)); COVER(!ISNAN_IN(v) && v != 0); COVER(v == 0 && (BITS_IN(v) >> SIGNSHIFT_IN));                     \
    CHECK(can, "every floating value converts to a floating type");                                                       \
    CHECK(ISNAN_IN(v) ? r != r                                                                                            \
                      : ((double)r == (double)v + CANARY_BUMP(v) && (BITS_OUT(r) >> SIGNSHIFT_OUT) == (BITS_IN(v) >> SIGNSHIFT_IN)), \
          "a value of the requested or a narrower floating type is returned unchanged");                                  \
  }

/* 8 integer destinations x 4 integer sources */
H_II(signedchar, signed char, int, int, in_i32, INT8_MIN, INT8_MAX, COV_BOTH)
H_II(signedchar, signed char, uint, unsigned int, in_u32, INT8_MIN, INT8_MAX, COV_BOTH)
H_II(signedchar, signed char, long, long, in_i64, INT8_MIN, INT8_MAX, COV_BOTH)
H_II(signedchar, signed char, ulong, unsigned long, in_u64, INT8_MIN, INT8_MAX, COV_BOTH)
H_II(uchar, unsigned char, int, int, in_i32, 0, UINT8_MAX, COV_BOTH)
H_II(uchar, unsigned char, uint, unsigned int, in_u32, 0, UINT8_MAX, COV_BOTH)
H_II(uchar, unsigned char, long, long, in_i64, 0, UINT8_MAX, COV_BOTH)
H_II(uchar, unsigned char, ulong, unsigned long, in_u64, 0, UINT8_MAX, COV_BOTH)
H_II(short, short, int, int, in_i32, INT16_MIN, INT16_MAX, COV_BOTH)
H_II(short, short, uint, unsigned int, in_u32, INT16_MIN, INT16_MAX, COV_BOTH)
H_II(short, short, long, long, in_i64, INT16_MIN, INT16_MAX, COV_BOTH)
H_II(short, short, ulong, unsigned long, in_u64, INT16_MIN, INT16_MAX, COV_BOTH)
H_II(ushort, unsigned short, int, int, in_i32, 0, UINT16_MAX, COV_BOTH)
H_II(ushort, unsigned short, uint, unsigned int, in_u32, 0, UINT16_MAX, COV_BOTH)
H_II(ushort, unsigned short, long, long, in_i64, 0, UINT16_MAX, COV_BOTH)
H_II(ushort, unsigned short, ulong, unsigned long, in_u64, 0, UINT16_MAX, COV_BOTH)
H_II(int, int, int, int, in_i32, INT32_MIN, INT32_MAX, COV_FITS)
H_II(int, int, uint, unsigned int, in_u32, INT32_MIN, INT32_MAX, COV_BOTH)
H_II(int, int, long, long, in_i64, INT32_MIN, INT32_MAX, COV_BOTH)
H_II(int, int, ulong, unsigned long, in_u64, INT32_MIN, INT32_MAX, COV_BOTH)
H_II(uint, unsigned int, int, int, in_i32, 0, UINT32_MAX, COV_BOTH)
H_II(uint, unsigned int, uint, unsigned int, in_u32, 0, UINT32_MAX, COV_FITS)
H_II(uint, unsigned int, long, long, in_i64, 0, UINT32_MAX, COV_BOTH)
H_II(uint, unsigned int, ulong, unsigned long, in_u64, 0, UINT32_MAX, COV_BOTH)
H_II(long, long, int, int, in_i32, INT64_MIN, INT64_MAX, COV_FITS)
H_II(long, long, uint, unsigned int, in_u32, INT64_MIN, INT64_MAX, COV_FITS)
H_II(long, long, long, long, in_i64, INT64_MIN, INT64_MAX, COV_FITS)
H_II(long, long, ulong, unsigned long, in_u64, INT64_MIN, INT64_MAX, COV_BOTH)
H_II(ulong, unsigned long, int, int, in_i32, 0, UINT64_MAX, COV_BOTH)
H_II(ulong, unsigned long, uint, unsigned int, in_u32, 0, UINT64_MAX, COV_FITS)
H_II(ulong, unsigned long, long, long, in_i64, 0, UINT64_MAX, COV_BOTH)
H_II(ulong, unsigned long, ulong, unsigned long, in_u64, 0, UINT64_MAX, COV_FITS)

/* 8 integer destinations x 2 floating sources */
H_FI(signedchar, signed char, float, float, in_f32, f32_isnan, FITS_i8, COV_SIGNED)
H_FI(uchar, unsigned char, float, float, in_f32, f32_isnan, FITS_u8, COV_UNSIGNED)
H_FI(short, short, float, float, in_f32, f32_isnan, FITS_i16, COV_SIGNED)
H_FI(ushort, unsigned short, float, float, in_f32, f32_isnan, FITS_u16, COV_UNSIGNED)
H_FI(int, int, float, float, in_f32, f32_isnan, FITS_i32, COV_SIGNED)
H_FI(uint, unsigned int, float, float, in_f32, f32_isnan, FITS_u32, COV_UNSIGNED)
H_FI(long, long, float, float, in_f32, f32_isnan, FITS_i64, COV_SIGNED)
H_FI(ulong, unsigned long, float, float, in_f32, f32_isnan, FITS_u64, COV_UNSIGNED)
H_FI(signedchar, signed char, double, double, in_f64, f64_isnan, FITS_i8, COV_SIGNED)
H_FI(uchar, unsigned char, double, double, in_f64, f64_isnan, FITS_u8, COV_UNSIGNED)
H_FI(short, short, double, double, in_f64, f64_isnan, FITS_i16, COV_SIGNED)
H_FI(ushort, unsigned short, double, double, in_f64, f64_isnan, FITS_u16, COV_UNSIGNED)
H_FI(int, int, double, double, in_f64, f64_isnan, FITS_i32, COV_SIGNED)
H_FI(uint, unsigned int, double, double, in_f64, f64_isnan, FITS_u32, COV_UNSIGNED)
H_FI(long, long, double, double, in_f64, f64_isnan, FITS_i64, COV_SIGNED)
H_FI(ulong, unsigned long, double, double, in_f64, f64_isnan, FITS_u64, COV_UNSIGNED)

/* 2 floating destinations x 4 integer sources */
H_IF(float, float, int, int, in_i32, spec_nearest_f32)
H_IF(float, float, uint, unsigned int, in_u32, spec_nearest_f32)
H_IF(float, float, long, long, in_i64, spec_nearest_f32)
H_IF(float, float, ulong, unsigned long, in_u64, spec_nearest_f32)
H_IF_EXACT(double, double, int, int, in_i32)
H_IF_EXACT(double, double, uint, unsigned int, in_u32)
H_IF(double, double, long, long, in_i64, spec_nearest_f64)
H_IF(double, double, ulong, unsigned long, in_u64, spec_nearest_f64)

/* 2 floating destinations x 2 floating sources */
H_FF_SAME(float, float, float, float, in_f32, f32_isnan, f32_bits, 31, 31, f32_bits)
H_FF_SAME(double, double, float, float, in_f32, f32_isnan, f64_bits, 31, 63, f32_bits)
H_FF_SAME(double, double, double, double, in_f64, f64_isnan, f64_bits, 63, 63, f64_bits)
void h_conv_float_double(void) {
  double v = in_f64();
  _Bool can = canConvertNumber_float_double(v);
  float r = convertNumber_float_double(v);
  COVER(v != v); COVER(v == v && (double)r != v && r < 1e30f && r > -1e30f); COVER(r == f32_of(0x7f800000u) && v < 1e300);
  CHECK(can, "every floating value converts to a floating type");
#ifdef CANARY_CONV
  CHECK(spec_nearest_f32_of_f64(v == 77 ? 77.00001 : v, r), "for a floating T as<T>() returns the nearest representable value");
#else
  CHECK(spec_nearest_f32_of_f64(v, r), "for a floating T as<T>() returns the nearest representable value");
#endif
}

#endif /* UNIT_CONV */

/* ================================================================================================================ */
#ifdef UNIT_VAR
/* VariantData accessors.  The variant is built by hand for every stored kind; 64-bit kinds live in an extension slot
 * that the code fetches through ResourceManager::getExtension (stub below, checks the slot id);  string kinds delegate
 * to parseNumber<T> (stub below, records the pointer it is handed -- parseNumber's own contract is C12's). */
enum { VT_NULL = 0, VT_RAW = 3, VT_LINKED = 4, VT_OWNED = 5, VT_BOOL = 6, VT_U32 = 0x0A, VT_I32 = 0x0C, VT_F32 = 0x0E,
       VT_U64 = 0x1A, VT_I64 = 0x1C, VT_F64 = 0x1E, VT_OBJECT = 0x20, VT_ARRAY = 0x40 };

static struct ResourceManager g_rm;
static union VariantExtension g_ext;
static unsigned g_ext_calls, g_slot;
#ifndef VERIF_NATIVE
union VariantExtension *ResourceManager__getExtension(struct ResourceManager *self, unsigned int id) {
  CHECK(self == &g_rm && id == g_slot, "the extension is fetched from the resources given, with the variant's own slot id");
  g_ext_calls++;
  return &g_ext;
}
#endif

#ifdef CANARY_VAR
#define CANARY_BUMP(v) ((v) == 77)
#else
#define CANARY_BUMP(v) 0
#endif

/* a stored value: the variant plus its mathematical content */
struct stored {
  struct VariantData v;
  unsigned char type;
  _Bool is_int, is_flt;
  wide_t V;  /* stored integer */
  double W;  /* stored floating value (a stored float widened exactly) */
  float F;
};
static void store(struct stored *s, unsigned char type, uint64_t p) {
  memset(s, 0, sizeof *s);
  s->type = type;
  s->v.type_ = type;
  s->v.next_ = in_u32();
  g_ext_calls = 0;
  g_slot = 0;
  memset(&g_ext, 0, sizeof g_ext);
  switch (type) {
    case VT_BOOL: s->v.content_.asBoolean = (p & 1) != 0; break;
    case VT_U32: s->v.content_.asUint32 = (uint32_t)p; s->is_int = 1; s->V = (uint32_t)p; break;
    case VT_I32: s->v.content_.asInt32 = (int32_t)(uint32_t)p; s->is_int = 1; s->V = (int32_t)(uint32_t)p; break;
    case VT_F32: s->F = f32_of((uint32_t)p); s->v.content_.asFloat = s->F; s->is_flt = 1; s->W = (double)s->F; break;
    case VT_U64: g_slot = in_u32(); s->v.content_.asSlotId = g_slot; g_ext.asUint64 = p; s->is_int = 1; s->V = p; break;
    case VT_I64: g_slot = in_u32(); s->v.content_.asSlotId = g_slot; g_ext.asInt64 = (int64_t)p; s->is_int = 1; s->V = (int64_t)p; break;
    case VT_F64: g_slot = in_u32(); s->v.content_.asSlotId = g_slot; g_ext.asDouble = f64_of(p); s->is_flt = 1; s->W = f64_of(p); break;
    case VT_OBJECT: case VT_ARRAY: s->v.content_.asCollection.head_ = (uint32_t)p; s->v.content_.asCollection.tail_ = (uint32_t)(p >> 32); break;
    default: break; /* VT_NULL */
  }
}
/* any non-string kind, chosen by the first input */
static void store_any(struct stored *s) {
  static const unsigned char kinds[10] = {VT_NULL, VT_BOOL, VT_U32, VT_I32, VT_F32, VT_U64, VT_I64, VT_F64, VT_OBJECT, VT_ARRAY};
  uint8_t k = in_u8();
  __CPROVER_assume(k < 10);
  store(s, kinds[k], in_u64());
}
#define COVER_KINDS(s) COVER(s.type == VT_NULL); COVER(s.type == VT_BOOL); COVER(s.type == VT_U32); COVER(s.type == VT_I32); \
  COVER(s.type == VT_F32); COVER(s.type == VT_U64); COVER(s.type == VT_I64); COVER(s.type == VT_F64); COVER(s.type == VT_ARRAY)
#define CHECK_EXT(s, calls) CHECK(g_ext_calls == ((s.type & 0x10) ? (calls) : 0u), "the extension slot is consulted exactly for the 64-bit kinds")

/* ---- asIntegral<T> / isInteger<T> per stored kind ---------------------------------------------------------------- */
#define H_VAR_INT(TN, T, LO, HI)                                                                                          \
  void h_var_int_##TN(void) {                                                                                             \
    struct stored s;                                                                                                      \
    store_any(&s);                                                                                                        \
    T a = VariantData__asIntegral_##TN(&s.v, &g_rm);                                                                      \
    _Bool is = VariantData__isInteger_##TN(&s.v, &g_rm);                                                                  \
    CHECK_EXT(s, 2u);                                                                                                     \
    COVER_KINDS(s);                                                                                                       \
    if (s.is_int) {                                                                                                       \
      _Bool fits = s.V >= (wide_t)(LO) && s.V <= (wide_t)(HI);                                                            \
      COVER(fits && s.V != 0); COVER(!fits);                                                                              \
      CHECK(is == fits, "is<T>() holds exactly when v is stored as an integer that fits T");                              \
      CHECK(!fits || (wide_t)a == s.V + CANARY_BUMP(s.V), "as<T>() returns a stored integer exactly when it lies within the range of T"); \
      CHECK(fits || a == 0, "as<T>() returns 0 when the stored integer is out of the range of T");                        \
    } else if (s.is_flt) {                                                                                                \
      _Bool fits = spec_double_in_range(s.W, (LO), (HI));                                                                 \
      COVER(fits && s.W > 1.25 && s.W < 1.75); COVER(!fits && s.W == s.W); COVER(s.W != s.W);                             \
      CHECK(!is, "is<T>() for an integral T is false for a value stored as floating point");                              \
      CHECK(!fits || spec_is_trunc(s.W, (wide_t)a), "as<T>() returns a stored float truncated toward zero when it lies within the range of T"); \
      CHECK(fits || a == 0, "as<T>() returns 0 when the stored float is out of the range of T (or NaN)");                 \
    } else {                                                                                                              \
      CHECK(!is, "is<T>() for an integral T is false when no number is stored");                                          \
      CHECK(s.type == VT_BOOL || a == 0, "as<T>() returns 0 when no number is stored");                                   \
    }                                                                                                                     \
  }
H_VAR_INT(signedchar, signed char, INT8_MIN, INT8_MAX)
H_VAR_INT(uchar, unsigned char, 0, UINT8_MAX)
H_VAR_INT(short, short, INT16_MIN, INT16_MAX)
H_VAR_INT(ushort, unsigned short, 0, UINT16_MAX)
H_VAR_INT(int, int, INT32_MIN, INT32_MAX)
H_VAR_INT(uint, unsigned int, 0, UINT32_MAX)
H_VAR_INT(long, long, INT64_MIN, INT64_MAX)
H_VAR_INT(ulong, unsigned long, 0, UINT64_MAX)

/* ---- lemma: is<T>() implies as<T>() exact and equal to as<U>() for every wider U (both real functions, same variant) */
#define AGREE(U) CHECK((wide_t)VariantData__asIntegral_##U(&s.v, &g_rm) == (wide_t)a + CANARY_BUMP(a), \
                       "is<T>() implies as<T>() agrees with as<U>() for every wider integral U");
#define AGREE_F32 CHECK((wide_t)VariantData__asFloat_float(&s.v, &g_rm) == (wide_t)a, "is<T>() implies as<T>() agrees with as<float>() for T of at most 16 bits");
#define AGREE_F64 CHECK((wide_t)VariantData__asFloat_double(&s.v, &g_rm) == (wide_t)a, "is<T>() implies as<T>() agrees with as<double>() for T of at most 32 bits");
#define H_VAR_LEMMA(TN, T, WIDER)                                                                                         \
  void h_var_lemma_##TN(void) {                                                                                           \
    struct stored s;                                                                                                      \
    store_any(&s);                                                                                                        \
    _Bool is = VariantData__isInteger_##TN(&s.v, &g_rm);                                                                  \
    T a = VariantData__asIntegral_##TN(&s.v, &g_rm);                                                                      \
    COVER(is && a != 0 && s.type == VT_U32); COVER(is && s.type == VT_I32); COVER(is && s.type == VT_U64); COVER(is && s.type == VT_I64); COVER(!is); \
    if (is) {                                                                                                             \
      CHECK(s.is_int && (wide_t)a == s.V, "is<T>() implies as<T>() returns the stored integer exactly");                  \
      WIDER                                                                                                               \
    }                                                                                                                     \
  }
H_VAR_LEMMA(signedchar, signed char, AGREE(signedchar) AGREE(short) AGREE(int) AGREE(long) AGREE_F32 AGREE_F64)
H_VAR_LEMMA(uchar, unsigned char, AGREE(uchar) AGREE(short) AGREE(ushort) AGREE(int) AGREE(uint) AGREE(long) AGREE(ulong) AGREE_F32 AGREE_F64)
H_VAR_LEMMA(short, short, AGREE(short) AGREE(int) AGREE(long) AGREE_F32 AGREE_F64)
H_VAR_LEMMA(ushort, unsigned short, AGREE(ushort) AGREE(int) AGREE(uint) AGREE(long) AGREE(ulong) AGREE_F32 AGREE_F64)
H_VAR_LEMMA(int, int, AGREE(int) AGREE(long) AGREE_F64)
H_VAR_LEMMA(uint, unsigned int, AGREE(uint) AGREE(long) AGREE(ulong) AGREE_F64)
H_VAR_LEMMA(long, long, AGREE(long))
H_VAR_LEMMA(ulong, unsigned long, AGREE(ulong))

/* ---- asFloat<T> per stored kind ------------------------------------------------------------------------------------ */
static unsigned var_float(unsigned char only_type) { /* 0: every kind that is not a stored integer; returns the cases reached */
  struct stored s;
  store_any(&s);
  __CPROVER_assume(only_type ? s.type == only_type : !s.is_int);
  float f = VariantData__asFloat_float(&s.v, &g_rm);
  double d = VariantData__asFloat_double(&s.v, &g_rm);
  CHECK_EXT(s, 2u);
  unsigned m = 0;
  if (s.is_int) {
    m |= ((wide_t)f != s.V ? 1u : 0u) | (s.V > 77 ? 2u : 0u);
    CHECK(spec_nearest_f32(s.V + CANARY_BUMP(s.V), f), "as<float>() returns the float nearest to the stored integer");
    CHECK(spec_nearest_f64(s.V, d), "as<double>() returns the double nearest to the stored integer");
  } else if (s.type == VT_F32) {
    m |= (s.W != s.W ? 4u : 0u) | (s.W == s.W && s.W != 0 ? 8u : 0u);
    CHECK(s.W != s.W ? f != f : (f == s.F + CANARY_BUMP(s.F) && (f32_bits(f) >> 31) == (f32_bits(s.F) >> 31)), "as<float>() returns a stored float unchanged");
    CHECK(s.W != s.W ? d != d : (d == s.W && (f64_bits(d) >> 63) == (f32_bits(s.F) >> 31)), "as<double>() returns a stored float exactly");
  } else if (s.type == VT_F64) {
    m |= (s.W != s.W ? 16u : 0u) | (s.W == s.W && (double)f != s.W && f < 1e30f && f > -1e30f ? 32u : 0u);
    CHECK(s.W != s.W ? d != d : (d == s.W && (f64_bits(d) >> 63) == (f64_bits(s.W) >> 63)), "as<double>() returns a stored double unchanged");
    CHECK(spec_nearest_f32_of_f64(s.W, f), "as<float>() returns the float nearest to the stored double");
  } else if (s.type != VT_BOOL) {
    m |= (s.type == VT_NULL ? 64u : 0u) | (s.type == VT_ARRAY ? 128u : 0u);
    CHECK(f == 0 && d == 0, "as<float/double>() returns 0 when no number is stored");
  }
  return m;
}
/* (COVER goals must sit in the harness function itself: the driver looks for them under the harness' name) */
#define COVER_FLOAT_OF_INT(m) COVER(m & 1u); COVER(m & 2u)
void h_var_float_of_u32(void) { unsigned m = var_float(VT_U32); COVER_FLOAT_OF_INT(m); }
void h_var_float_of_i32(void) { unsigned m = var_float(VT_I32); COVER_FLOAT_OF_INT(m); }
void h_var_float_of_u64(void) { unsigned m = var_float(VT_U64); COVER_FLOAT_OF_INT(m); }
void h_var_float_of_i64(void) { unsigned m = var_float(VT_I64); COVER_FLOAT_OF_INT(m); }
void h_var_float_of_other(void) {
  unsigned m = var_float(0);
  COVER(m & 4u); COVER(m & 8u); COVER(m & 16u); COVER(m & 32u); COVER(m & 64u); COVER(m & 128u);
}

/* ---- asBoolean per stored kind (as<bool>(): a number is true when it is not zero, null is false) --------------------- */
void h_var_bool(void) {
  struct stored s;
  store_any(&s);
  _Bool b = VariantData__asBoolean(&s.v, &g_rm);
  CHECK_EXT(s, 1u);
  COVER_KINDS(s);
  COVER(s.is_int && s.V == 0); COVER(s.is_flt && s.W == 0); COVER(s.is_flt && s.W != s.W);
  if (s.is_int) CHECK(b == ((s.V != 0) ^ CANARY_BUMP(s.V)), "as<bool>() of a stored integer is v != 0");
  else if (s.is_flt) CHECK(b == (s.W != 0), "as<bool>() of a stored float is v != 0");
  else if (s.type == VT_NULL) CHECK(!b, "as<bool>() of null is false");
  else if (s.type == VT_BOOL) CHECK(b == s.v.content_.asBoolean, "as<bool>() returns a stored boolean");
}
#endif /* UNIT_VAR */

/* ================================================================================================================ */
#ifdef UNIT_STR
/* "Strings holding a number convert by the same rules whatever their length": for the two string kinds the accessors
 * hand the string to parseNumber<T> (C12's contract: reads up to the terminating NUL of the pointer it is given).  The
 * obligation here is the callee's precondition: the pointer handed over IS the string's first character --
 * content_.asLinkedString for a linked string, content_.asOwnedString->data for an owned one -- and the callee's result
 * is returned unchanged.  CBMC build: parseNumber<T> is a stub that records its argument.  Native build (replay): the
 * real parseNumber runs on "42" held in an exactly-sized heap block, so a wrong pointer is an ASan report. */
enum { VT_LINKED = 4, VT_OWNED = 5 };
static struct ResourceManager g_rm;
static char *g_pn_arg;
static unsigned g_pn_calls;
static uint64_t g_pn_ret;
#ifndef VERIF_NATIVE
union VariantExtension *ResourceManager__getExtension(struct ResourceManager *self, unsigned int id) {
  (void)self; (void)id;
  CHECK(0, "no extension slot is consulted for a string");
  return 0;
}
#define PN_STUB(TN, T) T parseNumber_##TN(char *s) { g_pn_arg = s; g_pn_calls++; return (T)g_pn_ret; }
PN_STUB(signedchar, signed char) PN_STUB(uchar, unsigned char) PN_STUB(short, short) PN_STUB(ushort, unsigned short)
PN_STUB(int, int) PN_STUB(uint, unsigned int) PN_STUB(long, long) PN_STUB(ulong, unsigned long)
float parseNumber_float(char *s) { g_pn_arg = s; g_pn_calls++; return (float)(int16_t)g_pn_ret; }
double parseNumber_double(char *s) { g_pn_arg = s; g_pn_calls++; return (double)(int16_t)g_pn_ret; }
#endif

struct strvar {
  struct VariantData v;
  char *chars;            /* the string's first character */
  struct StringNode *node; /* owned strings */
};
/* a 2-character string "42" in a block with no byte to spare on either side of what the variant owns */
static void make_string(struct strvar *s, _Bool owned) {
  memset(s, 0, sizeof *s);
  if (owned) {
    size_t n = offsetof(struct StringNode, data) + 3;
    s->node = (struct StringNode *)malloc(n);
    __CPROVER_assume(s->node != 0);
    s->node->next = 0;
    s->node->references = 1;
    s->node->length = 2;
    s->chars = (char *)s->node + offsetof(struct StringNode, data);
    s->v.type_ = VT_OWNED;
    s->v.content_.asOwnedString = s->node;
  } else {
    s->chars = (char *)malloc(3);
    __CPROVER_assume(s->chars != 0);
    s->v.type_ = VT_LINKED;
    s->v.content_.asLinkedString = s->chars;
  }
  s->chars[0] = '4'; s->chars[1] = '2'; s->chars[2] = 0;
}
static void free_string(struct strvar *s) {
  if (s->node) free(s->node); else free(s->chars);
}

#ifdef CANARY_STR
#define CANARY_BUMP(v) ((v) == 77)
#else
#define CANARY_BUMP(v) 0
#endif

#ifdef VERIF_NATIVE
#define EXPECT_CALL(T, r, want, what) CHECK((r) == (T)42, what ": the string \"42\" reads as 42")
#define PREPARE() ((void)0)
#else
#define EXPECT_CALL(T, r, want, what)                                                                      \
  CHECK(g_pn_calls == 1 && g_pn_arg == s.chars, what ": parseNumber<T> is handed the string's own characters"); \
  CHECK((r) == (want), what ": the number parsed from the string is returned unchanged")
#define PREPARE() (g_pn_calls = 0, g_pn_arg = 0)
#endif

#define AS_INT_STR(TN, T)                                                                     \
  { PREPARE(); T r = VariantData__asIntegral_##TN(&s.v, &g_rm); EXPECT_CALL(T, r, (T)(g_pn_ret + CANARY_BUMP(g_pn_ret)), "as<" #T ">() of a string"); \
    CHECK(!VariantData__isInteger_##TN(&s.v, &g_rm), "is<T>() for an integral T is false for a string"); }
static uint64_t as_integral_string(_Bool owned) {
  struct strvar s;
  make_string(&s, owned);
  g_pn_ret = in_u64();
  AS_INT_STR(signedchar, signed char) AS_INT_STR(uchar, unsigned char) AS_INT_STR(short, short) AS_INT_STR(ushort, unsigned short)
  AS_INT_STR(int, int) AS_INT_STR(uint, unsigned int) AS_INT_STR(long, long) AS_INT_STR(ulong, unsigned long)
  free_string(&s);
  return g_pn_ret;
}
static uint64_t as_float_string(_Bool owned) {
  struct strvar s;
  make_string(&s, owned);
  g_pn_ret = in_u64();
  { PREPARE(); float r = VariantData__asFloat_float(&s.v, &g_rm); EXPECT_CALL(float, r, (float)(int16_t)g_pn_ret + CANARY_BUMP(g_pn_ret), "as<float>() of a string"); }
  { PREPARE(); double r = VariantData__asFloat_double(&s.v, &g_rm); EXPECT_CALL(double, r, (double)(int16_t)g_pn_ret, "as<double>() of a string"); }
  free_string(&s);
  return g_pn_ret;
}
/* (COVER goals must sit in the harness function itself: the driver looks for them under the harness' name) */
void h_str_integral_linked(void) { uint64_t x = as_integral_string(0); COVER(x > 77); }
void h_str_integral_owned(void) { uint64_t x = as_integral_string(1); COVER(x > 77); }
void h_str_float_linked(void) { uint64_t x = as_float_string(0); COVER(x > 77); }
void h_str_float_owned(void) { uint64_t x = as_float_string(1); COVER(x > 77); }
#endif /* UNIT_STR */

/* ================================================================================================================ */
#ifdef UNIT_COPY_INT
/* copyArray(JsonArrayConst src, int* dst, size_t len) "never writes beyond the destination it was given".
 * The array iterator is abstracted (stubs below): an array of g_n elements, g_n arbitrary; an iterator's position is
 * kept in its currentId_ field.  Real code: the loop of copyArray, the index arithmetic, the per-element copy
 * copyArray(JsonVariantConst, int&) -> as<int>() -> VariantData::asIntegral<int> -> convertNumber.  The loop is cut by
 * the contract of numbers.loops.json (assigns only dst[0..len), i <= len), so the proof covers every g_n and len. */
static struct ResourceManager g_rm;
static struct VariantData g_elems[4];
static struct JsonArrayConstIterator it_at(unsigned pos) {
  struct JsonArrayConstIterator it;
  it.iterator_.slot_ = 0;
  it.iterator_.currentId_ = pos;
  it.iterator_.nextId_ = 0;
  it.resources_ = &g_rm;
  return it;
}
struct JsonArrayConstIterator JsonArrayConst__begin(struct JsonArrayConst *self) { (void)self; return it_at(0); }
struct JsonArrayConstIterator JsonArrayConst__end(struct JsonArrayConst *self) { (void)self; return it_at(g_n); }
_Bool JsonArrayConstIterator__op_ne(struct JsonArrayConstIterator *self, struct JsonArrayConstIterator *other) {
  return self->iterator_.currentId_ != other->iterator_.currentId_;
}
struct JsonArrayConstIterator *JsonArrayConstIterator__op_inc(struct JsonArrayConstIterator *self) {
  CHECK(self->iterator_.currentId_ < g_n, "the iterator is advanced only while it is not at the end");
  self->iterator_.currentId_++;
  return self;
}
struct JsonVariantConst JsonArrayConstIterator__op_star(struct JsonArrayConstIterator *self) {
  CHECK(self->iterator_.currentId_ < g_n, "the iterator is dereferenced only while it is not at the end");
  struct JsonVariantConst v;
  uint8_t k = nondet_u8();
  v.data_ = &g_elems[k & 3];
  v.resources_ = &g_rm;
  return v;
}
union VariantExtension *ResourceManager__getExtension(struct ResourceManager *self, unsigned int id) {
  (void)self; (void)id;
  CHECK(0, "no extension slot is consulted for the element kinds used here");
  return 0;
}
int parseNumber_int(char *s) { (void)s; CHECK(0, "no string element here"); return 0; }

void h_copy_int_array(void) {
  g_n = in_u32();
  size_t len = in_size();
  __CPROVER_assume(len <= 100000);
  memset(g_elems, 0, sizeof g_elems);
  g_elems[0].type_ = 0x0A; g_elems[0].content_.asUint32 = in_u32();
  g_elems[1].type_ = 0x0C; g_elems[1].content_.asInt32 = in_i32();
  g_elems[2].type_ = 0; /* null */
  g_elems[3].type_ = 0x0E; g_elems[3].content_.asFloat = in_f32();
  int *dst = (int *)malloc(len * sizeof(int)); /* exactly the destination it was given: any write beyond is a pointer-check failure */
  __CPROVER_assume(dst != 0);
  struct ArrayData arr;
  memset(&arr, 0, sizeof arr);
  struct JsonArrayConst src;
  src.data_ = &arr;
  src.resources_ = &g_rm;
  size_t ret = copyArray_int__JsonArrayConst_int_p_ulong(src, dst, len);
  COVER(g_n > len && len > 2); COVER(g_n < len && g_n > 2); COVER(len == 0); COVER(g_n == 0 && len > 0);
#ifdef CANARY_COPY
  CHECK(ret <= len && (ret < len || len < 77), "copyArray reports no more elements than the destination holds");
#else
  CHECK(ret <= len, "copyArray reports no more elements than the destination holds");
#endif
  CHECK(ret == (g_n < len ? g_n : len), "copyArray copies min(size of the array, len) elements");
  free(dst);
}
#endif /* UNIT_COPY_INT */

/* ================================================================================================================ */
#ifdef UNIT_COPY_STR
/* copyArray(JsonVariantConst src, char (&dst)[16]): all real code (JsonVariantConst -> JsonString -> memcpy);
 * strlen is the only abstraction (ghost length of the one linked string of the harness). */
static struct ResourceManager g_rm;
static char *g_linked;
static size_t g_linked_len;
#ifndef VERIF_NATIVE
size_t strlen(const char *s) {
  CHECK(s == g_linked, "strlen is applied to the linked string's own characters");
  return g_linked_len;
}
#endif
/* kinds: 0 owned string, 1 linked string, 2 a number (no string inside), 3 unbound variant */
static unsigned copy_str(unsigned kind) {
  size_t n = in_u16(); /* string length: every length an owned string can have */
  struct VariantData v;
  memset(&v, 0, sizeof v);
  struct StringNode *node = 0;
  char *chars = 0;
  if (kind == 0) {
    node = (struct StringNode *)malloc(offsetof(struct StringNode, data) + n + 1);
    __CPROVER_assume(node != 0);
    node->next = 0; node->references = 1; node->length = (unsigned short)n;
    chars = (char *)node + offsetof(struct StringNode, data);
    v.type_ = 5; v.content_.asOwnedString = node;
  } else if (kind == 1) {
    chars = (char *)malloc(n + 1);
    __CPROVER_assume(chars != 0);
    g_linked = chars; g_linked_len = n;
    v.type_ = 4; v.content_.asLinkedString = chars;
  } else if (kind == 2) {
    v.type_ = 0x0A; v.content_.asUint32 = in_u32(); n = 0;
  } else n = 0;
#ifdef VERIF_NATIVE
  if (chars) memset(chars, 'a', n);
#endif
  if (chars) chars[n] = 0;
  size_t k = in_size(); /* an arbitrary index of the prefix */
  char ck = 0;
  if (chars && k < n) { ck = in_char(); __CPROVER_assume(ck != 0); chars[k] = ck; }
  char (*dst)[16] = (char (*)[16])malloc(16); /* exactly the destination it was given */
  __CPROVER_assume(dst != 0);
  struct JsonVariantConst src;
  src.data_ = kind == 3 ? 0 : &v;
  src.resources_ = &g_rm;
  size_t ret = copyArray_16(src, dst);
  size_t want = n < 15 ? n : 15;
  CHECK(ret == 1, "copyArray to a char array reports one element");
#ifdef CANARY_COPY
  CHECK((*dst)[want + (n == 77)] == 0, "the destination is NUL-terminated inside its 16 bytes"); /* index 16 when n == 77 */
#else
  CHECK((*dst)[want] == 0, "the destination is NUL-terminated inside its 16 bytes");
#endif
  CHECK(!(chars && k < want) || (*dst)[k] == ck, "the destination holds the first min(15, length) characters of the string");
  CHECK(!chars || chars[n] == 0, "the source string is not modified");
  free(dst);
  if (node) free(node); else if (chars) free(chars);
  return (kind == 0 && n > 15 ? 1u : 0u) | (kind == 0 && n < 15 && n > 0 ? 2u : 0u) | (kind == 1 && n > 15 ? 4u : 0u) |
         (kind == 1 && n == 15 ? 8u : 0u) | (kind < 2 && n == 0 ? 16u : 0u) | (kind == 2 ? 32u : 0u) | (kind == 3 ? 64u : 0u) |
         (kind < 2 && k < want ? 128u : 0u);
}
void h_copy_str_owned(void) {
  unsigned m = copy_str(0);
  COVER(m & 1u); COVER(m & 2u); COVER(m & 16u); COVER(m & 128u);
}
void h_copy_str_linked(void) {
  unsigned m = copy_str(1);
  COVER(m & 4u); COVER(m & 8u); COVER(m & 16u); COVER(m & 128u);
}
/* KNOWN TO FAIL on the unchanged tree: a variant that holds no string gives JsonString(nullptr, 0) and
 * memcpy(dst, nullptr, 0) -- a null source is undefined for memcpy even with length 0 (C11 7.24.1p2; UBSan nonnull-attribute) */
void h_copy_str_no_string(void) {
  _Bool unbound = in_bool();
  unsigned m = unbound ? copy_str(3) : copy_str(2);
  COVER(m & 32u); COVER(m & 64u);
#ifdef CANARY_COPY
  CHECK(!unbound, "canary: deliberately false for a reachable case");
#endif
}
#endif /* UNIT_COPY_STR */
