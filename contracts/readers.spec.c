/* Input kinds that are lowered: IteratorReader<const char*> (pointer+size, via BoundedReader), Reader<const char*> (zero-terminated
 * RAM input), and the Latch that sits between every JSON routine and its reader.
 * C03 clause 6 (source independence, never read outside the supplied input) and C16 (one read per load). */
#include "verif.h"
#ifdef VERIF_NATIVE
#include "lowered_types.h"
#else
#include "lowered.c"
#endif
typedef struct IteratorReader_constchar_p IR;
typedef struct Reader_constchar_p_void RR;

/* ---- IteratorReader::read: the byte at ptr_ (as unsigned) and advance, or -1 at the end; never touches *end_ ---- */
void h_iterator_read(void) {
  size_t n = in_u8() % 9;            /* the block has EXACTLY n bytes: any access at or past end_ is a bounds failure */
  char *buf = malloc(n ? n : 1); /* (a null base pointer with offset 0 is flagged by cbmc; real callers pass non-null) */
  __CPROVER_assume(buf != 0);
  for (size_t i = 0; i < 8; i++) if (i < n) buf[i] = in_char();
  size_t pos = in_u8();
  __CPROVER_assume(pos <= n);
  IR r;
  IteratorReader_constchar_p__ctor__char_p_char_p(&r, buf + pos, buf + n);
  int c = IteratorReader_constchar_p__read(&r);
  COVER(pos < n); COVER(pos == n); COVER(pos < n && buf[pos] < 0);
  if (pos < n) {
#ifdef CANARY_ITREAD
    CHECK(c == buf[pos], "read() returns the next byte as an unsigned value");
#else
    CHECK(c == (int)(unsigned char)buf[pos], "read() returns the next byte as an unsigned value");
#endif
    CHECK(r.ptr_ == buf + pos + 1 && r.end_ == buf + n, "read() advances by exactly one byte");
  } else {
    CHECK(c == -1, "at the end of the range read() returns -1");
    CHECK(r.ptr_ == buf + n && r.end_ == buf + n, "and does not move");
  }
}
/* readBytes(b, len) == min(len, remaining) successive read()s; nothing outside [b, b+len) is written (exact-size block) */
void h_iterator_readBytes(void) {
  size_t n = in_u8() % 5, len = in_u8() % 5;
  char *buf = malloc(n ? n : 1);
  char *out = malloc(len ? len : 1);
  __CPROVER_assume(buf != 0 && out != 0);
  for (size_t i = 0; i < 4; i++) if (i < n) buf[i] = in_char();
  size_t pos = in_u8();
  __CPROVER_assume(pos <= n);
  IR r, q;
  IteratorReader_constchar_p__ctor__char_p_char_p(&r, buf + pos, buf + n);
  IteratorReader_constchar_p__ctor__char_p_char_p(&q, buf + pos, buf + n);
  size_t got = IteratorReader_constchar_p__readBytes(&r, out, len);
  size_t want = (n - pos) < len ? (n - pos) : len;
  COVER(got < len); COVER(got == len && len > 0); COVER(len == 0);
#ifdef CANARY_ITREADBYTES
  CHECK(got == want + (len == 3 && n == 4), "readBytes returns min(len, remaining)");
#else
  CHECK(got == want, "readBytes returns min(len, remaining)");
#endif
  CHECK(r.ptr_ == buf + pos + want, "and advances by that many bytes");
  for (size_t i = 0; i < 4; i++) if (i < want) {
    int c = IteratorReader_constchar_p__read(&q);
    CHECK(c == (int)(unsigned char)out[i], "C03: block-wise and byte-wise delivery give the same bytes (source independence)");
  }
}
/* BoundedReader(ptr, len): the range is exactly [ptr, ptr+len) */
void h_bounded_ctor(void) {
  size_t n = in_u8() % 9;
  char *buf = malloc(n ? n : 1); /* (a null base pointer with offset 0 is flagged by cbmc; real callers pass non-null) */
  __CPROVER_assume(buf != 0);
  struct BoundedReader_constchar_p_void b;
  BoundedReader_constchar_p_void__ctor__void_p_ulong(&b, buf, n);
  IR *it = (IR *)&b;
  COVER(n == 0); COVER(n > 0);
#ifdef CANARY_BOUNDED
  CHECK(it->ptr_ == buf && it->end_ == buf + n + (n == 3), "a sized input is read from ptr up to exactly ptr+size");
#else
  CHECK(it->ptr_ == buf && it->end_ == buf + n, "a sized input is read from ptr up to exactly ptr+size");
#endif
}
/* Reader<const char*> (zero-terminated): one byte per read(); with the iterator reader over the same bytes the Latch sees the same
 * stream: bytes before the first NUL identical, then a value <= 0 from both (0 resp. -1), which Latch::load maps to 0 */
void h_ram_vs_iterator(void) {
  size_t n = in_u8() % 4;            /* n non-NUL bytes followed by the terminator */
  char *buf = malloc(n + 1);
  __CPROVER_assume(buf != 0);
  for (size_t i = 0; i < 3; i++) if (i < n) { buf[i] = in_char(); __CPROVER_assume(buf[i] != 0); }
  buf[n] = 0;
  RR ram;
  Reader_constchar_p_void__ctor__void_p(&ram, buf);
  IR it;
  IteratorReader_constchar_p__ctor__char_p_char_p(&it, buf, buf + n);
  COVER(n == 3);
  for (size_t i = 0; i < 4; i++) if (i <= n) {
    int a = Reader_constchar_p_void__read(&ram);
    int b = IteratorReader_constchar_p__read(&it);
    if (i < n) {
#ifdef CANARY_RAMIT
      CHECK(a == b && a != 'q', "C03: pointer and pointer+size inputs deliver the same bytes");
#else
      CHECK(a == b && a > 0, "C03: pointer and pointer+size inputs deliver the same bytes");
#endif
    } else CHECK(a == 0 && b == -1, "both signal the end with a value <= 0 (the Latch stores 0 for either)");
  }
  CHECK(ram.ptr_ == buf + n + 1, "the zero-terminated reader has read exactly up to and including the terminator (callers never read further: SAFE)");
}
/* null pointer: Reader<const char*>(nullptr) reads the empty string */
void h_ram_null(void) {
  RR ram;
  Reader_constchar_p_void__ctor__void_p(&ram, 0);
  int a = Reader_constchar_p_void__read(&ram);
  COVER(1);
#ifdef CANARY_RAMNULL
  CHECK(a == 1, "a null input pointer behaves as the empty input");
#else
  CHECK(a == 0, "a null input pointer behaves as the empty input");
#endif
}

/* ---- Latch<StubReader> ---- */
static unsigned g_reads;
static int g_next;
int StubReader__read(struct StubReader *self) { (void)self; g_reads++; return g_next; }
void h_latch(void) {
  struct Latch_StubReader l;
  struct StubReader sr;
  memset(&sr, 0, sizeof sr);
  Latch_StubReader__ctor__StubReader(&l, sr);
  g_reads = 0;
  CHECK(!l.loaded_, "a new Latch is empty: each deserialize call starts without a look-ahead byte (C16)");
  g_next = (int)in_u16() - 1;
  __CPROVER_assume(g_next >= -1 && g_next <= 255);
  char c1 = Latch_StubReader__current(&l);
  char c2 = Latch_StubReader__current(&l);
  COVER(g_next <= 0); COVER(g_next > 127);
#ifdef CANARY_LATCH
  CHECK(g_reads == 2, "current() loads once: repeated looks at the same byte do not consume input");
#else
  CHECK(g_reads == 1, "current() loads once: repeated looks at the same byte do not consume input");
#endif
  CHECK(c1 == c2 && c1 == (char)(g_next > 0 ? g_next : 0), "the latched byte is the byte delivered (0 for end of input)");
  CHECK(Latch_StubReader__last(&l) == c1, "last() is the latched byte");
  Latch_StubReader__clear(&l);
  CHECK(!l.loaded_ && g_reads == 1, "clear() drops the byte without reading");
  g_next = 'x';
  char c3 = Latch_StubReader__current(&l);
  CHECK(g_reads == 2 && c3 == 'x', "the next look reads exactly one more byte");
}
