/* MemoryPoolList<SlotData>: allocSlot dispatch, addPool, increaseCapacity, clear -- modular: each routine is verified against
 * stubs that implement the CONTRACT of its callees (stated next to each stub, proved for the real callee in the unit named).
 * Allocator failure may happen at every call (alloc.h).  Oracles: C04/C05/C06/C19 as in poollist.spec.c. */
#include "verif.h"
#include "config.h"
#ifdef VERIF_NATIVE
#include "lowered_types.h"
#else
#include "lowered.c"
#endif
#include "alloc.h"
#include "poollist_common.h"

/* =================================================================================================================== */
#ifdef U_ALLOC
/* allocSlot(allocator): stubs for allocFromFreeList / allocFromLastPool / addPool record the call order.
 * Contracts of the stubs: allocFromFreeList requires freeList_ != NULL_SLOT (proved: poollist/list_free_then_alloc);
 * allocFromLastPool requires count_ > 0 (its disabled assert); addPool returns null or the new last pool with count_+1. */
static unsigned g_seq, g_ffl_at, g_flp_at[2], g_flp_n, g_add_at;
static Slot g_ffl_ret, g_flp_ret[2];
static _Bool g_add_ok;
Slot MemoryPoolList_ResourceManager__SlotData__allocFromFreeList(PoolList *self) {
  CHECK(self->freeList_ != (__typeof__(self->freeList_))NULL_SLOT, "allocFromFreeList precondition: free list not empty");
  g_ffl_at = ++g_seq;
  return g_ffl_ret;
}
Slot MemoryPoolList_ResourceManager__SlotData__allocFromLastPool(PoolList *self) {
  CHECK(self->count_ > 0, "allocFromLastPool precondition: count_ > 0");
  CHECK(g_flp_n < 2, "allocFromLastPool called at most twice");
  g_flp_at[g_flp_n] = ++g_seq;
  return g_flp_ret[g_flp_n++];
}
Pool *MemoryPoolList_ResourceManager__SlotData__addPool(PoolList *self, struct Allocator *a) {
  CHECK(a == g_expected_allocator, "addPool receives the caller's allocator");
  g_add_at = ++g_seq;
  if (!g_add_ok) return 0;
  self->count_++;
  return &self->pools_[self->count_ - 1];
}
static Slot nd_slot(void) {
  Slot s;
  _Bool null = in_bool();
  s.ptr_ = null ? 0 : malloc(sizeof(SlotData));
  s.id_ = null ? (__typeof__(s.id_))NULL_SLOT : (__typeof__(s.id_))in_u32();
  __CPROVER_assume(null || (s.ptr_ != 0 && s.id_ != (__typeof__(s.id_))NULL_SLOT));
  return s;
}
void h_allocSlot_dispatch(void) {
  unsigned fi;
  PoolList *l = mk_list(&fi, 0);
  __CPROVER_assume(l->count_ < l->capacity_);
  l->freeList_ = in_bool() ? (__typeof__(l->freeList_))NULL_SLOT : (__typeof__(l->freeList_))in_u32();
  g_ffl_ret = nd_slot(); g_flp_ret[0] = nd_slot(); g_flp_ret[1] = nd_slot();
  __CPROVER_assume(g_ffl_ret.ptr_ != 0); /* contract of allocFromFreeList: never null */
  g_add_ok = in_bool();
  struct Allocator *a = verif_allocator(0);
  g_expected_allocator = a;
  unsigned count0 = l->count_;
  _Bool had_free = l->freeList_ != (__typeof__(l->freeList_))NULL_SLOT;
  Slot r = MemoryPoolList_ResourceManager__SlotData__allocSlot(l, a);
  COVER(had_free); COVER(!had_free && g_add_at && g_add_ok); COVER(!had_free && g_add_at && !g_add_ok);
#if ARDUINOJSON_INITIAL_POOL_COUNT > 1 || SCEN_HEAP
  COVER(!had_free && count0 && g_flp_ret[0].ptr_);
#endif
#ifdef CANARY_ALLOC_DISPATCH
  CHECK(!had_free || r.id_ != g_ffl_ret.id_, "canary: deliberately false when the free list is used");
#endif
  if (had_free) {
    CHECK(g_ffl_at == 1 && g_seq == 1, "C06: a freed slot is reused before anything else is tried (no pool request)");
    CHECK(r.ptr_ == g_ffl_ret.ptr_ && r.id_ == g_ffl_ret.id_, "allocSlot returns the free-list slot unchanged");
  } else if (count0 && g_flp_ret[0].ptr_) {
    CHECK(g_seq == 1 && g_flp_at[0] == 1, "room in the last pool: no new pool is requested");
    CHECK(r.ptr_ == g_flp_ret[0].ptr_ && r.id_ == g_flp_ret[0].id_, "allocSlot returns the last-pool slot unchanged");
  } else {
    CHECK(g_add_at != 0 && g_ffl_at == 0, "otherwise a new pool is requested exactly once");
    if (!g_add_ok) {
      CHECK(r.ptr_ == 0 && (uint64_t)r.id_ == CFG_NULL_SLOT, "C05: failure to add a pool is reported as the null slot");
      CHECK(g_seq == g_add_at, "nothing is attempted after a failed addPool");
    } else {
      unsigned k = g_flp_n - 1;
      CHECK(g_flp_at[k] == g_seq && g_flp_at[k] > g_add_at, "after addPool the slot comes from the (new) last pool");
      CHECK(r.ptr_ == g_flp_ret[k].ptr_ && r.id_ == g_flp_ret[k].id_, "allocSlot returns that slot unchanged");
    }
  }
}
#endif

/* =================================================================================================================== */
#ifdef U_ADDPOOL
/* addPool(allocator) with increaseCapacity and MemoryPool::create by contract.
 * increaseCapacity contract (proved: poollist_grow): false => list untouched; true => capacity_ doubled, pools_ is a heap table
 * whose first old-capacity entries equal the old ones.   create contract (proved: mempool/pool_create). */
static _Bool g_inc_called, g_inc_ok;
static unsigned g_create_cap;
static Pool *g_create_self;
static _Bool g_create_ok;
_Bool MemoryPoolList_ResourceManager__SlotData__increaseCapacity(PoolList *self, struct Allocator *a) {
  CHECK(a == g_expected_allocator, "increaseCapacity receives the caller's allocator");
  CHECK(self->count_ == self->capacity_, "increaseCapacity only when the table is full");
  g_inc_called = 1;
  if (!g_inc_ok) return 0;
  unsigned oc = self->capacity_;
  if ((uint64_t)oc >= MAXPOOLS) return 0;          /* contract: never beyond maxPools */
  unsigned nc = (uint64_t)oc * 2 > MAXPOOLS ? (unsigned)MAXPOOLS : oc * 2;
  Pool *nt = malloc((size_t)heap_cap_k * 2 * sizeof(Pool)); /* constant-size block (>= nc entries) */
  __CPROVER_assume(nt != 0);
  for (unsigned i = 0; i < heap_cap_k; i++) if (i < oc) nt[i] = self->pools_[i]; /* entries preserved (contract of increaseCapacity) */
  self->pools_ = nt;
  self->capacity_ = (__typeof__(self->capacity_))nc;
  return 1;
}
typedef __typeof__(((Pool *)0)->capacity_) slotcount_t; /* SlotCount of this configuration */
void MemoryPool_ResourceManager__SlotData__create(Pool *self, slotcount_t cap, struct Allocator *a) {
  CHECK(a == g_expected_allocator, "create receives the caller's allocator");
  CHECK(cap > 0, "create precondition: cap > 0");
  g_create_self = self;
  g_create_cap = cap;
  self->slots_ = g_create_ok ? malloc(sizeof(SlotData)) : 0;
  self->capacity_ = self->slots_ ? (__typeof__(self->capacity_))cap : 0;
  self->usage_ = 0;
}
void h_addPool(void) {
  unsigned fi;
  PoolList *l = mk_list(&fi, 0);
  unsigned j = in_u32();
  __CPROVER_assume(j < l->count_);
  Pool ej = l->pools_[j];
  unsigned old_count = l->count_, old_cap = l->capacity_;
  g_inc_ok = in_bool(); g_create_ok = in_bool();
  struct Allocator *a = verif_allocator(0);
  g_expected_allocator = a;
  Pool *np = MemoryPoolList_ResourceManager__SlotData__addPool(l, a);
  COVER(np != 0 && !g_create_ok); COVER(np != 0 && g_create_ok);
#if !SCEN_HEAP
  COVER(np == 0);
#if ARDUINOJSON_INITIAL_POOL_COUNT < PP_MAXPOOLS /* (otherwise the preallocated table is never full: count_ <= maxPools < INITIAL) */
  COVER(np != 0 && g_inc_called);
#else
  COVER(np == 0 && !g_inc_called && (uint64_t)old_count == MAXPOOLS && old_count < old_cap); /* free table entries but no slot ids left */
#endif
#endif
#if SCEN_HEAP && PP_MAXPOOLS <= 64
  COVER(np != 0 && old_count + 1 == MAXPOOLS);
#endif
  CHECK(!g_inc_called || old_count == old_cap, "the table is grown only when it is full");
  CHECK(g_inc_called || old_count != old_cap || (uint64_t)old_count >= MAXPOOLS, "a full table is grown unless maxPools pools exist already");
  CHECK(l->pools_[j].slots_ == ej.slots_ && l->pools_[j].capacity_ == ej.capacity_ && l->pools_[j].usage_ == ej.usage_,
        "existing pool entries are untouched by addPool");
  if (np) {
    CHECK(l->count_ == old_count + 1 && np == &l->pools_[old_count] && g_create_self == np, "addPool appends exactly one entry and creates it");
#ifdef CANARY_ADDPOOL
    CHECK((uint64_t)g_create_cap == pool_cap_limit(old_count) + (j == 0), "new pool capacity: CAP, or CAP-1 for the pool that reaches NULL_SLOT");
#else
    CHECK((uint64_t)g_create_cap == pool_cap_limit(old_count), "new pool capacity: CAP, or CAP-1 for the pool that reaches NULL_SLOT");
#endif
    CHECK(l->count_ <= l->capacity_ && (uint64_t)l->count_ <= MAXPOOLS, "count_ stays within capacity_ and maxPools");
  } else {
    CHECK((uint64_t)old_count >= MAXPOOLS || (g_inc_called && (!g_inc_ok || (uint64_t)old_cap >= MAXPOOLS)),
          "addPool fails only when maxPools pools exist (no slot id left) or the table cannot grow");
    CHECK(l->count_ == old_count && l->capacity_ == old_cap, "failed addPool changes neither count nor capacity");
  }
}
#endif

/* =================================================================================================================== */
#ifdef U_GROW
/* increaseCapacity(allocator): the real routine with the failing allocator stub. */
void h_increaseCapacity(void) {
  unsigned fi;
  PoolList *l = mk_list(&fi, 0);
  __CPROVER_assume(l->count_ == l->capacity_);
  unsigned j = in_u32();
  __CPROVER_assume(j < l->count_);
  Pool ej = l->pools_[j];
  unsigned old_cap = l->capacity_;
  Pool *old_tab = l->pools_;
  _Bool was_inline = l->pools_ == l->preallocatedPools_;
  struct Allocator *a = verif_allocator(0);
  g_expected_allocator = a;
  if (!was_inline) ledger_add(old_tab, (size_t)old_cap * sizeof(Pool));
  int live0 = g_live_blocks;
  unsigned fails0 = g_alloc_failures;
  _Bool ok = MemoryPoolList_ResourceManager__SlotData__increaseCapacity(l, a);
#if !SCEN_HEAP
  COVER(ok && was_inline); COVER(!ok);
#elif PP_MAXPOOLS <= 64
  COVER(!ok && (uint64_t)old_cap == MAXPOOLS);
#else
  COVER(ok && !was_inline); COVER(!ok && (uint64_t)old_cap != MAXPOOLS);
#endif
#ifdef CANARY_GROW
  CHECK(j != 0, "canary: deliberately false for j == 0");
#endif
  CHECK((uint64_t)MemoryPoolList_ResourceManager__SlotData__maxPools == MAXPOOLS, "C19: the code's maxPools is the number of pools needed for NULL_SLOT slots (ids 0..NULL_SLOT-1), whatever the pool capacity");
  if ((uint64_t)old_cap >= MAXPOOLS) CHECK(!ok && g_alloc_calls + g_realloc_calls == 0, "at maxPools the table never grows and the allocator is not asked");
  if (ok) {
    CHECK((uint64_t)l->capacity_ == ((uint64_t)old_cap * 2 > MAXPOOLS ? MAXPOOLS : (uint64_t)old_cap * 2) && l->capacity_ > old_cap, "capacity doubles, clamped to maxPools, without wrapping");
    CHECK((uint64_t)l->capacity_ <= MAXPOOLS, "C19: the table never exceeds maxPools entries");
    CHECK(l->pools_ != l->preallocatedPools_, "a grown table lives on the heap");
    CHECK(l->pools_[j].slots_ == ej.slots_ && l->pools_[j].capacity_ == ej.capacity_ && l->pools_[j].usage_ == ej.usage_,
          "C04: every existing entry is preserved by growth (ids keep designating the same slots)");
    CHECK(g_live_blocks == live0 + (was_inline ? 1 : 0), "C06: exactly one table block is live after growth");
  } else {
    CHECK((uint64_t)old_cap >= MAXPOOLS || g_alloc_failures > fails0, "C19: growth is refused only at maxPools or when the allocator fails (the limit does not depend on geometry or history)");
    CHECK(l->capacity_ == old_cap && l->pools_ == old_tab && l->count_ == old_cap, "C05: failed growth leaves the table untouched");
    CHECK(l->pools_[j].slots_ == ej.slots_ && l->pools_[j].capacity_ == ej.capacity_ && l->pools_[j].usage_ == ej.usage_, "entries untouched on failure");
    CHECK(g_live_blocks == live0, "C06: failed growth neither leaks nor frees");
  }
}
#endif
