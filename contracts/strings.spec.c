/* String memory layer: StringNode, StringPool, ResourceManager string entry points, StringBuilder, StringBuffer,
 * VariantData::setString.  One section per unit (U_xxx define), each verified against the allocator stub of alloc.h that may
 * fail at EVERY call (all fault schedules) and keeps a ghost ledger of live blocks.
 * Oracles come from the property texts: C05 (failure reported, nothing corrupted), C06 (every block from/to the user's
 * allocator exactly once; equal copied strings stored once, released with the last user), C19 (lengths / reference counts
 * never wrap; cap checked BEFORE allocating), C14 (a copy is independent of its source; linked strings keep the pointer).
 * Modular units state the contract of every stubbed callee next to the stub and name the unit that proves it. */
#include "verif.h"
#include "config.h"

/* ghost state read by the loop contracts of strings.loops.json (must precede lowered.c) */
static size_t g_k;          /* witness index */
static char g_src_k;        /* source byte at the witness index, at call time */

#ifdef VERIF_NATIVE
#include "lowered_types.h"
#else
#include "lowered.c"
#endif
#ifdef NO_ALLOCATOR_TYPE /* units whose lowered text never mentions the allocator (read-only routines) */
struct Allocator { void *_vptr; };
#endif
#include "alloc.h"
#define GONE ((size_t)-1) /* ledger_size() of a block that is not live */

typedef struct StringNode Node;
typedef __typeof__(((Node *)0)->length) len_t;      /* StringNode::length_type of this configuration */
typedef __typeof__(((Node *)0)->references) ref_t;  /* StringNode::references_type (SlotId width) */
#define MAXLEN CFG_MAX_LEN                          /* 2^(8*STRING_LENGTH_SIZE)-1, from the property text */
#define REF_MAX ((uint64_t)(ref_t)-1)
#define DATA_OFF ((uint64_t)offsetof(Node, data))
/* the property's block size for a string of n characters: header + n bytes + NUL, computed without wrapping (n <= 2^32-1) */
static uint64_t spec_block_size(uint64_t n) { return DATA_OFF + n + 1; }

/* a well-formed node (WF_STRINGS of DESIGN 4.3) with a REAL block of sizeForLength(len) bytes, entered in the ledger */
static Node *mk_real_node(size_t len, ref_t refs) {
  Node *n = malloc(spec_block_size(len));
  __CPROVER_assume(n != 0);
  n->next = 0;
  n->references = refs;
  n->length = (len_t)len;
  ledger_add(n, spec_block_size(len));
  return n;
}

/* =================================================================================================================== */
#ifdef U_NODE
/* StringNode::create / resize / destroy -- the real routines, no stub but the allocator. */
void h_node_create(void) {
  size_t length = in_size();
  struct Allocator *a = verif_allocator(0);
  g_expected_allocator = a;
  Node *n = StringNode__create(length, a);
  COVER(n != 0); COVER(n != 0 && length == MAXLEN); COVER(n != 0 && length == 0);
  COVER(n == 0 && length <= MAXLEN); COVER(length == MAXLEN + 1); COVER(length == (size_t)-1);
  CHECK(g_dealloc_calls == 0 && g_realloc_calls == 0, "create only ever calls allocate");
  /* C19 'reference counts never wrap': a string has at most one reference per slot that uses it (every increment is paired
   * with a slot, F24), so the counter must be able to count every slot id of the configuration */
  CHECK(sizeof(((Node *)0)->references) >= ARDUINOJSON_SLOT_ID_SIZE, "C19: the reference counter is at least as wide as a slot id (it can count one reference per slot)");
  if (length > MAXLEN) {
    CHECK(n == 0, "C19: a length above maxLength is refused");
    CHECK(g_alloc_calls == 0, "C06: the length cap is checked BEFORE the allocator is asked (memory bound)");
  } else {
    CHECK(g_alloc_calls == 1, "exactly one block is requested");
    if (n) {
      CHECK(ledger_size(n, 0) == spec_block_size(length), "block size == length + 1 + offsetof(data)");
#ifdef CANARY_NODE_CREATE
      CHECK((uint64_t)n->length == length + (length == 7), "C19: the stored length equals the requested one (no truncation)");
#else
      CHECK((uint64_t)n->length == length, "C19: the stored length equals the requested one (no truncation)");
#endif
      CHECK(n->references == 1, "a new node has exactly one user");
      CHECK(g_live_blocks == 1, "one live block");
    } else {
      CHECK(g_live_blocks == 0, "C05: failed allocation => null and nothing live");
    }
  }
}

void h_node_resize(void) {
  size_t len0 = in_size(), len1 = in_size();
  __CPROVER_assume(len0 <= MAXLEN);
  ref_t refs = (ref_t)in_u32();
  struct Allocator *a = verif_allocator(0);
  g_expected_allocator = a;
  Node *n = mk_real_node(len0, refs);
  size_t k = in_size(); /* witness byte that both sizes contain */
  __CPROVER_assume(k <= len0 && k <= len1);
  char ck = in_char();
  n->data[k] = ck;
  Node *r = StringNode__resize(n, len1, a);
  COVER(len1 > MAXLEN); COVER(r != 0 && len1 > len0); COVER(r != 0 && len1 < len0); COVER(r == 0 && len1 <= MAXLEN);
  COVER(r != 0 && len1 == MAXLEN); COVER(r != 0 && len1 == len0);
  CHECK(g_alloc_calls == 0, "resize never calls allocate");
  if (len1 > MAXLEN) {
    CHECK(r == 0, "C19: a length above maxLength is refused");
    CHECK(g_realloc_calls == 0, "C06: the cap is checked before the allocator is asked to grow");
    CHECK(g_dealloc_calls == 1 && g_live_blocks == 0 && ledger_size(n, GONE) == GONE, "the node is released exactly once");
  } else {
    CHECK(g_realloc_calls == 1, "exactly one reallocate");
    if (r) {
      CHECK(g_dealloc_calls == 0 && g_live_blocks == 1, "success: one live block, nothing released");
      CHECK(ledger_size(r, 0) == spec_block_size(len1), "new block size == length + 1 + offsetof(data)");
#ifdef CANARY_NODE_RESIZE
      CHECK((uint64_t)r->length == len1 + (len1 == 3), "C19: the stored length equals the requested one");
#else
      CHECK((uint64_t)r->length == len1, "C19: the stored length equals the requested one");
#endif
      CHECK(r->references == refs, "resize keeps the reference count");
      CHECK(r->data[k] == ck, "bytes that fit both sizes are preserved");
    } else {
      CHECK(len1 > len0, "only a growing reallocate fails (assumption of the property, encoded by the stub)");
      CHECK(g_dealloc_calls == 1 && g_live_blocks == 0 && ledger_size(n, GONE) == GONE,
            "C05/C06: failed growth releases the old block exactly once");
    }
  }
}

void h_node_destroy(void) {
  size_t len0 = in_size();
  __CPROVER_assume(len0 <= MAXLEN);
  struct Allocator *a = verif_allocator(0);
  g_expected_allocator = a;
  Node *other = mk_real_node(0, 1);
  Node *n = mk_real_node(len0, (ref_t)in_u32());
  StringNode__destroy(n, a);
  COVER(1);
#ifdef CANARY_NODE_DESTROY
  CHECK(g_dealloc_calls == 1 + (len0 == 5), "destroy calls deallocate exactly once");
#else
  CHECK(g_dealloc_calls == 1, "destroy calls deallocate exactly once");
#endif
  CHECK(g_alloc_calls == 0 && g_realloc_calls == 0, "destroy requests nothing");
  CHECK(ledger_size(n, GONE) == GONE && g_live_blocks == 1, "exactly that block left the ledger");
  CHECK(ledger_size(other, GONE) == spec_block_size(0) && other->references == 1, "another node is untouched");
}
#endif

/* ------------------------------------------------------------------------------------------------------------------- */
/* Bounded string lists (class B: at most MAXN nodes, every shape 0..MAXN, symbolic reference counts and length fields).
 * The list routines only do pointer/integer work on the node headers, so the blocks are header-sized and the ledger records
 * the size the real block would have. */
#if defined(U_POOL) || defined(U_GET)
#define MAXN 3
static Node *g_nodes[MAXN];
static unsigned g_n;
static Node *mk_hdr_node(void) {
  Node *n = malloc(sizeof(Node));
  __CPROVER_assume(n != 0);
  n->next = 0;
  n->references = (ref_t)in_u32();
  __CPROVER_assume(n->references >= 1); /* WF_STRINGS: a pooled node has at least one user */
  n->length = (len_t)in_u32();
  ledger_add(n, spec_block_size(n->length));
  return n;
}
static void mk_pool(struct StringPool *sp) {
  g_n = in_u8();
  __CPROVER_assume(g_n <= MAXN);
  if (g_n > 0) g_nodes[0] = mk_hdr_node();
  if (g_n > 1) g_nodes[1] = mk_hdr_node();
  if (g_n > 2) g_nodes[2] = mk_hdr_node();
  if (g_n > 1) g_nodes[0]->next = g_nodes[1];
  if (g_n > 2) g_nodes[1]->next = g_nodes[2];
  sp->strings_ = g_n ? g_nodes[0] : 0;
}
#endif

/* =================================================================================================================== */
#ifdef U_POOL
/* StringPool::add(node) / dereference / clear / size -- the real routines (StringNode::destroy included). */
void h_pool_add_node(void) {
  struct StringPool sp;
  mk_pool(&sp);
  Node *old_head = sp.strings_;
  Node *n = mk_hdr_node();
  ref_t refs = n->references;
  len_t len = n->length;
  StringPool__add(&sp, n);
  COVER(old_head != 0); COVER(old_head == 0);
#ifdef CANARY_POOL_ADDNODE
  CHECK(sp.strings_ == n && n->next == (old_head ? old_head->next : 0), "the node is linked at the head, in front of the old list");
#else
  CHECK(sp.strings_ == n && n->next == old_head, "the node is linked at the head, in front of the old list");
#endif
  CHECK(n->references == refs && n->length == len, "linking changes neither the count nor the length");
  CHECK(g_alloc_calls + g_realloc_calls + g_dealloc_calls == 0, "no allocator call");
}

void h_pool_dereference(void) {
  struct StringPool sp;
  mk_pool(&sp);
  struct Allocator *a = verif_allocator(0);
  g_expected_allocator = a;
  Node *foreign = mk_hdr_node(); /* a node that is NOT in the pool (e.g. a builder's private node) */
  unsigned j = in_u8();
  __CPROVER_assume(j <= MAXN);
  _Bool found = j < g_n;
  char *s = found ? g_nodes[j]->data : foreign->data;
  /* snapshot */
  ref_t r0[MAXN + 1]; len_t l0[MAXN]; Node *nx0[MAXN];
  for (unsigned i = 0; i < MAXN; i++) if (i < g_n) { r0[i] = g_nodes[i]->references; l0[i] = g_nodes[i]->length; nx0[i] = g_nodes[i]->next; }
  r0[MAXN] = foreign->references;
  Node *head0 = sp.strings_;
  int live0 = g_live_blocks;
  StringPool__dereference(&sp, s, a);
  _Bool freed = found && r0[j] == 1;
  COVER(!found && g_n == MAXN); COVER(found && !freed); COVER(freed && j == 0); COVER(freed && j == 1 && g_n == 3); COVER(freed && j == 2);
  CHECK(g_alloc_calls == 0 && g_realloc_calls == 0, "dereference requests nothing");
  CHECK(g_dealloc_calls == (freed ? 1u : 0u) && g_live_blocks == live0 - (freed ? 1 : 0),
        "C06: a block is released iff the count of the designated node reaches zero, exactly once");
  CHECK(foreign->references == r0[MAXN], "a node outside the pool is never touched");
  for (unsigned i = 0; i < MAXN; i++) if (i < g_n) {
    if (freed && i == j) {
      CHECK(ledger_size(g_nodes[i], GONE) == GONE, "the released block is that node's");
    } else {
#ifdef CANARY_POOL_DEREF
      CHECK(g_nodes[i]->references == (ref_t)(r0[i] - ((found && i == j) || (found && j == 2 && i == 1) ? 1 : 0)), "exactly the node whose data == s loses one user");
#else
      CHECK(g_nodes[i]->references == (ref_t)(r0[i] - (found && i == j ? 1 : 0)), "exactly the node whose data == s loses one user");
#endif
      CHECK(g_nodes[i]->length == l0[i] && ledger_size(g_nodes[i], GONE) == spec_block_size(l0[i]), "other nodes stay live and unchanged");
      /* successor: unchanged, except that the predecessor of a released node now skips it */
      Node *want = (freed && i + 1 == j) ? nx0[j] : nx0[i];
      CHECK(g_nodes[i]->next == want, "list order is kept; only a released node is unlinked");
    }
  }
  CHECK(sp.strings_ == ((freed && j == 0) ? nx0[0] : head0), "head changes only when the first node is released");
}

void h_pool_clear(void) {
  struct StringPool sp;
  mk_pool(&sp);
  struct Allocator *a = verif_allocator(0);
  g_expected_allocator = a;
  Node *foreign = mk_hdr_node();
  StringPool__clear(&sp, a);
  COVER(g_n == 0); COVER(g_n == MAXN);
  CHECK(sp.strings_ == 0, "clear leaves an empty pool");
  CHECK(g_alloc_calls == 0 && g_realloc_calls == 0, "clear requests nothing");
#ifdef CANARY_POOL_CLEAR
  CHECK(g_dealloc_calls == g_n + (g_n == 2), "C06: every node is released exactly once");
#else
  CHECK(g_dealloc_calls == g_n, "C06: every node is released exactly once");
#endif
  CHECK(g_live_blocks == 1 && ledger_size(foreign, GONE) != GONE, "C06: no pooled block stays live; blocks outside the pool are not released");
  for (unsigned i = 0; i < MAXN; i++) if (i < g_n) CHECK(ledger_size(g_nodes[i], GONE) == GONE, "each node left the ledger");
}

void h_pool_size(void) {
  struct StringPool sp;
  mk_pool(&sp);
  uint64_t want = 0;
  for (unsigned i = 0; i < MAXN; i++) if (i < g_n) want += spec_block_size(g_nodes[i]->length);
  size_t got = StringPool__size(&sp);
  COVER(g_n == MAXN); COVER(g_n == 0);
#ifdef CANARY_POOL_SIZE
  CHECK(got == want + (g_n == 2), "size() is the sum of the block sizes of the pooled strings");
#else
  CHECK(got == want, "size() is the sum of the block sizes of the pooled strings");
#endif
  CHECK(g_alloc_calls + g_realloc_calls + g_dealloc_calls == 0, "size() never calls the allocator");
}
#endif

/* =================================================================================================================== */
#ifdef U_GET
/* StringPool::get<SizedRamString>(str) against the CONTRACT of stringEquals (proved for every length by
 * cmp_strings_unbounded/string_loops_* and on concrete strings by cmp_strings): the result is a function of the two
 * (length, bytes) pairs only.  The stub answers with one oracle bit per pooled node (g_eq[i] == "node i has the length and
 * bytes of str") and checks that get() hands it exactly (str, (node->data, node->length)). */
static struct SizedRamString g_str;
static _Bool g_eq[MAXN];
static unsigned g_eq_calls;
_Bool stringEquals_SizedRamString_SizedRamString(struct SizedRamString s1, struct SizedRamString s2) {
  CHECK(s1.str_ == g_str.str_ && s1.size_ == g_str.size_, "get compares the caller's string (pointer and size unchanged)");
  g_eq_calls++;
  for (unsigned i = 0; i < MAXN; i++) if (i < g_n && s2.str_ == g_nodes[i]->data) {
    CHECK(s2.size_ == (size_t)g_nodes[i]->length, "against a pooled node's bytes with that node's full length");
    return g_eq[i];
  }
  CHECK(0, "get compares only against pooled nodes");
  return 0;
}
void h_pool_get(void) {
  struct StringPool sp;
  mk_pool(&sp);
  char src[1];
  g_str.str_ = src;
  g_str.size_ = in_size();
  g_eq[0] = in_bool(); g_eq[1] = in_bool(); g_eq[2] = in_bool();
  ref_t r0[MAXN]; Node *nx0[MAXN];
  for (unsigned i = 0; i < MAXN; i++) if (i < g_n) { r0[i] = g_nodes[i]->references; nx0[i] = g_nodes[i]->next; }
  Node *head0 = sp.strings_;
  Node *r = StringPool__get_SizedRamString(&sp, &g_str);
  Node *want = 0;
  if (g_n > 2 && g_eq[2]) want = g_nodes[2];
  if (g_n > 1 && g_eq[1]) want = g_nodes[1];
  if (g_n > 0 && g_eq[0]) want = g_nodes[0];
  COVER(r == 0 && g_n == MAXN); COVER(r != 0 && r == g_nodes[2]); COVER(r != 0 && r == g_nodes[0] && g_eq[1]); COVER(g_n == 0);
#ifdef CANARY_POOL_GET
  CHECK(r == want || (g_n == 3 && !g_eq[0] && !g_eq[1] && g_eq[2]), "get returns the first pooled node equal to str, or null when none is");
  CHECK(!(g_n == 3 && !g_eq[0] && !g_eq[1] && g_eq[2]) || r == 0, "canary: deliberately false when only the last node matches");
#else
  CHECK(r == want, "get returns the first pooled node equal to str, or null when none is");
#endif
  CHECK(sp.strings_ == head0, "get does not modify the pool");
  for (unsigned i = 0; i < MAXN; i++) if (i < g_n) CHECK(g_nodes[i]->references == r0[i] && g_nodes[i]->next == nx0[i], "get does not modify any node");
}
#endif

/* =================================================================================================================== */
#ifdef U_CHARS
/* stringGetChars<SizedRamString>(s, p, n): the byte-copy loop, closed by a loop contract (strings.loops.json) with a witness
 * index g_k: for an ARBITRARY k < n, p[k] == s[k] afterwards; nothing outside p[0..n) is written (assigns clause of the loop,
 * checked by the instrumentation, plus the guard bytes below); the source is only read. */
void h_get_chars(void) {
  size_t n = in_size();
  __CPROVER_assume(n <= MAXLEN); /* caller: StringNode::create(n) succeeded */
  Node *nd = malloc(spec_block_size(n));
  char *src = malloc(n + 1);
  __CPROVER_assume(nd != 0 && src != 0);
  nd->length = (len_t)n;
  nd->references = 1;
  nd->data[n] = 0x55; /* guard byte just behind the destination range */
  g_k = in_size();
  __CPROVER_assume(g_k < n || n == 0);
  g_src_k = in_char();
  if (n) src[g_k] = g_src_k;
  struct SizedRamString s;
  s.str_ = src;
  s.size_ = n;
  stringGetChars_SizedRamString(s, nd->data, n);
  COVER(n == 0); COVER(n == MAXLEN && g_k == n - 1); COVER(n > 1 && g_k == 0);
  if (n) {
#ifdef CANARY_GET_CHARS
    CHECK(nd->data[g_k] == (char)(g_src_k + (g_k == 2)), "C14: every copied byte equals the source byte at call time");
#else
    CHECK(nd->data[g_k] == g_src_k, "C14: every copied byte equals the source byte at call time");
#endif
    CHECK(src[g_k] == g_src_k, "the source is not modified");
  }
  CHECK(nd->data[n] == 0x55, "nothing is written behind the n bytes");
  CHECK((uint64_t)nd->length == n && nd->references == 1, "the node header is not touched");
}
#endif

/* =================================================================================================================== */
#ifdef U_ADD
/* StringPool::add<SizedRamString>(str, allocator), loop-free once its three callees are taken by contract:
 *   get(str)               : a pooled node with the length and bytes of str, or null when none   (strpool_get/pool_get)
 *   StringNode::create(n,a): n > maxLength => null WITHOUT allocator call; else null, or a block of n+1+offsetof(data) bytes
 *                            with length == n, references == 1                                   (strnode/node_create)
 *   stringGetChars(s,p,n)  : p[k] == s[k] for every k < n, nothing else written, s only read      (strchars/get_chars)
 * The stubs also check WHAT they are handed and in which order. */
static struct StringPool *g_pool;
static struct SizedRamString g_str;
static Node *g_get_ret, *g_created;
static unsigned g_get_calls, g_create_calls, g_chars_calls;
static char *g_chars_dst;
Node *StringPool__get_SizedRamString(struct StringPool *self, struct SizedRamString *str) {
  CHECK(self == g_pool, "lookup in the same pool");
  CHECK(str->str_ == g_str.str_ && str->size_ == g_str.size_, "lookup of the caller's string");
  CHECK(g_create_calls == 0, "the lookup precedes any allocation");
  g_get_calls++;
  return g_get_ret;
}
Node *StringNode__create(size_t length, struct Allocator *a) {
  CHECK(a == g_expected_allocator, "create receives the caller's allocator");
  CHECK(length == g_str.size_, "the block is requested for exactly the source length");
  g_create_calls++;
  if (length > MAXLEN) return 0;
  Node *n = Allocator__allocate(a, spec_block_size(length));
  if (n) { n->length = (len_t)length; n->references = 1; }
  g_created = n;
  return n;
}
void stringGetChars_SizedRamString(struct SizedRamString s, char *p, size_t n) {
  CHECK(s.str_ == g_str.str_ && s.size_ == g_str.size_ && n == g_str.size_, "all n source bytes are copied");
  CHECK(g_created != 0 && p == g_created->data, "into the data area of the new node");
  g_chars_calls++;
  g_chars_dst = p;
  if (g_k < n) p[g_k] = s.str_[g_k];
}
void h_pool_add_str(void) {
  struct StringPool sp;
  g_pool = &sp;
  struct Allocator *a = verif_allocator(0);
  g_expected_allocator = a;
  /* the pool: get() is abstract, so only the head pointer matters; it is a node (possibly the de-dup hit) or null */
  Node *head = in_bool() ? mk_real_node(0, 1) : 0;
  sp.strings_ = head;
  _Bool hit = in_bool();
  ref_t refs0 = (ref_t)in_u32();
  __CPROVER_assume(refs0 >= 1 && (uint64_t)refs0 < REF_MAX); /* caller obligation L-C06: fewer users than 2^(8*SLOT_ID_SIZE)-1 */
  g_get_ret = hit ? mk_real_node(0, refs0) : 0;
  size_t n = in_size();
  /* the source: n bytes (when n is beyond the cap the code must not read it at all: one byte is provided) */
  char *src = malloc(n <= MAXLEN ? n + 1 : 1);
  __CPROVER_assume(src != 0);
  g_str.str_ = src;
  g_str.size_ = n;
  g_k = in_size();
  __CPROVER_assume(g_k < n || n == 0);
  g_src_k = in_char();
  if (n && n <= MAXLEN) src[g_k] = g_src_k;
  int live0 = g_live_blocks;
  Node *r = StringPool__add_SizedRamString(&sp, g_str, a);
  COVER(hit); COVER(!hit && r != 0 && n == 0); COVER(!hit && r != 0 && n == MAXLEN); COVER(!hit && n > MAXLEN);
  COVER(!hit && r == 0 && n <= MAXLEN); COVER(!hit && r != 0 && head != 0);
  CHECK(g_get_calls == 1, "exactly one lookup");
  CHECK(g_dealloc_calls == 0 && g_realloc_calls == 0, "add never releases or resizes");
  if (hit) {
    CHECK(r == g_get_ret, "C06: an equal pooled string is returned instead of a second copy");
#ifdef CANARY_POOL_ADDSTR
    CHECK((uint64_t)r->references == (uint64_t)refs0 + 1 + (refs0 == 9), "C06: the shared node gains exactly one user (no wrap)");
#else
    CHECK((uint64_t)r->references == (uint64_t)refs0 + 1, "C06: the shared node gains exactly one user (no wrap)");
#endif
    CHECK(g_create_calls == 0 && g_alloc_calls == 0 && g_chars_calls == 0, "C06: de-duplication allocates and copies nothing");
    CHECK(sp.strings_ == head, "the list is unchanged");
  } else if (n > MAXLEN) {
    CHECK(r == 0 && g_alloc_calls == 0, "C19/C06: a string longer than maxLength is refused before any allocation");
    CHECK(sp.strings_ == head && g_chars_calls == 0, "the list is unchanged");
  } else {
    CHECK(g_create_calls == 1 && g_alloc_calls == 1, "exactly one block is requested");
    if (r) {
      CHECK(r == g_created && g_live_blocks == live0 + 1 && ledger_size(r, GONE) == spec_block_size(n), "one new block of n+1+offsetof(data) bytes");
      CHECK((uint64_t)r->length == n && r->references == 1, "length stored without truncation, one user");
      CHECK(g_chars_calls == 1, "the bytes are copied once");
      if (n) CHECK(r->data[g_k] == g_src_k && src[g_k] == g_src_k, "C14: the copy equals the source at call time; the source is intact");
      CHECK(r->data[n] == 0, "the copy is NUL-terminated inside its block");
      CHECK(sp.strings_ == r && r->next == head, "the new node is linked at the head");
      CHECK(r->data != src, "C14: the copy lives in its own block (independent of the source)");
    } else {
      CHECK(sp.strings_ == head && g_live_blocks == live0 && g_chars_calls == 0, "C05: allocation failure => null, pool unchanged");
    }
  }
  if (head) CHECK(head->references == 1 && head->length == 0 && head->next == 0, "existing nodes are not modified");
}
#endif

/* =================================================================================================================== */
#ifdef U_RM
/* ResourceManager string entry points: saveString<SizedRamString>, saveString<StaticStringAdapter>, saveString(node),
 * getString, createString, resizeString, destroyString, dereferenceString.  Pure dispatch once the pool/node routines are
 * stubs that record their arguments and return an arbitrary result (their contracts: strnode, strpool, strpool_get,
 * strpool_add).  Clauses: C05 "a null result makes overflowed() true", "overflowed_ is never reset here", a null string is
 * not an overflow; C06 "every call carries the document's allocator". */
static struct ResourceManager *g_rm;
static unsigned g_calls, g_which;
static Node *g_ret, *g_arg_node;
static size_t g_arg_len;
static char *g_arg_ptr;
static void rm_common(struct Allocator *a, int which) {
  if (a) CHECK(a == g_rm->allocator_, "C06: the callee receives the document's allocator");
  g_calls++;
  g_which = which;
}
Node *StringPool__add_SizedRamString(struct StringPool *self, struct SizedRamString str, struct Allocator *a) {
  CHECK(self == &g_rm->stringPool_, "the document's own pool");
  rm_common(a, 1); g_arg_ptr = str.str_; g_arg_len = str.size_;
  return g_ret;
}
Node *StringPool__add_StaticStringAdapter(struct StringPool *self, struct StaticStringAdapter str, struct Allocator *a) {
  CHECK(self == &g_rm->stringPool_, "the document's own pool");
  rm_common(a, 2); g_arg_ptr = str._b_ZeroTerminatedRamString.str_;
  return g_ret;
}
void StringPool__add(struct StringPool *self, Node *node) {
  CHECK(self == &g_rm->stringPool_, "the document's own pool");
  rm_common(0, 3); g_arg_node = node;
}
Node *StringPool__get_SizedRamString(struct StringPool *self, struct SizedRamString *str) {
  CHECK(self == &g_rm->stringPool_, "the document's own pool");
  rm_common(0, 4); g_arg_ptr = str->str_; g_arg_len = str->size_;
  return g_ret;
}
Node *StringNode__create(size_t length, struct Allocator *a) { rm_common(a, 5); g_arg_len = length; return g_ret; }
Node *StringNode__resize(Node *node, size_t length, struct Allocator *a) { rm_common(a, 6); g_arg_node = node; g_arg_len = length; return g_ret; }
void StringNode__destroy(Node *node, struct Allocator *a) { rm_common(a, 7); g_arg_node = node; }
void StringPool__dereference(struct StringPool *self, char *s, struct Allocator *a) {
  CHECK(self == &g_rm->stringPool_, "the document's own pool");
  rm_common(a, 8); g_arg_ptr = s;
}
void h_rm_strings(void) {
  struct ResourceManager *rm = malloc(sizeof *rm);
  __CPROVER_assume(rm != 0);
  g_rm = rm;
  struct Allocator *a = verif_allocator(0);
  rm->allocator_ = a;
  _Bool ov0 = in_bool();
  rm->overflowed_ = ov0;
  Node *head = in_bool() ? mk_real_node(0, 1) : 0;
  rm->stringPool_.strings_ = head;
  Node *some = mk_real_node(0, 1);
  g_ret = in_bool() ? some : 0;
  Node *argn = mk_real_node(0, 1);
  char buf[2] = {'x', 0};
  _Bool null_str = in_bool();
  size_t len = in_size();
  unsigned op = in_u8();
  __CPROVER_assume(op >= 1 && op <= 8);
  Node *r = 0;
  _Bool returns_node = 0;
  struct SizedRamString srs; srs.str_ = null_str ? (char *)0 : &buf[0]; srs.size_ = len;
  struct StaticStringAdapter ssa; ssa._b_ZeroTerminatedRamString.str_ = null_str ? (char *)0 : &buf[0];
  switch (op) {
    case 1: r = ResourceManager__saveString_SizedRamString(rm, srs); returns_node = 1; break;
    case 2: r = ResourceManager__saveString_StaticStringAdapter(rm, ssa); returns_node = 1; break;
    case 3: ResourceManager__saveString(rm, argn); break;
    case 4: r = ResourceManager__getString_SizedRamString(rm, &srs); break;
    case 5: r = ResourceManager__createString(rm, len); returns_node = 1; break;
    case 6: r = ResourceManager__resizeString(rm, argn, len); returns_node = 1; break;
    case 7: ResourceManager__destroyString(rm, argn); break;
    default: ResourceManager__dereferenceString(rm, buf); break;
  }
  _Bool skipped = (op == 1 || op == 2) && null_str;
  COVER(op == 1 && r == 0 && !null_str && !ov0); COVER(op == 1 && null_str); COVER(op == 2 && r != 0); COVER(op == 3); COVER(op == 4 && r != 0);
  COVER(op == 5 && r == 0 && !ov0); COVER(op == 5 && r != 0 && ov0); COVER(op == 6 && r == 0); COVER(op == 7); COVER(op == 8);
  CHECK(rm->allocator_ == a && rm->stringPool_.strings_ == head, "the entry points themselves change neither allocator nor pool head");
  if (skipped) {
    CHECK(r == 0 && g_calls == 0, "C14/C05: a null string is not stored: 0 is returned and the pool is not asked");
    CHECK(rm->overflowed_ == ov0, "C05: a null string is not an overflow");
  } else {
    CHECK(g_calls == 1 && g_which == op, "exactly one call of the matching pool/node routine");
    if (op != 3 && op != 7 && op != 8) CHECK(r == g_ret, "its result is returned unchanged");
    if (returns_node) {
#ifdef CANARY_RM
      CHECK(rm->overflowed_ == (ov0 || (r == 0 && op != 6)), "C05: a null result makes overflowed() true; overflowed_ is never reset");
#else
      CHECK(rm->overflowed_ == (ov0 || r == 0), "C05: a null result makes overflowed() true; overflowed_ is never reset");
#endif
    } else {
      CHECK(rm->overflowed_ == ov0, "lookups and releases leave overflowed_ alone");
    }
    if (op == 1 || op == 4) CHECK(g_arg_ptr == srs.str_ && g_arg_len == len, "the string is passed on unchanged");
    if (op == 2 || op == 8) CHECK(g_arg_ptr == &buf[0], "the pointer is passed on unchanged");
    if (op == 5 || op == 6) CHECK(g_arg_len == len, "the requested length is passed on unchanged");
    if (op == 3 || op == 6 || op == 7) CHECK(g_arg_node == argn, "the node is passed on unchanged");
  }
}
#endif

/* ------------------------------------------------------------------------------------------------------------------- */
#if defined(U_BUILDER) || defined(U_SAVE)
static struct ResourceManager *mk_rm(struct Allocator *a) {
  struct ResourceManager *rm = malloc(sizeof *rm);
  __CPROVER_assume(rm != 0);
  rm->allocator_ = a;
  rm->overflowed_ = in_bool();
  rm->stringPool_.strings_ = 0;
  g_expected_allocator = a;
  return rm;
}
/* builder / buffer pre-state.  INV (representation invariant of both classes): node_ != 0 => size_ <= node_->length, and
 * the node is a private block of sizeForLength(length) bytes that is NOT in the pool. */
static Node *mk_private_node(size_t *len_out) {
  size_t len = in_size();
  __CPROVER_assume(len <= MAXLEN);
  *len_out = len;
  return mk_real_node(len, 1);
}
#endif

/* =================================================================================================================== */
#ifdef U_BUILDER
/* StringBuilder::startString/append(char)/str/isValid/~StringBuilder and StringBuffer::reserve/str/~StringBuffer with the
 * REAL ResourceManager::createString/resizeString/destroyString and StringNode::create/resize/destroy underneath; the only
 * stub is the allocator.  Blocks have their real (symbolic) size, so every data[...] access is bounds-checked by cbmc. */
void h_builder_start(void) {
  struct Allocator *a = verif_allocator(0);
  struct ResourceManager *rm = mk_rm(a);
  _Bool ov0 = rm->overflowed_;
  struct StringBuilder b;
  b.resources_ = rm;
  _Bool has = in_bool();
  size_t len0 = 0;
  Node *n0 = has ? mk_private_node(&len0) : 0;
  b.node_ = n0;
  b.size_ = in_size();
  __CPROVER_assume(!has || b.size_ <= len0);
  int live0 = g_live_blocks;
  StringBuilder__startString(&b);
  COVER(has); COVER(!has && b.node_ != 0); COVER(!has && b.node_ == 0 && !ov0);
  CHECK(b.size_ == 0, "startString empties the builder");
  CHECK(g_dealloc_calls == 0 && g_realloc_calls == 0, "startString never releases or resizes");
  if (has) {
    CHECK(b.node_ == n0 && g_alloc_calls == 0 && (uint64_t)n0->length == len0, "C06: an existing node is reused, no allocation");
    CHECK(rm->overflowed_ == ov0, "overflowed_ untouched");
  } else {
    CHECK(g_alloc_calls == 1, "exactly one block is requested when there is no node");
    if (b.node_) {
#ifdef CANARY_BUILDER_START
      CHECK(b.node_->length == 32 && ledger_size(b.node_, GONE) == spec_block_size(31), "initial capacity 31");
#else
      CHECK(b.node_->length == 31 && ledger_size(b.node_, GONE) == spec_block_size(31), "initial capacity 31");
#endif
      CHECK(b.node_->references == 1 && g_live_blocks == live0 + 1 && rm->overflowed_ == ov0, "one new block, overflowed_ untouched");
    } else {
      CHECK(rm->overflowed_ && g_live_blocks == live0, "C05: failure is reported by overflowed() and leaves nothing live");
      CHECK(!StringBuilder__isValid(&b), "the builder is invalid");
    }
  }
  CHECK(rm->allocator_ == a, "allocator unchanged");
}

void h_builder_append(void) {
  struct Allocator *a = verif_allocator(0);
  struct ResourceManager *rm = mk_rm(a);
  _Bool ov0 = rm->overflowed_;
  struct StringBuilder b;
  b.resources_ = rm;
  _Bool has = in_bool();
  size_t len0 = 0;
  Node *n0 = has ? mk_private_node(&len0) : 0;
  b.node_ = n0;
  size_t size0 = in_size();
  b.size_ = size0;
  __CPROVER_assume(!has || size0 <= len0); /* INV */
  size_t k = in_size(); /* witness: an earlier byte of the string under construction */
  __CPROVER_assume(k < size0 || !has || size0 == 0);
  char ck = in_char(), c = in_char();
  if (has && size0) n0->data[k] = ck;
  int live0 = g_live_blocks;
  StringBuilder__append__char(&b, c);
  _Bool full = has && size0 == len0;
  uint64_t newlen = (uint64_t)size0 * 2 + 1; /* size0 <= maxLength <= 2^32-1: no wrap in 64 bits */
  COVER(!has); COVER(has && !full); COVER(full && b.node_ != 0); COVER(full && b.node_ == 0 && newlen <= MAXLEN); COVER(full && newlen > MAXLEN);
  COVER(full && b.node_ != 0 && size0 == 0);
  CHECK(g_alloc_calls == 0, "append never calls allocate");
  if (!has) {
    CHECK(b.node_ == 0 && b.size_ == size0 && g_realloc_calls + g_dealloc_calls == 0 && rm->overflowed_ == ov0,
          "C05: after a failed growth later appends are no-ops");
    CHECK(!StringBuilder__isValid(&b), "isValid() stays false");
  } else if (!full) {
    CHECK(g_realloc_calls + g_dealloc_calls == 0 && b.node_ == n0, "room left: no allocator call");
#ifdef CANARY_BUILDER_APPEND
    CHECK(n0->data[size0] == (char)(c + (size0 == 4)) && b.size_ == size0 + 1, "the character is stored at data[size_], size_ grows by one");
#else
    CHECK(n0->data[size0] == c && b.size_ == size0 + 1, "the character is stored at data[size_], size_ grows by one");
#endif
    CHECK(rm->overflowed_ == ov0 && (uint64_t)n0->length == len0, "nothing else changes");
    if (size0) CHECK(n0->data[k] == ck, "earlier characters are kept");
  } else if (b.node_) {
    CHECK(newlen <= MAXLEN, "C19: growth succeeds only within maxLength");
    CHECK(g_realloc_calls == 1 && g_dealloc_calls == 0 && g_live_blocks == live0, "one reallocate, still exactly one block");
    CHECK((uint64_t)b.node_->length == newlen && ledger_size(b.node_, GONE) == spec_block_size(newlen), "capacity grows to 2*size_+1 (no truncation)");
    CHECK(b.node_->data[size0] == c && b.size_ == size0 + 1, "the character is stored at data[size_], size_ grows by one");
    if (size0) CHECK(b.node_->data[k] == ck, "earlier characters are kept across growth");
    CHECK(rm->overflowed_ == ov0 && StringBuilder__isValid(&b), "overflowed_ untouched, builder valid");
  } else {
    CHECK(g_realloc_calls == (newlen <= MAXLEN ? 1u : 0u), "C19/C06: beyond maxLength the allocator is not even asked");
    CHECK(g_dealloc_calls == 1 && g_live_blocks == live0 - 1 && ledger_size(n0, GONE) == GONE, "C05/C06: failed growth releases the old block exactly once");
    CHECK(rm->overflowed_ && !StringBuilder__isValid(&b), "C05: failure reported by overflowed(), isValid() false");
  }
  if (b.node_) CHECK(b.size_ <= (size_t)b.node_->length, "INV preserved: size_ <= node_->length");
}

void h_builder_str(void) {
  struct Allocator *a = verif_allocator(0);
  struct ResourceManager *rm = mk_rm(a);
  struct StringBuilder b;
  b.resources_ = rm;
  size_t len0;
  Node *n0 = mk_private_node(&len0);
  b.node_ = n0;
  size_t size0 = in_size();
  b.size_ = size0;
  __CPROVER_assume(size0 <= len0); /* INV */
  size_t k = in_size();
  __CPROVER_assume(k < size0 || size0 == 0);
  char ck = in_char();
  if (size0) n0->data[k] = ck;
  struct JsonString js = StringBuilder__str(&b);
  COVER(size0 == len0); COVER(size0 == 0 && len0 > 0);
  CHECK(js.data_ == n0->data && js.size_ == size0, "str() designates the size_ characters built so far");
#ifdef CANARY_BUILDER_STR
  CHECK(n0->data[size0] == (size0 == 2), "str() NUL-terminates at data[size_] (inside the block)");
#else
  CHECK(n0->data[size0] == 0, "str() NUL-terminates at data[size_] (inside the block)");
#endif
  if (size0) CHECK(n0->data[k] == ck, "characters untouched");
  CHECK(js.ownership_ == 0, "reported as a copied string");
  CHECK(b.node_ == n0 && b.size_ == size0 && (uint64_t)n0->length == len0, "builder state unchanged");
  CHECK(g_alloc_calls + g_realloc_calls + g_dealloc_calls == 0, "no allocator call");
}

void h_builder_dtor(void) {
  struct Allocator *a = verif_allocator(0);
  struct ResourceManager *rm = mk_rm(a);
  _Bool ov0 = rm->overflowed_;
  struct StringBuilder b;
  b.resources_ = rm;
  _Bool has = in_bool();
  size_t len0 = 0;
  Node *n0 = has ? mk_private_node(&len0) : 0;
  b.node_ = n0;
  b.size_ = in_size();
  int live0 = g_live_blocks;
  StringBuilder__dtor(&b);
  COVER(has); COVER(!has);
#ifdef CANARY_BUILDER_DTOR
  CHECK(g_dealloc_calls == (has && len0 != 3 ? 1u : 0u), "C06: the private node is released exactly once, iff there is one");
#else
  CHECK(g_dealloc_calls == (has ? 1u : 0u), "C06: the private node is released exactly once, iff there is one");
#endif
  CHECK(g_live_blocks == live0 - (has ? 1 : 0) && (!has || ledger_size(n0, GONE) == GONE), "exactly that block");
  CHECK(g_alloc_calls + g_realloc_calls == 0 && rm->overflowed_ == ov0, "nothing requested, overflowed_ untouched");
}

void h_buffer_reserve(void) {
  struct Allocator *a = verif_allocator(0);
  struct ResourceManager *rm = mk_rm(a);
  _Bool ov0 = rm->overflowed_;
  struct StringBuffer b;
  b.resources_ = rm;
  _Bool has = in_bool();
  size_t len0 = 0;
  Node *n0 = has ? mk_private_node(&len0) : 0;
  b.node_ = n0;
  b.size_ = in_size();
  __CPROVER_assume(!has || b.size_ <= len0); /* INV */
  size_t cap = in_size();
  int live0 = g_live_blocks;
  char *p = StringBuffer__reserve(&b, cap);
  _Bool reuse = has && cap <= len0;
  COVER(reuse); COVER(has && !reuse && p != 0); COVER(has && !reuse && p == 0 && cap <= MAXLEN); COVER(!has && p != 0 && cap == MAXLEN);
  COVER(cap > MAXLEN && has); COVER(!has && p == 0 && !ov0);
  CHECK(g_realloc_calls == 0, "reserve never reallocates");
  if (reuse) {
    CHECK(g_alloc_calls + g_dealloc_calls == 0 && b.node_ == n0 && (uint64_t)n0->length == len0, "C06: a large enough node is reused");
    CHECK(p == n0->data && b.size_ == cap && n0->data[cap] == 0, "room for cap bytes, NUL at data[cap] inside the block");
    CHECK(rm->overflowed_ == ov0, "overflowed_ untouched");
  } else {
    CHECK(g_dealloc_calls == (has ? 1u : 0u) && (!has || ledger_size(n0, GONE) == GONE), "C06: a too small node is released exactly once");
    CHECK(g_alloc_calls == (cap <= MAXLEN ? 1u : 0u), "C19/C06: the cap is checked before the allocator is asked");
    if (p) {
      CHECK(b.node_ != 0 && p == b.node_->data && cap <= MAXLEN, "the buffer is the data area of the new node");
#ifdef CANARY_BUFFER_RESERVE
      CHECK((uint64_t)b.node_->length == cap + (cap == 6) && ledger_size(b.node_, GONE) == spec_block_size(cap), "C19: capacity stored without truncation, block of cap+1+offsetof(data)");
#else
      CHECK((uint64_t)b.node_->length == cap && ledger_size(b.node_, GONE) == spec_block_size(cap), "C19: capacity stored without truncation, block of cap+1+offsetof(data)");
#endif
      CHECK(b.size_ == cap && b.node_->data[cap] == 0, "NUL at data[cap] inside the block");
      CHECK(g_live_blocks == live0 + (has ? 0 : 1) && rm->overflowed_ == ov0 && b.node_->references == 1, "exactly one private block");
    } else {
      CHECK(b.node_ == 0, "C05: failure => null and no dangling node_");
      CHECK(rm->overflowed_ && g_live_blocks == live0 - (has ? 1 : 0), "C05: failure reported by overflowed(); nothing live");
    }
  }
  if (b.node_) CHECK(b.size_ <= (size_t)b.node_->length, "INV preserved: size_ <= node_->length");
}

void h_buffer_dtor(void) {
  struct Allocator *a = verif_allocator(0);
  struct ResourceManager *rm = mk_rm(a);
  struct StringBuffer b;
  b.resources_ = rm;
  _Bool has = in_bool();
  size_t len0 = 0;
  Node *n0 = has ? mk_private_node(&len0) : 0;
  b.node_ = n0;
  b.size_ = in_size();
  int live0 = g_live_blocks;
  StringBuffer__dtor(&b);
  COVER(has); COVER(!has);
#ifdef CANARY_BUFFER_DTOR
  CHECK(g_dealloc_calls == (has && len0 != 3 ? 1u : 0u), "C06: the private node is released exactly once, iff there is one");
#else
  CHECK(g_dealloc_calls == (has ? 1u : 0u), "C06: the private node is released exactly once, iff there is one");
#endif
  CHECK(g_live_blocks == live0 - (has ? 1 : 0) && (!has || ledger_size(n0, GONE) == GONE), "exactly that block");
  CHECK(g_alloc_calls + g_realloc_calls == 0, "nothing requested");
}
#endif

/* =================================================================================================================== */
#ifdef U_SAVE
/* StringBuilder::save() / StringBuffer::save(): getString (= StringPool::get, a list loop) is taken by contract
 * (rm_strings/rm_string_entry_points + strpool_get/pool_get: a pooled node with the same length and bytes, or null);
 * resizeString / StringNode::resize / saveString(node) / StringPool::add(node) are the real routines.
 * "A shrinking reallocate never fails" is the property's own assumption, encoded in the allocator stub. */
static struct ResourceManager *g_rm;
static Node *g_priv, *g_get_ret;
static size_t g_size;
static unsigned g_get_calls;
static _Bool g_nul_at_lookup;
Node *ResourceManager__getString_SizedRamString(struct ResourceManager *self, struct SizedRamString *str) {
  CHECK(self == g_rm, "lookup in the document's pool");
  CHECK(str->str_ == g_priv->data && str->size_ == g_size, "the lookup key is exactly the size_ characters built (embedded NUL included)");
  g_nul_at_lookup = g_priv->data[g_size] == 0;
  g_get_calls++;
  return g_get_ret;
}
#define SAVE_PRELUDE(T) \
  struct Allocator *a = verif_allocator(0); \
  struct ResourceManager *rm = mk_rm(a); \
  g_rm = rm; \
  _Bool ov0 = rm->overflowed_; \
  Node *head = in_bool() ? mk_real_node(0, 1) : 0; \
  rm->stringPool_.strings_ = head; \
  _Bool hit = in_bool(); \
  ref_t refs0 = (ref_t)in_u32(); \
  __CPROVER_assume(refs0 >= 1 && (uint64_t)refs0 < REF_MAX); /* caller obligation L-C06 */ \
  g_get_ret = hit ? mk_real_node(0, refs0) : 0; \
  struct T b; \
  b.resources_ = rm; \
  size_t len0; \
  Node *n0 = mk_private_node(&len0); \
  g_priv = n0; \
  b.node_ = n0; \
  size_t size0 = in_size(); \
  __CPROVER_assume(size0 <= len0); /* INV */ \
  b.size_ = size0; \
  g_size = size0; \
  size_t k = in_size(); \
  __CPROVER_assume(k < size0 || size0 == 0); \
  char ck = in_char(); \
  if (size0) n0->data[k] = ck; \
  int live0 = g_live_blocks;

#define SAVE_COMMON_CHECKS \
  CHECK(g_get_calls == 1 && g_nul_at_lookup, "one lookup, made on the NUL-terminated string"); \
  CHECK(g_alloc_calls == 0 && g_dealloc_calls == 0, "save never allocates a second block nor releases one"); \
  CHECK(g_live_blocks == live0, "C06: the number of live blocks is unchanged (no leak, no release)"); \
  CHECK(rm->overflowed_ == ov0, "overflowed_ untouched"); \
  if (hit) { \
    CHECK(r == g_get_ret, "C06: an equal pooled string is returned instead of a second copy"); \
    CHECK((uint64_t)r->references == (uint64_t)refs0 + 1, "C06: the shared node gains exactly one user"); \
    CHECK(b.node_ == n0 && g_realloc_calls == 0, "C06: the private node stays with the builder for reuse (released by the destructor)"); \
    CHECK(rm->stringPool_.strings_ == head, "the pool list is unchanged"); \
  }

void h_builder_save(void) {
  SAVE_PRELUDE(StringBuilder)
  Node *r = StringBuilder__save(&b);
  COVER(hit); COVER(!hit && size0 < len0); COVER(!hit && size0 == len0); COVER(!hit && size0 == 0 && head != 0);
  SAVE_COMMON_CHECKS
  if (!hit) {
    CHECK(g_realloc_calls == 1, "the block is shrunk to fit with one reallocate");
    CHECK(r != 0, "shrinking cannot fail");
#ifdef CANARY_BUILDER_SAVE
    CHECK((uint64_t)r->length == size0 + (size0 == 3) && ledger_size(r, GONE) == spec_block_size(size0), "C19: the stored length is the string's size; block of size_+1+offsetof(data)");
#else
    CHECK((uint64_t)r->length == size0 && ledger_size(r, GONE) == spec_block_size(size0), "C19: the stored length is the string's size; block of size_+1+offsetof(data)");
#endif
    CHECK(r->data[size0] == 0 && (size0 == 0 || r->data[k] == ck), "characters kept, NUL at data[length]");
    CHECK(r->references == 1, "one user");
    CHECK(rm->stringPool_.strings_ == r && r->next == head, "the node is linked at the head of the pool");
    CHECK(b.node_ == 0, "C06: ownership moves to the pool: the builder forgets the node (no double release)");
  }
}

void h_buffer_save(void) {
  SAVE_PRELUDE(StringBuffer)
  Node *r = StringBuffer__save(&b);
  COVER(hit); COVER(!hit && size0 < len0); COVER(!hit && size0 == len0); COVER(!hit && size0 == 0 && head != 0);
  SAVE_COMMON_CHECKS
  if (!hit) {
    CHECK(g_realloc_calls == (size0 != len0 ? 1u : 0u), "the block is shrunk to fit iff it is larger than the string");
    CHECK(r != 0, "shrinking cannot fail");
#ifdef CANARY_BUFFER_SAVE
    CHECK((uint64_t)r->length == size0 + (size0 == 3) && ledger_size(r, GONE) == spec_block_size(size0), "C19: the stored length is the string's size; block of size_+1+offsetof(data)");
#else
    CHECK((uint64_t)r->length == size0 && ledger_size(r, GONE) == spec_block_size(size0), "C19: the stored length is the string's size; block of size_+1+offsetof(data)");
#endif
    CHECK(r->data[size0] == 0 && (size0 == 0 || r->data[k] == ck), "characters kept, NUL at data[length]");
    CHECK(r->references == 1, "one user");
    CHECK(rm->stringPool_.strings_ == r && r->next == head, "the node is linked at the head of the pool");
    CHECK(b.node_ == 0, "C06: ownership moves to the pool: the buffer forgets the node (no double release)");
  }
}
#endif

/* =================================================================================================================== */
#ifdef U_SETSTR
/* VariantData::setString(adapted, resources): the storage decision of C14.  saveString is taken by contract
 * (rm_strings/rm_string_entry_points + strpool_add/pool_add_str: null, or a pooled node holding a private copy of the
 * bytes at call time).  Precondition (the routine's disabled assert): type_ == Null, i.e. clear() was called first. */
static struct ResourceManager *g_rm;
static unsigned g_save_calls;
static Node *g_ret;
static char *g_arg_ptr;
static size_t g_arg_len;
Node *ResourceManager__saveString_SizedRamString(struct ResourceManager *self, struct SizedRamString str) {
  CHECK(self == g_rm, "the copy is made in the document's own resources");
  g_save_calls++; g_arg_ptr = str.str_; g_arg_len = str.size_;
  return g_ret;
}
Node *ResourceManager__saveString_StaticStringAdapter(struct ResourceManager *self, struct StaticStringAdapter str) {
  CHECK(0, "C14: a linked (static) string is never copied");
  return 0;
}
void h_var_setstring_copied(void) {
  struct ResourceManager *rm = malloc(sizeof *rm);
  __CPROVER_assume(rm != 0);
  g_rm = rm;
  struct VariantData v;
  v.type_ = 0;
  v.next_ = (__typeof__(v.next_))in_u32();
  __typeof__(v.next_) next0 = v.next_;
  char buf[2] = {'x', 0};
  _Bool null_str = in_bool();
  struct SizedRamString s;
  s.str_ = null_str ? (char *)0 : &buf[0];
  s.size_ = in_size();
  Node *some = mk_real_node(0, 1);
  g_ret = in_bool() ? some : 0;
  _Bool ok = VariantData__setString_SizedRamString(&v, s, rm);
  COVER(null_str); COVER(!null_str && ok); COVER(!null_str && !ok);
  CHECK(v.next_ == next0, "the slot's link is not touched");
  if (null_str) {
    CHECK(!ok && v.type_ == 0 && g_save_calls == 0, "C14: a null string is refused: false, value stays null, nothing stored");
  } else {
    CHECK(g_save_calls == 1 && g_arg_ptr == &buf[0] && g_arg_len == s.size_, "C14: a non-linked string is copied, once, with its full size");
    if (g_ret) {
#ifdef CANARY_SETSTR_COPIED
      CHECK(ok && v.type_ == 0x04 && (Node *)v.content_.asOwnedString == g_ret, "the variant owns the pooled copy (type OwnedString), not the caller's pointer");
#else
      CHECK(ok && v.type_ == 0x05 && (Node *)v.content_.asOwnedString == g_ret, "the variant owns the pooled copy (type OwnedString), not the caller's pointer");
#endif
    } else {
      CHECK(!ok && v.type_ == 0, "C05: when the copy cannot be made the result is false and the value stays null");
    }
  }
}
void h_var_setstring_linked(void) {
  struct ResourceManager *rm = malloc(sizeof *rm);
  __CPROVER_assume(rm != 0);
  g_rm = rm;
  struct VariantData v;
  v.type_ = 0;
  v.next_ = (__typeof__(v.next_))in_u32();
  __typeof__(v.next_) next0 = v.next_;
  char buf[2] = {'x', 0};
  _Bool null_str = in_bool();
  struct StaticStringAdapter s;
  s._b_ZeroTerminatedRamString.str_ = null_str ? (char *)0 : &buf[0];
  _Bool ok = VariantData__setString_StaticStringAdapter__StaticStringAdapter_ResourceManager_p(&v, s, rm);
  COVER(null_str); COVER(!null_str);
  CHECK(v.next_ == next0, "the slot's link is not touched");
  CHECK(g_save_calls == 0 && g_alloc_calls + g_realloc_calls + g_dealloc_calls == 0, "C14: a linked string costs no allocation and no copy");
  if (null_str) {
    CHECK(!ok && v.type_ == 0, "C14: a null string is refused: false, value stays null");
  } else {
#ifdef CANARY_SETSTR_LINKED
    CHECK(ok && v.type_ == 0x05 && (char *)v.content_.asLinkedString == &buf[0], "C14: the pointer itself is kept (type LinkedString)");
#else
    CHECK(ok && v.type_ == 0x04 && (char *)v.content_.asLinkedString == &buf[0], "C14: the pointer itself is kept (type LinkedString)");
#endif
  }
}
#endif

/* =================================================================================================================== */
#ifdef U_SETSTR_E2E
/* C14 end to end on the real code (no stub but the allocator): store a JsonString (the sized kind whose adapter decides
 * linked/copied at run time) with VariantData::setString, read it back with VariantData::asString.  Oracle = the property:
 * "same observable behaviour ... embedded NUL preserved for sized kinds ... a copied string is independent of its source".
 * Bounded: strings of 0..3 symbolic bytes (embedded NUL allowed), followed by a NUL; empty pool. */
void h_setstring_jsonstring(void) {
  struct Allocator *a = verif_allocator(0);
  struct ResourceManager *rm = malloc(sizeof *rm);
  __CPROVER_assume(rm != 0);
  rm->allocator_ = a;
  rm->overflowed_ = 0;
  rm->stringPool_.strings_ = 0;
  g_expected_allocator = a;
  char src[4];
  src[0] = in_char(); src[1] = in_char(); src[2] = in_char(); src[3] = 0;
  char c0 = src[0], c1 = src[1], c2 = src[2];
  size_t size = in_size();
  __CPROVER_assume(size <= 3);
  struct VariantData v;
  v.type_ = 0;
  v.next_ = 0;
#ifdef SETSTR_CSTR /* a copied zero-terminated string: its size is strlen */
  __CPROVER_assume((size < 1 || c0 != 0) && (size < 2 || c1 != 0) && (size < 3 || c2 != 0));
  src[size] = 0;
  struct ZeroTerminatedRamString s;
  s.str_ = src;
  _Bool ok = VariantData__setString_ZeroTerminatedRamString(&v, s, rm);
  COVER(ok && size == 3); COVER(ok && size == 0);
#else
  struct JsonStringAdapter s;
  s._b_SizedRamString.str_ = src;
  s._b_SizedRamString.size_ = size;
#if SCEN_LINKED
  s.linked_ = 1;
#else
  s.linked_ = 0;
#endif
  _Bool ok = VariantData__setString_JsonStringAdapter__JsonStringAdapter_ResourceManager_p(&v, s, rm);
  COVER(ok && size == 3); COVER(ok && size == 0); COVER(ok && size == 2 && c0 == 0);
#endif
#if SCEN_LINKED
  CHECK(ok && g_alloc_calls == 0, "C14: a linked string is kept by address: no allocation, cannot fail");
#else
  COVER(!ok);
  CHECK(g_alloc_calls == 1, "C14: a copied string costs exactly one block (empty pool)");
  if (!ok) CHECK(v.type_ == 0 && rm->overflowed_ && g_live_blocks == 0, "C05: failed copy => false, value stays null, overflowed() true");
#endif
  if (ok) {
    struct JsonString js = VariantData__asString(&v);
#ifdef CANARY_SETSTR_JS
    CHECK(js.size_ == size + (size == 1 && c1 == 0), "C14: the stored string has the size of the source (embedded NUL preserved for sized kinds)");
#else
    CHECK(js.size_ == size, "C14: the stored string has the size of the source (embedded NUL preserved for sized kinds)");
#endif
    if (js.size_ == size) {
      CHECK(size < 1 || js.data_[0] == c0, "C14: byte 0 equals the source");
      CHECK(size < 2 || js.data_[1] == c1, "C14: byte 1 equals the source");
      CHECK(size < 3 || js.data_[2] == c2, "C14: byte 2 equals the source");
    }
#if SCEN_LINKED
    CHECK(js.data_ == src, "C14: linked => the pointer itself is kept");
#else
    CHECK(js.data_ != src && g_live_blocks == 1, "C14: copied => a private block");
    src[0] = (char)(c0 ^ 1); src[1] = (char)(c1 ^ 1); src[2] = (char)(c2 ^ 1);
    struct JsonString js2 = VariantData__asString(&v);
    CHECK(js2.size_ == size && (size < 1 || js2.data_[0] == c0) && (size < 2 || js2.data_[1] == c1) && (size < 3 || js2.data_[2] == c2),
          "C14: a copied string is independent of its source once the call has returned");
    CHECK(js2.data_[size] == 0, "the copy is NUL-terminated");
#endif
  }
}
#endif

/* =================================================================================================================== */
#ifdef U_POOL_E2E
/* C06/C14 end to end on the real StringPool (real get / stringEquals / create / stringGetChars / dereference; only
 * the allocator is a stub): a pool holding one string A with refs0 users receives a string B, then users disappear.
 * Bounded: A and B of 0..2 symbolic bytes (embedded NUL allowed), pool of one node before the call.
 * (cbmc 6.11 note: the char data[1] trailing array is only modelled faithfully in blocks of NON-constant size, and indices
 * into it must not be literal constants > 0 -- hence `one`.) */
void h_pool_share_release(void) {
  struct StringPool sp;
  struct Allocator *a = verif_allocator(0);
  g_expected_allocator = a;
#ifdef POOL_E2E_CSTR
  char B[3];
#else
  char B[2];
#endif
  B[0] = in_char(); B[1] = in_char();
  size_t nA = in_size(), nB = in_size();
  __CPROVER_assume(nA <= 2 && nB <= 2);
#ifdef POOL_E2E_CSTR /* a zero-terminated source: nB = strlen(B) */
  __CPROVER_assume((nB < 1 || B[0] != 0) && (nB < 2 || B[1] != 0));
  B[nB] = 0;
#endif
  size_t one = 1 + (nA > 5);
  ref_t refs0 = (ref_t)in_u32();
  __CPROVER_assume(refs0 >= 1 && (uint64_t)refs0 < REF_MAX); /* WF_STRINGS + caller obligation L-C06 */
  Node *r1 = mk_real_node(nA, refs0);
  char a0 = in_char(), a1 = in_char();
  if (nA > 0) r1->data[one - 1] = a0;
  if (nA > 1) r1->data[one] = a1;
  r1->data[nA] = 0;
  sp.strings_ = r1;
  _Bool equal = nA == nB && (nA < 1 || a0 == B[0]) && (nA < 2 || a1 == B[1]);
#ifdef POOL_E2E_CSTR
  struct ZeroTerminatedRamString sB;
  sB.str_ = B;
  Node *r2 = StringPool__add_ZeroTerminatedRamString(&sp, sB, a);
  COVER(!equal && nA == 2 && nB == 1 && a0 == B[0] && a1 == 0); /* the pooled string continues behind a NUL where the C string ends */
#else
  struct SizedRamString sB;
  sB.str_ = B; sB.size_ = nB;
  Node *r2 = StringPool__add_SizedRamString(&sp, sB, a);
#endif
  COVER(equal && nA == 2); COVER(!equal && r2 != 0 && nA == nB && nA == 2); COVER(!equal && r2 == 0); COVER(equal && nA == 0); COVER(equal && refs0 == 1);
  COVER(!equal && nA == 2 && nB == 2 && a0 == B[0]);
#ifndef POOL_E2E_CSTR
  COVER(equal && nA == 2 && a0 == 0);
#endif
  if (equal) {
    CHECK(r2 == r1 && g_alloc_calls == 0 && g_live_blocks == 1, "C06: equal copied strings are stored once (no second allocation, cannot fail)");
#ifdef CANARY_POOL_E2E
    CHECK((uint64_t)r1->references == (uint64_t)refs0 + 1 + (nA == 1), "C06: the shared node counts one more user");
#else
    CHECK((uint64_t)r1->references == (uint64_t)refs0 + 1, "C06: the shared node counts one more user");
#endif
    StringPool__dereference(&sp, r2->data, a);
    CHECK(g_live_blocks == 1 && g_dealloc_calls == 0 && sp.strings_ == r1 && r1->references == refs0, "C14: removing one user leaves the others intact");
    CHECK((size_t)r1->length == nA && (nA < 1 || r1->data[one - 1] == a0) && (nA < 2 || r1->data[one] == a1) && r1->data[nA] == 0, "the remaining users still see their string");
    /* (the release of a shared node by its LAST user is pool_dereference; doing it here too cost cbmc > 100 s) */
  } else {
    CHECK(g_alloc_calls == 1, "a different string needs its own block");
    if (r2) {
      CHECK(r2 != r1 && g_live_blocks == 2 && r1->references == refs0 && r2->references == 1, "two nodes; the new one has one user");
      CHECK(sp.strings_ == r2 && r2->next == r1, "linked at the head");
      CHECK((size_t)r2->length == nB && (nB < 1 || r2->data[one - 1] == B[0]) && (nB < 2 || r2->data[one] == B[1]) && r2->data[nB] == 0, "C14: the copy equals its source");
      StringPool__dereference(&sp, r2->data, a);
      CHECK(g_live_blocks == 1 && g_dealloc_calls == 1 && sp.strings_ == r1 && r1->references == refs0, "C06: the copy is released with its only user; the other string stays pooled");
      CHECK((size_t)r1->length == nA && (nA < 1 || r1->data[one - 1] == a0) && (nA < 2 || r1->data[one] == a1), "C14: and intact");
    } else {
      CHECK(sp.strings_ == r1 && r1->next == 0 && r1->references == refs0 && g_live_blocks == 1, "C05: a failed add leaves the pool intact");
      CHECK((size_t)r1->length == nA && (nA < 1 || r1->data[one - 1] == a0) && (nA < 2 || r1->data[one] == a1), "C05: and its bytes unchanged");
    }
  }
}
#endif
