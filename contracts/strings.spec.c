/* String memory layer: StringNode, StringPool, ResourceManager string entry points, StringBuilder, StringBuffer,
 * VariantData::setString.  One section per unit (U_xxx define), each verified against the allocator stub of alloc.h that may
 * fail at EVERY call (all fault schedules) and keeps a ghost ledger of live blocks.
 * Oracles come from the property texts: C05 (failure reported, nothing corrupted), C06 (every block from/to the user's
 * allocator exactly once; equal copied strings stored once, released with the last user), C19 (lengths / reference counts
 * never wrap; cap checked BEFORE allocating), C14 (a copy is independent of its source; linked strings keep the pointer).
 * Modular units state the contract of every stubbed callee next to the stub and name the unit that proves it. */
#include "verif.h"
#include "config.h"

/* ghost state read by the loop contracts of strings.loops.json (must precede lowered.c) */
static size_t g_k;          /* witness index */
static char g_src_k;        /* source byte at the witness index, at call time */

#ifdef VERIF_NATIVE
#include "lowered_types.h"
#else
#include "lowered.c"
#endif
#include "alloc.h"

typedef struct StringNode Node;
typedef __typeof__(((Node *)0)->length) len_t;      /* StringNode::length_type of this configuration */
typedef __typeof__(((Node *)0)->references) ref_t;  /* StringNode::references_type (SlotId width) */
#define MAXLEN CFG_MAX_LEN                          /* 2^(8*STRING_LENGTH_SIZE)-1, from the property text */
#define REF_MAX ((uint64_t)(ref_t)-1)
#define DATA_OFF ((uint64_t)offsetof(Node, data))
/* the property's block size for a string of n characters: header + n bytes + NUL, computed without wrapping (n <= 2^32-1) */
static uint64_t spec_block_size(uint64_t n) { return DATA_OFF + n + 1; }

/* a well-formed node (WF_STRINGS of DESIGN 4.3) with a REAL block of sizeForLength(len) bytes, entered in the ledger */
static Node *mk_real_node(size_t len, ref_t refs) {
  Node *n = malloc(spec_block_size(len));
  __CPROVER_assume(n != 0);
  n->next = 0;
  n->references = refs;
  n->length = (len_t)len;
  ledger_add(n, spec_block_size(len));
  return n;
}

/* =================================================================================================================== */
#ifdef U_NODE
/* StringNode::create / resize / destroy -- the real routines, no stub but the allocator. */
void h_node_create(void) {
  size_t length = in_size();
  struct Allocator *a = verif_allocator(0);
  g_expected_allocator = a;
  Node *n = StringNode__create(length, a);
  COVER(n != 0); COVER(n != 0 && length == MAXLEN); COVER(n != 0 && length == 0);
  COVER(n == 0 && length <= MAXLEN); COVER(length == MAXLEN + 1); COVER(length == (size_t)-1);
  CHECK(g_dealloc_calls == 0 && g_realloc_calls == 0, "create only ever calls allocate");
  if (length > MAXLEN) {
    CHECK(n == 0, "C19: a length above maxLength is refused");
    CHECK(g_alloc_calls == 0, "C06: the length cap is checked BEFORE the allocator is asked (memory bound)");
  } else {
    CHECK(g_alloc_calls == 1, "exactly one block is requested");
    if (n) {
      CHECK(ledger_size(n, 0) == spec_block_size(length), "block size == length + 1 + offsetof(data)");
#ifdef CANARY_NODE_CREATE
      CHECK((uint64_t)n->length == length + (length == 7), "C19: the stored length equals the requested one (no truncation)");
#else
      CHECK((uint64_t)n->length == length, "C19: the stored length equals the requested one (no truncation)");
#endif
      CHECK(n->references == 1, "a new node has exactly one user");
      CHECK(g_live_blocks == 1, "one live block");
    } else {
      CHECK(g_live_blocks == 0, "C05: failed allocation => null and nothing live");
    }
  }
}

void h_node_resize(void) {
  size_t len0 = in_size(), len1 = in_size();
  __CPROVER_assume(len0 <= MAXLEN);
  ref_t refs = (ref_t)in_u32();
  struct Allocator *a = verif_allocator(0);
  g_expected_allocator = a;
  Node *n = mk_real_node(len0, refs);
  size_t k = in_size(); /* witness byte that both sizes contain */
  __CPROVER_assume(k <= len0 && k <= len1);
  char ck = in_char();
  n->data[k] = ck;
  Node *r = StringNode__resize(n, len1, a);
  COVER(len1 > MAXLEN); COVER(r != 0 && len1 > len0); COVER(r != 0 && len1 < len0); COVER(r == 0 && len1 <= MAXLEN);
  COVER(r != 0 && len1 == MAXLEN); COVER(r != 0 && len1 == len0);
  CHECK(g_alloc_calls == 0, "resize never calls allocate");
  if (len1 > MAXLEN) {
    CHECK(r == 0, "C19: a length above maxLength is refused");
    CHECK(g_realloc_calls == 0, "C06: the cap is checked before the allocator is asked to grow");
    CHECK(g_dealloc_calls == 1 && g_live_blocks == 0 && ledger_size(n, 77) == 77, "the node is released exactly once");
  } else {
    CHECK(g_realloc_calls == 1, "exactly one reallocate");
    if (r) {
      CHECK(g_dealloc_calls == 0 && g_live_blocks == 1, "success: one live block, nothing released");
      CHECK(ledger_size(r, 0) == spec_block_size(len1), "new block size == length + 1 + offsetof(data)");
#ifdef CANARY_NODE_RESIZE
      CHECK((uint64_t)r->length == len1 + (len1 == 3), "C19: the stored length equals the requested one");
#else
      CHECK((uint64_t)r->length == len1, "C19: the stored length equals the requested one");
#endif
      CHECK(r->references == refs, "resize keeps the reference count");
      CHECK(r->data[k] == ck, "bytes that fit both sizes are preserved");
    } else {
      CHECK(len1 > len0, "only a growing reallocate fails (assumption of the property, encoded by the stub)");
      CHECK(g_dealloc_calls == 1 && g_live_blocks == 0 && ledger_size(n, 77) == 77,
            "C05/C06: failed growth releases the old block exactly once");
    }
  }
}

void h_node_destroy(void) {
  size_t len0 = in_size();
  __CPROVER_assume(len0 <= MAXLEN);
  struct Allocator *a = verif_allocator(0);
  g_expected_allocator = a;
  Node *other = mk_real_node(0, 1);
  Node *n = mk_real_node(len0, (ref_t)in_u32());
  StringNode__destroy(n, a);
  COVER(1);
#ifdef CANARY_NODE_DESTROY
  CHECK(g_dealloc_calls == 1 + (len0 == 5), "destroy calls deallocate exactly once");
#else
  CHECK(g_dealloc_calls == 1, "destroy calls deallocate exactly once");
#endif
  CHECK(g_alloc_calls == 0 && g_realloc_calls == 0, "destroy requests nothing");
  CHECK(ledger_size(n, 77) == 77 && g_live_blocks == 1, "exactly that block left the ledger");
  CHECK(ledger_size(other, 77) == spec_block_size(0) && other->references == 1, "another node is untouched");
}
#endif
