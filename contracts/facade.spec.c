/* Document life cycle ("facade"): ResourceManager clear / destructor / shrinkToFit / swap, JsonDocument constructors, destructor,
 * clear, operator=, swap, set, and doDeserialize (the destination is cleared before the parser runs).
 *
 * C06 "no leak: every block obtained from the allocator is returned by the time the document is destroyed/cleared, whatever the
 *      history"; every release goes to the allocator that issued the block, exactly once.
 * C05 "a failing allocation leaves the document valid and is reported".
 * C01 "whatever the destination held before is entirely replaced" (doDeserialize clears before parse()).
 * C04 the public operations behave like their value model (swap/move transfer the COMPLETE state, clear() gives the null document).
 *
 * Two kinds of units (one #ifdef section each; units/facade.json):
 *   modular (class U, or B where a source list is bounded): the routine under contract runs against STUBS that implement the
 *            contracts of its callees; each stub names the obligation that proves that contract for the real callee.
 *            facade_rm, facade_deser_mod (any state), facade_doc_copy, facade_deser, facade_copy_containers, facade_setstring_alias.
 *   e2e (class B):     the same routines with their REAL callees down to the allocator stub of alloc.h, from a bounded but
 *            otherwise arbitrary concrete state (<= NP pools with real slot blocks, inline or heap pool table, <= 2 pooled
 *            strings); "whatever the history" is the induction over operations of facade_rm_step (one arbitrary operation on
 *            an arbitrary bounded state keeps ledger == census; clear()/destruction returns the census).
 *            facade_rm_e2e, facade_rm_step, facade_doc_e2e, facade_deepcopy, facade_variant_copy, facade_poollist_move.
 * Oracles: the ledger of alloc.h (g_live_blocks, call counters, the allocator every call must use), CBMC's own double-free /
 * use-after-free checks on the malloc'ed blocks, and the abstract view "a manager is EMPTY iff no string, no pool, inline table of
 * the initial capacity, empty free list" written below from the property text -- never a copy of the code. */
#include "verif.h"
#include "config.h"
#ifdef VERIF_NATIVE
#include "lowered_types.h"
#else
#include "lowered.c"
#endif
#ifdef NO_ALLOCATOR_TYPE /* units whose lowered text never mentions the allocator */
struct Allocator { void *_vptr; };
#endif
#define ALLOC_SHRINK_IN_PLACE 1
/* one watched block: was it handed back to the allocator?  (alloc.h releases through free(); the hook records it) */
static void *g_watch_block;
static _Bool g_watch_freed;
static void facade_free(void *p) { if (p != 0 && p == g_watch_block) g_watch_freed = 1; free(p); }
#define free(p) facade_free(p)
#include "alloc.h"
#undef free
#include "poollist_common.h"

/* Managers and documents of the harnesses are NAMED (static) objects, not malloc'ed ones: CBMC propagates constants through the
 * fields of named objects (the visitor dispatch of a copy collapses to the one reachable case: formulas 60x smaller). */
typedef struct ResourceManager RM;
typedef struct StringNode Node;
typedef struct VariantData VD;
#define GONE ((size_t)-1)

/* ---- abstract views (from the property text) -------------------------------------------------------------------------------- */
/* EMPTY manager: owns no block; the pool table is the inline one with its initial capacity; nothing on the free list.
 * This is the state a freshly constructed manager has, hence "usable again as soon as allocation succeeds". */
static _Bool list_is_initial(const PoolList *l) {
  return l->count_ == 0 && (uint64_t)l->freeList_ == CFG_NULL_SLOT && l->pools_ == l->preallocatedPools_ && (uint64_t)l->capacity_ == CFG_INITIAL;
}
#ifndef U_POOLLIST_MOVE /* (that unit's lowered text has the pool table only) */
static _Bool rm_is_empty(const RM *r) { return r->stringPool_.strings_ == 0 && list_is_initial(&r->variantPools_); }
static uint64_t vd_bits(const VD *v) { uint64_t b = 0; memcpy(&b, &v->content_, sizeof v->content_ < 8 ? sizeof v->content_ : 8); return b; }
static _Bool vd_same(const VD *a, const VD *b) { return a->type_ == b->type_ && a->next_ == b->next_ && vd_bits(a) == vd_bits(b); }
static void vd_havoc(VD *v) {
  uint64_t b = in_u64();
  memcpy(&v->content_, &b, sizeof v->content_ < 8 ? sizeof v->content_ : 8);
  v->type_ = in_u8();
  v->next_ = (__typeof__(v->next_))in_u32();
}
#endif

/* =============================================================================================================================
 * unit facade_rm (modular, class U): ResourceManager::clear / ~ResourceManager / shrinkToFit / swap / constructor against the
 * contracts of MemoryPoolList::clear, MemoryPoolList::shrinkToFit, StringPool::clear and swap(MemoryPoolList&, MemoryPoolList&).
 * The manager's fields are fully symbolic (any pool table bytes, any string list pointer).  What the lists own is abstracted by
 * ghost counters: g_pool_blocks[k] / g_str_blocks[k] blocks issued by g_issuer[k] are owned by the content that started in
 * manager k; the stubs release them in the ledger exactly as their proved contracts say. */
#ifdef U_RM
static RM *g_rm[2];
static unsigned g_pool_blocks[2], g_str_blocks[2];      /* blocks owned by the pool list / string list CONTENT k */
static struct Allocator *g_issuer[2];                   /* allocator that issued the blocks of content k */
static unsigned g_list_content[2], g_str_content[2];    /* which content manager k currently holds (swap exchanges them) */
static unsigned g_seq, g_lc_calls, g_lc_at, g_sc_calls, g_sc_at, g_ls_calls, g_lswap_calls;
static int which_list(const PoolList *l) { return l == &g_rm[0]->variantPools_ ? 0 : (g_rm[1] && l == &g_rm[1]->variantPools_) ? 1 : -1; }
static int which_pool(const struct StringPool *p) { return p == &g_rm[0]->stringPool_ ? 0 : (g_rm[1] && p == &g_rm[1]->stringPool_) ? 1 : -1; }

/* contract of MemoryPoolList::clear [proved: poollist_clear/list_clear_inline, list_clear_heap; MemoryPool::destroy:
 * mempool/pool_destroy]: every pool block and a heap table are released exactly once through the allocator passed, nothing is
 * requested, the list is back in its initial state. */
void MemoryPoolList_ResourceManager__SlotData__clear(PoolList *self, struct Allocator *allocator) {
  int k = which_list(self);
  CHECK(k >= 0, "the pool list that is cleared is the manager's own");
  if (k < 0) return;
  unsigned c = g_list_content[k];
  CHECK(allocator == g_issuer[c], "C06: the pool blocks are released through the allocator that issued them");
  g_lc_calls++; g_lc_at = ++g_seq;
  g_live_blocks -= (int)g_pool_blocks[c]; g_dealloc_calls += g_pool_blocks[c]; g_pool_blocks[c] = 0;
  self->count_ = 0; self->freeList_ = (__typeof__(self->freeList_))CFG_NULL_SLOT;
  self->pools_ = self->preallocatedPools_; self->capacity_ = (__typeof__(self->capacity_))CFG_INITIAL;
}
/* contract of StringPool::clear [proved: strpool/pool_clear (lists of <= 3 nodes, class B); StringNode::destroy:
 * strnode/node_destroy]: every node is released exactly once through the allocator passed; the pool is empty afterwards. */
void StringPool__clear(struct StringPool *self, struct Allocator *allocator) {
  int k = which_pool(self);
  CHECK(k >= 0, "the string pool that is cleared is the manager's own");
  if (k < 0) return;
  unsigned c = g_str_content[k];
  CHECK(allocator == g_issuer[c], "C06: the string blocks are released through the allocator that issued them");
  g_sc_calls++; g_sc_at = ++g_seq;
  g_live_blocks -= (int)g_str_blocks[c]; g_dealloc_calls += g_str_blocks[c]; g_str_blocks[c] = 0;
  self->strings_ = 0;
}
/* contract of MemoryPoolList::shrinkToFit [proved: poollist_clear/list_shrinkToFit_inline, list_shrinkToFit_heap;
 * mempool/pool_shrinkToFit]: only reallocations through the allocator passed, no block is gained or lost, count_ and every
 * entry below count_ keep designating the same slots; the capacity may drop to count_. */
void MemoryPoolList_ResourceManager__SlotData__shrinkToFit(PoolList *self, struct Allocator *allocator) {
  int k = which_list(self);
  CHECK(k >= 0, "the pool list that is shrunk is the manager's own");
  if (k < 0) return;
  CHECK(allocator == g_issuer[g_list_content[k]], "C06: blocks are reallocated through the allocator that issued them");
  g_ls_calls++; ++g_seq;
  if (self->pools_ != self->preallocatedPools_ && self->count_ != self->capacity_) self->capacity_ = self->count_;
}
/* contract of swap(MemoryPoolList&, MemoryPoolList&) [proved: poollist_swap/list_swap]: the COMPLETE state is exchanged (count,
 * capacity, free list, every entry below count); inline tables stay inline in their new owner, heap tables move by pointer. */
void swap__MemoryPoolList_ResourceManager__SlotData_r_MemoryPoolList_ResourceManager__SlotData_r(PoolList *a, PoolList *b) {
  CHECK(which_list(a) == 0 && which_list(b) == 1, "the two pool lists that are swapped are those of the two managers, in order");
  g_lswap_calls++; ++g_seq;
  _Bool ia = a->pools_ == a->preallocatedPools_, ib = b->pools_ == b->preallocatedPools_;
  Pool *pa = a->pools_, *pb = b->pools_;
  for (unsigned i = 0; i < CFG_INITIAL; i++) { Pool t = a->preallocatedPools_[i]; a->preallocatedPools_[i] = b->preallocatedPools_[i]; b->preallocatedPools_[i] = t; }
  a->pools_ = ib ? a->preallocatedPools_ : pb;
  b->pools_ = ia ? b->preallocatedPools_ : pa;
  { __typeof__(a->count_) t = a->count_; a->count_ = b->count_; b->count_ = t; }
  { __typeof__(a->capacity_) t = a->capacity_; a->capacity_ = b->capacity_; b->capacity_ = t; }
  { __typeof__(a->freeList_) t = a->freeList_; a->freeList_ = b->freeList_; b->freeList_ = t; }
  { unsigned t = g_list_content[0]; g_list_content[0] = g_list_content[1]; g_list_content[1] = t; }
}

/* any manager: allocator i, symbolic flag, symbolic string-list pointer, symbolic pool-list fields (table kind included) */
static RM *mk_any_rm(int k, struct Allocator *a) {
  static RM s_rm[2];
  RM *r = &s_rm[k & 1];
  r->allocator_ = a;
  r->overflowed_ = in_bool();
  r->stringPool_.strings_ = (Node *)(uintptr_t)in_u64();
  PoolList *l = &r->variantPools_;
  for (unsigned i = 0; i < CFG_INITIAL; i++) {
    l->preallocatedPools_[i].slots_ = (SlotData *)(uintptr_t)in_u64();
    l->preallocatedPools_[i].capacity_ = (__typeof__(l->preallocatedPools_[i].capacity_))in_u32();
    l->preallocatedPools_[i].usage_ = (__typeof__(l->preallocatedPools_[i].usage_))in_u32();
  }
  l->pools_ = in_bool() ? l->preallocatedPools_ : (Pool *)(uintptr_t)in_u64();
  l->count_ = (__typeof__(l->count_))in_u32();
  l->capacity_ = (__typeof__(l->capacity_))in_u32();
  l->freeList_ = (__typeof__(l->freeList_))in_u32();
  g_rm[k] = r;
  g_issuer[k] = a;
  g_pool_blocks[k] = in_u16();
  g_str_blocks[k] = in_u16();
  __CPROVER_assume((r->stringPool_.strings_ == 0) == (g_str_blocks[k] == 0)); /* WF_STRINGS: a non-empty list owns its nodes */
  g_list_content[k] = g_str_content[k] = (unsigned)k;
  return r;
}
static void rm_ghost_reset(void) {
  alloc_reset();
  g_rm[0] = g_rm[1] = 0;
  g_seq = g_lc_calls = g_lc_at = g_sc_calls = g_sc_at = g_ls_calls = g_lswap_calls = 0;
  for (int k = 0; k < 2; k++) { g_pool_blocks[k] = g_str_blocks[k] = 0; g_issuer[k] = 0; g_list_content[k] = g_str_content[k] = (unsigned)k; }
}

void h_rm_clear(void) {
  rm_ghost_reset();
  struct Allocator *a = verif_allocator(in_u8() & 1);
  RM *r = mk_any_rm(0, a);
  int foreign = (int)in_u16(); /* blocks of other documents sharing the allocator */
  g_live_blocks = foreign + (int)g_pool_blocks[0] + (int)g_str_blocks[0];
  unsigned owned = g_pool_blocks[0] + g_str_blocks[0];
  _Bool was_over = r->overflowed_;
  ResourceManager__clear(r);
  COVER(was_over && owned > 0); COVER(!was_over && owned == 0); COVER(r->variantPools_.pools_ == r->variantPools_.preallocatedPools_ && foreign > 0);
  CHECK(g_lc_calls == 1 && g_sc_calls == 1, "C06: clear() releases the pool list and the string pool, each exactly once");
#ifdef CANARY_RM_CLEAR
  CHECK(g_live_blocks == foreign + (owned == 3), "C06: after clear() every block the manager owned is back with the allocator; blocks of other documents are untouched");
#else
  CHECK(g_live_blocks == foreign, "C06: after clear() every block the manager owned is back with the allocator; blocks of other documents are untouched");
#endif
  CHECK(g_dealloc_calls == owned && g_alloc_calls == 0 && g_realloc_calls == 0, "C06: exactly the owned blocks are released, nothing is requested");
  CHECK(rm_is_empty(r), "C05/C06: after clear() the manager is EMPTY (no string, no pool, inline table, empty free list): usable again");
  CHECK(r->overflowed_ == 0, "C05: clear() resets the overflowed report (the next report speaks about the new content)");
  CHECK(r->allocator_ == a, "clear() keeps the document's allocator");
}

void h_rm_dtor(void) {
  rm_ghost_reset();
  struct Allocator *a = verif_allocator(in_u8() & 1);
  RM *r = mk_any_rm(0, a);
  int foreign = (int)in_u16();
  g_live_blocks = foreign + (int)g_pool_blocks[0] + (int)g_str_blocks[0];
  unsigned owned = g_pool_blocks[0] + g_str_blocks[0];
  ResourceManager__dtor(r);
  COVER(owned > 0 && foreign > 0); COVER(owned == 0);
  CHECK(g_lc_calls == 1 && g_sc_calls == 1, "C06: the destructor releases the pool list and the string pool, each exactly once");
#ifdef CANARY_RM_DTOR
  CHECK(g_live_blocks == foreign && owned != 2, "C06: after destruction every block the manager owned is back with the allocator");
#else
  CHECK(g_live_blocks == foreign, "C06: after destruction every block the manager owned is back with the allocator");
#endif
  CHECK(g_dealloc_calls == owned && g_alloc_calls == 0 && g_realloc_calls == 0, "C06: exactly the owned blocks are released, nothing is requested");
  CHECK(r->stringPool_.strings_ == 0 && r->variantPools_.count_ == 0, "the member destructors' own precondition holds (no string, no pool left)");
}

void h_rm_shrink(void) {
  rm_ghost_reset();
  struct Allocator *a = verif_allocator(in_u8() & 1);
  RM *r = mk_any_rm(0, a);
  g_live_blocks = (int)g_pool_blocks[0] + (int)g_str_blocks[0];
  int live0 = g_live_blocks;
  RM before = *r;
  ResourceManager__shrinkToFit(r);
  COVER(before.overflowed_); COVER(before.variantPools_.count_ > 0);
#ifdef CANARY_RM_SHRINK
  CHECK(g_ls_calls == 1 && g_lc_calls == 1, "shrinkToFit() shrinks the pool list once and releases nothing");
#else
  CHECK(g_ls_calls == 1 && g_lc_calls == 0 && g_sc_calls == 0, "shrinkToFit() shrinks the pool list once and releases nothing");
#endif
  CHECK(g_live_blocks == live0 && g_dealloc_calls == 0 && g_alloc_calls == 0, "C06: shrinkToFit() neither gains nor loses a block");
  CHECK(r->allocator_ == a && r->overflowed_ == before.overflowed_ && r->stringPool_.strings_ == before.stringPool_.strings_,
        "C04: shrinkToFit() changes no observable state (allocator, overflowed report, strings)");
  CHECK(r->variantPools_.count_ == before.variantPools_.count_ && r->variantPools_.freeList_ == before.variantPools_.freeList_, "C04: slot ids keep designating the same slots");
}

void h_rm_ctor(void) {
  rm_ghost_reset();
  struct Allocator *a = verif_allocator(in_u8() & 3);
  static RM s_r;
  RM *r = &s_r;
  g_rm[0] = r;
  ResourceManager__ctor__Allocator_p(r, a);
  COVER(a == verif_allocator(2));
#ifdef CANARY_RM_CTOR
  CHECK(rm_is_empty(r) && r->variantPools_.capacity_ == 0, "a new manager is EMPTY");
#else
  CHECK(rm_is_empty(r), "a new manager is EMPTY");
#endif
  CHECK(r->allocator_ == a && r->overflowed_ == 0, "a new manager uses the given allocator and reports no overflow");
  CHECK(g_alloc_calls == 0 && g_live_blocks == 0, "C06: construction requests nothing (fixed overhead only)");
  CHECK(ResourceManager__overflowed(r) == 0 && ResourceManager__allocator(r) == a, "the accessors report that state");
}

void h_rm_swap(void) {
  rm_ghost_reset();
  struct Allocator *aa = verif_allocator(0), *ab = verif_allocator(in_u8() & 1); /* same or different allocators */
  RM *a = mk_any_rm(0, aa), *b = mk_any_rm(1, ab);
  g_live_blocks = (int)(g_pool_blocks[0] + g_str_blocks[0] + g_pool_blocks[1] + g_str_blocks[1]);
  int live0 = g_live_blocks;
  _Bool oa = a->overflowed_, ob = b->overflowed_;
  Node *sa = a->stringPool_.strings_, *sb = b->stringPool_.strings_;
  swap__ResourceManager_r_ResourceManager_r(a, b);
  { unsigned t = g_str_content[0]; g_str_content[0] = g_str_content[1]; g_str_content[1] = t; } /* the string lists are exchanged by pointer (checked below) */
  COVER(aa != ab && oa != ob); COVER(aa == ab); COVER(sa == 0 && sb != 0);
  CHECK(g_lswap_calls == 1, "the pool lists are exchanged exactly once");
#ifdef CANARY_RM_SWAP
  CHECK(a->allocator_ == ab && b->allocator_ == aa && a->overflowed_ == ob && b->overflowed_ == (oa || sa == 0), "C04/C06: swap exchanges the COMPLETE state: allocator, overflowed report, strings");
#else
  CHECK(a->allocator_ == ab && b->allocator_ == aa && a->overflowed_ == ob && b->overflowed_ == oa, "C04/C06: swap exchanges the COMPLETE state: allocator, overflowed report, strings");
#endif
  CHECK(a->stringPool_.strings_ == sb && b->stringPool_.strings_ == sa, "C04/C06: swap exchanges the COMPLETE state: allocator, overflowed report, strings");
  CHECK(g_live_blocks == live0 && g_alloc_calls + g_dealloc_calls + g_realloc_calls == 0, "C06: swap never calls an allocator");
  CHECK(a->allocator_ == g_issuer[g_list_content[0]] && a->allocator_ == g_issuer[g_str_content[0]] &&
        b->allocator_ == g_issuer[g_list_content[1]] && b->allocator_ == g_issuer[g_str_content[1]],
        "C06: after swap each manager holds the allocator that issued the blocks it now owns");
  /* no double release, no leak when both are destroyed afterwards */
  ResourceManager__dtor(a);
  ResourceManager__dtor(b);
  CHECK(g_live_blocks == 0 && g_lc_calls == 2 && g_sc_calls == 2, "C06: destroying both managers after a swap returns every block exactly once");
}
#endif /* U_RM */

/* =============================================================================================================================
 * bounded concrete managers (class B), shared by the e2e units: <= NP pools, each with a REAL slot block entered in the ledger,
 * inline table (SCEN_HEAP=0) or heap table (SCEN_HEAP=1, capacity any value in (INITIAL, K], block of K entries), <= NSTR pooled
 * string nodes with real blocks, symbolic free list / usages / overflowed flag.  Table entries at or above count_ hold arbitrary
 * bytes (MemoryPool has no constructor).  Slot contents are arbitrary: none of the life-cycle routines reads a slot. */
#if defined(U_RM_E2E) || defined(U_RM_STEP) || defined(U_DOC_E2E) || defined(U_DOC_COPY) || defined(U_DESER)
#ifndef NP
#define NP 3
#endif
#ifndef NSTR
#define NSTR 2
#endif
typedef struct { void *pool_blk[NP]; void *tab_blk; Node *str[NSTR]; unsigned np, ns; _Bool heap; } Owned;
static Node *mk_str_node(void) {
  Node *n = malloc(sizeof(Node));
  __CPROVER_assume(n != 0);
  n->next = 0;
  n->references = (__typeof__(n->references))in_u32();
  __CPROVER_assume(n->references >= 1); /* WF_STRINGS: a pooled node has at least one user */
  n->length = (__typeof__(n->length))in_u32();
  ledger_add(n, sizeof(Node));
  return n;
}
static void mk_rm_inplace(RM *r, struct Allocator *a, _Bool heap, Owned *o) {
  r->allocator_ = a;
  r->overflowed_ = in_bool();
  o->ns = in_u8();
  __CPROVER_assume(o->ns <= NSTR);
  o->str[0] = o->str[1] = 0;
  if (o->ns > 0) o->str[0] = mk_str_node();
  if (o->ns > 1) { o->str[1] = mk_str_node(); o->str[0]->next = o->str[1]; }
  r->stringPool_.strings_ = o->str[0];
  PoolList *l = &r->variantPools_;
  o->heap = heap;
  o->tab_blk = 0;
  /* entries at or above count_ are stale: arbitrary counters; their block pointer is null in the first entries (what destroy()
   * leaves behind) -- a symbolic pointer there makes CBMC case-split free() over every object in unwound iterations that the
   * loop bound excludes anyway */
  for (unsigned i = 0; i < CFG_INITIAL; i++) {
    l->preallocatedPools_[i].slots_ = 0;
    l->preallocatedPools_[i].capacity_ = (__typeof__(l->preallocatedPools_[i].capacity_))in_u32();
    l->preallocatedPools_[i].usage_ = (__typeof__(l->preallocatedPools_[i].usage_))in_u32();
  }
  unsigned cap = (unsigned)CFG_INITIAL;
  if (heap) {
    cap = in_u32();
    __CPROVER_assume(heap_cap_k > CFG_INITIAL && cap > CFG_INITIAL && cap <= heap_cap_k);
    l->pools_ = malloc((size_t)heap_cap_k * sizeof(Pool));
    __CPROVER_assume(l->pools_ != 0);
    ledger_add(l->pools_, (size_t)heap_cap_k * sizeof(Pool));
    o->tab_blk = l->pools_;
    for (unsigned i = 0; i < NP + 3 && i < heap_cap_k; i++) {
      l->pools_[i].slots_ = 0;
      l->pools_[i].capacity_ = (__typeof__(l->pools_[i].capacity_))in_u32();
      l->pools_[i].usage_ = (__typeof__(l->pools_[i].usage_))in_u32();
    }
  } else {
    l->pools_ = l->preallocatedPools_;
  }
  o->np = in_u8();
  __CPROVER_assume(o->np <= NP && o->np <= cap && o->np <= MAXPOOLS);
  for (unsigned i = 0; i < NP; i++) {
    o->pool_blk[i] = 0;
    if (i < o->np) {
      unsigned pcap = in_u32(), use = in_u32();
      __CPROVER_assume(pcap >= 1 && pcap <= pool_cap_limit(i) && use >= 1 && use <= pcap); /* WF_LIST per pool; a pool with a block served at least one slot */
      Pool *p = &l->pools_[i];
      p->capacity_ = (__typeof__(p->capacity_))pcap;
      p->usage_ = (__typeof__(p->usage_))use;
      p->slots_ = malloc((size_t)POOL_WINDOW * sizeof(SlotData));
      __CPROVER_assume(p->slots_ != 0);
      ledger_add(p->slots_, (size_t)POOL_WINDOW * sizeof(SlotData));
      o->pool_blk[i] = p->slots_;
    }
  }
  l->count_ = (__typeof__(l->count_))o->np;
  l->capacity_ = (__typeof__(l->capacity_))cap;
  l->freeList_ = (__typeof__(l->freeList_))in_u32();
}
static unsigned owned_blocks(const Owned *o) { return o->np + o->ns + (o->heap ? 1u : 0u); }
/* a manager is VALID (usable by every operation): table fields as WF_LIST says, every pool below count_ either has a block or
 * capacity 0 (a pool whose block could not be allocated), usage within capacity */
static _Bool rm_valid(const RM *r) {
  const PoolList *l = &r->variantPools_;
  if (!wf_list_fields(l) || l->pools_ == 0) return 0;
  _Bool ok = 1;
  for (unsigned i = 0; i < NP + 1; i++)
    if (i < l->count_ && !(l->pools_[i].usage_ <= l->pools_[i].capacity_ && (l->pools_[i].capacity_ == 0 || l->pools_[i].slots_ != 0) && l->pools_[i].capacity_ <= pool_cap_limit(i))) ok = 0;
  return ok;
}
#endif

/* =============================================================================================================================
 * unit facade_rm_e2e (class B): the REAL ResourceManager::clear / destructor / swap / shrinkToFit with their REAL callees
 * (MemoryPoolList::clear, MemoryPool::destroy, StringPool::clear, StringNode::destroy, swap(MemoryPoolList&..), allocVariant ...)
 * down to the allocator stub. */
#ifdef U_RM_E2E
#ifndef SCEN_HEAP
#define SCEN_HEAP 0
#endif
void h_e2e_clear(void) {
  alloc_reset();
  struct Allocator *a = verif_allocator(in_u8() & 1);
  g_expected_allocator = a;
  static RM s_r;
  RM *r = &s_r;
  Owned o;
  mk_rm_inplace(r, a, SCEN_HEAP, &o);
  void *foreign = malloc(8); /* a block of ANOTHER document using the same allocator */
  __CPROVER_assume(foreign != 0);
  ledger_add(foreign, 8);
  unsigned owned = owned_blocks(&o);
  _Bool dtor = in_bool();
  if (dtor) ResourceManager__dtor(r); else ResourceManager__clear(r);
  COVER(o.np == NP && o.ns == NSTR && dtor); COVER(o.np == 0 && o.ns == 0 && !dtor); COVER(o.np == 1 && o.ns == 1 && !dtor);
#ifdef CANARY_E2E_CLEAR
  CHECK(g_live_blocks == 1 + (o.np == 2 && o.ns == 1), "C06: after clear()/destruction every block the manager owned is back with the allocator; a block of another document stays live");
#else
  CHECK(g_live_blocks == 1 && ledger_size(foreign, GONE) == 8, "C06: after clear()/destruction every block the manager owned is back with the allocator; a block of another document stays live");
#endif
  CHECK(g_dealloc_calls == owned && g_alloc_calls == 0 && g_realloc_calls == 0, "C06: exactly the owned blocks are released (each once: CBMC's double-free check), nothing is requested");
  CHECK(rm_is_empty(r), "C05/C06: after clear()/destruction the manager is EMPTY (no string, no pool, inline table of the initial capacity, empty free list)");
  CHECK(r->allocator_ == a, "the allocator is kept");
  if (!dtor) CHECK(r->overflowed_ == 0, "C05: clear() resets the overflowed report");
}

/* "usable again" (class U: the EMPTY state has no list to bound): from ANY empty manager -- the state clear(), the destructor and
 * the constructor establish (e2e_clear_*, rm_ctor) -- with arbitrary stale table entries, the next allocation hands out slot 0 of
 * a fresh pool, or fails cleanly and is reported; a following clear() returns the new block. */
void h_e2e_reuse(void) {
  alloc_reset();
  struct Allocator *a = verif_allocator(in_u8() & 1);
  g_expected_allocator = a;
  static RM s_r;
  RM *r = &s_r;
  r->allocator_ = a;
  r->overflowed_ = 0;
  r->stringPool_.strings_ = 0;
  PoolList *l = &r->variantPools_;
  for (unsigned i = 0; i < CFG_INITIAL; i++) {
    l->preallocatedPools_[i].slots_ = (SlotData *)(uintptr_t)in_u64();
    l->preallocatedPools_[i].capacity_ = (__typeof__(l->preallocatedPools_[i].capacity_))in_u32();
    l->preallocatedPools_[i].usage_ = (__typeof__(l->preallocatedPools_[i].usage_))in_u32();
  }
  l->pools_ = l->preallocatedPools_;
  l->count_ = 0;
  l->capacity_ = (__typeof__(l->capacity_))CFG_INITIAL;
  l->freeList_ = (__typeof__(l->freeList_))CFG_NULL_SLOT;
  struct Slot_VariantData s = ResourceManager__allocVariant(r);
  COVER(s.ptr_ != 0); COVER(s.ptr_ == 0);
  CHECK(wf_list_fields(l) && l->pools_ == l->preallocatedPools_, "C05: the pool table stays well formed after the allocation, failed or not");
  if (s.ptr_) {
#ifdef CANARY_E2E_REUSE
    CHECK(s.id_ == 1 && l->count_ == 1 && g_live_blocks == 1 && !r->overflowed_, "after clear() the first slot handed out is slot 0 of a fresh pool");
#else
    CHECK(s.id_ == 0 && l->count_ == 1 && g_live_blocks == 1 && !r->overflowed_, "after clear() the first slot handed out is slot 0 of a fresh pool");
#endif
    CHECK(s.ptr_ == &l->pools_[0].slots_[0].variant && l->pools_[0].usage_ == 1 && (uint64_t)l->pools_[0].capacity_ == pool_cap_limit(0), "the slot is the first of a pool of the configured capacity");
    CHECK(s.ptr_->type_ == 0 && (uint64_t)s.ptr_->next_ == CFG_NULL_SLOT, "C04: a fresh variant is null and detached");
  } else {
    CHECK(g_alloc_failures == 1 && r->overflowed_ && g_live_blocks == 0, "C05: a failing allocation is reported (overflowed) and nothing leaks");
    CHECK(l->count_ <= 1 && (l->count_ == 0 || (l->pools_[0].slots_ == 0 && l->pools_[0].capacity_ == 0)), "C05: a pool whose block could not be obtained is an empty pool");
  }
  ResourceManager__clear(r);
  CHECK(g_live_blocks == 0 && rm_is_empty(r) && !r->overflowed_, "C06: clear() after reuse returns the new block too");
}

/* swap of two managers (different allocators allowed), then both are destroyed: every block goes back exactly once, to the
 * allocator that issued it; the table kinds (inline/heap) of the two are independent. */
void h_e2e_swap_destroy(void) {
  alloc_reset();
  g_expected_allocator = 0;
  struct Allocator *aa = verif_allocator(0), *ab = verif_allocator(in_u8() & 1);
  static RM s_a, s_b;
  RM *a = &s_a, *b = &s_b;
  Owned oa, ob;
  _Bool ha = in_bool(), hb = in_bool();
  mk_rm_inplace(a, aa, ha, &oa);
  mk_rm_inplace(b, ab, hb, &ob);
  RM a0 = *a, b0 = *b;
  unsigned j = in_u8();
  __CPROVER_assume(j < NP);
  swap__ResourceManager_r_ResourceManager_r(a, b);
  COVER(ha && !hb && oa.np == 2 && ob.np == 1); COVER(!ha && !hb && oa.np == NP); COVER(ha && hb); COVER(aa != ab && oa.ns == 2 && ob.ns == 0);
  CHECK(g_alloc_calls + g_dealloc_calls + g_realloc_calls == 0, "C06: swap never calls an allocator");
#ifdef CANARY_E2E_SWAP
  CHECK(a->allocator_ == ab && b->allocator_ == aa && a->overflowed_ == b0.overflowed_ && b->overflowed_ == a0.overflowed_ && oa.np != 2,
        "C04/C06: swap exchanges the COMPLETE state: allocator, overflowed report");
#else
  CHECK(a->allocator_ == ab && b->allocator_ == aa && a->overflowed_ == b0.overflowed_ && b->overflowed_ == a0.overflowed_,
        "C04/C06: swap exchanges the COMPLETE state: allocator, overflowed report");
#endif
  CHECK(a->stringPool_.strings_ == ob.str[0] && b->stringPool_.strings_ == oa.str[0], "C04/C06: swap exchanges the string lists");
  CHECK(a->variantPools_.count_ == ob.np && b->variantPools_.count_ == oa.np && a->variantPools_.capacity_ == b0.variantPools_.capacity_ &&
        b->variantPools_.capacity_ == a0.variantPools_.capacity_ && a->variantPools_.freeList_ == b0.variantPools_.freeList_ && b->variantPools_.freeList_ == a0.variantPools_.freeList_,
        "C04/C06: swap exchanges count, capacity and free list of the pool tables");
  CHECK((a->variantPools_.pools_ == a->variantPools_.preallocatedPools_) == !hb && (b->variantPools_.pools_ == b->variantPools_.preallocatedPools_) == !ha,
        "inline tables stay inline in their new owner (no pointer into the other manager), heap tables move by pointer");
  if (j < ob.np) CHECK(a->variantPools_.pools_[j].slots_ == ob.pool_blk[j], "C04: every pool block of b is now a pool of a, at the same index (slot ids keep designating the same slots)");
  if (j < oa.np) CHECK(b->variantPools_.pools_[j].slots_ == oa.pool_blk[j], "C04: every pool block of a is now a pool of b, at the same index");
  /* destruction: manager a now owns what ab issued */
  g_expected_allocator = ab;
  ResourceManager__dtor(a);
  CHECK(g_dealloc_calls == owned_blocks(&ob), "C06: destroying a after the swap releases exactly b's former blocks, through b's former allocator");
  g_expected_allocator = aa;
  ResourceManager__dtor(b);
  CHECK(g_dealloc_calls == owned_blocks(&oa) + owned_blocks(&ob) && g_live_blocks == 0, "C06: destroying both after a swap returns every block exactly once (no double free, no leak)");
}
#endif /* U_RM_E2E */

/* =============================================================================================================================
 * unit facade_rm_step (class B shapes): "whatever the history" by induction over operations.  From an ARBITRARY bounded valid
 * manager (any state a history can have produced: <= NP pools, inline or heap table, <= NSTR strings, any free-list head) ONE real
 * operation runs -- allocVariant, saveString or shrinkToFit, every allocator call may fail -- and then the manager is cleared or
 * destroyed.  Inductive invariant of C06: the live blocks are exactly the census of what the manager owns; it holds before (by
 * construction), is CHECKed after the operation, and clear()/the destructor then returns exactly that census. */
#ifdef U_RM_STEP
#ifndef SCEN_HEAP
#define SCEN_HEAP 0
#endif
/* census of the blocks the manager owns: one per pool that has a block, the heap table, one per pooled string */
static int rm_census(const RM *r) {
  const PoolList *l = &r->variantPools_;
  int n = (l->pools_ != l->preallocatedPools_) ? 1 : 0;
  for (unsigned i = 0; i < NP + 1; i++)
    if (i < l->count_ && l->pools_[i].slots_ != 0) n++;
  const Node *s = r->stringPool_.strings_;
  for (unsigned i = 0; i < NSTR + 1; i++)
    if (s) { n++; s = s->next; }
  return n;
}
void h_rm_step(void) {
  alloc_reset();
  struct Allocator *a = verif_allocator(in_u8() & 1);
  g_expected_allocator = a;
  static RM s_r;
  RM *r = &s_r;
  Owned o;
  mk_rm_inplace(r, a, SCEN_HEAP, &o);
  PoolList *l = &r->variantPools_;
#if SCEN_HEAP
  __CPROVER_assume(o.np > CFG_INITIAL); /* reachable states: the table only moves to the heap when a pool beyond the inline ones is added */
#endif
  /* the slot blocks are POOL_WINDOW slots long: capacities within the window (bounded configurations: see bound_note) */
  for (unsigned i = 0; i < NP; i++) if (i < o.np) __CPROVER_assume(l->pools_[i].capacity_ <= POOL_WINDOW);
  /* every pool but the last is full (allocSlot only adds a pool when the last one is) */
  for (unsigned i = 0; i + 1 < NP; i++) if (i + 1 < o.np) __CPROVER_assume(l->pools_[i].usage_ == l->pools_[i].capacity_);
  /* free-list head: none, or a slot that was handed out (its link is whatever freeSlot() stored: any value) */
  unsigned fl = in_u32();
  if ((uint64_t)fl != CFG_NULL_SLOT) {
    unsigned fp = fl / (unsigned)CFG_CAP, fi = fl % (unsigned)CFG_CAP;
    __CPROVER_assume(fp < o.np && fi < l->pools_[fp].usage_);
  }
  l->freeList_ = (__typeof__(l->freeList_))fl;
  __CPROVER_assume(g_live_blocks == rm_census(r)); /* holds by construction; stated for the reader */
  _Bool over0 = r->overflowed_;
#ifdef STEP_OP
  const unsigned op = STEP_OP; /* one operation per obligation where the symbolic choice is too expensive (heap table) */
#else
  unsigned op = in_u8();
#endif
  __CPROVER_assume(op < 3);
  unsigned f0 = g_alloc_failures;
  _Bool op_failed = 0;
  char txt[2];
  txt[0] = in_char(); txt[1] = in_char();
  if (op == 0) {
    struct Slot_VariantData s = ResourceManager__allocVariant(r);
    op_failed = s.ptr_ == 0;
    if (s.ptr_) CHECK(s.ptr_->type_ == 0 && (uint64_t)s.ptr_->next_ == CFG_NULL_SLOT, "C04: a fresh variant is null and detached");
  } else if (op == 1) {
    struct SizedRamString str;
    str.str_ = txt;
    str.size_ = in_u8();
    __CPROVER_assume(str.size_ <= 2);
    /* the pooled nodes of the builder are header-only blocks: make them differ from the new string by length (no byte is read) */
    for (unsigned i = 0; i < NSTR; i++) if (i < o.ns) __CPROVER_assume(o.str[i]->length > 2);
    Node *n = ResourceManager__saveString_SizedRamString(r, str);
    op_failed = n == 0;
    if (n) CHECK(n->references == 1 && n->length == str.size_ && r->stringPool_.strings_ == n, "a new string is pooled with one user");
  } else {
    ResourceManager__shrinkToFit(r);
  }
#if !defined(STEP_OP) || STEP_OP == 0
  COVER(op == 0 && !op_failed && o.np == NP); COVER(op == 0 && op_failed && g_alloc_failures > f0); COVER(op == 0 && !op_failed && (uint64_t)fl != CFG_NULL_SLOT);
#endif
#if !defined(STEP_OP) || STEP_OP == 1
  COVER(op == 1 && !op_failed && o.ns == NSTR); COVER(op == 1 && op_failed);
#endif
#if !defined(STEP_OP) || STEP_OP == 2
  COVER(op == 2 && o.np > 0);
#endif
  CHECK(g_alloc_failures == f0 || op == 2 || op_failed, "C05: a failing allocation is reported: the operation hands out nothing");
  CHECK(r->overflowed_ == (over0 || op_failed), "C05: overflowed() is raised exactly by a failed operation and kept until clear()");
  CHECK(wf_list_fields(l) && l->pools_ != 0 && l->count_ >= o.np && l->count_ <= o.np + 1, "C05: the pool table stays well formed, failed or not");
#ifdef CANARY_RM_STEP
  CHECK(g_live_blocks == rm_census(r) + (o.ns == 1 && !op_failed), "C06 (inductive invariant): after the operation the live blocks are exactly those the manager owns");
#else
  CHECK(g_live_blocks == rm_census(r), "C06 (inductive invariant): after the operation the live blocks are exactly those the manager owns");
#endif
  int live1 = g_live_blocks;
  unsigned d1 = g_dealloc_calls;
  if (in_bool()) ResourceManager__dtor(r); else ResourceManager__clear(r);
  CHECK(g_live_blocks == 0 && g_dealloc_calls - d1 == (unsigned)live1, "C06: whatever the operation did, clear()/destruction returns every block exactly once");
  CHECK(rm_is_empty(r), "C05/C06: the manager ends EMPTY");
}
#endif /* U_RM_STEP */

/* =============================================================================================================================
 * unit facade_doc_e2e (class B states): JsonDocument constructor / clear / destructor / move constructor / operator= (through
 * `a = move(b)`) / swap / shrinkToFit with the REAL ResourceManager and everything below it.  None of these routines walks the
 * tree: the root variant and the slot contents are arbitrary bytes, the manager is an arbitrary bounded one (mk_rm_inplace).
 * DefaultAllocator::instance() (a function-local singleton) is a stub returning allocator 3. */
#ifdef U_DOC_E2E
typedef struct JsonDocument Doc;
#ifndef VERIF_NATIVE
struct Allocator *DefaultAllocator__instance(void) { return verif_allocator(3); }
#endif
static void mk_doc_inplace(Doc *d, struct Allocator *a, _Bool heap, Owned *o) {
  mk_rm_inplace(&d->resources_, a, heap, o);
  vd_havoc(&d->data_);
}
/* the null, empty document: what `JsonDocument doc;` is */
static _Bool doc_is_fresh(const Doc *d) { return d->data_.type_ == 0 && rm_is_empty(&d->resources_) && !d->resources_.overflowed_; }
/* d holds exactly the state (manager content `o` built with allocator a, flag, table fields, root) that `s` had */
static _Bool doc_has_state(const Doc *d, const Doc *s, const Owned *o, struct Allocator *a, unsigned j) {
  const PoolList *l = &d->resources_.variantPools_, *sl = &s->resources_.variantPools_;
  if (d->resources_.allocator_ != a || d->resources_.overflowed_ != s->resources_.overflowed_) return 0;
  if (d->resources_.stringPool_.strings_ != o->str[0]) return 0;
  if (l->count_ != sl->count_ || l->capacity_ != sl->capacity_ || l->freeList_ != sl->freeList_) return 0;
  if (o->heap ? l->pools_ != (Pool *)o->tab_blk : l->pools_ != l->preallocatedPools_) return 0;
  /* s is a snapshot (struct copy): its inline entries are in s->preallocatedPools_, a heap table is the same block as before */
  const Pool *sp = o->heap ? &((const Pool *)o->tab_blk)[j < heap_cap_k ? j : 0] : &sl->preallocatedPools_[j < CFG_INITIAL ? j : 0];
  if (j < o->np && !(l->pools_[j].slots_ == o->pool_blk[j] && l->pools_[j].usage_ == sp->usage_ && l->pools_[j].capacity_ == sp->capacity_)) return 0;
  return vd_same(&d->data_, &s->data_);
}

void h_doc_clear(void) {
  alloc_reset();
  struct Allocator *a = verif_allocator(in_u8() & 1);
  g_expected_allocator = a;
  static Doc s_d;
  Doc *d = &s_d;
  Owned o;
  mk_doc_inplace(d, a, in_bool(), &o);
  void *foreign = malloc(8);
  __CPROVER_assume(foreign != 0);
  ledger_add(foreign, 8);
  _Bool dtor = in_bool();
  unsigned char type0 = d->data_.type_;
  if (dtor) JsonDocument__dtor(d); else JsonDocument__clear(d);
  COVER(!dtor && o.heap && o.np == NP && o.ns == NSTR && type0 == 0x20); COVER(dtor && !o.heap && o.np == 1); COVER(!dtor && o.np == 0 && o.ns == 0 && type0 == 5);
  CHECK(g_live_blocks == 1 && ledger_size(foreign, GONE) == 8, "C06: after clear()/destruction the document owns no block; a block of another document stays live");
  CHECK(g_dealloc_calls == owned_blocks(&o) && g_alloc_calls == 0 && g_realloc_calls == 0, "C06: exactly the owned blocks are released (each once), nothing is requested");
  CHECK(rm_is_empty(&d->resources_) && d->resources_.allocator_ == a, "C05/C06: the manager is EMPTY and keeps its allocator");
  if (!dtor) {
#ifdef CANARY_DOC_CLEAR
    CHECK(d->data_.type_ == 0 && type0 != 0x40, "C04: after clear() the document is null");
#else
    CHECK(d->data_.type_ == 0, "C04: after clear() the document is null");
#endif
    CHECK(JsonDocument__isNull(d) && !JsonDocument__overflowed(d), "C04/C05: isNull() and !overflowed() after clear()");
    CHECK(doc_is_fresh(d), "C04: a cleared document is indistinguishable from a new one (null root, empty manager, no overflow report)");
  }
}

void h_doc_ctor(void) {
  alloc_reset();
  struct Allocator *a = verif_allocator(in_u8() & 3);
  static Doc s_d;
  Doc *d = &s_d;
  JsonDocument__ctor__Allocator_p(d, a);
  COVER(a == verif_allocator(1));
#ifdef CANARY_DOC_CTOR
  CHECK(doc_is_fresh(d) && d->resources_.allocator_ != a, "a new document is null, owns nothing and uses the given allocator");
#else
  CHECK(doc_is_fresh(d) && d->resources_.allocator_ == a && JsonDocument__allocator(d) == a, "a new document is null, owns nothing and uses the given allocator");
#endif
  CHECK(g_alloc_calls == 0 && g_live_blocks == 0, "C06: construction requests nothing");
  CHECK((uint64_t)d->data_.next_ == CFG_NULL_SLOT, "the root is detached");
  JsonDocument__dtor(d);
  CHECK(g_dealloc_calls == 0, "C06: destroying an empty document releases nothing");
}

/* JsonDocument c(std::move(a)) */
void h_doc_move_ctor(void) {
  alloc_reset();
  struct Allocator *aa = verif_allocator(in_u8() & 1);
  g_expected_allocator = aa;
  static Doc s_a, s_c;
  Doc *a = &s_a, *c = &s_c;
  Owned oa;
  mk_doc_inplace(a, aa, in_bool(), &oa);
  Doc a0 = *a;
  unsigned j = in_u8();
  __CPROVER_assume(j < NP);
  JsonDocument__ctor__JsonDocument_rr(c, a);
  COVER(oa.heap && oa.np == NP && oa.ns == 1); COVER(!oa.heap && oa.np == 2 && a0.resources_.overflowed_); COVER(oa.np == 0 && oa.ns == 0);
  CHECK(g_alloc_calls + g_dealloc_calls + g_realloc_calls == 0, "C06: a move never calls an allocator");
#ifdef CANARY_DOC_MOVE_CTOR
  CHECK(doc_has_state(c, &a0, &oa, aa, j) && oa.np != 2, "C04/C06: the new document holds the COMPLETE state of the source (allocator, overflow report, strings, pools, free list, root)");
#else
  CHECK(doc_has_state(c, &a0, &oa, aa, j), "C04/C06: the new document holds the COMPLETE state of the source (allocator, overflow report, strings, pools, free list, root)");
#endif
  CHECK(doc_is_fresh(a), "C04/C05: after the move the source is the null, empty, valid document");
#ifndef VERIF_NATIVE
  CHECK(a->resources_.allocator_ == DefaultAllocator__instance(), "the moved-from document uses the default allocator");
#endif
  /* blocks are owned exactly once: destroying both releases each block once, through the allocator that issued it */
  JsonDocument__dtor(c);
  CHECK(g_dealloc_calls == owned_blocks(&oa) && g_live_blocks == 0, "C06: the blocks moved with the state: destroying the new document releases them exactly once");
  JsonDocument__dtor(a);
  CHECK(g_dealloc_calls == owned_blocks(&oa) && g_live_blocks == 0, "C06: destroying the moved-from document releases nothing (no double free)");
}

/* a = std::move(b): parameter of operator=(JsonDocument) move-constructed from b, swapped with a, destroyed */
void h_doc_move_assign(void) {
  alloc_reset();
  struct Allocator *aa = verif_allocator(0), *ab = verif_allocator(in_u8() & 1);
  static Doc s_a, s_b;
  Doc *a = &s_a, *b = &s_b;
  Owned oa, ob;
  mk_doc_inplace(a, aa, in_bool(), &oa);
  mk_doc_inplace(b, ab, in_bool(), &ob);
  Doc b0 = *b;
  unsigned j = in_u8();
  __CPROVER_assume(j < NP);
  g_expected_allocator = aa; /* during the assignment only the destination's old blocks may be released, through ITS allocator */
  facade__doc_move_assign(a, b);
  COVER(oa.heap && !ob.heap && oa.np == 2 && ob.np == 1); COVER(!oa.heap && ob.heap && ob.np == NP); COVER(aa != ab && oa.ns == 2 && ob.ns == 1); COVER(oa.np == 0 && oa.ns == 0);
#ifdef CANARY_DOC_MOVE_ASSIGN
  CHECK(g_dealloc_calls == owned_blocks(&oa) + (oa.np == 1 && ob.np == 1), "C06: operator= releases exactly what the destination held (no leak), through the destination's former allocator");
#else
  CHECK(g_dealloc_calls == owned_blocks(&oa) && g_alloc_calls == 0 && g_realloc_calls == 0, "C06: operator= releases exactly what the destination held (no leak), through the destination's former allocator");
#endif
  CHECK(g_live_blocks == (int)owned_blocks(&ob), "C06: the source's blocks all stay live: they now belong to the destination");
  CHECK(doc_has_state(a, &b0, &ob, ab, j), "C04/C06: the destination holds the COMPLETE state of the source (allocator, overflow report, strings, pools, free list, root)");
  CHECK(doc_is_fresh(b), "C04/C05: after the move the source is the null, empty, valid document");
  g_expected_allocator = ab;
  JsonDocument__dtor(a);
  CHECK(g_live_blocks == 0 && g_dealloc_calls == owned_blocks(&oa) + owned_blocks(&ob), "C06: destroying the destination releases the moved blocks exactly once, through the allocator that issued them");
  g_expected_allocator = 0;
  JsonDocument__dtor(b);
  CHECK(g_dealloc_calls == owned_blocks(&oa) + owned_blocks(&ob), "C06: destroying the moved-from document releases nothing (no double free)");
}

/* a = std::move(a) */
void h_doc_self_move_assign(void) {
  alloc_reset();
  struct Allocator *aa = verif_allocator(in_u8() & 1);
  g_expected_allocator = aa;
  static Doc s_a;
  Doc *a = &s_a;
  Owned oa;
  mk_doc_inplace(a, aa, in_bool(), &oa);
  Doc a0 = *a;
  unsigned j = in_u8();
  __CPROVER_assume(j < NP);
  facade__doc_move_assign(a, a);
  COVER(oa.heap && oa.np == NP); COVER(!oa.heap && oa.ns == NSTR);
  CHECK(g_alloc_calls + g_dealloc_calls + g_realloc_calls == 0, "C06: self-assignment releases nothing");
#ifdef CANARY_DOC_SELF_MOVE
  CHECK(doc_has_state(a, &a0, &oa, aa, j) && oa.ns != 1, "C04: self-move-assignment leaves the document as it was");
#else
  CHECK(doc_has_state(a, &a0, &oa, aa, j), "C04: self-move-assignment leaves the document as it was");
#endif
  JsonDocument__dtor(a);
  CHECK(g_live_blocks == 0 && g_dealloc_calls == owned_blocks(&oa), "C06: every block is still owned exactly once");
}

void h_doc_swap(void) {
  alloc_reset();
  g_expected_allocator = 0;
  struct Allocator *aa = verif_allocator(0), *ab = verif_allocator(in_u8() & 1);
  static Doc s_a, s_b;
  Doc *a = &s_a, *b = &s_b;
  Owned oa, ob;
  mk_doc_inplace(a, aa, in_bool(), &oa);
  mk_doc_inplace(b, ab, in_bool(), &ob);
  Doc a0 = *a, b0 = *b;
  unsigned j = in_u8();
  __CPROVER_assume(j < NP);
  swap__JsonDocument_r_JsonDocument_r(a, b);
  COVER(oa.heap && !ob.heap && oa.np == 2 && ob.np == 1); COVER(!oa.heap && !ob.heap && oa.np == NP); COVER(oa.heap && ob.heap); COVER(aa != ab && a0.data_.type_ != b0.data_.type_);
  CHECK(g_alloc_calls + g_dealloc_calls + g_realloc_calls == 0, "C06: swap never calls an allocator");
#ifdef CANARY_DOC_SWAP
  CHECK(doc_has_state(a, &b0, &ob, ab, j) && doc_has_state(b, &a0, &oa, aa, j) && vd_bits(&a->data_) != 7, "C04/C06: swap exchanges the COMPLETE state of the two documents (allocator, overflow report, strings, pools, free list, root)");
#else
  CHECK(doc_has_state(a, &b0, &ob, ab, j) && doc_has_state(b, &a0, &oa, aa, j), "C04/C06: swap exchanges the COMPLETE state of the two documents (allocator, overflow report, strings, pools, free list, root)");
#endif
  g_expected_allocator = ab;
  JsonDocument__dtor(a);
  CHECK(g_dealloc_calls == owned_blocks(&ob), "C06: destroying a after the swap releases exactly b's former blocks through b's former allocator");
  g_expected_allocator = aa;
  JsonDocument__dtor(b);
  CHECK(g_dealloc_calls == owned_blocks(&oa) + owned_blocks(&ob) && g_live_blocks == 0, "C06: destroying both after a swap returns every block exactly once");
}
#endif /* U_DOC_E2E */

/* =============================================================================================================================
 * unit facade_doc_copy (modular over the deep copy): JsonDocument::set(const JsonDocument&), set(JsonVariantConst), the copy
 * constructor and `a = b` (copy-construct the parameter, swap, destroy) with the REAL manager below, against a stub of
 * VariantRefBase<JsonVariant>::set<JsonVariantConst> -- the deep copy itself.
 * Contract of the copy used here (its proof for the real routine is unit facade_deepcopy, class B shapes; the general case is
 * NOT proved by any unit: trusted): requires a bound destination and a source that is alive and still holds the value the
 * caller designated; clears the destination value, builds the copy in the destination's manager (allocations may fail: then
 * false and overflowed), never writes the source.  The stub models the effect by 0..1 real slot allocation. */
#ifdef U_DOC_COPY
typedef struct JsonDocument Doc;
#ifndef VERIF_NATIVE
struct Allocator *DefaultAllocator__instance(void) { return verif_allocator(3); }
#endif
static void mk_doc_inplace(Doc *d, struct Allocator *a, _Bool heap, Owned *o) {
  mk_rm_inplace(&d->resources_, a, heap, o);
  vd_havoc(&d->data_);
}
static _Bool doc_is_fresh(const Doc *d) { return d->data_.type_ == 0 && rm_is_empty(&d->resources_) && !d->resources_.overflowed_; }
static unsigned g_set_calls;
static VD *g_set_dst_data, *g_set_src_data;
static RM *g_set_dst_rm, *g_set_src_rm;
static _Bool g_set_result, g_set_dst_was_fresh, g_set_allocated;
static int g_set_live_at_entry;
static struct Allocator *g_set_dst_alloc;
static VD g_src_snapshot;           /* the value the caller designated as source, taken before the call */
_Bool VariantRefBase_JsonVariant__set_JsonVariantConst(struct VariantRefBase_JsonVariant *self, struct JsonVariantConst *value) {
  struct JsonVariant *dst = (struct JsonVariant *)self;
  g_set_calls++;
  g_set_dst_data = dst->data_; g_set_dst_rm = dst->resources_;
  g_set_src_data = value->data_; g_set_src_rm = value->resources_;
  g_set_live_at_entry = g_live_blocks;
  CHECK(dst->data_ != 0 && dst->resources_ != 0, "the destination of the copy is bound");
  if (!dst->data_ || !dst->resources_) return 0;
  g_set_dst_was_fresh = dst->data_->type_ == 0 && rm_is_empty(dst->resources_) && !dst->resources_->overflowed_;
  g_set_dst_alloc = dst->resources_->allocator_;
  if (value->data_) {
    /* g_watch_block is the pool block that holds the source when the source is a pool slot (scenario SCEN_OWN=0/1) */
    CHECK(!g_watch_freed, "C04: when the copy starts its source is still alive (not released together with the destination's former content)");
    if (!g_watch_freed)
      CHECK(vd_same(value->data_, &g_src_snapshot), "C04: when the copy starts its source still holds the value the caller designated (the destination must not be cleared before its own part is read)");
  }
  /* effect on the destination: the root is rewritten; at most one slot is requested from the destination's manager */
  g_set_result = 1;
  g_set_allocated = 0;
  if (in_bool()) {
    /* the copy needs a slot: a first pool is requested from the destination's allocator (modelled directly: the destination is
     * the empty manager, so the new pool is entry 0 of the inline table [allocVariant on an EMPTY manager: e2e_reuse_after_clear]) */
    PoolList *l = &dst->resources_->variantPools_;
    SlotData *blk = g_set_dst_was_fresh ? (SlotData *)Allocator__allocate(dst->resources_->allocator_, (size_t)POOL_WINDOW * sizeof(SlotData)) : 0;
    if (!blk) { g_set_result = 0; dst->resources_->overflowed_ = 1; }
    else {
      g_set_allocated = 1;
      l->pools_[0].slots_ = blk; l->pools_[0].capacity_ = (__typeof__(l->pools_[0].capacity_))pool_cap_limit(0); l->pools_[0].usage_ = 1; l->count_ = 1;
      blk[0].variant.type_ = 0; blk[0].variant.next_ = (__typeof__(blk[0].variant.next_))CFG_NULL_SLOT;
      dst->data_->type_ = 0x40; /* an array of one element */
      dst->data_->content_.asCollection.head_ = 0;
      dst->data_->content_.asCollection.tail_ = 0;
    }
  } else {
    dst->data_->type_ = 0x06; /* a boolean */
    dst->data_->content_.asBoolean = in_bool();
  }
  return g_set_result;
}
/* contract of VariantData::clear(ResourceManager*) [proved: coll_variant/vclear]: releases what the value owns and leaves it null.
 * Here it is only ever reached through JsonDocument::to<JsonVariant>() right after JsonDocument::clear(): the value is the root,
 * already null, and there is nothing to release (CHECKed). */
static unsigned g_vclear_calls;
void VariantData__clear__ResourceManager_p(VD *self, RM *resources) {
  g_vclear_calls++;
  CHECK(self->type_ == 0, "to<JsonVariant>() clears a root that JsonDocument::clear() already made null (nothing is released twice)");
  self->type_ = 0;
}
static void copy_ghost_reset(void) {
  g_vclear_calls = 0; g_watch_block = 0; g_watch_freed = 0;
  alloc_reset();
  g_set_calls = 0; g_set_dst_data = g_set_src_data = 0; g_set_dst_rm = g_set_src_rm = 0;
  g_set_result = g_set_dst_was_fresh = g_set_allocated = 0; g_set_live_at_entry = -1; g_set_dst_alloc = 0;
}
/* e is bit-for-bit what it was (snapshot e0 + the blocks recorded in oe), for an arbitrary pool index j */
static _Bool doc_untouched(const Doc *e, const Doc *e0, const Owned *oe, unsigned j) {
  const PoolList *l = &e->resources_.variantPools_, *l0 = &e0->resources_.variantPools_;
  if (e->resources_.allocator_ != e0->resources_.allocator_ || e->resources_.overflowed_ != e0->resources_.overflowed_) return 0;
  if (e->resources_.stringPool_.strings_ != oe->str[0]) return 0;
  if (l->count_ != l0->count_ || l->capacity_ != l0->capacity_ || l->freeList_ != l0->freeList_) return 0;
  if (oe->heap ? l->pools_ != (Pool *)oe->tab_blk : l->pools_ != l->preallocatedPools_) return 0;
  if (j < oe->np && l->pools_[j].slots_ != oe->pool_blk[j]) return 0;
  return vd_same(&e->data_, &e0->data_);
}

/* d.set(e), two different documents */
void h_doc_set_doc(void) {
  copy_ghost_reset();
  struct Allocator *ad = verif_allocator(0), *ae = verif_allocator(in_u8() & 1);
  g_expected_allocator = ad; /* only the destination's allocator may be called */
  static Doc s_d, s_e;
  Doc *d = &s_d, *e = &s_e;
  Owned od, oe;
  mk_doc_inplace(d, ad, in_bool(), &od);
  mk_doc_inplace(e, ae, in_bool(), &oe);
  Doc e0 = *e;
  g_src_snapshot = e->data_;
  unsigned j = in_u8();
  __CPROVER_assume(j < NP);
  _Bool r = JsonDocument__set(d, e);
  COVER(r && g_set_allocated && od.np == 2 && oe.np == 1); COVER(!r && od.ns == NSTR); COVER(r && !g_set_allocated && od.heap && !oe.heap);
  CHECK(g_set_calls == 1 && g_set_dst_data == &d->data_ && g_set_dst_rm == &d->resources_ && g_set_src_data == &e->data_ && g_set_src_rm == &e->resources_,
        "set(doc) copies the root of the source document into the root of this document, once");
#ifdef CANARY_DOC_SET
  CHECK(g_set_dst_was_fresh && od.np != 2, "C04/C06: whatever the destination held is released BEFORE the copy is built: the copy starts from the null, empty document");
#else
  CHECK(g_set_dst_was_fresh, "C04/C06: whatever the destination held is released BEFORE the copy is built: the copy starts from the null, empty document");
#endif
  CHECK(g_set_live_at_entry == (int)owned_blocks(&oe), "C06: at that point every former block of the destination is back with its allocator (only the source's blocks are live)");
  CHECK(r == g_set_result, "C05: set() reports what the copy reports (false when an allocation failed)");
  CHECK(r || d->resources_.overflowed_, "C05: a failed copy leaves overflowed() raised");
  CHECK(d->resources_.allocator_ == ad, "the destination keeps its own allocator");
  CHECK(doc_untouched(e, &e0, &oe, j), "C04: the source document is untouched (copies are independent of their source)");
  JsonDocument__dtor(d);
  CHECK(g_live_blocks == (int)owned_blocks(&oe), "C06: destroying the destination returns what the copy allocated, nothing of the source");
  g_expected_allocator = ae;
  JsonDocument__dtor(e);
  CHECK(g_live_blocks == 0, "C06: both documents destroyed: no block remains");
}

/* JsonDocument c(e) */
void h_doc_copy_ctor(void) {
  copy_ghost_reset();
  struct Allocator *ae = verif_allocator(in_u8() & 1);
  g_expected_allocator = ae; /* the copy uses the SOURCE's allocator */
  static Doc s_c, s_e;
  Doc *c = &s_c, *e = &s_e;
  Owned oe;
  mk_doc_inplace(e, ae, in_bool(), &oe);
  Doc e0 = *e;
  g_src_snapshot = e->data_;
  unsigned j = in_u8();
  __CPROVER_assume(j < NP);
  JsonDocument__ctor__JsonDocument_r(c, e);
  COVER(g_set_result && g_set_allocated); COVER(!g_set_result); COVER(oe.heap && oe.np == NP);
  CHECK(g_set_calls == 1 && g_set_dst_data == &c->data_ && g_set_dst_rm == &c->resources_ && g_set_src_data == &e->data_ && g_set_src_rm == &e->resources_,
        "the copy constructor copies the root of the source into the root of the new document, once");
#ifdef CANARY_DOC_COPY_CTOR
  CHECK(g_set_dst_was_fresh && g_set_dst_alloc != ae, "the copy is built in a null, empty document that uses the source's allocator");
#else
  CHECK(g_set_dst_was_fresh && g_set_dst_alloc == ae && c->resources_.allocator_ == ae, "the copy is built in a null, empty document that uses the source's allocator");
#endif
  CHECK(g_set_result || c->resources_.overflowed_, "C05: a failed copy is reported by overflowed() of the new document");
  CHECK(doc_untouched(e, &e0, &oe, j), "C04: the source document is untouched");
  JsonDocument__dtor(c);
  CHECK(g_live_blocks == (int)owned_blocks(&oe), "C06: destroying the copy returns exactly what the copy allocated");
  JsonDocument__dtor(e);
  CHECK(g_live_blocks == 0, "C06: both documents destroyed: no block remains");
}

/* a = b (copy assignment: JsonDocument::operator=(JsonDocument) with a copy-constructed parameter) */
void h_doc_copy_assign(void) {
  copy_ghost_reset();
  g_expected_allocator = 0;
  struct Allocator *aa = verif_allocator(0), *ab = verif_allocator(in_u8() & 1);
  static Doc s_a, s_b;
  Doc *a = &s_a, *b = &s_b;
  Owned oa, ob;
  mk_doc_inplace(a, aa, in_bool(), &oa);
  mk_doc_inplace(b, ab, in_bool(), &ob);
  Doc b0 = *b;
  g_src_snapshot = b->data_;
  unsigned j = in_u8();
  __CPROVER_assume(j < NP);
  facade__doc_copy_assign(a, b);
  COVER(g_set_result && g_set_allocated && oa.np == 2); COVER(!g_set_result && oa.ns == 1); COVER(oa.heap && ob.heap);
  CHECK(g_set_calls == 1 && g_set_src_data == &b->data_ && g_set_src_rm == &b->resources_, "a = b copies the root of b, once");
  CHECK(g_set_dst_data != &a->data_ && g_set_dst_data != &b->data_ && g_set_dst_was_fresh && g_set_dst_alloc == ab,
        "the copy is built in a separate null, empty document (the parameter) that uses b's allocator: a is intact while the copy may still fail");
  CHECK(g_set_live_at_entry == (int)(owned_blocks(&oa) + owned_blocks(&ob)), "C06: nothing is released before the copy exists");
#ifdef CANARY_DOC_COPY_ASSIGN
  CHECK(g_live_blocks == (int)owned_blocks(&ob) + (g_set_allocated ? 1 : 0) + (oa.ns == 2), "C06: afterwards exactly b's blocks and the copy's blocks are live: everything a held is released (no leak)");
#else
  CHECK(g_live_blocks == (int)owned_blocks(&ob) + (g_set_allocated ? 1 : 0), "C06: afterwards exactly b's blocks and the copy's blocks are live: everything a held is released (no leak)");
#endif
  CHECK(a->resources_.allocator_ == ab, "a now uses the allocator that issued the blocks of the copy (b's)");
  CHECK(a->data_.type_ == (g_set_result ? (g_set_allocated ? 0x40 : 0x06) : a->data_.type_) && a->resources_.stringPool_.strings_ == 0 && a->resources_.variantPools_.count_ == (g_set_allocated ? 1 : a->resources_.variantPools_.count_),
        "a holds the copy (root and the slots the copy allocated), nothing of its former content");
  CHECK(doc_untouched(b, &b0, &ob, j), "C04: the source document is untouched");
  g_expected_allocator = ab;
  JsonDocument__dtor(a);
  CHECK(g_live_blocks == (int)owned_blocks(&ob), "C06: destroying a returns the copy's blocks through b's allocator");
  JsonDocument__dtor(b);
  CHECK(g_live_blocks == 0, "C06: both documents destroyed: no block remains");
}

/* d.set(v) where v designates another document's value (the ordinary case) or -- F13 -- a value that LIVES IN d:
 * SCEN_OWN=0: v is a slot of another document;  SCEN_OWN=1: v is a slot of d's own pool;  SCEN_OWN=2: d.set(d). */
#ifndef SCEN_OWN
#define SCEN_OWN 0
#endif
void h_doc_set_variant(void) {
  copy_ghost_reset();
  struct Allocator *ad = verif_allocator(0), *ae = verif_allocator(in_u8() & 1);
  g_expected_allocator = 0;
  static Doc s_d, s_e;
  Doc *d = &s_d, *e = &s_e;
  Owned od, oe;
  mk_doc_inplace(d, ad, in_bool(), &od);
  mk_doc_inplace(e, ae, in_bool(), &oe);
  /* the source value: slot k of pool p of the chosen document */
  Doc *srcdoc = SCEN_OWN ? d : e;
  const Owned *so = SCEN_OWN ? &od : &oe;
  unsigned p = in_u8(), k = in_u8();
  __CPROVER_assume(so->np >= 1 && p < so->np && k < srcdoc->resources_.variantPools_.pools_[p].usage_ && k < POOL_WINDOW);
  VD *src = &srcdoc->resources_.variantPools_.pools_[p].slots_[k].variant;
  vd_havoc(src);
  __CPROVER_assume(src->type_ != 0); /* a non-null value */
#if SCEN_OWN != 2
  g_watch_block = so->pool_blk[p];
#endif
  struct JsonVariantConst v;
  v.data_ = src;
  v.resources_ = &srcdoc->resources_;
  _Bool r;
#if SCEN_OWN == 2
  g_src_snapshot = d->data_;
  __CPROVER_assume(d->data_.type_ != 0);
  r = JsonDocument__set(d, d);
#else
  g_src_snapshot = *src;
  r = JsonDocument__set_JsonVariantConst(d, &v);
#endif
  COVER(r && od.np == 2); COVER(od.heap && od.ns == 1);
  CHECK(g_set_calls == 1 && g_set_dst_data == &d->data_ && g_set_dst_rm == &d->resources_, "set(value) copies into the root of this document, once");
#if SCEN_OWN == 2
  CHECK(g_set_src_data == &d->data_, "the source is the document's own root");
#else
  CHECK(g_set_src_data == src && g_set_src_rm == &srcdoc->resources_, "the source is the designated value");
#endif
#ifdef CANARY_DOC_SET_VARIANT
  CHECK(g_set_dst_was_fresh && r, "C04/C06: the destination's former content is released before the copy is built");
#else
  CHECK(g_set_dst_was_fresh, "C04/C06: the destination's former content is released before the copy is built");
#endif
  CHECK(r == g_set_result, "C05: set() reports what the copy reports");
}
#endif /* U_DOC_COPY */

/* =============================================================================================================================
 * unit facade_deser (modular over the parsers): doDeserialize<TDeserializer>(JsonDocument&, reader, options) for the four
 * instantiations JsonDeserializer / MsgPackDeserializer x Reader<const char*> / BoundedReader<const char*>, with the REAL
 * JsonDocument::clear / shrinkToFit / ResourceManager below and the REAL constructor and destructor of the deserializer object
 * (a temporary destroyed at the end of the full-expression: its string builder may still own a node).
 * parse() is a contract stub.  Contract of parse used here: it is entered with the variant and manager it was constructed for;
 * it leaves the manager VALID, owning exactly what it requested through the manager's allocator (modelled: 0..1 pool, 0..1 pooled
 * string), possibly a node still held by the string builder/buffer (an interrupted string), and returns any error code
 * [proved per routine for the StubReader instantiation: units jsontop, jsonnest, mp_des, mp_des_coll; for these reader instantiations the
 * contract is TRUSTED: readers under contract in unit readers].
 * What is decided here is the clause of C01 at the real call site: "whatever the destination held before is entirely replaced":
 * when parse() is entered the destination is the null, empty document and every block it owned is back with the allocator. */
#ifdef U_DESER
typedef struct JsonDocument Doc;
#ifndef DD_KIND
#define DD_KIND 0
#endif
/* C names given by the lowering: the JsonDeserializer instantiation comes first in tu/facade.cpp and gets the plain name, the
 * MsgPackDeserializer instantiation (same template arguments but for the template template parameter) gets the mangled suffix;
 * a swap would be caught by "the parser that runs is the one named by the entry point" */
#define DD_NAME_R doDeserialize_JsonDocument_r_Reader_constchar_p_DeserializationOptions_AllowAllFilter__JsonDocument_r_Reader_constchar_p_void_DeserializationOptions_AllowAllFilter
#define DD_NAME_B doDeserialize_JsonDocument_r_BoundedReader_constchar_p_DeserializationOptions_AllowAllFilter__JsonDocument_r_BoundedReader_constchar_p_void_DeserializationOptions_AllowAllFilter
#define DD_CAT_(a, b) a##b
#define DD_CAT(a, b) DD_CAT_(a, b)
#define DD_MP(n) DD_CAT(n, __rializationErrorEOT0T1T2)
static void mk_doc_inplace(Doc *d, struct Allocator *a, _Bool heap, Owned *o) {
  mk_rm_inplace(&d->resources_, a, heap, o);
  vd_havoc(&d->data_);
}
static unsigned g_parse_calls, g_parse_nesting, g_parse_code;
static int g_parse_kind, g_parse_live_at_entry;
static VD *g_parse_variant;
static RM *g_parse_rm;
static const char *g_parse_in, *g_parse_end;
static _Bool g_parse_dst_cleared, g_parse_made_pool, g_parse_made_string, g_parse_left_node;
static unsigned g_parse_pool_usage;
static void *g_parse_pool_blk;
/* the modelled outcome of a parse (see the contract above) */
static struct DeserializationError parse_contract(int kind, RM *rm, Node **held_node, VD *variant, unsigned nesting) {
  struct DeserializationError e;
  g_parse_calls++;
  g_parse_kind = kind; g_parse_rm = rm; g_parse_variant = variant; g_parse_nesting = nesting;
  g_parse_live_at_entry = g_live_blocks;
  g_parse_dst_cleared = variant->type_ == 0 && rm_is_empty(rm) && !rm->overflowed_;
  CHECK(*held_node == 0, "a new deserializer holds no string node");
  g_parse_code = in_u8();
  __CPROVER_assume(g_parse_code <= 5); /* Ok, EmptyInput, IncompleteInput, InvalidInput, NoMemory, TooDeep */
  e.code_ = g_parse_code;
  if (!g_parse_dst_cleared) return e; /* (the CHECK in the harness fails) */
  PoolList *l = &rm->variantPools_;
  if (in_bool()) { /* a pool was requested */
    SlotData *blk = (SlotData *)Allocator__allocate(rm->allocator_, (size_t)POOL_WINDOW * sizeof(SlotData));
    l->pools_[0].slots_ = blk;
    l->pools_[0].capacity_ = blk ? (__typeof__(l->pools_[0].capacity_))POOL_WINDOW : 0;
    l->pools_[0].usage_ = 0;
    l->count_ = 1;
    if (blk) {
      unsigned use = in_u8();
      __CPROVER_assume(use >= 1 && use <= POOL_WINDOW);
      l->pools_[0].usage_ = (__typeof__(l->pools_[0].usage_))use;
      g_parse_made_pool = 1; g_parse_pool_usage = use; g_parse_pool_blk = blk;
      variant->type_ = 0x40; variant->content_.asCollection.head_ = 0; variant->content_.asCollection.tail_ = 0;
    } else rm->overflowed_ = 1;
  }
  if (in_bool()) { /* a string was pooled */
    Node *n = (Node *)Allocator__allocate(rm->allocator_, sizeof(Node));
    if (n) { n->next = 0; n->references = 1; n->length = 0; rm->stringPool_.strings_ = n; g_parse_made_string = 1; }
    else rm->overflowed_ = 1;
  }
  if (in_bool()) { /* the parse stopped inside a string: the builder still owns its node */
    Node *n = (Node *)Allocator__allocate(rm->allocator_, sizeof(Node));
    if (n) { n->next = 0; n->references = 1; n->length = 0; *held_node = n; g_parse_left_node = 1; g_watch_block = n; }
    else rm->overflowed_ = 1;
  }
  return e;
}
struct DeserializationError JsonDeserializer_Reader_constchar_p__parse_AllowAllFilter(struct JsonDeserializer_Reader_constchar_p *self, VD *variant, struct AllowAllFilter filter, struct DeserializationOption__NestingLimit nestingLimit) {
  g_parse_in = self->latch_.reader_.ptr_; g_parse_end = 0;
  CHECK(self->stringBuilder_.resources_ == self->resources_, "the deserializer's string builder works on the destination's manager");
  return parse_contract(0, self->resources_, &self->stringBuilder_.node_, variant, nestingLimit.value_);
}
struct DeserializationError MsgPackDeserializer_Reader_constchar_p__parse_AllowAllFilter(struct MsgPackDeserializer_Reader_constchar_p *self, VD *variant, struct AllowAllFilter filter, struct DeserializationOption__NestingLimit nestingLimit) {
  g_parse_in = self->reader_.ptr_; g_parse_end = 0;
  CHECK(self->stringBuffer_.resources_ == self->resources_, "the deserializer's string buffer works on the destination's manager");
  return parse_contract(1, self->resources_, &self->stringBuffer_.node_, variant, nestingLimit.value_);
}
struct DeserializationError JsonDeserializer_BoundedReader_constchar_p__parse_AllowAllFilter(struct JsonDeserializer_BoundedReader_constchar_p *self, VD *variant, struct AllowAllFilter filter, struct DeserializationOption__NestingLimit nestingLimit) {
  g_parse_in = self->latch_.reader_._b_IteratorReader_constchar_p.ptr_; g_parse_end = self->latch_.reader_._b_IteratorReader_constchar_p.end_;
  CHECK(self->stringBuilder_.resources_ == self->resources_, "the deserializer's string builder works on the destination's manager");
  return parse_contract(2, self->resources_, &self->stringBuilder_.node_, variant, nestingLimit.value_);
}
struct DeserializationError MsgPackDeserializer_BoundedReader_constchar_p__parse_AllowAllFilter(struct MsgPackDeserializer_BoundedReader_constchar_p *self, VD *variant, struct AllowAllFilter filter, struct DeserializationOption__NestingLimit nestingLimit) {
  g_parse_in = self->reader_._b_IteratorReader_constchar_p.ptr_; g_parse_end = self->reader_._b_IteratorReader_constchar_p.end_;
  CHECK(self->stringBuffer_.resources_ == self->resources_, "the deserializer's string buffer works on the destination's manager");
  return parse_contract(3, self->resources_, &self->stringBuffer_.node_, variant, nestingLimit.value_);
}

void h_doDeserialize(void) {
  alloc_reset();
  g_watch_block = 0; g_watch_freed = 0;
  g_parse_calls = g_parse_nesting = g_parse_code = 0; g_parse_kind = -1; g_parse_live_at_entry = -1;
  g_parse_variant = 0; g_parse_rm = 0; g_parse_in = g_parse_end = 0;
  g_parse_dst_cleared = g_parse_made_pool = g_parse_made_string = g_parse_left_node = 0; g_parse_pool_usage = 0; g_parse_pool_blk = 0;
  struct Allocator *a = verif_allocator(in_u8() & 1);
  g_expected_allocator = a;
  static Doc s_d;
  Doc *d = &s_d;
  Owned o;
  mk_doc_inplace(d, a, in_bool(), &o); /* ANY previous content: root of any type (string, array, object ...), pools, strings, overflow report */
  void *foreign = malloc(8);
  __CPROVER_assume(foreign != 0);
  ledger_add(foreign, 8);
  static const char input[4] = "[1]";
  struct DeserializationOptions_AllowAllFilter opt;
  opt.nestingLimit.value_ = in_u8();
  unsigned char type0 = d->data_.type_;
  struct DeserializationError err;
#if DD_KIND == 0
  struct Reader_constchar_p_void rd; rd.ptr_ = (char *)input;
  err = DD_NAME_R(d, rd, opt);
#elif DD_KIND == 1
  struct Reader_constchar_p_void rd; rd.ptr_ = (char *)input;
  err = DD_MP(DD_NAME_R)(d, rd, opt);
#elif DD_KIND == 2
  struct BoundedReader_constchar_p_void rd; rd._b_IteratorReader_constchar_p.ptr_ = (char *)input; rd._b_IteratorReader_constchar_p.end_ = (char *)input + 3;
  err = DD_NAME_B(d, rd, opt);
#else
  struct BoundedReader_constchar_p_void rd; rd._b_IteratorReader_constchar_p.ptr_ = (char *)input; rd._b_IteratorReader_constchar_p.end_ = (char *)input + 3;
  err = DD_MP(DD_NAME_B)(d, rd, opt);
#endif
  COVER(o.np == NP && o.ns == NSTR && o.heap && type0 == 0x20); COVER(o.np == 1 && type0 == 0x05 && o.ns == 1); COVER(o.np == 0 && o.ns == 0 && type0 == 0);
  COVER(g_parse_left_node && g_parse_code == 4); COVER(g_parse_made_pool && g_parse_made_string && g_parse_code == 0); COVER(g_parse_made_pool && g_parse_pool_usage < POOL_WINDOW);
  CHECK(g_parse_calls == 1 && g_parse_kind == DD_KIND, "the parser runs exactly once and is the one named by the entry point");
  CHECK(g_parse_variant == &d->data_ && g_parse_rm == &d->resources_, "the parser fills the root of the destination, in the destination's manager");
  CHECK(g_parse_in == input && (DD_KIND < 2 || g_parse_end == input + 3) && g_parse_nesting == opt.nestingLimit.value_, "the parser reads the caller's input (whole range) under the caller's nesting limit");
#ifdef CANARY_DESER
  CHECK(g_parse_dst_cleared && o.ns != 1, "C01: whatever the destination held before is entirely replaced: when the parser starts the destination is the null, empty document");
#else
  CHECK(g_parse_dst_cleared, "C01: whatever the destination held before is entirely replaced: when the parser starts the destination is the null, empty document");
#endif
  CHECK(g_parse_live_at_entry == 1, "C01/C06: ... and every block it owned (pools, pool table, strings) is back with the allocator before the parser requests anything");
  CHECK(err.code_ == g_parse_code, "the error returned is the parser's");
  CHECK(!g_parse_left_node || g_watch_freed, "C06: a string node still held by the parser's builder is released when the deserializer object dies");
  /* census of what the document owns now: its pools that have a block (a pool whose block could not be obtained may have received
   * a zero-size block from shrinkToFit(): reallocate(null, 0)), no heap table, its pooled strings */
  const PoolList *l = &d->resources_.variantPools_;
  int census = (l->count_ >= 1 && l->pools_[0].slots_ != 0 ? 1 : 0) + (d->resources_.stringPool_.strings_ != 0 ? 1 : 0);
  CHECK(l->count_ <= 1 && l->pools_ == l->preallocatedPools_ && (d->resources_.stringPool_.strings_ == 0 || d->resources_.stringPool_.strings_->next == 0), "the document holds what the parse stored");
  CHECK(g_live_blocks == 1 + census && ledger_size(foreign, GONE) == 8,
        "C06: afterwards the live blocks are exactly those the document owns (and other documents' blocks): nothing of the old content, nothing of the parser object");
  CHECK((!g_parse_made_pool || l->pools_[0].slots_ == g_parse_pool_blk) && (g_parse_made_string == (d->resources_.stringPool_.strings_ != 0)), "what the parse stored is kept");
  CHECK(rm_valid(&d->resources_) && d->resources_.allocator_ == a, "C05: the destination is left valid, whatever the error (NoMemory included)");
  CHECK(!g_parse_made_pool || (d->resources_.variantPools_.pools_[0].slots_ == g_parse_pool_blk && d->resources_.variantPools_.pools_[0].usage_ == g_parse_pool_usage &&
                               d->resources_.variantPools_.pools_[0].capacity_ == g_parse_pool_usage),
        "shrinkToFit() ran after the parse: the last pool is exactly as large as its usage, its slots are kept");
  /* and the result is an ordinary document: clear() returns everything */
  JsonDocument__clear(d);
  CHECK(g_live_blocks == 1 && rm_is_empty(&d->resources_) && d->data_.type_ == 0, "C06: clear() after a deserialization returns every block");
}
#endif /* U_DESER */

/* =============================================================================================================================
 * unit facade_deser_mod (modular, class U): the same four doDeserialize instantiations against contract stubs of
 * JsonDocument::clear [proved: facade_doc_e2e/doc_clear_dtor over facade_rm/rm_clear], JsonDocument::shrinkToFit [facade_rm/
 * rm_shrinkToFit] and parse(); the destination is ANY document (all fields symbolic).  Decides the ORDER the property needs:
 * clear() strictly before parse(), the deserializer object destroyed and shrinkToFit() after it, parse()'s error returned. */
#ifdef U_DESER_MOD
typedef struct JsonDocument Doc;
#ifndef DD_KIND
#define DD_KIND 0
#endif
#define DD_NAME_R doDeserialize_JsonDocument_r_Reader_constchar_p_DeserializationOptions_AllowAllFilter__JsonDocument_r_Reader_constchar_p_void_DeserializationOptions_AllowAllFilter
#define DD_NAME_B doDeserialize_JsonDocument_r_BoundedReader_constchar_p_DeserializationOptions_AllowAllFilter__JsonDocument_r_BoundedReader_constchar_p_void_DeserializationOptions_AllowAllFilter
#define DD_CAT_(a, b) a##b
#define DD_CAT(a, b) DD_CAT_(a, b)
#define DD_MP(n) DD_CAT(n, __rializationErrorEOT0T1T2)
static Doc *g_doc;
static unsigned g_seq, g_clear_at, g_clear_calls, g_parse_at, g_parse_calls, g_shrink_at, g_shrink_calls, g_destroy_at, g_destroy_calls, g_parse_code, g_parse_nesting;
static int g_parse_kind;
static VD *g_parse_variant;
static RM *g_parse_rm;
static Node *g_held;
void JsonDocument__clear(Doc *self) {
  CHECK(self == g_doc, "clear() is asked of the destination");
  g_clear_calls++; g_clear_at = ++g_seq;
  self->data_.type_ = 0; self->resources_.overflowed_ = 0; self->resources_.stringPool_.strings_ = 0;
  PoolList *l = &self->resources_.variantPools_;
  l->count_ = 0; l->freeList_ = (__typeof__(l->freeList_))CFG_NULL_SLOT; l->pools_ = l->preallocatedPools_; l->capacity_ = (__typeof__(l->capacity_))CFG_INITIAL;
}
void JsonDocument__shrinkToFit(Doc *self) {
  CHECK(self == g_doc, "shrinkToFit() is asked of the destination");
  g_shrink_calls++; g_shrink_at = ++g_seq;
}
/* contract of ResourceManager::destroyString [proved: rm_strings/rm_string_entry_points over strnode/node_destroy]: the node is released once */
void ResourceManager__destroyString(RM *self, Node *node) {
  CHECK(self == &g_doc->resources_ && node == g_held && node != 0, "the deserializer object releases the node its builder still held, in the destination's manager");
  g_destroy_calls++; g_destroy_at = ++g_seq;
}
static struct DeserializationError parse_mod(int kind, RM *rm, Node **held, VD *variant, unsigned nesting) {
  struct DeserializationError e;
  g_parse_calls++; g_parse_at = ++g_seq; g_parse_kind = kind; g_parse_rm = rm; g_parse_variant = variant; g_parse_nesting = nesting;
  g_parse_code = in_u8();
  __CPROVER_assume(g_parse_code <= 5);
  e.code_ = g_parse_code;
  vd_havoc(variant);
  rm->overflowed_ = in_bool();
  g_held = in_bool() ? (Node *)(uintptr_t)in_u64() : (Node *)0;
  *held = g_held;
  return e;
}
struct DeserializationError JsonDeserializer_Reader_constchar_p__parse_AllowAllFilter(struct JsonDeserializer_Reader_constchar_p *self, VD *variant, struct AllowAllFilter filter, struct DeserializationOption__NestingLimit nestingLimit) {
  return parse_mod(0, self->resources_, &self->stringBuilder_.node_, variant, nestingLimit.value_);
}
struct DeserializationError MsgPackDeserializer_Reader_constchar_p__parse_AllowAllFilter(struct MsgPackDeserializer_Reader_constchar_p *self, VD *variant, struct AllowAllFilter filter, struct DeserializationOption__NestingLimit nestingLimit) {
  return parse_mod(1, self->resources_, &self->stringBuffer_.node_, variant, nestingLimit.value_);
}
struct DeserializationError JsonDeserializer_BoundedReader_constchar_p__parse_AllowAllFilter(struct JsonDeserializer_BoundedReader_constchar_p *self, VD *variant, struct AllowAllFilter filter, struct DeserializationOption__NestingLimit nestingLimit) {
  return parse_mod(2, self->resources_, &self->stringBuilder_.node_, variant, nestingLimit.value_);
}
struct DeserializationError MsgPackDeserializer_BoundedReader_constchar_p__parse_AllowAllFilter(struct MsgPackDeserializer_BoundedReader_constchar_p *self, VD *variant, struct AllowAllFilter filter, struct DeserializationOption__NestingLimit nestingLimit) {
  return parse_mod(3, self->resources_, &self->stringBuffer_.node_, variant, nestingLimit.value_);
}
void h_doDeserialize_order(void) {
  alloc_reset();
  g_seq = g_clear_at = g_clear_calls = g_parse_at = g_parse_calls = g_shrink_at = g_shrink_calls = g_destroy_at = g_destroy_calls = g_parse_code = g_parse_nesting = 0;
  g_parse_kind = -1; g_parse_variant = 0; g_parse_rm = 0; g_held = 0;
  static Doc s_d;
  Doc *d = &s_d;
  g_doc = d;
  /* ANY destination: every field symbolic */
  d->resources_.allocator_ = verif_allocator(in_u8() & 3);
  d->resources_.overflowed_ = in_bool();
  d->resources_.stringPool_.strings_ = (Node *)(uintptr_t)in_u64();
  PoolList *l = &d->resources_.variantPools_;
  l->pools_ = in_bool() ? l->preallocatedPools_ : (Pool *)(uintptr_t)in_u64();
  l->count_ = (__typeof__(l->count_))in_u32(); l->capacity_ = (__typeof__(l->capacity_))in_u32(); l->freeList_ = (__typeof__(l->freeList_))in_u32();
  vd_havoc(&d->data_);
  static const char input[4] = "[1]";
  struct DeserializationOptions_AllowAllFilter opt;
  opt.nestingLimit.value_ = in_u8();
  struct DeserializationError err;
#if DD_KIND == 0
  struct Reader_constchar_p_void rd; rd.ptr_ = (char *)input;
  err = DD_NAME_R(d, rd, opt);
#elif DD_KIND == 1
  struct Reader_constchar_p_void rd; rd.ptr_ = (char *)input;
  err = DD_MP(DD_NAME_R)(d, rd, opt);
#elif DD_KIND == 2
  struct BoundedReader_constchar_p_void rd; rd._b_IteratorReader_constchar_p.ptr_ = (char *)input; rd._b_IteratorReader_constchar_p.end_ = (char *)input + 3;
  err = DD_NAME_B(d, rd, opt);
#else
  struct BoundedReader_constchar_p_void rd; rd._b_IteratorReader_constchar_p.ptr_ = (char *)input; rd._b_IteratorReader_constchar_p.end_ = (char *)input + 3;
  err = DD_MP(DD_NAME_B)(d, rd, opt);
#endif
  COVER(g_held != 0 && g_parse_code == 4); COVER(g_held == 0 && g_parse_code == 0);
  CHECK(g_clear_calls == 1 && g_parse_calls == 1 && g_shrink_calls == 1 && g_parse_kind == DD_KIND, "clear(), the parser named by the entry point and shrinkToFit() each run exactly once");
#ifdef CANARY_DESER_ORDER
  CHECK(g_clear_at < g_parse_at && g_shrink_at < g_parse_at, "C01: the destination is cleared BEFORE the parser runs; it is shrunk after the parse");
#else
  CHECK(g_clear_at < g_parse_at && g_parse_at < g_shrink_at, "C01: the destination is cleared BEFORE the parser runs; it is shrunk after the parse");
#endif
  CHECK(g_destroy_calls == (g_held ? 1u : 0u) && (!g_held || (g_parse_at < g_destroy_at)), "C06: a node still held by the parser's builder is released exactly once, after the parse");
  CHECK(g_parse_variant == &d->data_ && g_parse_rm == &d->resources_ && g_parse_nesting == opt.nestingLimit.value_, "the parser fills the destination's root in the destination's manager under the caller's nesting limit");
  CHECK(err.code_ == g_parse_code, "the error returned is the parser's (never NoMemory before the parser ran: a document always has a root)");
  CHECK(g_alloc_calls + g_dealloc_calls + g_realloc_calls == 0, "doDeserialize itself never calls the allocator");
}
#endif /* U_DESER_MOD */

/* =============================================================================================================================
 * unit facade_deepcopy (REAL deep copy, no stub but the allocator): JsonDocument::set(const JsonDocument&) and
 * JsonDocument::set(JsonVariantConst) through to<JsonVariant>(), VariantRefBase::set, Converter<JsonVariantConst>::toJson,
 * JsonVariantCopier, VariantData::accept, setString / setInteger / setFloat ... for every LEAF kind of value (class U over the
 * scalar kinds and their full value domains; strings of <= 2 bytes: class B).  Copies of arrays and objects are cut here (stubs
 * that must not be reached) and handled by the container obligations.
 * Oracle (C04): "copies are deep and independent of their source": afterwards the destination denotes the same value, owns
 * its own storage for it (its own string node / extension slot), the source is untouched; C05: a failed allocation gives false,
 * overflowed() and a null destination; C06: ledger.
 * (The F13 family -- source living in the destination -- is pinned modularly by facade_doc_copy/doc_set_itself and
 * doc_set_own_descendant; run on this real code both reproduce natively: null document / heap-use-after-free.) */
#ifdef U_DEEPCOPY
typedef struct JsonDocument Doc;
#ifndef VERIF_NATIVE
struct Allocator *DefaultAllocator__instance(void) { return verif_allocator(3); }
/* container copies are outside the leaf scenarios */
_Bool VariantRefBase_JsonVariant__set_JsonArrayConst(struct VariantRefBase_JsonVariant *self, struct JsonArrayConst *value) { CHECK(0, "leaf scenario: the array copy is not reached"); return 0; }
_Bool VariantRefBase_JsonVariant__set_JsonObjectConst(struct VariantRefBase_JsonVariant *self, struct JsonObjectConst *value) { CHECK(0, "leaf scenario: the object copy is not reached"); return 0; }
/* VariantData::clear() of the destination value only ever meets a null or leaf value here (JsonDocument::clear() releases the tree
 * wholesale, without walking it): the recursive release of a collection [contract: coll_loops/clear_anylen] is never entered */
void CollectionData__clear__ResourceManager_p(struct CollectionData *self, RM *resources) { CHECK(0, "leaf scenario: no collection is released slot by slot"); }
#endif
#define DATA_OFF ((size_t)offsetof(Node, data))
static const char g_linked[3] = {'h', 'i', 0};
/* kinds of leaf (VariantContent.hpp): 0 null, 6 bool, 0x0A uint32, 0x0C int32, 0x0E float, 4 linked, 5 owned, 3 raw,
 * 0x1A uint64, 0x1C int64, 0x1E double (the last three live in an extension slot) */
void h_deepcopy_leaf(void) {
  alloc_reset();
  g_expected_allocator = 0;
  struct Allocator *ad = verif_allocator(0), *ae = verif_allocator(1);
  static Doc s_d, s_e;
  Doc *d = &s_d, *e = &s_e;
  JsonDocument__ctor__Allocator_p(d, ad);
  JsonDocument__ctor__Allocator_p(e, ae);
#ifdef LEAF_KIND
  const unsigned kind = LEAF_KIND; /* one kind per obligation (the visitor dispatch over a symbolic kind is too large a formula) */
#else
  unsigned kind = in_u8();
#endif
  __CPROVER_assume(kind == 0 || kind == 6 || kind == 0x0A || kind == 0x0C || kind == 0x0E || kind == 4 || kind == 5 || kind == 3 || kind == 0x1A || kind == 0x1C || kind == 0x1E);
  uint64_t bits = in_u64();
  unsigned len = in_u8();
  __CPROVER_assume(len <= 2);
  char b0 = in_char(), b1 = in_char();
  Node *snode = 0;
  unsigned sref = 0;
  /* the source is a value the API can have stored: 64-bit kinds are only used when the value does not fit the 32-bit kind
   * (VariantData::setInteger / setFloat choose the narrow kind whenever it is exact) */
  if (kind == 0x1A) __CPROVER_assume(bits > 0xFFFFFFFFull);
  if (kind == 0x1C) __CPROVER_assume((int64_t)bits < -2147483648LL || (int64_t)bits > 2147483647LL);
  if (kind == 0x1E) { double dv; memcpy(&dv, &bits, 8); __CPROVER_assume(dv != dv || !((double)(float)dv == dv)); } /* IEEE: a finite double beyond FLT_MAX converts to an infinity, which differs from it */
  g_alloc_may_fail = 0; /* the SOURCE is built without faults */
  if (kind == 6) e->data_.content_.asBoolean = (bits & 1) != 0;
  else if (kind == 0x0A) e->data_.content_.asUint32 = (uint32_t)bits;
  else if (kind == 0x0C) e->data_.content_.asInt32 = (int32_t)(uint32_t)bits;
  else if (kind == 0x0E) { uint32_t w = (uint32_t)bits; memcpy(&e->data_.content_.asFloat, &w, 4); }
  else if (kind == 4) e->data_.content_.asLinkedString = (void *)g_linked;
  else if (kind == 5 || kind == 3) {
    snode = (Node *)Allocator__allocate(ae, DATA_OFF + len + 1);
    snode->next = 0; snode->references = 1; snode->length = (__typeof__(snode->length))len;
    if (len > 0) snode->data[0] = b0;
    if (len > 1) snode->data[1] = b1;
    snode->data[len] = 0;
    e->resources_.stringPool_.strings_ = snode;
    e->data_.content_.asOwnedString = snode;
    sref = snode->references;
  } else if (kind >= 0x1A) {
    struct Slot_VariantExtension x = ResourceManager__allocExtension(&e->resources_);
    x.ptr_->asUint64 = bits;
    e->data_.content_.asSlotId = x.id_;
  }
  e->data_.type_ = (unsigned char)kind;
  g_alloc_may_fail = 1;
  Doc e0 = *e;
  int live_src = g_live_blocks;
  unsigned fails0 = g_alloc_failures, allocs0 = g_alloc_calls;
  g_expected_allocator = ad; /* the copy may only call the DESTINATION's allocator */
  _Bool r = JsonDocument__set(d, e);
  _Bool needs_block = kind == 5 || kind == 3 || kind >= 0x1A;
  COVER(r && kind == 5 && len == 2); COVER(!r && kind == 3); COVER(r && kind == 0x1E); COVER(!r && kind == 0x1A); COVER(r && kind == 4); COVER(r && kind == 0x0E); COVER(r && kind == 0);
  CHECK(needs_block || (r && g_alloc_calls == allocs0), "a value that fits the slot is copied without any allocation and cannot fail");
  CHECK(r == (g_alloc_failures == fails0), "C05: set() reports failure exactly when an allocation failed");
  if (!r) {
    CHECK(d->resources_.overflowed_ && d->data_.type_ == 0 && g_live_blocks == live_src, "C05: a failed copy is reported by overflowed(), leaves the null document and leaks nothing");
  } else {
#ifdef CANARY_DEEPCOPY
    CHECK(d->data_.type_ == kind + (kind == 0x0C), "C04: the copy has the kind of its source");
#else
    CHECK(d->data_.type_ == kind, "C04: the copy has the kind of its source");
#endif
    CHECK(!d->resources_.overflowed_, "no overflow is reported on success");
    if (kind == 6) CHECK(d->data_.content_.asBoolean == ((bits & 1) != 0), "C04: same boolean");
    if (kind == 0x0A) CHECK(d->data_.content_.asUint32 == (uint32_t)bits, "C04: same 32-bit unsigned");
    if (kind == 0x0C) CHECK(d->data_.content_.asInt32 == (int32_t)(uint32_t)bits, "C04: same 32-bit signed");
    if (kind == 0x0E) { uint32_t w; memcpy(&w, &d->data_.content_.asFloat, 4); uint32_t w0 = (uint32_t)bits; float f0; memcpy(&f0, &w0, 4); CHECK(w == w0 || f0 != f0, "C04: same float (bit for bit; a NaN stays a NaN)"); }
    if (kind == 4) CHECK(d->data_.content_.asLinkedString == (void *)g_linked && g_live_blocks == live_src, "C04/C14: a linked string stays linked to the caller's buffer (no copy)");
    if (kind == 5 || kind == 3) {
      Node *n = (Node *)d->data_.content_.asOwnedString;
      CHECK(n != 0 && n != snode && d->resources_.stringPool_.strings_ == n && n->next == 0, "C04: the copy owns its OWN string node, pooled in the destination (deep, independent of the source)");
      CHECK(n->length == len && n->references == 1 && (len < 1 || n->data[0] == b0) && (len < 2 || n->data[1] == b1) && n->data[len] == 0, "C04/C14: same bytes, same length, terminated, one user");
      CHECK(g_live_blocks == live_src + 1, "C06: exactly one block was requested for it");
    }
    if (kind >= 0x1A) {
      PoolList *l = &d->resources_.variantPools_;
      CHECK(l->count_ == 1 && l->pools_[0].usage_ == 1 && d->data_.content_.asSlotId == 0 && l->pools_[0].slots_[0].extension.asUint64 == bits, "C04: the 64-bit value lives in the destination's OWN extension slot, same 64 bits");
      CHECK(g_live_blocks == live_src + 1, "C06: exactly one block (the first pool) was requested for it");
    }
  }
  CHECK(vd_same(&e->data_, &e0.data_) && e->resources_.stringPool_.strings_ == snode && (snode == 0 || (snode->references == sref && snode->length == len)) && e->resources_.overflowed_ == 0,
        "C04: the source is untouched (value, string node and its user count)");
  g_expected_allocator = ad;
  JsonDocument__dtor(d);
  CHECK(g_live_blocks == live_src, "C06: destroying the copy returns exactly what the copy requested");
  g_expected_allocator = ae;
  JsonDocument__dtor(e);
  CHECK(g_live_blocks == 0, "C06: both destroyed: no block remains");
}

/* ---- value-level copies inside ONE document: copyVariant(dst, src) (JsonVariant::set(JsonVariantConst), doc["a"].set(doc["b"]))
 * with dst and src in the same manager -- C04 "assignment between values of the same document including a value's own ancestors
 * and descendants", C14 (copied strings keep their bytes), C06 (equal strings stored once, released with the last user). */
static Node *mk_pooled_string(RM *rm, struct Allocator *a, unsigned len, char c0, char c1, unsigned refs) {
  _Bool mf = g_alloc_may_fail;
  g_alloc_may_fail = 0;
  Node *n = (Node *)Allocator__allocate(a, DATA_OFF + len + 1);
  g_alloc_may_fail = mf;
  n->references = (__typeof__(n->references))refs;
  n->length = (__typeof__(n->length))len;
  if (len > 0) n->data[0] = c0;
  if (len > 1) n->data[1] = c1;
  n->data[len] = 0;
  n->next = rm->stringPool_.strings_;
  rm->stringPool_.strings_ = n;
  return n;
}
static _Bool node_is(const Node *n, unsigned len, char c0, char c1) {
  return n != 0 && n->length == len && (len < 1 || n->data[0] == c0) && (len < 2 || n->data[1] == c1) && n->data[len] == 0;
}
#ifndef STRKIND
#define STRKIND 5 /* 5 = OwnedString, 3 = RawString (serialized()) */
#endif
/* v.set(v) where v holds a copied string that nobody else uses */
void h_variant_set_itself_string(void) {
  alloc_reset();
  g_watch_block = 0; g_watch_freed = 0;
  struct Allocator *a = verif_allocator(0);
  g_expected_allocator = a;
  g_alloc_may_fail = 0; /* C04 speaks about runs in which no allocation fails */
  static RM s_rm;
  static VD s_v;
  RM *rm = &s_rm;
  ResourceManager__ctor__Allocator_p(rm, a);
  unsigned len = in_u8();
  __CPROVER_assume(len <= 2);
  char c0 = in_char(), c1 = in_char();
  __CPROVER_assume((len < 1 || c0 != 0) && (len < 2 || c1 != 0) || STRKIND == 3); /* an owned string holds no NUL before its end here */
  Node *n = mk_pooled_string(rm, a, len, c0, c1, 1);
  s_v.type_ = STRKIND;
  s_v.content_.asOwnedString = n;
  s_v.next_ = (__typeof__(s_v.next_))in_u32();
  __typeof__(s_v.next_) next0 = s_v.next_;
  g_watch_block = n;
  int live0 = g_live_blocks;
  struct JsonVariant dst; dst.data_ = &s_v; dst.resources_ = rm;
  struct JsonVariantConst src; src.data_ = &s_v; src.resources_ = rm;
  _Bool r = copyVariant(dst, src);
  COVER(len == 2); COVER(len == 0);
#ifdef CANARY_VARIANT_SELF_STRING
  CHECK(!g_watch_freed && len != 1, "C04/C14: the source is not released before it is read (a value assigned to itself)");
#else
  CHECK(!g_watch_freed, "C04/C14: the source is not released before it is read (a value assigned to itself)");
#endif
  if (g_watch_freed) return; /* (do not read what was released) */
  CHECK(r, "the assignment succeeds");
  CHECK(s_v.type_ == STRKIND && node_is((Node *)s_v.content_.asOwnedString, len, c0, c1), "C04/C14: assignment of a value to itself leaves it unchanged (same kind, same bytes, same size)");
  CHECK(s_v.next_ == next0, "C04: the value stays where it is in its collection");
  CHECK(g_live_blocks == live0 && ((Node *)s_v.content_.asOwnedString)->references == 1 && rm->stringPool_.strings_ == (Node *)s_v.content_.asOwnedString && rm->stringPool_.strings_->next == 0,
        "C06: afterwards the string is still stored once, with one user, and the ledger is unchanged");
  ResourceManager__clear(rm);
  CHECK(g_live_blocks == 0, "C06: clear() returns it");
}

/* v.set(v) where v holds a scalar (all kinds, 64-bit ones in an extension slot) or a linked string */
void h_variant_set_itself_scalar(void) {
  alloc_reset();
  struct Allocator *a = verif_allocator(0);
  g_expected_allocator = a;
  g_alloc_may_fail = 0;
  static RM s_rm;
  RM *rm = &s_rm;
  ResourceManager__ctor__Allocator_p(rm, a);
  struct Slot_VariantData vs = ResourceManager__allocVariant(rm); /* the value is a real slot of the document */
  VD *v = vs.ptr_;
  unsigned kind = in_u8();
  __CPROVER_assume(kind == 0 || kind == 6 || kind == 0x0A || kind == 0x0C || kind == 0x0E || kind == 4 || kind == 0x1A || kind == 0x1C || kind == 0x1E);
  uint64_t bits = in_u64();
  if (kind == 0x1A) __CPROVER_assume(bits > 0xFFFFFFFFull);
  if (kind == 0x1C) __CPROVER_assume((int64_t)bits < -2147483648LL || (int64_t)bits > 2147483647LL);
  if (kind == 0x1E) { double dv; memcpy(&dv, &bits, 8); __CPROVER_assume(dv != dv || !((double)(float)dv == dv)); }
  unsigned xid = 0;
  if (kind == 6) v->content_.asBoolean = (bits & 1) != 0;
  else if (kind == 0x0A) v->content_.asUint32 = (uint32_t)bits;
  else if (kind == 0x0C) v->content_.asInt32 = (int32_t)(uint32_t)bits;
  else if (kind == 0x0E) { uint32_t w = (uint32_t)bits; memcpy(&v->content_.asFloat, &w, 4); }
  else if (kind == 4) v->content_.asLinkedString = (void *)g_linked;
  else if (kind >= 0x1A) {
    struct Slot_VariantExtension x = ResourceManager__allocExtension(rm);
    x.ptr_->asUint64 = bits;
    v->content_.asSlotId = x.id_;
    xid = x.id_;
  }
  v->type_ = (unsigned char)kind;
  int live0 = g_live_blocks;
  unsigned calls0 = g_alloc_calls + g_dealloc_calls + g_realloc_calls;
  unsigned usage0 = rm->variantPools_.pools_[0].usage_;
  struct JsonVariant dst; dst.data_ = v; dst.resources_ = rm;
  struct JsonVariantConst src; src.data_ = v; src.resources_ = rm;
  _Bool r = copyVariant(dst, src);
  COVER(kind == 0x1A); COVER(kind == 4); COVER(kind == 0x0E); COVER(kind == 0); COVER(kind == 0x1E);
  CHECK(r, "the assignment succeeds");
#ifdef CANARY_VARIANT_SELF_SCALAR
  CHECK(v->type_ == kind + (kind == 0x0A), "C04: assignment of a value to itself leaves it unchanged (kind)");
#else
  CHECK(v->type_ == kind, "C04: assignment of a value to itself leaves it unchanged (kind)");
#endif
  if (kind == 6) CHECK(v->content_.asBoolean == ((bits & 1) != 0), "C04: ... same boolean");
  if (kind == 0x0A) CHECK(v->content_.asUint32 == (uint32_t)bits, "C04: ... same 32-bit unsigned");
  if (kind == 0x0C) CHECK(v->content_.asInt32 == (int32_t)(uint32_t)bits, "C04: ... same 32-bit signed");
  if (kind == 0x0E) { uint32_t w; memcpy(&w, &v->content_.asFloat, 4); uint32_t w0 = (uint32_t)bits; float f0; memcpy(&f0, &w0, 4); CHECK(w == w0 || f0 != f0, "C04: ... same float"); }
  if (kind == 4) CHECK(v->content_.asLinkedString == (void *)g_linked, "C04/C14: ... still linked to the caller's buffer");
  if (kind >= 0x1A) {
    CHECK(ResourceManager__getExtension(rm, v->content_.asSlotId)->asUint64 == bits, "C04: ... same 64 bits");
    CHECK(v->content_.asSlotId == xid && (uint64_t)rm->variantPools_.freeList_ == CFG_NULL_SLOT, "C06: the extension slot released by the assignment is reused at once (nothing is left on the free list)");
  }
  CHECK(g_live_blocks == live0 && g_alloc_calls + g_dealloc_calls + g_realloc_calls == calls0 && rm->variantPools_.pools_[0].usage_ == usage0, "C06: no allocator call, no new slot");
}

/* v1.set(v2), two slots of one document; v2 holds a copied string N; v1 held nothing, the same string (shared node) or another one */
void h_variant_set_other_value(void) {
  alloc_reset();
  struct Allocator *a = verif_allocator(0);
  g_expected_allocator = a;
  g_alloc_may_fail = 0;
  static RM s_rm;
  static VD s_v1, s_v2;
  RM *rm = &s_rm;
  ResourceManager__ctor__Allocator_p(rm, a);
  unsigned len = in_u8();
  __CPROVER_assume(len <= 2);
  char c0 = in_char(), c1 = in_char();
  __CPROVER_assume((len < 1 || c0 != 0) && (len < 2 || c1 != 0));
  unsigned before = in_u8(); /* 0: v1 null, 1: v1 shares N, 2: v1 holds another string M */
  __CPROVER_assume(before <= 2);
  Node *m = 0;
  char mc = in_char();
  if (before == 2) { __CPROVER_assume(mc != 0 && !(len == 1 && mc == c0)); m = mk_pooled_string(rm, a, 1, mc, 0, 1); }
  Node *n = mk_pooled_string(rm, a, len, c0, c1, before == 1 ? 2 : 1);
  s_v2.type_ = 5; s_v2.content_.asOwnedString = n; s_v2.next_ = (__typeof__(s_v2.next_))CFG_NULL_SLOT;
  s_v1.next_ = (__typeof__(s_v1.next_))CFG_NULL_SLOT;
  if (before == 0) s_v1.type_ = 0;
  else { s_v1.type_ = 5; s_v1.content_.asOwnedString = before == 1 ? n : m; }
  VD v2_0 = s_v2;
  g_watch_block = n; g_watch_freed = 0;
  int live0 = g_live_blocks;
  struct JsonVariant dst; dst.data_ = &s_v1; dst.resources_ = rm;
  struct JsonVariantConst src; src.data_ = &s_v2; src.resources_ = rm;
  _Bool r = copyVariant(dst, src);
  COVER(before == 0 && len == 2); COVER(before == 1); COVER(before == 2 && len == 1);
  CHECK(!g_watch_freed, "C04/C14: the source is not released before it is read");
  if (g_watch_freed) return;
  CHECK(r && s_v1.type_ == 5 && node_is((Node *)s_v1.content_.asOwnedString, len, c0, c1), "C04/C14: the destination now holds the same string (same bytes, same size)");
#ifdef CANARY_VARIANT_OTHER
  CHECK((Node *)s_v1.content_.asOwnedString == n && n->references == 2 + (before == 1), "C06: equal copied strings are stored once: both values use the same node, which counts its two users");
#else
  CHECK((Node *)s_v1.content_.asOwnedString == n && n->references == 2, "C06: equal copied strings are stored once: both values use the same node, which counts its two users");
#endif
  CHECK(vd_same(&s_v2, &v2_0), "C04: the source value is untouched");
  CHECK(g_live_blocks == live0 - (before == 2 ? 1 : 0), "C06: the string the destination held alone is released with its last user; nothing else is requested or released");
  ResourceManager__clear(rm);
  CHECK(g_live_blocks == 0, "C06: clear() returns everything");
}
#endif /* U_DEEPCOPY */

/* =============================================================================================================================
 * unit facade_copy_containers (modular, class B: source containers of <= CN elements / members): the container branches of the
 * deep copy -- VariantRefBase<JsonVariant>::set<JsonArrayConst> / set<JsonObjectConst> -> Converter<...>::toJson -> to<JsonArray>()
 * / to<JsonObject>() -> JsonArray::set / JsonObject::set -- with the per-element step as a contract stub:
 *   JsonArray::add(JsonVariantConst)  = ArrayData::addValue [proved: coll_array/addValue]: appends a slot holding a deep copy of
 *       the element, or releases the slot, reports false and raises overflowed when an allocation fails;
 *   MemberProxy<JsonObject,JsonString>::set(JsonVariantConst) = getOrAddMember + copy [coll_object/getOrAddMember_le2,
 *       addMember_*]: upserts the member with a deep copy of the value, false + overflowed on failure.
 * The copy of an element is the deep copy one level down (this same contract: induction on the depth of the source, L-C04).
 * Decided here: the destination is first made an EMPTY container of the right kind, the elements/members are offered to the
 * step exactly once each, in source order, with the source's own (data, manager) pairs, the loop stops at the first failure,
 * the source is never written.  The whole-tree copy with every callee real was tried (arrays of <= 2 scalars) and is out of
 * reach of symbolic execution here: the visitor dispatch is re-explored at every recursion level on heap-allocated slots. */
#ifdef U_COPY_CONTAINERS
#define CN 3
typedef struct JsonDocument Doc;
static RM *g_dst_rm, *g_src_rm;
static VD *g_dst_root;
static unsigned g_step_calls, g_fail_at;
static VD *g_step_val[CN + 1];
static const char *g_step_key[CN + 1];
static unsigned long g_step_keylen[CN + 1];
static _Bool g_step_ok, g_dst_was_empty_container;
static unsigned g_cclear_calls, g_vclear_calls;
/* contract of VariantData::clear(ResourceManager*) [coll_variant/vclear] and CollectionData::clear [coll_loops/clear_anylen]: release
 * what the value / list owns; the destination value here is a fresh null root and the new container is empty: nothing to release */
void VariantData__clear__ResourceManager_p(VD *self, RM *resources) {
  g_vclear_calls++;
  CHECK(self == g_dst_root && resources == g_dst_rm, "only the destination value is cleared");
  self->type_ = 0;
}
void CollectionData__clear__ResourceManager_p(struct CollectionData *self, RM *resources) {
  g_cclear_calls++;
  CHECK(self == &g_dst_root->content_.asCollection && resources == g_dst_rm && (uint64_t)self->head_ == CFG_NULL_SLOT, "only the destination's new, still empty container is cleared");
  self->head_ = (__typeof__(self->head_))CFG_NULL_SLOT; self->tail_ = (__typeof__(self->tail_))CFG_NULL_SLOT;
}
static _Bool step(VD *dst_container, RM *dst_rm, struct JsonVariantConst *value, const char *key, unsigned long keylen, unsigned want_type) {
  if (g_step_calls == 0) g_dst_was_empty_container = g_dst_root->type_ == want_type && (uint64_t)g_dst_root->content_.asCollection.head_ == CFG_NULL_SLOT && (uint64_t)g_dst_root->content_.asCollection.tail_ == CFG_NULL_SLOT;
  if (dst_container != g_dst_root || dst_rm != g_dst_rm || value->resources_ != g_src_rm) g_step_ok = 0;
  if (g_step_calls < CN + 1) { g_step_val[g_step_calls] = value->data_; g_step_key[g_step_calls] = key; g_step_keylen[g_step_calls] = keylen; }
  g_step_calls++;
  if (g_step_calls == g_fail_at) { dst_rm->overflowed_ = 1; return 0; } /* an allocation failed in this step */
  return 1;
}
_Bool JsonArray__add_JsonVariantConst(struct JsonArray *self, struct JsonVariantConst *value) {
  return step((VD *)self->data_, self->resources_, value, 0, 0, 0x40);
}
_Bool VariantRefBase_MemberProxy_JsonObject_JsonString__set_JsonVariantConst(struct VariantRefBase_MemberProxy_JsonObject_JsonString *self, struct JsonVariantConst *value) {
  struct MemberProxy_JsonObject_JsonString *mp = (struct MemberProxy_JsonObject_JsonString *)self;
  return step((VD *)mp->upstream_.data_, mp->upstream_.resources_, value, mp->key_.data_, mp->key_.size_, 0x20);
}
#ifndef SCEN_OBJECT
#define SCEN_OBJECT 0
#endif
void h_copy_container(void) {
  alloc_reset();
  g_step_calls = 0; g_step_ok = 1; g_dst_was_empty_container = 0; g_cclear_calls = g_vclear_calls = 0;
  for (unsigned i = 0; i < CN + 1; i++) { g_step_val[i] = 0; g_step_key[i] = 0; g_step_keylen[i] = 0; }
  static RM s_drm, s_srm;
  static VD s_droot, s_sroot;
  static SlotData s_pool[2 * CN];      /* the source's pool: a named array (see the note on named objects) */
  static const char keys[CN][2] = {{'a', 0}, {'b', 0}, {'c', 0}};
  g_dst_rm = &s_drm; g_src_rm = &s_srm; g_dst_root = &s_droot;
  /* destination: a document whose root is null (what JsonDocument::to<JsonVariant>() leaves); source: a container of n items */
  s_drm.allocator_ = verif_allocator(0); s_drm.overflowed_ = 0; s_drm.stringPool_.strings_ = 0;
  s_drm.variantPools_.pools_ = s_drm.variantPools_.preallocatedPools_; s_drm.variantPools_.count_ = 0;
  s_drm.variantPools_.capacity_ = (__typeof__(s_drm.variantPools_.capacity_))CFG_INITIAL; s_drm.variantPools_.freeList_ = (__typeof__(s_drm.variantPools_.freeList_))CFG_NULL_SLOT;
  s_droot.type_ = 0; s_droot.next_ = (__typeof__(s_droot.next_))CFG_NULL_SLOT;
  s_srm = s_drm;
  s_srm.allocator_ = verif_allocator(1);
  s_srm.variantPools_.pools_ = s_srm.variantPools_.preallocatedPools_;
  unsigned n = in_u8();
  __CPROVER_assume(n <= CN);
  unsigned slots = SCEN_OBJECT ? 2 * n : n;
  s_srm.variantPools_.count_ = 1;
  s_srm.variantPools_.preallocatedPools_[0].slots_ = s_pool;
  s_srm.variantPools_.preallocatedPools_[0].capacity_ = 2 * CN;
  s_srm.variantPools_.preallocatedPools_[0].usage_ = (__typeof__(s_srm.variantPools_.preallocatedPools_[0].usage_))slots;
  for (unsigned i = 0; i < 2 * CN; i++) {
    vd_havoc(&s_pool[i].variant);
    s_pool[i].variant.next_ = (__typeof__(s_pool[i].variant.next_))(i + 1 < slots ? i + 1 : (unsigned)CFG_NULL_SLOT);
    if (SCEN_OBJECT && (i % 2) == 0) { s_pool[i].variant.type_ = 4; s_pool[i].variant.content_.asLinkedString = (void *)keys[(i / 2) % CN]; } /* a key: a linked string */
  }
  s_sroot.type_ = SCEN_OBJECT ? 0x20 : 0x40;
  s_sroot.content_.asCollection.head_ = (__typeof__(s_sroot.content_.asCollection.head_))(slots ? 0 : (unsigned)CFG_NULL_SLOT);
  s_sroot.content_.asCollection.tail_ = (__typeof__(s_sroot.content_.asCollection.tail_))(slots ? slots - 1 : (unsigned)CFG_NULL_SLOT);
  s_sroot.next_ = (__typeof__(s_sroot.next_))CFG_NULL_SLOT;
  SlotData pool0[2 * CN];
  for (unsigned i = 0; i < 2 * CN; i++) pool0[i] = s_pool[i];
  VD sroot0 = s_sroot;
  g_fail_at = in_u8(); /* the step that fails (0 or > n: none) */
  struct JsonVariant dst; dst.data_ = &s_droot; dst.resources_ = &s_drm;
  _Bool r;
#if SCEN_OBJECT
  struct JsonObjectConst src; src.data_ = (struct ObjectData *)&s_sroot.content_.asObject; src.resources_ = &s_srm;
  r = VariantRefBase_JsonVariant__set_JsonObjectConst((struct VariantRefBase_JsonVariant *)&dst, &src);
#else
  struct JsonArrayConst src; src.data_ = (struct ArrayData *)&s_sroot.content_.asArray; src.resources_ = &s_srm;
  r = VariantRefBase_JsonVariant__set_JsonArrayConst((struct VariantRefBase_JsonVariant *)&dst, &src);
#endif
  _Bool failed = g_fail_at >= 1 && g_fail_at <= n;
  unsigned want_calls = failed ? g_fail_at : n;
  COVER(n == CN && !failed); COVER(n == CN && g_fail_at == 2); COVER(n == 0); COVER(n == 1 && g_fail_at == 1);
  CHECK(s_droot.type_ == (SCEN_OBJECT ? 0x20 : 0x40), "C04: the copy of an array is an array, of an object an object");
  CHECK(n == 0 || g_dst_was_empty_container, "C04: the destination is made an EMPTY container of that kind before the first element is copied (nothing of its former value survives)");
#ifdef CANARY_COPY_CONTAINER
  CHECK(g_step_calls == want_calls + (n == 2), "C04/C05: every element is offered to the copy step exactly once, and none after the first failure");
#else
  CHECK(g_step_calls == want_calls && g_step_ok, "C04/C05: every element is offered to the copy step exactly once, and none after the first failure");
#endif
  for (unsigned i = 0; i < CN; i++) if (i < want_calls) {
    CHECK(g_step_val[i] == &s_pool[SCEN_OBJECT ? 2 * i + 1 : i].variant, "C04: ... in source order, as (value of the source's own slot, source's manager)");
    if (SCEN_OBJECT) CHECK(g_step_key[i] == keys[i] && g_step_keylen[i] == 1, "C04: each member is copied under its own key (pointer and length of the source's key string)");
  }
  CHECK(r == !failed && s_drm.overflowed_ == failed, "C05: set() reports false exactly when a step failed (overflowed)");
  _Bool same = vd_same(&s_sroot, &sroot0);
  for (unsigned i = 0; i < 2 * CN; i++) if (!vd_same(&s_pool[i].variant, &pool0[i].variant)) same = 0;
  CHECK(same && s_srm.variantPools_.preallocatedPools_[0].usage_ == slots && !s_srm.overflowed_, "C04: the source is never written");
  CHECK(g_alloc_calls + g_dealloc_calls + g_realloc_calls == 0, "the container loops themselves never call the allocator");
}
#endif /* U_COPY_CONTAINERS */

/* =============================================================================================================================
 * unit facade_setstring_alias (modular): VariantData::setString(var, value, resources) -- the static form used by
 * Converter<JsonString>/Converter<const char*>::toJson -- when `value` is a COPIED string whose bytes are the value's own string
 * node (doc["b"] = JsonString(doc["b"].as<const char*>(), JsonString::Copied)).  Real: VariantData::clear, ResourceManager::
 * dereferenceString, StringPool::dereference, StringNode::destroy.  ResourceManager::saveString<JsonStringAdapter> is a contract
 * stub [proved: rm_strings/rm_string_entry_points over strpool_add/pool_add_str]: it READS the bytes it is given, so they must
 * still be alive (ghost flag set by the allocator hook when the watched node is handed to free()). */
#ifdef U_SETSTRING_ALIAS
#ifndef SCEN_OWN
#define SCEN_OWN 0
#endif
#define DATA_OFF ((size_t)offsetof(Node, data))
static unsigned g_save_calls;
static struct JsonStringAdapter g_save_arg;
static Node *g_save_result;
static RM *g_the_rm;
Node *ResourceManager__saveString_JsonStringAdapter(RM *self, struct JsonStringAdapter str) {
  g_save_calls++;
  g_save_arg = str;
  CHECK(self == g_the_rm, "the string is saved in the value's own document");
#ifdef CANARY_SETSTRING_ALIAS
  CHECK(!g_watch_freed && str._b_SizedRamString.size_ != 1, "C14/C04: the source string is not released before it is copied (a pointer into the value's own string)");
#else
  CHECK(!g_watch_freed, "C14/C04: the source string is not released before it is copied (a pointer into the value's own string)");
#endif
  if (g_watch_freed) return 0; /* (the bytes are gone: nothing is read) */
  /* effect: a node holding a copy of the bytes, pooled (a fresh one here; dedup is strpool_add's business) */
  _Bool mf = g_alloc_may_fail;
  Node *n = (Node *)Allocator__allocate(self->allocator_, DATA_OFF + str._b_SizedRamString.size_ + 1);
  if (!n) { self->overflowed_ = 1; return 0; }
  n->references = 1; n->length = (__typeof__(n->length))str._b_SizedRamString.size_;
  for (unsigned i = 0; i < 2; i++) if (i < str._b_SizedRamString.size_) n->data[i] = str._b_SizedRamString.str_[i];
  n->data[str._b_SizedRamString.size_] = 0;
  n->next = self->stringPool_.strings_; self->stringPool_.strings_ = n;
  g_save_result = n;
  (void)mf;
  return n;
}
void h_setstring_alias(void) {
  alloc_reset();
  g_watch_block = 0; g_watch_freed = 0; g_save_calls = 0; g_save_result = 0;
  struct Allocator *a = verif_allocator(0);
  g_expected_allocator = a;
  static RM s_rm;
  static VD s_v;
  static char foreign[3];
  RM *rm = &s_rm;
  g_the_rm = rm;
  rm->allocator_ = a; rm->overflowed_ = 0; rm->stringPool_.strings_ = 0;
  rm->variantPools_.pools_ = rm->variantPools_.preallocatedPools_; rm->variantPools_.count_ = 0;
  rm->variantPools_.capacity_ = (__typeof__(rm->variantPools_.capacity_))CFG_INITIAL; rm->variantPools_.freeList_ = (__typeof__(rm->variantPools_.freeList_))CFG_NULL_SLOT;
  unsigned len = in_u8();
  __CPROVER_assume(len >= 1 && len <= 2);
  char c0 = in_char(), c1 = in_char();
  g_alloc_may_fail = 0;
  Node *n = (Node *)Allocator__allocate(a, DATA_OFF + len + 1); /* the value's own string, one user */
  g_alloc_may_fail = 1;
  n->next = 0; n->references = 1; n->length = (__typeof__(n->length))len;
  n->data[0] = c0; if (len > 1) n->data[1] = c1; n->data[len] = 0;
  rm->stringPool_.strings_ = n;
  s_v.type_ = 5; s_v.content_.asOwnedString = n; s_v.next_ = (__typeof__(s_v.next_))CFG_NULL_SLOT;
  foreign[0] = c0; foreign[1] = c1; foreign[2] = 0;
  g_watch_block = SCEN_OWN ? n : 0; /* the block that holds the SOURCE bytes, when it is one of the document's */
  struct JsonStringAdapter val;
  val.linked_ = 0; /* JsonString::Copied */
  val._b_SizedRamString.size_ = len;
#if SCEN_OWN
  val._b_SizedRamString.str_ = n->data;   /* doc["b"].as<const char*>() */
#else
  val._b_SizedRamString.str_ = foreign;   /* the caller's own buffer with the same bytes */
#endif
  VariantData__setString_JsonStringAdapter__VariantData_p_JsonStringAdapter_ResourceManager_p(&s_v, val, rm);
  COVER(len == 2); COVER(len == 1);
  CHECK(g_save_calls == 1 && g_save_arg._b_SizedRamString.str_ == val._b_SizedRamString.str_ && g_save_arg._b_SizedRamString.size_ == len && !g_save_arg.linked_, "the caller's string is saved once, as given");
  if (g_save_result) {
    CHECK(s_v.type_ == 5 && (Node *)s_v.content_.asOwnedString == g_save_result && g_save_result->length == len && g_save_result->data[0] == c0 && (len < 2 || g_save_result->data[1] == c1),
          "C14: the value holds a copy of the caller's bytes");
    CHECK(g_live_blocks == 1 && g_dealloc_calls == 1, "C06: the string the value held alone is released with its last user; the new one is the only live block");
  } else if (!g_watch_freed) {
    CHECK(s_v.type_ == 0 && rm->overflowed_ && g_live_blocks == 0, "C05: when the copy cannot be allocated the value is null, the failure is reported, nothing leaks");
  }
}
#endif /* U_SETSTRING_ALIAS */

/* =============================================================================================================================
 * unit facade_poollist_move (class W: the copy of the INITIAL inline entries is a constant-bound loop): MemoryPoolList::
 * operator=(MemoryPoolList&&).  No library code calls it (ResourceManager has no move operations; JsonDocument moves by swap): it
 * is reachable only through the explicit instantiation in tu/facade.cpp.  Contract taken from its own precondition
 * (ARDUINOJSON_ASSERT(count_ == 0): the destination is the cleared list) and from C06 "blocks are owned exactly once". */
#ifdef U_POOLLIST_MOVE
void h_list_move_assign(void) {
  alloc_reset();
  static PoolList s_dst, s_src;
  static Pool s_tab[heap_cap_k > CFG_INITIAL ? heap_cap_k : CFG_INITIAL + 1];
  PoolList *dst = &s_dst, *src = &s_src;
  /* destination: the cleared list (stale inline entries arbitrary) */
  for (unsigned i = 0; i < CFG_INITIAL; i++) {
    dst->preallocatedPools_[i].slots_ = (SlotData *)(uintptr_t)in_u64();
    dst->preallocatedPools_[i].capacity_ = (__typeof__(dst->preallocatedPools_[i].capacity_))in_u32();
    dst->preallocatedPools_[i].usage_ = (__typeof__(dst->preallocatedPools_[i].usage_))in_u32();
  }
  dst->pools_ = dst->preallocatedPools_; dst->count_ = 0;
  dst->capacity_ = (__typeof__(dst->capacity_))CFG_INITIAL; dst->freeList_ = (__typeof__(dst->freeList_))CFG_NULL_SLOT;
  /* source: any list, inline or heap */
  _Bool heap = in_bool();
  Pool *tab = heap ? s_tab : src->preallocatedPools_;
  unsigned cap = heap ? in_u32() : (unsigned)CFG_INITIAL;
  if (heap) __CPROVER_assume(heap_cap_k > CFG_INITIAL && cap > CFG_INITIAL && cap <= heap_cap_k);
  unsigned count = in_u32();
  __CPROVER_assume(count <= cap && count <= MAXPOOLS);
  for (unsigned i = 0; i < CFG_INITIAL; i++) {
    tab[i].slots_ = (SlotData *)(uintptr_t)in_u64();
    tab[i].capacity_ = (__typeof__(tab[i].capacity_))in_u32();
    tab[i].usage_ = (__typeof__(tab[i].usage_))in_u32();
  }
  src->pools_ = tab; src->count_ = (__typeof__(src->count_))count; src->capacity_ = (__typeof__(src->capacity_))cap;
  src->freeList_ = (__typeof__(src->freeList_))CFG_NULL_SLOT; /* (see the report: the free list is not transferred) */
  Pool e0[CFG_INITIAL];
  for (unsigned i = 0; i < CFG_INITIAL; i++) e0[i] = tab[i];
  PoolList *ret = MemoryPoolList_ResourceManager__SlotData__op_assign__MemoryPoolList_ResourceManager__SlotData_rr(dst, src);
  COVER(heap && count > CFG_INITIAL); COVER(!heap && count == CFG_INITIAL); COVER(count == 0);
  CHECK(ret == dst, "operator= returns its object");
#ifdef CANARY_LIST_MOVE
  CHECK(dst->count_ == count + (count == 2) && dst->capacity_ == cap, "C04/C06: the pools move with their count and capacity");
#else
  CHECK(dst->count_ == count && dst->capacity_ == cap, "C04/C06: the pools move with their count and capacity");
#endif
  CHECK(heap ? (dst->pools_ == s_tab) : (dst->pools_ == dst->preallocatedPools_), "a heap table is handed over by pointer, inline entries are copied into the destination's own inline table (no pointer into the source)");
  for (unsigned i = 0; i < CFG_INITIAL; i++) if (i < count)
    CHECK(dst->pools_[i].slots_ == e0[i].slots_ && dst->pools_[i].capacity_ == e0[i].capacity_ && dst->pools_[i].usage_ == e0[i].usage_, "C04: every pool entry arrives unchanged at the same index (slot ids keep designating the same slots)");
  CHECK(src->count_ == 0 && (!heap || src->pools_ == 0), "C06: the blocks are owned exactly once: the source no longer reaches any pool or the heap table");
  CHECK(g_alloc_calls + g_dealloc_calls + g_realloc_calls == 0, "C06: a move never calls an allocator");
}
#endif /* U_POOLLIST_MOVE */
