/* JSON token-level routines of JsonDeserializer<StubReader> (real Latch, ghost reader): skipSpacesAndComments, skipKeyword,
 * skipQuotedString, parseQuotedString, skip/parseNonQuotedString, skip/parseNumericValue.
 * Serves C03 (no read past the end, fixed buffers, return codes), C16 (what is consumed / looked ahead), C10 (token grammar and
 * classification), C01 (what is appended to the string builder / handed to parseNumber).
 * Every loop is closed by a loop contract (jsonscan.loops.json) => inputs of every length. */
/* Configurations (configs.json; the driver passes -DCFG_<config>=1):
 *   def64, cmt  every routine (cmt: skipSpacesAndComments with comments)
 *   nan, inf    skipNumericValue / parseNumericValue: canBeInNumber() admits letters when ARDUINOJSON_ENABLE_NAN or
 *               ARDUINOJSON_ENABLE_INFINITY is set (consumption classes: json_ghost.h NUM_MAY_CONSUME / NUM_MUST_CONSUME)
 *   nouni       skipQuotedString / parseQuotedString with ARDUINOJSON_DECODE_UNICODE=0: a \u escape is not decoded, its six
 *               characters are kept verbatim
 *   nodbl, noll parseNumericValue: the switch over the Number kinds without the Double case (ARDUINOJSON_USE_DOUBLE=0) /
 *               with JsonInteger = long (ARDUINOJSON_USE_LONG_LONG=0)
 * In nan / inf the canary of the two number obligations is option-specific (the letter 'a' is declared not consumable). */
#if (defined(CANARY_SKIPNUMERIC) || defined(CANARY_PARSENUMERIC)) && (defined(CFG_nan) || defined(CFG_inf))
#define CANARY_NUM_LETTERS 1
#endif
#include "json_ghost.h"
/* sinks referenced by loop contracts must be declared before the lowered text */
static unsigned g_app_n;
static unsigned char g_app_last;
static _Bool g_builder_valid; /* the string builder's state: it may be invalid from the start (startString's allocation failed) and
                                 becomes invalid at the g_fail_at-th append (a failed resize); once invalid it stays invalid */
static unsigned g_fail_at;
static _Bool g_first_loaded; /* the latch was loaded when the routine under test started */
/* parseQuotedString / parseNonQuotedString: what is appended, why InvalidInput (named by the loop contracts) */
static void *g_jd;            /* the deserializer under test (the stubs look at its latch) */
static unsigned g_esc_n;      /* two-character escapes translated so far (each consumes two bytes and appends one) */
static _Bool g_unesc_pending; /* the escape table returned a translation that has not been appended yet */
static char g_unesc_ret;      /* ... that translation */
static _Bool g_unesc_zero;    /* the escape table returned 0: the byte behind the backslash is not an escape */
static _Bool g_hex_invalid;   /* parseHex4 reported InvalidInput */
static unsigned g_u_n;        /* \uXXXX groups decoded so far (parseHex4 returned Ok) */
static unsigned g_acc;        /* the bytes the routine must have fetched for what it did so far: one per plain byte appended, two per
                                 two-character escape, two (backslash, u) plus parseHex4's own per \uXXXX group */
static _Bool g_app_hi, g_app_ctl; /* a byte >= 0x80 / the control byte 0x1F was appended as a plain byte */
static _Bool g_u_kept;        /* nouni: a backslash was appended while the 'u' behind it was waiting in the latch: \u kept verbatim */
#define APP_GHOST_ASSIGNS g_app_n, g_app_last, g_builder_valid, g_app_hi, g_app_ctl, g_unesc_pending, g_acc
#define PQ_GHOST_ASSIGNS APP_GHOST_ASSIGNS, g_esc_n, g_unesc_ret, g_unesc_zero, g_hex_invalid, g_u_n
#if defined(CFG_nouni) && defined(APP_LOG)
static unsigned char g_app_buf[16]; /* the first 16 appended bytes (unit jsonscan_nouni: loops unwound, no loop contracts) */
#endif
#ifdef VERIF_NATIVE
#include "lowered_types.h"
#else
#include "lowered.c"
#endif
typedef struct JsonDeserializer_StubReader JD;
/* Native build (replay of counterexamples, covalidation of cover witnesses): the REAL StringBuilder, parseHex4, unescapeChar,
 * encodeCodepoint, parseNumber and VariantData setters run instead of the contract stubs below, so ghost state that only the
 * stubs maintain is not meaningful there.  STUB_CHECK: a postcondition stated over such ghost state, compiled in the CBMC
 * build only.  BUILDER_VALID(d): the builder's validity -- the ghost in the CBMC build, the real builder's node_ natively. */
#ifdef VERIF_NATIVE
#define STUB_CHECK(c, name) ((void)0)
#define BUILDER_VALID(d) ((d)->stringBuilder_.node_ != 0)
#else
#define STUB_CHECK(c, name) CHECK(c, name)
#define BUILDER_VALID(d) g_builder_valid
#endif

int StubReader__read(struct StubReader *self) {
  (void)self;
  CHECK(!g_ended, "C03: no byte is read after the end of the input was delivered");
  if (g_have_last && !ghost_allowed(g_last)) g_bad_consumed = 1; /* a new read means the previous byte was consumed */
#if ARDUINOJSON_ENABLE_COMMENTS
  if (g_have_last) cm_consume(g_last); /* comment automaton over the consumed bytes (json_ghost.h) */
#endif
  if (g_sq_on && g_have_last) sq_consume(g_last); /* string automaton of skipQuotedString (json_ghost.h) */
  int c = (int)in_u16() - 1;
  __CPROVER_assume(c >= -1 && c <= 255);
#ifdef BOUND_READS /* bounded units: the input ends with the BOUND_READS-th byte at the latest */
  __CPROVER_assume(g_reads + 1 < BOUND_READS || c <= 0);
#endif
  if (g_reads < 8) g_log[g_reads] = (unsigned char)(c > 0 ? c : 0);
  g_reads++;
  g_last = c > 0 ? c : 0;
  g_have_last = 1;
  if (c <= 0) g_ended = 1;
  return c;
}

/* ---- string builder sink (C01: what is appended) ---- */
/* append: C01 "strings byte-identical after escape and \\uXXXX decoding": what is appended is either the translation the
 * escape table just returned, or the plain byte just consumed (the latch has dropped it: it is the last byte delivered) --
 * whatever its value: 0x01-0x1F and 0x80-0xFF are legal string bytes here.  (\\u: the bytes come from encodeCodepoint.) */
void StringBuilder__append__char(struct StringBuilder *self, char c) {
  (void)self;
  JD *d = (JD *)g_jd;
  if (g_unesc_pending) {
    CHECK(c == g_unesc_ret, "C01: behind a backslash the byte the escape table gives is appended");
    g_unesc_pending = 0;
  }
#ifdef CFG_nouni
  else if (c == '\\' && d && d->latch_.loaded_ && d->latch_.current_ == 'u') g_u_kept = 1; /* DECODE_UNICODE=0: the backslash of \u */
#endif
  else {
    CHECK(d && !d->latch_.loaded_ && g_have_last && (unsigned char)c == (unsigned char)g_last, "C01: a plain byte is appended verbatim: the byte just consumed, whatever its value (0x01-0x1F and 0x80-0xFF included)");
    if ((unsigned char)c >= 0x80) g_app_hi = 1;
    if (c == 0x1f) g_app_ctl = 1;
  }
#if defined(CFG_nouni) && defined(APP_LOG)
  if (g_app_n < 16) g_app_buf[g_app_n] = (unsigned char)c;
#endif
  if (g_app_n == g_fail_at) g_builder_valid = 0; /* a failed resize */
  g_app_n++; g_app_last = (unsigned char)c; g_acc++;
}
_Bool StringBuilder__isValid(struct StringBuilder *self) { (void)self; return g_builder_valid; }

/* ---- callees of parseQuotedString by contract (each contract is proved on the real function in unit `unicode`) ---- */
/* parseHex4: Ok => exactly four (non-NUL) bytes consumed, latch empty; IncompleteInput => the end is latched;
 * InvalidInput => the offending (non-NUL) byte is latched.  [unicode/hex4_valid, hex4_classify] */
unsigned int JsonDeserializer_StubReader__parseHex4(JD *self, unsigned short *result) {
  CHECK(SAFE(self), "parseHex4 precondition: SAFE");
  CHECK(!self->latch_.loaded_ && g_have_last && g_last == 'u', "parseHex4 is called right behind a consumed backslash-u");
  unsigned which = in_u8() % 3;
  *result = in_u16();
  unsigned k = 1 + in_u8() % 4;
  g_reads += k; g_acc += k;
  g_have_last = 1;
  if (which == 0) { self->latch_.loaded_ = 0; g_last = '0'; g_ended = 0; g_u_n++; g_acc += 2; return Ok; }
  self->latch_.loaded_ = 1;
  if (which == 1) { self->latch_.current_ = 0; g_last = 0; g_ended = 1; return IncompleteInput; }
  char c = in_char();
  __CPROVER_assume(c != 0);
  self->latch_.current_ = c; g_last = (unsigned char)c; g_ended = 0;
  g_hex_invalid = 1;
  return InvalidInput;
}
/* encodeCodepoint: appends 1..4 bytes to the builder, touches nothing else.  [unicode/utf8_encode] */
void Utf8__encodeCodepoint_StringBuilder(unsigned int cp, struct StringBuilder *b) {
  (void)cp; (void)b;
  unsigned k = 1 + in_u8() % 4;
  if (g_fail_at - g_app_n < k) g_builder_valid = 0; /* the failing append lies among these */
  g_app_n += k;
}
/* unescapeChar: the RFC 8259 table plus the single quote, 0 for anything else.  [unicode/escape_tables] */
static char spec_unescape(char c) {
  switch (c) {
    case '"': return '"'; case '\\': return '\\'; case '/': return '/'; case '\'': return '\'';
    case 'b': return '\b'; case 'f': return '\f'; case 'n': return '\n'; case 'r': return '\r'; case 't': return '\t';
    default: return 0;
  }
}
char EscapeSequence__unescapeChar(char c) {
  char r = spec_unescape(c);
  if (r) { g_esc_n++; g_acc++; g_unesc_pending = 1; g_unesc_ret = r; }
  else g_unesc_zero = 1;
  return r;
}

/* ---- number sink ---- */
static struct Number g_number;
static char *g_pn_arg;
struct Number parseNumber(char *s) { g_pn_arg = s; return g_number; }
static unsigned g_set_kind; /* 1 ulong 2 long 3 float 4 double */
static uint64_t g_set_bits;
static _Bool g_set_ok;
_Bool VariantData__setInteger_ulong(struct VariantData *v, unsigned long x, struct ResourceManager *r) { (void)v; (void)r; g_set_kind = 1; g_set_bits = x; return g_set_ok; }
_Bool VariantData__setInteger_long(struct VariantData *v, long x, struct ResourceManager *r) { (void)v; (void)r; g_set_kind = 2; g_set_bits = (uint64_t)x; return g_set_ok; }
_Bool VariantData__setFloat_float(struct VariantData *v, float x, struct ResourceManager *r) { (void)v; (void)r; g_set_kind = 3; uint32_t b; memcpy(&b, &x, 4); g_set_bits = b; return g_set_ok; }
_Bool VariantData__setFloat_double(struct VariantData *v, double x, struct ResourceManager *r) { (void)v; (void)r; g_set_kind = 4; memcpy(&g_set_bits, &x, 8); return g_set_ok; }

/* ---- arbitrary SAFE pre-state ---- */
static JD *mk_state(unsigned char allowed_class) {
  JD *d = malloc(sizeof *d);
  __CPROVER_assume(d != 0);
  memset(d, 0, sizeof *d);
  d->latch_.loaded_ = in_bool();
  d->latch_.current_ = in_char();
  d->foundSomething_ = in_bool();
  g_ended = d->latch_.loaded_ && d->latch_.current_ == 0;
  g_reads = 0;
  g_have_last = d->latch_.loaded_;
  g_last = (int)(unsigned char)d->latch_.current_;
  g_bad_consumed = 0;
  g_allowed_class = allowed_class;
  g_builder_valid = in_bool(); /* invalid from the start: startString()'s allocation failed */
  g_fail_at = in_u16();        /* ... or the append that fails (none if the string is shorter) */
  g_app_n = 0; g_app_last = 0;
  g_sq_on = 0;
  g_jd = d; g_esc_n = 0; g_u_kept = 0; g_unesc_pending = 0; g_unesc_ret = 0; g_unesc_zero = 0; g_hex_invalid = 0;
  g_u_n = 0; g_acc = 0; g_app_hi = 0; g_app_ctl = 0;
  return d;
}
static void settle(JD *d) { /* judge the consumption of the last delivered byte */
  if (!d->latch_.loaded_ && g_have_last && !ghost_allowed(g_last)) g_bad_consumed = 1;
}
#define RET_IN(err, a, b, c) ((err) == (a) || (err) == (b) || (err) == (c))

/* skipSpacesAndComments.  Default configuration: only SP TAB CR LF are consumed.  Comments configuration (cmt): what may be
 * consumed, which comments are complete and how the end of the input is classified is judged by the ghost automaton of
 * json_ghost.h over the consumed bytes (C10: comments only when the option is enabled; a block comment ends at the FIRST
 * star-slash, a line comment at the newline; a token byte is never swallowed). */
void h_skipSpaces(void) {
#if ARDUINOJSON_ENABLE_COMMENTS
  JD *d = mk_state(0);
  g_cm = CM_BETWEEN; g_cm_done = 0; g_cm_run = 0; g_cm_2star = 0;
#else
  JD *d = mk_state(1);
#endif
  _Bool found0 = d->foundSomething_;
  unsigned err = JsonDeserializer_StubReader__skipSpacesAndComments(d);
  settle(d);
  COVER(err == Ok); COVER(err == EmptyInput); COVER(err == IncompleteInput); COVER(err == Ok && g_reads > 1);
  CHECK(SAFE(d), "C03: SAFE re-established (the terminator is never consumed)");
  CHECK(LATCHED(d), "the byte that stopped the scan stays in the latch (one look-ahead)");
  unsigned char cur = (unsigned char)d->latch_.current_;
#if ARDUINOJSON_ENABLE_COMMENTS
  unsigned char st = CM_EFF(d); /* the automaton behind every consumed byte */
  _Bool in_comment = st == CM_BLOCK || st == CM_BLOCK_STAR || st == CM_LINE;
  COVER(err == InvalidInput); COVER(err == IncompleteInput && !found0);
  COVER(err == Ok && g_cm_2star);                       /* a block comment with two stars before the slash was consumed */
  COVER(err == Ok && g_cm_done >= 2);                   /* two comments in a row */
  COVER(err == IncompleteInput && st == CM_BLOCK_STAR); /* the input ends behind a star inside a block comment */
  COVER(err == IncompleteInput && st == CM_LINE);
#ifdef BOUND_READS /* bounded unit (loops unwound): the same goals with the bytes spelled out */
  COVER(err == Ok && g_cm_2star && g_reads == 6 && g_log[0] == '/' && g_log[1] == '*' && g_log[2] == '*' && g_log[3] == '*' && g_log[4] == '/' && g_log[5] == 'x');
  COVER(err == Ok && g_cm_done == 2 && g_log[0] == '/' && g_log[1] == '/');
#endif
  CHECK(err == Ok || err == EmptyInput || err == IncompleteInput || err == InvalidInput, "skipSpacesAndComments return codes (comments enabled)");
  CHECK(st != CM_BAD, "C16/C10: outside comments only SP TAB CR LF and a '/' that opens a comment are consumed (a token byte is never swallowed)");
  CHECK(err != Ok || (cur != 0 && !IS_WS(cur) && cur != '/' && d->foundSomething_), "Ok: a byte that is neither space nor the start of a comment is waiting");
#ifdef CANARY_SKIPSPACES
  CHECK(err != Ok || (st == CM_BETWEEN && !g_cm_2star), "C10: Ok => every comment consumed was complete: a block comment ends at its first star-slash, a line comment at the newline");
#else
  CHECK(err != Ok || st == CM_BETWEEN, "C10: Ok => every comment consumed was complete: a block comment ends at its first star-slash, a line comment at the newline");
#endif
  CHECK(err != EmptyInput || (cur == 0 && !found0 && st == CM_BETWEEN), "EmptyInput: end of input outside comments with nothing found so far");
  CHECK(err != IncompleteInput || cur == 0, "IncompleteInput: only at the end of the input (also inside an unterminated comment)");
  CHECK(!(cur == 0 && in_comment) || err == IncompleteInput, "C10: the input ends inside a comment => IncompleteInput");
  CHECK(!(cur == 0 && st == CM_BETWEEN) || err == (found0 ? IncompleteInput : EmptyInput), "end of input outside comments: IncompleteInput after something was found, EmptyInput otherwise");
  CHECK(err != IncompleteInput || in_comment || (st == CM_BETWEEN && found0) || st == CM_SLASH, "IncompleteInput: inside a comment, or outside with something found (a lone '/' at the end is left open)");
  CHECK(err != InvalidInput || (st == CM_SLASH && cur != '*' && cur != '/'), "C10: InvalidInput <=> a '/' that does not open a comment; the offending byte is not consumed");
  CHECK(st != CM_SLASH || err == InvalidInput || (cur == 0 && err == IncompleteInput), "C10: a '/' followed by a byte other than '*' and '/' is InvalidInput");
#else
  CHECK(RET_IN(err, Ok, EmptyInput, IncompleteInput), "skipSpaces returns Ok, EmptyInput or IncompleteInput only");
  CHECK(!g_bad_consumed, "C16/C10: only SP TAB CR LF are consumed");
  CHECK(err != Ok || (cur != 0 && !IS_WS(cur) && d->foundSomething_), "Ok: a non-space byte is waiting and something was found");
  CHECK(err != EmptyInput || (cur == 0 && !found0), "EmptyInput: end of input with nothing found so far (only whitespace)");
  CHECK(err != IncompleteInput || (cur == 0 && found0), "IncompleteInput: end of input after something was found");
#ifdef CANARY_SKIPSPACES
  CHECK(err != Ok || g_reads != 2, "canary: deliberately false for a reachable case");
#endif
#endif
}

/* skipKeyword("true"|"false"|"null") */
void h_skipKeyword(void) {
  JD *d = mk_state(0);
  unsigned which = in_u8() % 3;
  char *kw = which == 0 ? "true" : which == 1 ? "false" : "null";
  unsigned klen = which == 1 ? 5 : 4;
  /* the caller dispatches on the first byte: it is latched */
  __CPROVER_assume(d->latch_.loaded_ && d->latch_.current_ == kw[0]);
  unsigned err = JsonDeserializer_StubReader__skipKeyword(d, kw);
  COVER(err == Ok); COVER(err == IncompleteInput); COVER(err == InvalidInput);
  CHECK(RET_IN(err, Ok, IncompleteInput, InvalidInput), "skipKeyword returns Ok, IncompleteInput or InvalidInput only");
  CHECK(SAFE(d), "C03: SAFE re-established");
  /* oracle: compare the delivered bytes with the keyword, independently */
  unsigned i = 1, want = Ok;
  for (; i < klen; i++) {
    unsigned char b = g_log[i - 1];
    if (i - 1 >= g_reads) break;
    if (b == 0) { want = IncompleteInput; break; }
    if (b != (unsigned char)kw[i]) { want = InvalidInput; break; }
  }
  CHECK(err == want, "C10: Ok iff the input spells the keyword exactly; end => Incomplete; other byte => Invalid");
  CHECK(err != Ok || (!LATCHED(d) && g_reads == klen - 1), "C16: exactly the keyword is consumed, nothing is fetched after it");
  CHECK(err == Ok || LATCHED(d), "on error the offending byte is not consumed");
#ifdef CANARY_KEYWORD
  CHECK(!(err == Ok && which == 2), "canary: deliberately false for a reachable case");
#endif
}

/* skipQuotedString (the filter's skip path, C11): where the string ends is judged by the ghost automaton of json_ghost.h over
 * the consumed bytes: it ends at the first unescaped quote of the opening kind; an escaped quote does not close it; an
 * escaped backslash does not escape the quote behind it; nothing behind the closing quote is consumed or fetched. */
void h_skipQuoted(void) {
  JD *d = mk_state(0);
  __CPROVER_assume(d->latch_.loaded_ && (d->latch_.current_ == '"' || d->latch_.current_ == '\''));
  char q = d->latch_.current_;
  g_sq_on = 1; g_sq = SQ_OPEN; g_sq_q = (unsigned char)q; g_sq_escbs = 0; g_sq_end_escbs = 0; g_sq_escq = 0;
#ifdef BOUND_READS
  for (unsigned i = 0; i < 8; i++) g_log[i] = 0;
#endif
  unsigned err = JsonDeserializer_StubReader__skipQuotedString(d);
  unsigned char st = SQ_EFF(d); /* the automaton behind every consumed byte */
  /* the closing quote is consumed without a further read(): the flag about it is completed here, like the state */
  _Bool end_escbs = g_sq_end_escbs || (!LATCHED(d) && g_have_last && g_sq == SQ_IN && g_last == g_sq_q && g_sq_escbs);
  COVER(err == Ok); COVER(err == IncompleteInput); COVER(err == Ok && g_reads > 2);
  COVER(err == Ok && end_escbs);            /* a string whose text ends in an escaped backslash: the quote behind it closes */
  COVER(err == Ok && g_sq_escq);            /* an escaped quote inside the string did not close it */
  COVER(err == IncompleteInput && g_sq_escq); /* ... and the input ended before an unescaped one came */
#ifdef BOUND_READS /* bounded unit (loops unwound): the same goals with the bytes spelled out */
  COVER(err == Ok && g_reads == 3 && g_log[0] == '\\' && g_log[1] == '\\' && g_log[2] == (unsigned char)q);
  COVER(err == Ok && g_reads == 5 && g_log[0] == 'C' && g_log[1] == ':' && g_log[2] == '\\' && g_log[3] == '\\' && g_log[4] == (unsigned char)q);
  COVER(err == Ok && g_reads == 3 && g_log[0] == '\\' && g_log[1] == (unsigned char)q && g_log[2] == (unsigned char)q);
#endif
#ifdef CFG_nouni
  COVER(err == Ok && g_reads == 3 && g_log[0] == '\\' && g_log[1] == 'u'); /* "\u" closed at once: what parseQuotedString accepts in this configuration */
#endif
  CHECK(err == Ok || err == IncompleteInput, "skipQuotedString returns Ok or IncompleteInput only");
  CHECK(err != Ok || SAFE(d), "C03: Ok => SAFE (the terminator was not consumed)");
  CHECK(st != SQ_BAD, "C11/C16: nothing behind the closing quote is consumed");
  CHECK(err != Ok || (!LATCHED(d) && g_last == (unsigned char)q), "C16/C10: Ok => the closing quote (same as the opening one) is the last byte consumed");
#ifdef CANARY_SKIPQUOTED
  CHECK(err != Ok || (st == SQ_DONE && !end_escbs), "C11/C10: Ok => the string ended at the first unescaped quote of the opening kind (an escaped quote does not close it, an escaped backslash does not escape the quote behind it)");
#else
  CHECK(err != Ok || st == SQ_DONE, "C11/C10: Ok => the string ended at the first unescaped quote of the opening kind (an escaped quote does not close it, an escaped backslash does not escape the quote behind it)");
#endif
  CHECK(err != IncompleteInput || g_ended, "IncompleteInput only at the end of the input: an unterminated string is never accepted");
  CHECK(err != IncompleteInput || (st != SQ_DONE && st != SQ_BAD), "C10: IncompleteInput only when the input ends before the closing quote");
}

void h_parseQuoted(void) {
  JD *d = mk_state(0);
  __CPROVER_assume(d->latch_.loaded_ && (d->latch_.current_ == '"' || d->latch_.current_ == '\''));
  char q = d->latch_.current_;
  _Bool valid0 = BUILDER_VALID(d);
#ifdef BOUND_READS
  for (unsigned i = 0; i < 8; i++) g_log[i] = 0;
#endif
  unsigned err = JsonDeserializer_StubReader__parseQuotedString(d);
  COVER(err == Ok); COVER(err == IncompleteInput); COVER(err == InvalidInput); COVER(err == NoMemory); COVER(err == Ok && g_app_n > 0);
  COVER(err == NoMemory && !valid0 && g_reads == 1 && g_app_n == 0);   /* the empty string with a builder that is invalid from the start */
  COVER(err == NoMemory && valid0);                                    /* an append failed */
  COVER(err == Ok && g_app_hi);                                        /* a byte >= 0x80 was appended */
  COVER(err == Ok && g_app_ctl);                                       /* the control byte 0x1F was appended */
  COVER(err == InvalidInput && g_unesc_zero);
#ifdef BOUND_READS /* bounded sibling (loops unwound): the same goals with the bytes spelled out */
  COVER(err == Ok && g_reads == 3 && g_app_n == 2 && g_log[0] == 0xC3 && g_log[1] == 0xA9 && g_app_hi);
  COVER(err == Ok && g_reads == 2 && g_app_n == 1 && g_log[0] == 0x1f && g_app_ctl);
  COVER(err == Ok && g_reads == 3 && g_app_n == 1 && g_log[0] == '\\' && g_log[1] == 'n' && g_app_last == '\n');
#endif
  CHECK(err == Ok || err == IncompleteInput || err == InvalidInput || err == NoMemory, "parseQuotedString return codes");
  CHECK(err != Ok || SAFE(d), "C03: Ok => SAFE");
  CHECK(err != Ok || (!LATCHED(d) && g_last == (unsigned char)q), "C16/C10: Ok => the closing quote is the last byte consumed");
  CHECK(err != IncompleteInput || g_ended, "IncompleteInput only at the end of the input");
  /* C05: the builder may be invalid from the start (startString failed) or become invalid at any append */
  CHECK(err != Ok || BUILDER_VALID(d), "C05: Ok only if the builder is valid at the end (an invalid builder gives NoMemory whatever the string, the empty string included)");
  CHECK(err != NoMemory || !BUILDER_VALID(d), "C05/C10: NoMemory only if the builder is invalid");
  /* C10: every byte other than the closing quote, the backslash and NUL is a legal string byte */
  STUB_CHECK(err != InvalidInput || g_hex_invalid || g_unesc_zero, "C10/C01: InvalidInput only from the hex digits of \\u or from a byte behind a backslash that is no escape -- never for a plain byte (0x01-0x1F, 0x80-0xFF are legal)");
  STUB_CHECK(!(g_hex_invalid || g_unesc_zero) || err == InvalidInput, "C10: a wrong escape is InvalidInput");
  STUB_CHECK(!g_unesc_pending, "C01: the translation of an escape is appended");
#ifdef CFG_nouni
  /* ARDUINOJSON_DECODE_UNICODE=0: \uXXXX is not decoded; the documented behaviour is that the escape is left as it is.
   * Byte accounting over strings of every length (loop invariant of jsonscan_nouni.loops.json): between the quotes every
   * byte is appended exactly once, except that a two-character escape gives one byte; nothing is dropped, nothing is
   * decoded.  (The exact bytes: unit jsonscan_nouni, bounded.) */
  COVER((err == Ok || err == NoMemory) && g_u_kept);
  COVER(err == Ok && g_esc_n > 0 && g_u_kept);
#ifdef CANARY_PARSEQUOTED
  STUB_CHECK((err != Ok && err != NoMemory) || g_app_n + g_esc_n + 1 + (g_u_kept && g_app_n == 6) == g_reads, "DECODE_UNICODE=0: every byte between the quotes is appended once (a two-character escape gives one byte, \\u is kept verbatim)");
#else
  STUB_CHECK((err != Ok && err != NoMemory) || g_app_n + g_esc_n + 1 == g_reads, "DECODE_UNICODE=0: every byte between the quotes is appended once (a two-character escape gives one byte, \\u is kept verbatim)");
#endif
#else
  /* byte accounting over strings of every length (loop invariant): of the bytes the routine fetched itself, each is appended
   * exactly once, except that a two-character escape gives one byte and backslash-u gives the bytes of encodeCodepoint;
   * the closing quote is not appended.  Nothing is dropped, nothing is doubled. */
  COVER(err == Ok && g_u_n > 0 && g_esc_n > 0);
#ifdef CANARY_PARSEQUOTED
  STUB_CHECK(err != Ok || g_acc + 1u + (g_app_n == 1) == g_reads, "C01: every plain byte between the quotes is appended exactly once (a two-character escape gives one byte, backslash-u the bytes of encodeCodepoint)");
#else
  STUB_CHECK(err != Ok || g_acc + 1u == g_reads, "C01: every plain byte between the quotes is appended exactly once (a two-character escape gives one byte, backslash-u the bytes of encodeCodepoint)");
#endif
#endif
}

#if defined(CFG_nouni) && defined(APP_LOG)
/* unit jsonscan_nouni (bounded, loops unwound, no loop contracts): the exact bytes parseQuotedString appends when
 * ARDUINOJSON_DECODE_UNICODE=0, for every input of at most BOUND_READS bytes behind the opening quote.  Oracle: the string
 * grammar of RFC 8259 section 7 read left to right, with the documented treatment of \u in this configuration (not decoded,
 * left as it is: backslash, 'u' and whatever follows are ordinary characters). */
void h_parseQuoted_verbatim(void) {
  JD *d = mk_state(0);
  __CPROVER_assume(d->latch_.loaded_ && (d->latch_.current_ == '"' || d->latch_.current_ == '\''));
  char q = d->latch_.current_;
  for (unsigned i = 0; i < 16; i++) g_app_buf[i] = 0;
  for (unsigned i = 0; i < 8; i++) g_log[i] = 0;
  unsigned err = JsonDeserializer_StubReader__parseQuotedString(d);
  /* the oracle walks the delivered bytes g_log[0 .. g_reads) */
  unsigned char want[16];
  unsigned wn = 0, i = 0, werr = IncompleteInput;
  _Bool done = 0, saw_u = 0;
  for (unsigned k = 0; k < BOUND_READS; k++) {
    if (done || i >= g_reads) break;
    unsigned char b = g_log[i++];
    if (b == (unsigned char)q) { werr = Ok; done = 1; }
    else if (b == 0) { werr = IncompleteInput; done = 1; }
    else if (b == '\\') {
      unsigned char e = i < g_reads ? g_log[i] : 0;
      if (e == 0) { werr = IncompleteInput; done = 1; }
      else if (e == 'u') { want[wn++] = '\\'; saw_u = 1; } /* the 'u' is read again as an ordinary character */
      else { char t = spec_unescape((char)e); if (!t) { werr = InvalidInput; done = 1; } else { want[wn++] = (unsigned char)t; i++; } }
    } else want[wn++] = b;
  }
  if (werr == Ok && !g_builder_valid) werr = NoMemory;
  COVER(err == Ok && saw_u && g_reads == 7 && g_log[0] == '\\' && g_log[1] == 'u' && g_log[2] == '0' && g_log[3] == '0' && g_log[4] == '4' && g_log[5] == '1');
  COVER(err == Ok && saw_u && g_reads == 3);                  /* "\u" closed at once: not an error in this configuration */
  COVER(err == Ok && saw_u && g_esc_n > 0);
  COVER(err == IncompleteInput && saw_u);
  COVER(err == InvalidInput);
  CHECK(err == werr, "DECODE_UNICODE=0: Ok iff the string is closed by its opening quote and every escape other than \\u is one of the two-character escapes; NUL => IncompleteInput; unknown escape => InvalidInput");
  if (err == Ok || err == NoMemory) {
    CHECK(g_app_n == wn, "DECODE_UNICODE=0: as many bytes are appended as the string denotes with \\u left as it is");
    _Bool same = 1;
    for (unsigned k = 0; k < 16; k++) if (k < wn && g_app_buf[k] != want[k]) same = 0;
#ifdef CANARY_VERBATIM
    CHECK(same && !(saw_u && wn == 6), "DECODE_UNICODE=0: the appended bytes are the string's bytes, \\uXXXX kept verbatim (backslash, u and the four characters)");
#else
    CHECK(same, "DECODE_UNICODE=0: the appended bytes are the string's bytes, \\uXXXX kept verbatim (backslash, u and the four characters)");
#endif
    CHECK(!LATCHED(d) && g_last == (unsigned char)q, "C16/C10: Ok => the closing quote is the last byte consumed");
  }
  CHECK(err != Ok || SAFE(d), "C03: Ok => SAFE");
}
#endif

/* skipNonQuotedString / parseNonQuotedString (unquoted identifier keys) */
void h_skipNonQuoted(void) {
  JD *d = mk_state(3);
  unsigned err = JsonDeserializer_StubReader__skipNonQuotedString(d);
  settle(d);
  COVER(g_reads > 1); COVER(g_reads == 0);
  CHECK(err == Ok, "skipNonQuotedString always returns Ok");
  CHECK(SAFE(d) && LATCHED(d), "C03/C16: one look-ahead byte stays in the latch, SAFE");
  CHECK(!g_bad_consumed, "only identifier bytes [0-9A-Z_-z] are consumed");
  CHECK(!IS_IDENT((unsigned char)d->latch_.current_) || (unsigned char)d->latch_.current_ >= 0x80, "the scan stops at the first non-identifier byte");
#ifdef CANARY_SKIPNONQUOTED
  CHECK(g_reads != 2, "canary: deliberately false for a reachable case");
#endif
}
void h_parseNonQuoted(void) {
  JD *d = mk_state(3);
  _Bool first_ok = d->latch_.loaded_ && IS_IDENT(d->latch_.current_) && d->latch_.current_ > 0;
  __CPROVER_assume(d->latch_.loaded_); /* parseKey looked at the first byte */
  _Bool valid0 = BUILDER_VALID(d);
  unsigned err = JsonDeserializer_StubReader__parseNonQuotedString(d);
  settle(d);
  COVER(err == Ok); COVER(err == InvalidInput); COVER(err == NoMemory);
  CHECK(err == Ok || err == InvalidInput || err == NoMemory, "parseNonQuotedString return codes");
  /* (after NoMemory nothing is parsed any more: whether the routine stopped before or behind the look-ahead read is left open) */
  CHECK(SAFE(d) && (LATCHED(d) || err == NoMemory), "C03/C16: one look-ahead byte stays in the latch, SAFE");
  CHECK(!g_bad_consumed, "only identifier bytes are consumed");
  CHECK((err == InvalidInput) == !first_ok, "C10: an empty unquoted key is InvalidInput, otherwise not");
  STUB_CHECK(err == InvalidInput || g_app_n == g_reads || (err == NoMemory && !LATCHED(d) && g_app_n == g_reads + 1), "C01: every consumed byte is appended to the key (one append per byte)");
  COVER(err == NoMemory && !valid0); COVER(err == NoMemory && valid0);
  CHECK(err != Ok || BUILDER_VALID(d), "C05: Ok only if the builder is valid at the end (it may be invalid from the start or fail at any append)");
  CHECK(err != NoMemory || !BUILDER_VALID(d), "C05/C10: NoMemory only if the builder is invalid");
#ifdef CANARY_PARSENONQUOTED
  STUB_CHECK(!(err == Ok && g_app_n == 2), "canary: deliberately false for a reachable case");
#endif
}

/* skipNumericValue / parseNumericValue */
#if NUM_OPTION_WORDS
#define D_NUM_CONSUMED "only number bytes are consumed (digits + - . and, with NaN/Infinity enabled, ASCII letters)"
#define D_NUM_STOP "the scan stops at the first non-number byte (never inside NaN / Infinity)"
#define D_NUM_STOP63 "the scan stops at the first non-number byte (never inside NaN / Infinity) or at 63 characters"
#else
#define D_NUM_CONSUMED "only number bytes are consumed"
#define D_NUM_STOP "the scan stops at the first non-number byte"
#define D_NUM_STOP63 "the scan stops at the first non-number byte or at 63 characters"
#endif
void h_skipNumeric(void) {
  JD *d = mk_state(2);
  unsigned char first = (unsigned char)d->latch_.current_;
  _Bool first_loaded = d->latch_.loaded_;
  (void)first; (void)first_loaded;
  unsigned err = JsonDeserializer_StubReader__skipNumericValue(d);
  settle(d);
  COVER(g_reads > 1); COVER(g_reads == 0);
#if NUM_OPTION_WORDS
  /* option-specific: a letter that is not an exponent marker was consumed as part of a number; a byte that is neither a
   * default number byte nor a letter stopped the scan */
  COVER(g_reads >= 2 && g_log[0] == 'a');
  COVER(g_reads >= 2 && g_log[0] == 'y' && !IS_ASCII_LETTER(d->latch_.current_) && d->latch_.current_ != 0);
  COVER(g_reads >= 1 && first_loaded && first == 'N');
  COVER(g_reads >= 1 && first_loaded && first == 'I');
#endif
  CHECK(err == Ok, "skipNumericValue always returns Ok");
  CHECK(SAFE(d) && LATCHED(d), "C03/C16: exactly one look-ahead byte, never two; SAFE");
  CHECK(!g_bad_consumed, D_NUM_CONSUMED);
  CHECK(!NUM_MUST_CONSUME(d->latch_.current_), D_NUM_STOP);
#if defined(CANARY_SKIPNUMERIC) && !defined(CANARY_NUM_LETTERS)
  CHECK(g_reads != 2, "canary: deliberately false for a reachable case");
#endif
}
void h_parseNumeric(void) {
  JD *d = mk_state(2);
  g_number.type_ = in_u8();
  g_number.value_.asUnsignedInteger = in_u64();
  g_set_ok = in_bool();
  g_set_kind = 0;
  struct VariantData v;
  memset(&v, 0, sizeof v);
  unsigned char first = (unsigned char)d->latch_.current_;
  _Bool first_loaded = d->latch_.loaded_;
  g_first_loaded = first_loaded;
  unsigned err = JsonDeserializer_StubReader__parseNumericValue(d, &v);
  settle(d);
  COVER(err == Ok); COVER(err == InvalidInput); COVER(err == NoMemory); COVER(g_reads >= 3);
#if NUM_OPTION_WORDS
  /* option-specific: letters other than the exponent marker were buffered as part of a number ("NaN", "Infinity") */
  COVER(g_reads >= 2 && g_log[0] == 'a');
  COVER(first_loaded && first == 'N' && g_reads == 3 && g_log[0] == 'a' && g_log[1] == 'N' && err == Ok);
  COVER(first_loaded && first == 'I' && g_reads == 8 && g_log[6] == 'y' && err == Ok);
  COVER(g_reads >= 2 && g_log[0] == 'y' && !IS_ASCII_LETTER(d->latch_.current_) && d->latch_.current_ != 0);
#endif
  CHECK(err == Ok || err == InvalidInput || err == NoMemory, "parseNumericValue return codes");
  CHECK(SAFE(d) && LATCHED(d), "C03/C16: exactly one look-ahead byte; SAFE");
  CHECK(!g_bad_consumed, D_NUM_CONSUMED);
  STUB_CHECK(g_pn_arg == d->buffer_, "the text handed to parseNumber is the deserializer's own 64-byte buffer");
  unsigned n = g_reads + (first_loaded ? 1 : 0) - 1; /* bytes consumed: everything delivered except the look-ahead */
  CHECK(n <= 63, "C03: at most 63 characters are buffered");
  CHECK(d->buffer_[n <= 63 ? n : 63] == 0, "C03/C01: the NUL terminator sits right after the consumed characters, inside buffer_[64]");
  CHECK(n == 63 || !NUM_MUST_CONSUME(d->latch_.current_), D_NUM_STOP63);
  /* result mapping: the Number's value reaches the variant setter unchanged (C01); observed through the parseNumber / setter
   * stubs, hence CBMC build only (natively the real parseNumber and setters run) */
  unsigned t = g_number.type_;
#ifdef CFG_nodbl
  /* ARDUINOJSON_USE_DOUBLE=0: Number has the kinds Float, SignedInteger, UnsignedInteger only; a tag of 4 is no kind */
  COVER(t == 4 && err == InvalidInput); COVER(t == 1 && g_set_kind == 3 && err == Ok);
#ifdef CANARY_PARSENUMERIC
  STUB_CHECK((t >= 1 && t <= 4) == (err != InvalidInput), "Invalid iff parseNumber says so (USE_DOUBLE=0: kinds 1..3)");
#else
  STUB_CHECK((t >= 1 && t <= 3) == (err != InvalidInput), "Invalid iff parseNumber says so (USE_DOUBLE=0: kinds 1..3)");
#endif
#else
  STUB_CHECK((t >= 1 && t <= 4) == (err != InvalidInput), "Invalid iff parseNumber says so");
#endif
  STUB_CHECK(err == InvalidInput || (g_set_kind == (t == 3 ? 1 : t == 2 ? 2 : t == 1 ? 3 : 4)), "number type selects the matching setter");
  STUB_CHECK(err == InvalidInput || g_set_bits == (t == 1 ? (uint64_t)(uint32_t)g_number.value_.asUnsignedInteger : g_number.value_.asUnsignedInteger), "value bits reach the setter unchanged");
  STUB_CHECK(err == InvalidInput || (err == NoMemory) == !g_set_ok, "C05: NoMemory iff the store failed");
  (void)first;
#if defined(CANARY_PARSENUMERIC) && !defined(CANARY_NUM_LETTERS) && !defined(CFG_nodbl)
  CHECK(!(err == Ok && g_reads == 3), "canary: deliberately false for a reachable case");
#endif
}
