/* JSON token-level routines of JsonDeserializer<StubReader> (real Latch, ghost reader): skipSpacesAndComments, skipKeyword,
 * skipQuotedString, parseQuotedString, skip/parseNonQuotedString, skip/parseNumericValue.
 * Serves C03 (no read past the end, fixed buffers, return codes), C16 (what is consumed / looked ahead), C10 (token grammar and
 * classification), C01 (what is appended to the string builder / handed to parseNumber).
 * Every loop is closed by a loop contract (jsonscan.loops.json) => inputs of every length. */
#include "json_ghost.h"
/* sinks referenced by loop contracts must be declared before the lowered text */
static unsigned g_app_n;
static unsigned char g_app_last;
static _Bool g_builder_valid;
static _Bool g_first_loaded; /* the latch was loaded when the routine under test started */
#ifdef VERIF_NATIVE
#include "lowered_types.h"
#else
#include "lowered.c"
#endif
typedef struct JsonDeserializer_StubReader JD;

int StubReader__read(struct StubReader *self) {
  (void)self;
  CHECK(!g_ended, "C03: no byte is read after the end of the input was delivered");
  if (g_have_last && !ghost_allowed(g_last)) g_bad_consumed = 1; /* a new read means the previous byte was consumed */
  int c = (int)in_u16() - 1;
  __CPROVER_assume(c >= -1 && c <= 255);
  if (g_reads < 8) g_log[g_reads] = (unsigned char)(c > 0 ? c : 0);
  g_reads++;
  g_last = c > 0 ? c : 0;
  g_have_last = 1;
  if (c <= 0) g_ended = 1;
  return c;
}

/* ---- string builder sink (C01: what is appended) ---- */
void StringBuilder__append__char(struct StringBuilder *self, char c) { (void)self; g_app_n++; g_app_last = (unsigned char)c; }
_Bool StringBuilder__isValid(struct StringBuilder *self) { (void)self; return g_builder_valid; }

/* ---- callees of parseQuotedString by contract (each contract is proved on the real function in unit `unicode`) ---- */
/* parseHex4: Ok => exactly four (non-NUL) bytes consumed, latch empty; IncompleteInput => the end is latched;
 * InvalidInput => the offending (non-NUL) byte is latched.  [unicode/hex4_valid, hex4_classify] */
unsigned int JsonDeserializer_StubReader__parseHex4(JD *self, unsigned short *result) {
  CHECK(SAFE(self), "parseHex4 precondition: SAFE");
  unsigned which = in_u8() % 3;
  *result = in_u16();
  g_reads += 1 + in_u8() % 4;
  g_have_last = 1;
  if (which == 0) { self->latch_.loaded_ = 0; g_last = '0'; g_ended = 0; return Ok; }
  self->latch_.loaded_ = 1;
  if (which == 1) { self->latch_.current_ = 0; g_last = 0; g_ended = 1; return IncompleteInput; }
  char c = in_char();
  __CPROVER_assume(c != 0);
  self->latch_.current_ = c; g_last = (unsigned char)c; g_ended = 0;
  return InvalidInput;
}
/* encodeCodepoint: appends 1..4 bytes to the builder, touches nothing else.  [unicode/utf8_encode] */
void Utf8__encodeCodepoint_StringBuilder(unsigned int cp, struct StringBuilder *b) { (void)cp; (void)b; g_app_n += 1 + in_u8() % 4; }
/* unescapeChar: the RFC 8259 table plus the single quote, 0 for anything else.  [unicode/escape_tables] */
char EscapeSequence__unescapeChar(char c) {
  switch (c) {
    case '"': return '"'; case '\\': return '\\'; case '/': return '/'; case '\'': return '\'';
    case 'b': return '\b'; case 'f': return '\f'; case 'n': return '\n'; case 'r': return '\r'; case 't': return '\t';
    default: return 0;
  }
}

/* ---- number sink ---- */
static struct Number g_number;
static char *g_pn_arg;
struct Number parseNumber(char *s) { g_pn_arg = s; return g_number; }
static unsigned g_set_kind; /* 1 ulong 2 long 3 float 4 double */
static uint64_t g_set_bits;
static _Bool g_set_ok;
_Bool VariantData__setInteger_ulong(struct VariantData *v, unsigned long x, struct ResourceManager *r) { (void)v; (void)r; g_set_kind = 1; g_set_bits = x; return g_set_ok; }
_Bool VariantData__setInteger_long(struct VariantData *v, long x, struct ResourceManager *r) { (void)v; (void)r; g_set_kind = 2; g_set_bits = (uint64_t)x; return g_set_ok; }
_Bool VariantData__setFloat_float(struct VariantData *v, float x, struct ResourceManager *r) { (void)v; (void)r; g_set_kind = 3; uint32_t b; memcpy(&b, &x, 4); g_set_bits = b; return g_set_ok; }
_Bool VariantData__setFloat_double(struct VariantData *v, double x, struct ResourceManager *r) { (void)v; (void)r; g_set_kind = 4; memcpy(&g_set_bits, &x, 8); return g_set_ok; }

/* ---- arbitrary SAFE pre-state ---- */
static JD *mk_state(unsigned char allowed_class) {
  JD *d = malloc(sizeof *d);
  __CPROVER_assume(d != 0);
  memset(d, 0, sizeof *d);
  d->latch_.loaded_ = in_bool();
  d->latch_.current_ = in_char();
  d->foundSomething_ = in_bool();
  g_ended = d->latch_.loaded_ && d->latch_.current_ == 0;
  g_reads = 0;
  g_have_last = d->latch_.loaded_;
  g_last = (int)(unsigned char)d->latch_.current_;
  g_bad_consumed = 0;
  g_allowed_class = allowed_class;
  g_builder_valid = in_bool();
  g_app_n = 0;
  return d;
}
static void settle(JD *d) { /* judge the consumption of the last delivered byte */
  if (!d->latch_.loaded_ && g_have_last && !ghost_allowed(g_last)) g_bad_consumed = 1;
}
#define RET_IN(err, a, b, c) ((err) == (a) || (err) == (b) || (err) == (c))

/* skipSpacesAndComments (default configuration: no comments) */
void h_skipSpaces(void) {
#if ARDUINOJSON_ENABLE_COMMENTS
  JD *d = mk_state(0); /* comments are consumed too: no restriction on the consumed bytes in this configuration */
#else
  JD *d = mk_state(1);
#endif
  _Bool found0 = d->foundSomething_;
  unsigned err = JsonDeserializer_StubReader__skipSpacesAndComments(d);
  settle(d);
  COVER(err == Ok); COVER(err == EmptyInput); COVER(err == IncompleteInput); COVER(err == Ok && g_reads > 1);
  CHECK(SAFE(d), "C03: SAFE re-established (the terminator is never consumed)");
  CHECK(LATCHED(d), "the byte that stopped the scan stays in the latch (one look-ahead)");
  unsigned char cur = (unsigned char)d->latch_.current_;
#if ARDUINOJSON_ENABLE_COMMENTS
  COVER(err == InvalidInput); COVER(err == IncompleteInput && !found0);
  CHECK(err == Ok || err == EmptyInput || err == IncompleteInput || err == InvalidInput, "skipSpacesAndComments return codes (comments enabled)");
  CHECK(err != Ok || (cur != 0 && !IS_WS(cur) && cur != '/' && d->foundSomething_), "Ok: a byte that is neither space nor the start of a comment is waiting");
  CHECK(err != EmptyInput || (cur == 0 && !found0), "EmptyInput: end of input with nothing found so far");
  CHECK(err != IncompleteInput || cur == 0, "IncompleteInput: only at the end of the input (also inside an unterminated comment)");
  CHECK(err != InvalidInput || (cur != '*' && cur != '/'), "InvalidInput: a '/' that does not start a comment; the offending byte is not consumed");
#else
  CHECK(RET_IN(err, Ok, EmptyInput, IncompleteInput), "skipSpaces returns Ok, EmptyInput or IncompleteInput only");
  CHECK(!g_bad_consumed, "C16/C10: only SP TAB CR LF are consumed");
  CHECK(err != Ok || (cur != 0 && !IS_WS(cur) && d->foundSomething_), "Ok: a non-space byte is waiting and something was found");
  CHECK(err != EmptyInput || (cur == 0 && !found0), "EmptyInput: end of input with nothing found so far (only whitespace)");
  CHECK(err != IncompleteInput || (cur == 0 && found0), "IncompleteInput: end of input after something was found");
#endif
#ifdef CANARY_SKIPSPACES
  CHECK(err != Ok || g_reads != 2, "canary: deliberately false for a reachable case");
#endif
}

/* skipKeyword("true"|"false"|"null") */
void h_skipKeyword(void) {
  JD *d = mk_state(0);
  unsigned which = in_u8() % 3;
  char *kw = which == 0 ? "true" : which == 1 ? "false" : "null";
  unsigned klen = which == 1 ? 5 : 4;
  /* the caller dispatches on the first byte: it is latched */
  __CPROVER_assume(d->latch_.loaded_ && d->latch_.current_ == kw[0]);
  unsigned err = JsonDeserializer_StubReader__skipKeyword(d, kw);
  COVER(err == Ok); COVER(err == IncompleteInput); COVER(err == InvalidInput);
  CHECK(RET_IN(err, Ok, IncompleteInput, InvalidInput), "skipKeyword returns Ok, IncompleteInput or InvalidInput only");
  CHECK(SAFE(d), "C03: SAFE re-established");
  /* oracle: compare the delivered bytes with the keyword, independently */
  unsigned i = 1, want = Ok;
  for (; i < klen; i++) {
    unsigned char b = g_log[i - 1];
    if (i - 1 >= g_reads) break;
    if (b == 0) { want = IncompleteInput; break; }
    if (b != (unsigned char)kw[i]) { want = InvalidInput; break; }
  }
  CHECK(err == want, "C10: Ok iff the input spells the keyword exactly; end => Incomplete; other byte => Invalid");
  CHECK(err != Ok || (!LATCHED(d) && g_reads == klen - 1), "C16: exactly the keyword is consumed, nothing is fetched after it");
  CHECK(err == Ok || LATCHED(d), "on error the offending byte is not consumed");
#ifdef CANARY_KEYWORD
  CHECK(!(err == Ok && which == 2), "canary: deliberately false for a reachable case");
#endif
}

/* skipQuotedString / parseQuotedString common oracle pieces */
void h_skipQuoted(void) {
  JD *d = mk_state(0);
  __CPROVER_assume(d->latch_.loaded_ && (d->latch_.current_ == '"' || d->latch_.current_ == '\''));
  char q = d->latch_.current_;
  unsigned err = JsonDeserializer_StubReader__skipQuotedString(d);
  COVER(err == Ok); COVER(err == IncompleteInput); COVER(err == Ok && g_reads > 2);
  CHECK(err == Ok || err == IncompleteInput, "skipQuotedString returns Ok or IncompleteInput only");
  CHECK(err != Ok || SAFE(d), "C03: Ok => SAFE (the terminator was not consumed)");
  CHECK(err != Ok || (!LATCHED(d) && g_last == (unsigned char)q), "C16/C10: Ok => the closing quote (same as the opening one) is the last byte consumed");
  CHECK(err != IncompleteInput || g_ended, "IncompleteInput only at the end of the input: an unterminated string is never accepted");
#ifdef CANARY_SKIPQUOTED
  CHECK(!(err == Ok && g_reads == 2), "canary: deliberately false for a reachable case");
#endif
}

void h_parseQuoted(void) {
  JD *d = mk_state(0);
  __CPROVER_assume(d->latch_.loaded_ && (d->latch_.current_ == '"' || d->latch_.current_ == '\''));
  char q = d->latch_.current_;
  unsigned err = JsonDeserializer_StubReader__parseQuotedString(d);
  COVER(err == Ok); COVER(err == IncompleteInput); COVER(err == InvalidInput); COVER(err == NoMemory); COVER(err == Ok && g_app_n > 0);
  CHECK(err == Ok || err == IncompleteInput || err == InvalidInput || err == NoMemory, "parseQuotedString return codes");
  CHECK(err != Ok || SAFE(d), "C03: Ok => SAFE");
  CHECK(err != Ok || (!LATCHED(d) && g_last == (unsigned char)q), "C16/C10: Ok => the closing quote is the last byte consumed");
  CHECK(err != IncompleteInput || g_ended, "IncompleteInput only at the end of the input");
  CHECK(err != Ok || g_builder_valid, "Ok only if the builder is still valid");
  CHECK(err != NoMemory || !g_builder_valid, "NoMemory iff the builder became invalid");
#ifdef CANARY_PARSEQUOTED
  CHECK(!(err == Ok && g_app_n == 1), "canary: deliberately false for a reachable case");
#endif
}

/* skipNonQuotedString / parseNonQuotedString (unquoted identifier keys) */
void h_skipNonQuoted(void) {
  JD *d = mk_state(3);
  unsigned err = JsonDeserializer_StubReader__skipNonQuotedString(d);
  settle(d);
  COVER(g_reads > 1); COVER(g_reads == 0);
  CHECK(err == Ok, "skipNonQuotedString always returns Ok");
  CHECK(SAFE(d) && LATCHED(d), "C03/C16: one look-ahead byte stays in the latch, SAFE");
  CHECK(!g_bad_consumed, "only identifier bytes [0-9A-Z_-z] are consumed");
  CHECK(!IS_IDENT((unsigned char)d->latch_.current_) || (unsigned char)d->latch_.current_ >= 0x80, "the scan stops at the first non-identifier byte");
#ifdef CANARY_SKIPNONQUOTED
  CHECK(g_reads != 2, "canary: deliberately false for a reachable case");
#endif
}
void h_parseNonQuoted(void) {
  JD *d = mk_state(3);
  _Bool first_ok = d->latch_.loaded_ && IS_IDENT(d->latch_.current_) && d->latch_.current_ > 0;
  __CPROVER_assume(d->latch_.loaded_); /* parseKey looked at the first byte */
  unsigned err = JsonDeserializer_StubReader__parseNonQuotedString(d);
  settle(d);
  COVER(err == Ok); COVER(err == InvalidInput); COVER(err == NoMemory);
  CHECK(err == Ok || err == InvalidInput || err == NoMemory, "parseNonQuotedString return codes");
  CHECK(SAFE(d) && LATCHED(d), "C03/C16: one look-ahead byte stays in the latch, SAFE");
  CHECK(!g_bad_consumed, "only identifier bytes are consumed");
  CHECK((err == InvalidInput) == !first_ok, "C10: an empty unquoted key is InvalidInput, otherwise not");
  CHECK(err == InvalidInput || g_app_n == g_reads, "C01: every consumed byte is appended to the key (one append per byte)");
  CHECK(err != Ok || g_builder_valid, "Ok only with a valid builder");
#ifdef CANARY_PARSENONQUOTED
  CHECK(!(err == Ok && g_app_n == 2), "canary: deliberately false for a reachable case");
#endif
}

/* skipNumericValue / parseNumericValue */
void h_skipNumeric(void) {
  JD *d = mk_state(2);
  unsigned err = JsonDeserializer_StubReader__skipNumericValue(d);
  settle(d);
  COVER(g_reads > 1); COVER(g_reads == 0);
  CHECK(err == Ok, "skipNumericValue always returns Ok");
  CHECK(SAFE(d) && LATCHED(d), "C03/C16: exactly one look-ahead byte, never two; SAFE");
  CHECK(!g_bad_consumed, "only number bytes are consumed");
  CHECK(!IS_NUM(d->latch_.current_), "the scan stops at the first non-number byte");
#ifdef CANARY_SKIPNUMERIC
  CHECK(g_reads != 2, "canary: deliberately false for a reachable case");
#endif
}
void h_parseNumeric(void) {
  JD *d = mk_state(2);
  g_number.type_ = in_u8();
  g_number.value_.asUnsignedInteger = in_u64();
  g_set_ok = in_bool();
  g_set_kind = 0;
  struct VariantData v;
  memset(&v, 0, sizeof v);
  unsigned char first = (unsigned char)d->latch_.current_;
  _Bool first_loaded = d->latch_.loaded_;
  g_first_loaded = first_loaded;
  unsigned err = JsonDeserializer_StubReader__parseNumericValue(d, &v);
  settle(d);
  COVER(err == Ok); COVER(err == InvalidInput); COVER(err == NoMemory); COVER(g_reads >= 3);
  CHECK(err == Ok || err == InvalidInput || err == NoMemory, "parseNumericValue return codes");
  CHECK(SAFE(d) && LATCHED(d), "C03/C16: exactly one look-ahead byte; SAFE");
  CHECK(!g_bad_consumed, "only number bytes are consumed");
  CHECK(g_pn_arg == d->buffer_, "the text handed to parseNumber is the deserializer's own 64-byte buffer");
  unsigned n = g_reads + (first_loaded ? 1 : 0) - 1; /* bytes consumed: everything delivered except the look-ahead */
  CHECK(n <= 63, "C03: at most 63 characters are buffered");
  CHECK(d->buffer_[n <= 63 ? n : 63] == 0, "C03/C01: the NUL terminator sits right after the consumed characters, inside buffer_[64]");
  CHECK(n == 63 || !IS_NUM(d->latch_.current_), "the scan stops at the first non-number byte or at 63 characters");
  /* result mapping: the Number's value reaches the variant setter unchanged (C01) */
  unsigned t = g_number.type_;
  CHECK((t >= 1 && t <= 4) == (err != InvalidInput), "Invalid iff parseNumber says so");
  CHECK(err == InvalidInput || (g_set_kind == (t == 3 ? 1 : t == 2 ? 2 : t == 1 ? 3 : 4)), "number type selects the matching setter");
  CHECK(err == InvalidInput || g_set_bits == (t == 1 ? (uint64_t)(uint32_t)g_number.value_.asUnsignedInteger : g_number.value_.asUnsignedInteger), "value bits reach the setter unchanged");
  CHECK(err == InvalidInput || (err == NoMemory) == !g_set_ok, "C05: NoMemory iff the store failed");
  (void)first;
#ifdef CANARY_PARSENUMERIC
  CHECK(!(err == Ok && g_reads == 3), "canary: deliberately false for a reachable case");
#endif
}
