/* C12 "numbers survive text" -- the clauses this technique can decide (see props_meta.json C12 for the ones it cannot).
 *   UNIT_PNLOOP  parseNumber(const char*) with each of its five loops cut by a loop contract (parsenumber.loops.json): one
 *                arbitrary iteration per loop, so the cost does not grow with the string.  The string is symbolic, held in a
 *                heap block of exactly length+1 bytes; its length is bounded only by the ghost tables of the harness (PN_N,
 *                64 = every literal a document can hold, its buffer being 64 bytes; 700 for the long-string obligations).
 *   UNIT_PN      the same routine with the loops unwound, on short strings / concrete families: gives the concrete,
 *                natively replayable inputs for the checks that fail, and cross-checks the contracts of UNIT_PNLOOP.
 *   In both, make_float<double/float> are replaced by precondition-checking stubs in the CBMC build; the native replay
 *   build runs the real make_float and compares the final result with libc strtod.
 *     - integer literals in [-2^63, 2^64) parse to exactly that integer, any number of leading zeros
 *     - integer literals beyond that range keep their decimal magnitude            (F4, fixed 6206228: 2^64 .. 2^64+3 ...)
 *     - the (mantissa, exponent) pair handed to make_float denotes the literal's decimal magnitude
 *     - make_float's table precondition |e| <= 511 (double) / 63 (float) at every call site (F7, fixed d3fba6e: long strings)
 *     - a float infinity is never returned for a value that a double holds                         (F5, fixed efa0a97: 10e38)
 *     - +/-0 only below 1e-300 (F6, fixed d3fba6e: 1000000000e-309) or for a zero mantissa (0e999), +/-inf only above 1e300
 *     - grammar: accepted exactly [+-]? (digits ('.' digits?)? | '.' digits) ([eE][+-]?digits)?
 *     - the scan reads only up to the first NUL
 *   UNIT_MF      make_float<double,int> / make_float<float,int> alone: table bounds for every e under the precondition;
 *                the 9 + 9 + 6 + 6 table entries are the floating literals 1e+-2^i
 *   UNIT_CONVTO  Number::convertTo<T> (10 T): the switch hands the stored member to convertNumber<T, that member's type>;
 *                parseNumber<T>(s) == parseNumber(s).convertTo<T>()
 * Oracles: an independent reading of the literal written below from the grammar and positional notation (spec_scan):
 * positions of the digit groups, prefix values in unsigned __int128, decimal digit counts.  The accuracy bounds
 * 1e-6 / 1e-13 / 1e-9 of C12 are floating-point error analyses of make_float / decomposeFloat and are NOT attempted. */
#include "verif.h"

typedef unsigned __int128 u128;
typedef __int128 i128;
/* NumberType, in the order of the enum class of parseNumber.hpp */
enum { NT_INVALID = 0, NT_FLOAT = 1, NT_SIGNED = 2, NT_UNSIGNED = 3, NT_DOUBLE = 4 };

#if defined(UNIT_PN) || defined(UNIT_PNLOOP)
#ifndef PN_N
#define PN_N 16 /* bound on the length of the symbolic string of an obligation (set per obligation in units/parsenumber.json) */
#endif
/* ---- ghosts: how the grammar cuts the string (offsets), what the digit groups denote ---------------------------------
 *   [0,a0) sign   [a0,a1) integer digits   '.'?   [b0,b1) fraction digits   ([eE][+-]?)?   [c0,c1) exponent digits
 * every offset is defined for every string (a group may be empty; the cut stops at the first character that fits nowhere) */
static char *g_str;  /* the string under scan */
static size_t g_len; /* its length: g_str[g_len] is the first NUL */
static size_t g_a0, g_a1, g_b0, g_b1, g_c0, g_c1; /* (the scanner computes them in 16 bits) */
static size_t g_lead;            /* offset of the first non-zero mantissa digit (integer or fraction part), PN_N + 8 if there is none */
static long g_pm;                /* mantissa digits alone denote a value in [10^pm, 10^(pm+1)) (when there is a non-zero digit) */
/* g_S[k], a0 <= k <= a1: value of the integer digits [a0,k) modulo 2^64; g_over[k]: that value is 2^64 or more */
static uint64_t g_S[PN_N + 2];
static _Bool g_over[PN_N + 2];
static int32_t g_E[PN_N + 2];    /* g_E[k], c0 <= k <= c1: value of the exponent digits [c0,k) (stops growing beyond 10^8) */
/* a value m has j decimal digits (j = 0: m == 0) exactly when g_lo[j] <= m <= g_hi[j] */
static const uint64_t g_lo[21] = {0ull, 1ull, 10ull, 100ull, 1000ull, 10000ull, 100000ull, 1000000ull, 10000000ull, 100000000ull,
  1000000000ull, 10000000000ull, 100000000000ull, 1000000000000ull, 10000000000000ull, 100000000000000ull, 1000000000000000ull,
  10000000000000000ull, 100000000000000000ull, 1000000000000000000ull, 10000000000000000000ull};
static const uint64_t g_hi[21] = {0ull, 9ull, 99ull, 999ull, 9999ull, 99999ull, 999999ull, 9999999ull, 99999999ull, 999999999ull,
  9999999999ull, 99999999999ull, 999999999999ull, 9999999999999ull, 99999999999999ull, 999999999999999ull, 9999999999999999ull,
  99999999999999999ull, 999999999999999999ull, 9999999999999999999ull, 18446744073709551615ull};

/* ---- vocabulary of the loop contracts (parsenumber.loops.json; they name locals of the lowered parseNumber) ------------ */
#define OFF(p) ((size_t)__CPROVER_POINTER_OFFSET(p))
/* inside a digit group the current character is a digit: the group ends exactly where the loop over it stops */
#define AT_END_OR_DIGIT(p, end) (OFF(p) == (end) || (*(p) >= '0' && *(p) <= '9'))
/* number of significant integer digits among [a0,k) */
#define SIG(k) ((k) > g_lead ? (k) - g_lead : (size_t)0)
#define IN_STR(p, lo, hi) (__CPROVER_same_object((p), g_str) && OFF(p) >= (lo) && OFF(p) <= (hi))
/* digits the mantissa must have when `rem` integer digits are still unread and the exponent offset is eo:
 * (digits - 1) + eo + rem == g_pm */
#define DJ(eo, rem) (g_pm + 1 - (long)(eo) - (long)(rem))
#define HAS_DIGITS(m, j) ((j) >= 1 && (j) <= 20 && g_lo[(j)] <= (m) && (m) <= g_hi[(j)])
#define MAG(m, eo, rem) ((m) == 0 || HAS_DIGITS((m), DJ((eo), (rem))))
#endif

#ifdef VERIF_NATIVE
#include <math.h>
#include "lowered_types.h"
#else
#include "lowered.c"
#endif

static uint32_t f32_bits(float f) { uint32_t b; memcpy(&b, &f, 4); return b; }
static uint64_t f64_bits(double f) { uint64_t b; memcpy(&b, &f, 8); return b; }

/* ---- ARDUINOJSON_USE_DOUBLE=0 (config nodbl): JsonFloat is float -------------------------------------------------------
 * Number has no Double kind and no asDouble member, parseNumber works with FloatTraits<float> (mantissa_max 2^23-1,
 * exponent_max 38, exponent_type int8_t) and calls make_float<float,int> only.  The property's range 1e-300 .. 1e300 cannot
 * apply literally to a build whose widest floating type ends at FLT_MAX = 3.4e38; what its clauses can mean there, and what
 * is demanded in this configuration:
 *   - integers of [-2^63, 2^64) exact (unchanged);
 *   - never a finite value of the wrong magnitude: the (mantissa, exponent) pair handed to make_float<float> denotes the
 *     literal's decimal magnitude, |exponent| <= 63 (six-entry tables), one call;
 *   - +/-infinity only for |v| >= 1e38 (FLT_MAX's decade: FLT_MAX_10_EXP = 38), +/-0 only for |v| < 1e-37 (below
 *     FLT_MIN_10_EXP = -37) or a zero mantissa; inside [1e-37, 1e38) the result is whatever make_float<float> makes of the
 *     pair (a finite float; infinity only where the product exceeds FLT_MAX, which lies in the decade of 1e38).
 * The clause "a float computation that exceeds FLT_MAX is redone as a double" (literal_float_path_fits_float_*) has no
 * meaning here and is not run in this configuration. */
#ifdef CFG_nodbl
#define PN_HAS_DOUBLE 0
#define PN_KIND_MAX NT_UNSIGNED
#define D_KINDS "the result kind is one of the four (no Double kind with ARDUINOJSON_USE_DOUBLE=0)"
#define PN_P_INF 38      /* infinity only for p >= 38 */
#define PN_P_ZERO (-38)  /* zero only for p <= -38 */
#else
#define PN_HAS_DOUBLE 1
#define PN_KIND_MAX NT_DOUBLE
#define D_KINDS "the result kind is one of the five"
#endif

/* ================================================================================================================ */
#if defined(UNIT_PN) || defined(UNIT_PNLOOP)

/* ---- independent reading of a literal ---------------------------------------------------------------------------- */
struct lit_info {
  _Bool strict;     /* [+-]? (digits ('.' digits?)? | '.' digits) ([eE][+-]?digits)? */
  _Bool lenient;    /* the same with digit groups allowed to be empty (still starting, after the sign, with a digit or '.') */
  _Bool neg;        /* leading '-' */
  _Bool is_integer; /* [+-]? digits */
  _Bool big;        /* the integer-part digits denote 2^64 or more */
  uint64_t V;       /* value of the integer-part digits (when !big) */
  _Bool nonzero;    /* some mantissa digit is not 0, i.e. v != 0 */
  _Bool pow10;      /* the leading non-zero digit is 1 and every other mantissa digit is 0: |v| is a power of ten */
  long p;           /* 10^p <= |v| < 10^(p+1) when nonzero */
  _Bool eneg, has_dot, has_e;
  int32_t E;        /* value of the exponent digits (stops growing beyond 10^8) */
  unsigned nint, nfrac, nexp;
  _Bool f4_family;  /* the integer digits pass through 1844674407370955161 followed by a digit >= 6 (2^64 .. 2^64+3, and longer) */
};
/* one pass, left to right; phases: 1 integer digits, 2 fraction digits, 3 just behind the exponent marker, 4 exponent digits, 5 stopped.
 * Positions and counters are held in 16 bits (PN_N < 65000) to keep the formula small.  In the loop-contract build the
 * built-in checks of THIS function (array bounds, overflow of its own counters) are switched off: they multiply the number
 * of cbmc properties without saying anything about the code under test; the unwound build (UNIT_PN) runs the same text with
 * every check on. */
#ifdef UNIT_PNLOOP
#pragma CPROVER check push
#pragma CPROVER check disable "bounds"
#pragma CPROVER check disable "pointer"
#pragma CPROVER check disable "pointer-overflow"
#pragma CPROVER check disable "pointer-primitive"
#pragma CPROVER check disable "signed-overflow"
#pragma CPROVER check disable "undefined-shift"
#pragma CPROVER check disable "div-by-zero"
#endif
static void spec_scan(const char *s, size_t n, struct lit_info *o) {
  typedef uint16_t pos_t;
  _Bool neg = n > 0 && s[0] == '-';
  pos_t a0 = (n > 0 && (s[0] == '+' || s[0] == '-')) ? 1 : 0;
  pos_t a1 = 0, b0 = 0, b1 = 0, c0 = 0, c1 = 0, lead = PN_N + 8;
  uint8_t ph = 1, lead_digit = 0;
  pos_t nint = 0, nfrac = 0, nexp = 0;
  _Bool eneg = 0, rest = 0, has_dot = 0, has_e = 0, f4 = 0;
  _Bool first_ok = a0 < n && ((s[a0] >= '0' && s[a0] <= '9') || s[a0] == '.');
  /* running values, stored once per position (unconditional stores keep the formula small): E of the exponent digits read so
   * far (stops growing beyond 10^8), S of the integer digits read so far modulo 2^64, over: that value reached 2^64 */
  int32_t E = 0;
  uint64_t S = 0;
  _Bool over = 0;
  g_E[0] = 0;
  g_S[0] = 0;
  g_over[0] = 0;
  for (pos_t k = 0; k < PN_N; k++) {
    if (k >= a0 && k < n && ph != 5) {
      char ch = s[k];
      _Bool dig = ch >= '0' && ch <= '9', dot = ch == '.', ee = ch == 'e' || ch == 'E', sg = ch == '+' || ch == '-';
      uint8_t d = dig ? (uint8_t)(ch - '0') : 0u;
      _Bool mant = 0;
      if (ph == 1) {
        if (dig) {
          nint++; mant = 1;
          /* S * 10 + d >= 2^64 = 1844674407370955161 * 10 + 6 */
          _Bool carry = S > 1844674407370955161ull || (S == 1844674407370955161ull && d >= 6);
          if (carry && !over) f4 = S == 1844674407370955161ull; /* the digits read 18446744073709551616 .. 19 so far */
          if (carry) over = 1;
          S = S * 10 + d;
        } else {
          a1 = k;
          if (dot) { has_dot = 1; b0 = k + 1; ph = 2; }
          else { b0 = b1 = k; if (ee) { has_e = 1; ph = 3; } else { c0 = c1 = k; ph = 5; } }
        }
      } else if (ph == 2) {
        if (dig) { nfrac++; mant = 1; }
        else { b1 = k; if (ee) { has_e = 1; ph = 3; } else { c0 = c1 = k; ph = 5; } }
      } else if (ph == 3) {
        if (sg) { eneg = ch == '-'; c0 = k + 1; ph = 4; }
        else if (dig) { c0 = k; nexp++; E = d; ph = 4; }
        else { c0 = c1 = k; ph = 5; }
      } else { /* ph == 4 */
        if (dig) { nexp++; if (E <= 100000000) E = E * 10 + d; }
        else { c1 = k; ph = 5; }
      }
      if (mant) {
        if (lead > PN_N) { if (d) { lead = k; lead_digit = d; } }
        else if (d) rest = 1;
      }
    }
    g_E[k + 1] = E;
    g_S[k + 1] = S;
    g_over[k + 1] = over;
  }
  /* the string ended inside a group */
  if (ph == 1) { a1 = n; b0 = b1 = n; c0 = c1 = n; }
  else if (ph == 2) { b1 = n; c0 = c1 = n; }
  else if (ph == 3) { c0 = c1 = n; }
  else if (ph == 4) { c1 = n; }
  g_a0 = a0; g_a1 = a1; g_b0 = b0; g_b1 = b1; g_c0 = c0; g_c1 = c1; g_lead = lead;
  _Bool nonzero = lead <= PN_N;
  /* index of the leading non-zero digit among the mantissa digits; 10^pm <= mantissa digits as a number with the point after nint digits */
  long lead_idx = !nonzero ? 0 : lead < a1 ? (long)(lead - a0) : (long)nint + (long)(lead - b0);
  g_pm = (long)nint - lead_idx - 1;
  E = g_E[c1];
  /* what the cut looks like, stated once (checked here, then available to every later check without re-deriving it from
   * the pass above: assert-then-assume of the same formula) */
  {
    _Bool post = a0 <= a1 && a1 <= b0 && b0 <= b1 && b1 <= c0 && c0 <= c1 && c1 <= n && b0 <= a1 + 1 && c0 <= b1 + 2 &&
                 nint == a1 - a0 && nfrac == b1 - b0 && nexp == c1 - c0 && (has_dot == (b0 == a1 + 1)) && (has_dot || b1 == b0) &&
                 (nonzero ? ((lead >= a0 && lead < a1) || (lead >= b0 && lead < b1)) : lead == PN_N + 8) &&
                 (!nonzero || g_pm == (lead < a1 ? (long)(a1 - lead) - 1 : -(long)(lead - b0) - 1)) &&
                 E >= 0 && g_E[c0] == 0;
    CHECK(post, "reading of the literal: the groups are ordered and the leading digit lies in one of them");
    __CPROVER_assume(post);
  }
  o->lenient = first_ok && c1 == n;
  o->strict = o->lenient && nint + nfrac >= 1 && (!has_e || nexp >= 1);
  o->neg = neg;
  o->is_integer = first_ok && a1 == n && nint >= 1;
  o->big = over;
  o->V = S;
  o->nonzero = nonzero;
  o->pow10 = nonzero && lead_digit == 1 && !rest;
  o->p = g_pm + (eneg ? -(long)E : (long)E);
  o->eneg = eneg; o->has_dot = has_dot; o->has_e = has_e; o->E = E;
  o->nint = nint; o->nfrac = nfrac; o->nexp = nexp;
  o->f4_family = f4;
}
#ifdef UNIT_PNLOOP
#pragma CPROVER check pop
#endif
/* the property's range 1e-300 <= |v| <= 1e300 */
#if PN_HAS_DOUBLE
static _Bool lit_above(const struct lit_info *o) { return o->nonzero && (o->p > 300 || (o->p == 300 && !o->pow10)); }
static _Bool lit_below(const struct lit_info *o) { return !o->nonzero || o->p < -300; }
#else /* float-only build: the range of float, by decades (see the note on config nodbl above) */
static _Bool lit_above(const struct lit_info *o) { return o->nonzero && o->p >= PN_P_INF; }
static _Bool lit_below(const struct lit_info *o) { return !o->nonzero || o->p <= PN_P_ZERO; }
#endif
/* an integer literal of [-2^63, 2^64) */
static _Bool lit_int_fits(const struct lit_info *o) {
  return o->is_integer && !o->big && (!o->neg || o->V <= ((uint64_t)1 << 63));
}
/* decimal digits of an integral m > 0 held in a double (every 10^j, j <= 19, is an exact double; comparisons only) */
static int spec_ndigits(double m) {
  static const double p10[20] = {1e0, 1e1, 1e2, 1e3, 1e4, 1e5, 1e6, 1e7, 1e8, 1e9, 1e10, 1e11, 1e12, 1e13, 1e14, 1e15, 1e16, 1e17, 1e18, 1e19};
  int n = 0;
  for (int j = 0; j < 20; j++) if (m >= p10[j]) n = j + 1;
  return n;
}
/* m * 10^e <= FLT_MAX = 3.4028234664e38 for an integer m < 2^24: every m * 10^31 is far inside; from 1e32 up the value is
 * a multiple of 1e32 and FLT_MAX / 1e32 = 3402823.46..: m * 10^(e-32) <= 3402823, i.e. m <= floor(3402823 / 10^(e-32)) */
static float thr_fits_float(int e) { /* 32 <= e <= 38 */
  static const float thr[7] = {3402823.0f, 340282.0f, 34028.0f, 3402.0f, 340.0f, 34.0f, 3.0f};
  return thr[e - 32];
}
static _Bool spec_fits_float(float m, int e) {
  if (m == 0.0f || e <= 31) return 1;
  if (e >= 39) return 0;
  return m <= thr_fits_float(e);
}

/* ---- make_float stubs (CBMC build): record the call, check the callee's precondition ------------------------------- */
enum { CK_TABLE = 1, CK_MAG = 2, CK_FLOATFIT = 4, CK_ZERO_EXIT = 8, CK_INF_EXIT = 16 };
/* names of the checks a harness selects with its mask; the native replay build reports its verdict on the final value under
 * the same names (the driver matches a native failure to the cbmc failure by name) */
#define D_TABLE_D "make_float<double> precondition: |e| <= 511, the nine-entry power-of-ten tables"
#define D_TABLE_F "make_float<float> precondition: |e| <= 63, the six-entry power-of-ten tables"
#define D_FLOATFIT "a float computation that exceeds FLT_MAX is redone as a double (a value <= 1e300 never becomes infinity)"
#define D_FLOATLOW "the float path is taken only when the value is not below the smallest positive float (never +/-0 for a non-zero value)"
#if PN_HAS_DOUBLE
#define D_FLOATPREC "a literal that carries more than seven significant digits is not computed in single precision (1e-13 needs a double)"
#define D_ZERO "+/-0 is returned only for a value below 1e-300"
#define D_INF "+/-infinity is returned only for a value above 1e300"
#else
#define D_ZERO "USE_DOUBLE=0: +/-0 is returned only for a value below 1e-37 (the float range)"
#define D_INF "USE_DOUBLE=0: +/-infinity is returned only for a value of at least 1e38 (FLT_MAX's decade)"
#endif
#define D_MAG "mantissa x 10^exponent handed to make_float has the decimal magnitude of the literal (never a finite value of the wrong magnitude)"
#define D_MAGZERO "the mantissa handed to make_float is zero exactly when the literal is zero"
static unsigned g_checks;
static unsigned g_mf_calls;
static _Bool g_mf_double;
static _Bool g_mf_f_overflow; /* the float computation was asked for a value beyond FLT_MAX and answered infinity */
static double g_mf_m; /* the mantissa handed over (a float widens exactly) */
static int g_mf_e;
#define MARK_D 3.0
#define MARK_F 5.0f
#ifdef CANARY_LIT
#define CANARY_TABLE(e) ((e) != 7)
#define CANARY_FIT(m, e) (!((m) == 77.0 && (e) == 0))
#define CANARY_P(p) ((p) == 7 || (p) == 21 || (p) == 300)
#define CANARY_PREC(m) 0
#define CANARY_EXIT(p) ((p) != 400 && (p) != -400 && (p) != 600 && (p) != 100 && (p) != 150 && (p) != 260)
#else
#define CANARY_TABLE(e) 1
#define CANARY_FIT(m, e) 1
#define CANARY_P(p) 0
#define CANARY_PREC(m) 0
#define CANARY_EXIT(p) 1
#endif
#ifndef VERIF_NATIVE
_Bool nondet_tip(void); /* no body: an arbitrary value (not an input of the harness: the native build runs the real make_float) */
double make_float_double_int(double m, int e) {
  g_mf_calls++;
  g_mf_double = 1;
  g_mf_e = e;
  g_mf_m = m;
  CHECK(m >= 0.0 && m < 0x1p53, "the mantissa handed to make_float<double> is non-negative and below 2^53 (converted exactly)");
  if (g_checks & CK_TABLE)
    CHECK(e >= -511 && e <= 511 && CANARY_TABLE(e), D_TABLE_D);
  return MARK_D;
}
float make_float_float_int(float m, int e) {
  g_mf_calls++;
  g_mf_double = 0;
  g_mf_e = e;
  g_mf_m = (double)m;
  CHECK(m >= 0.0f && m < 0x1p24f, "the mantissa handed to make_float<float> is non-negative and below 2^24 (converted exactly)");
  if (g_checks & CK_TABLE)
    CHECK(e >= -63 && e <= 63 && CANARY_TABLE(e), D_TABLE_F);
#if PN_HAS_DOUBLE /* (float-only build: every value goes through the float computation, however small) */
  if (g_checks & CK_MAG) {
    CHECK(m == 0.0f || e >= -44, D_FLOATLOW);
    /* C12: "within 1e-13*|v| when it carries more than seven significant digits": single precision (24 bits, 6e-8) cannot
     * deliver that, so a mantissa of eight or more digits must not take the float path */
#ifndef CFG_nodbl /* (a float-only build has nothing better to offer) */
    CHECK(spec_ndigits((double)m) <= 7 + CANARY_PREC(m), D_FLOATPREC);
#endif
  }
#endif
  /* contract of the real make_float<float>: the product, which is infinity when m x 10^e exceeds FLT_MAX; within 1e-4 of
   * that border the roundings of the multiplication chain may tip it either way (both answers are allowed here) */
  _Bool near_border = e >= 32 && e <= 38 && m > thr_fits_float(e) * 0.9999f;
  g_mf_f_overflow = !spec_fits_float(m, e) || (near_border && nondet_tip());
  return g_mf_f_overflow ? __builtin_inff() : MARK_F;
}
#endif

/* ---- one case: the string, what it denotes, what parseNumber made of it ------------------------------------------------ */
struct pn_case {
  char *s;
  size_t n;
  struct lit_info li;
  struct Number r;
};
/* the block that holds a string of n characters.  -DPN_HEAP: a heap block of exactly n + 1 bytes (any read behind the NUL is a
 * pointer-check failure; used by the obligations about the scan itself); otherwise a PN_N + 1 byte static buffer (much
 * cheaper for the solver than an object of symbolic size; NUL-filled behind the string) */
static char *pn_block(size_t n) {
#ifdef PN_HEAP
  char *s = (char *)malloc(n + 1);
  __CPROVER_assume(s != 0);
  return s;
#else
  static char buf[PN_N + 1];
  (void)n;
  return buf;
#endif
}
#ifndef PN_GENERATIVE
/* a string of n <= PN_N symbolic non-NUL characters, read by spec_scan */
static void pn_input(struct pn_case *c) {
  size_t n = in_u16();
  __CPROVER_assume(n <= PN_N);
  char *s = pn_block(n);
  for (unsigned i = 0; i <= PN_N; i++) {
    char ch = 0;
    if (i < n) { ch = in_char(); __CPROVER_assume(ch != 0); }
    if (i <= n) s[i] = ch;
  }
  c->s = s;
  c->n = n;
  g_str = s;
  g_len = n;
  spec_scan(s, n, &c->li);
}
#else
/* The same set of strings -- every string of n <= PN_N non-NUL characters -- produced the other way round: the cut
 *   [0,a0) sign   [a0,a1) integer digits   '.'?   [b0,b1) fraction digits   ([eE][+-]?)?   [c0,c1) exponent digits   rest
 * is chosen first and the characters are constrained to fit it, each group being maximal (the character behind a group does
 * not continue it).  Every string has exactly one such cut, so nothing is excluded; what the cut says about each position is
 * then known by construction instead of being re-derived from a scan, which is what makes PN_N = 64 affordable. */
#pragma CPROVER check push
#pragma CPROVER check disable "bounds"
#pragma CPROVER check disable "pointer"
#pragma CPROVER check disable "pointer-overflow"
#pragma CPROVER check disable "pointer-primitive"
#pragma CPROVER check disable "signed-overflow"
#pragma CPROVER check disable "undefined-shift"
#pragma CPROVER check disable "div-by-zero"
static void pn_input(struct pn_case *c) {
  typedef uint16_t pos_t;
  struct lit_info *o = &c->li;
  pos_t n = in_u16();
  __CPROVER_assume(n <= PN_N);
  _Bool has_sign = in_bool(), has_dot = in_bool(), has_e = in_bool(), has_esign = in_bool();
  pos_t a0 = has_sign ? 1 : 0;
  pos_t a1 = in_u16(), b1 = in_u16(), c1 = in_u16(), lead = in_u16();
  pos_t b0 = has_dot ? a1 + 1 : a1;
  pos_t c0 = !has_e ? b1 : has_esign ? b1 + 2 : b1 + 1;
  __CPROVER_assume(a0 <= a1 && a1 <= PN_N && b0 <= b1 && b1 <= PN_N && c0 <= c1 && c1 <= n);
  __CPROVER_assume(has_dot || b1 == b0);
  __CPROVER_assume(has_e || (!has_esign && c1 == c0));
  char *s = pn_block(n);
  _Bool neg = 0, eneg = 0, rest = 0, f4 = 0, over = 0, lead_is_one = 0;
  uint64_t S = 0;
  int32_t E = 0;
  g_S[0] = 0; g_over[0] = 0; g_E[0] = 0;
  for (pos_t i = 0; i <= PN_N; i++) {
    char ch = 0;
    if (i < n) { ch = in_char(); __CPROVER_assume(ch != 0); }
    _Bool dig = ch >= '0' && ch <= '9', dot = ch == '.', ee = ch == 'e' || ch == 'E', sg = ch == '+' || ch == '-';
    uint8_t d = dig ? (uint8_t)(ch - '0') : 0u;
    _Bool in_int = i >= a0 && i < a1, in_frac = i >= b0 && i < b1, in_exp = i >= c0 && i < c1;
    if (i == 0) { __CPROVER_assume(sg == has_sign); neg = ch == '-'; }
    if (in_int || in_frac || in_exp) __CPROVER_assume(dig);
    if (i == a1) __CPROVER_assume(has_dot ? dot : (!dig && !dot));            /* behind the integer digits */
    if (i == b1) __CPROVER_assume(has_e ? ee : (!dig && !ee));                 /* behind the fraction digits (or behind the integer digits, no '.') */
    if (has_e && i == b1 + 1) { __CPROVER_assume(sg == has_esign); eneg = ch == '-'; } /* behind the exponent marker */
    if (has_e && i == c1) __CPROVER_assume(!dig);                                /* behind the exponent digits */
    /* the leading non-zero mantissa digit */
    if ((in_int || in_frac) && i < lead) __CPROVER_assume(d == 0);
    if (i == lead) { __CPROVER_assume((in_int || in_frac) && d != 0); lead_is_one = d == 1; }
    if ((in_int || in_frac) && i > lead && d != 0) rest = 1;
    /* what the digit groups denote */
    if (in_int) {
      _Bool carry = S > 1844674407370955161ull || (S == 1844674407370955161ull && d >= 6); /* S * 10 + d >= 2^64 */
      if (carry && !over) f4 = S == 1844674407370955161ull;
      if (carry) over = 1;
      S = S * 10 + d;
    }
    if (in_exp && E <= 100000000) E = E * 10 + d;
    if (i <= n) s[i] = ch;
    g_S[i + 1] = S;
    g_over[i + 1] = over;
    g_E[i + 1] = E;
  }
  _Bool nonzero = lead <= PN_N;
  __CPROVER_assume(nonzero || lead == PN_N + 8);
  _Bool first_ok = a1 > a0 || has_dot; /* the character behind the sign is a digit or '.' */
  pos_t nint = a1 - a0, nfrac = b1 - b0, nexp = c1 - c0;
  g_a0 = a0; g_a1 = a1; g_b0 = b0; g_b1 = b1; g_c0 = c0; g_c1 = c1; g_lead = lead;
  g_pm = !nonzero ? -1 : lead < a1 ? (long)(a1 - lead) - 1 : -(long)(lead - b0) - 1;
  E = g_E[c1];
  S = g_S[a1];
  over = g_over[a1];
  o->lenient = first_ok && c1 == n;
  o->strict = o->lenient && nint + nfrac >= 1 && (!has_e || nexp >= 1);
  o->neg = neg;
  o->is_integer = first_ok && a1 == n && nint >= 1;
  o->big = over;
  o->V = S;
  o->nonzero = nonzero;
  o->pow10 = nonzero && lead_is_one && !rest;
  o->p = g_pm + (eneg ? -(long)E : (long)E);
  o->eneg = eneg; o->has_dot = has_dot; o->has_e = has_e; o->E = E;
  o->nint = nint; o->nfrac = nfrac; o->nexp = nexp;
  o->f4_family = f4;
  c->s = s;
  c->n = n;
  g_str = s;
  g_len = n;
}
#pragma CPROVER check pop
#endif
static void pn_call(struct pn_case *c, unsigned checks) {
  g_checks = checks;
  g_mf_calls = 0;
  g_mf_m = 0.0;
  g_mf_e = 0;
  g_mf_double = 0;
  g_mf_f_overflow = 0;
  c->r = parseNumber(c->s);
}
static void pn_done(struct pn_case *c) {
#ifdef PN_HEAP
  free(c->s);
#else
  (void)c;
#endif
}

/* the result of a literal that is not an integer of [-2^63, 2^64): a floating value of the literal's sign and magnitude */
static void pn_check_floating(struct pn_case *c, unsigned checks) {
  const struct lit_info *li = &c->li;
  unsigned char t = c->r.type_;
#if PN_HAS_DOUBLE
  CHECK(t == NT_FLOAT || t == NT_DOUBLE, "a literal that is not an integer of [-2^63, 2^64) parses to a floating value");
  _Bool rneg = t == NT_FLOAT ? (f32_bits(c->r.value_.asFloat) >> 31) != 0 : (f64_bits(c->r.value_.asDouble) >> 63) != 0;
#else
  CHECK(t == NT_FLOAT, "a literal that is not an integer of [-2^63, 2^64) parses to a floating value");
  _Bool rneg = (f32_bits(c->r.value_.asFloat) >> 31) != 0;
#endif
  CHECK(rneg == li->neg, "the result carries the sign of the literal");
#ifdef VERIF_NATIVE
  /* replay on the real code: the real make_float ran; compare the final value with libc's correctly rounded strtod.
   * (factor 2 is a magnitude test, far looser than the 1e-6 of the property: its only purpose is to confirm a wrong
   * magnitude / infinity / zero that the structural checks of the CBMC build predicted) */
#if PN_HAS_DOUBLE
  double got = t == NT_FLOAT ? (double)c->r.value_.asFloat : c->r.value_.asDouble;
#else
  double got = (double)c->r.value_.asFloat;
#endif
  double ref = strtod(c->s, 0);
  double ag = fabs(got), ar = fabs(ref);
  VERIF_OUT("result_bits", f64_bits(got));
  VERIF_OUT("strtod_bits", f64_bits(ref));
  /* "a value within [1e-300, 1e300] parses to a finite number of the right magnitude, a larger one to infinity, a smaller one
   * to zero, never a finite value of the wrong magnitude" */
#if PN_HAS_DOUBLE
  _Bool ok = lit_above(li) ? (isinf(got) || (ag >= 0.5e300 && ag >= ar / 2))
           : lit_below(li) ? ag <= 2e-300
                           : (isfinite(got) && ag >= ar / 2 && ag <= ar * 2);
#else /* the same with the range of float: [1e-37, 1e38) (see the note on config nodbl) */
  _Bool ok = lit_above(li) ? (isinf(got) || (ag >= 0.5e38 && ag >= ar / 2))
           : lit_below(li) ? ag <= 2e-37
                           : (isfinite(got) && ag >= ar / 2 && ag <= ar * 2);
#endif
  if (checks & CK_TABLE) CHECK(ok, t == NT_FLOAT ? D_TABLE_F : D_TABLE_D);
  if (checks & CK_MAG) CHECK(ok, D_MAG);
#ifndef CFG_nodbl
  {
    /* significant digits written: from the first non-zero mantissa digit to the last mantissa digit */
    unsigned sig = 0;
    _Bool started = 0;
    for (const char *q = c->s; *q && *q != 'e' && *q != 'E'; q++)
      if (*q >= '0' && *q <= '9') { if (*q != '0') started = 1; if (started) sig++; }
    if ((checks & CK_MAG) && !lit_above(li) && !lit_below(li) && sig > 7 && isfinite(got) && ar > 0)
      CHECK(fabs(got - ref) <= 1e-13 * ar, D_FLOATPREC);
  }
#endif
  if (checks & CK_FLOATFIT) CHECK(ok, D_FLOATFIT);
  if (checks & CK_ZERO_EXIT) CHECK(ok || got != 0, D_ZERO);
  if (checks & CK_INF_EXIT) CHECK(ok || !isinf(got), D_INF);
  if (!checks) CHECK(ok, "the final value has the magnitude of the literal");
#else
  if (g_mf_calls == 0) {
    /* no make_float: the value is out of range (or zero) whatever the mantissa */
    _Bool is_zero = t == NT_FLOAT && (f32_bits(c->r.value_.asFloat) & 0x7fffffffu) == 0;
#if PN_HAS_DOUBLE
    _Bool is_inf = t == NT_DOUBLE && (f64_bits(c->r.value_.asDouble) & 0x7fffffffffffffffull) == 0x7ff0000000000000ull;
#else
    _Bool is_inf = t == NT_FLOAT && (f32_bits(c->r.value_.asFloat) & 0x7fffffffu) == 0x7f800000u;
#endif
    CHECK(is_zero || is_inf, "a floating result not made by make_float is +/-0 or +/-infinity");
    if (checks & CK_ZERO_EXIT)
      CHECK(!is_zero || (lit_below(li) && CANARY_EXIT(li->p)), D_ZERO);
    if (checks & CK_INF_EXIT)
      CHECK(!is_inf || (lit_above(li) && CANARY_EXIT(li->p)), D_INF);
  } else {
#if PN_HAS_DOUBLE
    CHECK(g_mf_calls == 1 || (g_mf_calls == 2 && g_mf_f_overflow && g_mf_double),
          "make_float is called once, or once more as a double when the float computation overflowed");
    if (checks & CK_FLOATFIT)
      CHECK(!(g_mf_f_overflow && !g_mf_double) && CANARY_FIT(g_mf_m, g_mf_e), D_FLOATFIT);
    CHECK(g_mf_double ? (t == NT_DOUBLE && (c->r.value_.asDouble == MARK_D || c->r.value_.asDouble == -MARK_D))
                      : (t == NT_FLOAT && (c->r.value_.asFloat == MARK_F || c->r.value_.asFloat == -MARK_F)),
          "the value made by make_float is returned with the literal's sign applied and nothing else");
#else
    CHECK(g_mf_calls == 1 && !g_mf_double, "USE_DOUBLE=0: make_float<float> is called once");
    {
      uint32_t mag = f32_bits(c->r.value_.asFloat) & 0x7fffffffu;
      CHECK(t == NT_FLOAT && mag == (g_mf_f_overflow ? 0x7f800000u : f32_bits(MARK_F)),
            "the value made by make_float is returned with the literal's sign applied and nothing else");
    }
    if (checks & CK_INF_EXIT) /* an infinity made by make_float<float>: the product exceeds FLT_MAX */
      CHECK(!g_mf_f_overflow || (lit_above(li) && CANARY_EXIT(li->p)), D_INF);
#endif
    if (checks & CK_MAG) {
      CHECK((g_mf_m != 0.0) == li->nonzero, D_MAGZERO);
      if (g_mf_m != 0.0 && li->nonzero)
        /* digits(m) - 1 + e == p with p = pm +/- E, written as e == +/-E + (pm + 1 - digits(m)): the same shape as the
         * routine's own sum, which spares the solver a cancellation */
        CHECK(g_mf_e == (li->eneg ? -li->E : li->E) + ((int)g_pm + 1 - spec_ndigits(g_mf_m)) + CANARY_P(li->p),
              D_MAG);
    }
  }
#endif
}

/* ---- A. integers exact ----------------------------------------------------------------------------------------------- */
void h_int_exact(void) {
  struct pn_case c;
  pn_input(&c);
  __CPROVER_assume(c.li.is_integer && lit_int_fits(&c.li));
  pn_call(&c, 0);
  unsigned char t = c.r.type_;
  COVER(!c.li.neg && c.li.V == 0xffffffffffffffffull && c.n == PN_N); /* 2^64-1 behind leading zeros, full length */
  COVER(c.li.neg && c.li.V == ((uint64_t)1 << 63));
  COVER(c.li.neg && c.li.V == 0);
  COVER(c.s[0] == '+' && c.li.V == 77);
  COVER(c.n == 1);
  CHECK(t == NT_SIGNED || t == NT_UNSIGNED, "an integer literal of [-2^63, 2^64) parses to an integer");
  i128 got = t == NT_SIGNED ? (i128)c.r.value_.asSignedInteger : (i128)c.r.value_.asUnsignedInteger;
  i128 want = c.li.neg ? -(i128)c.li.V : (i128)c.li.V;
#ifdef CANARY_INT
  want += (c.li.V == 77);
#endif
  CHECK(got == want, "an integer literal of [-2^63, 2^64) parses to exactly that integer, any number of leading zeros");
  CHECK(g_mf_calls == 0, "no floating arithmetic on the integer path");
  pn_done(&c);
}

/* ---- A2. integer literals beyond [-2^63, 2^64): floating, of the literal's magnitude ---------------------------------- */
void h_int_overflow_magnitude(void) {
  struct pn_case c;
  pn_input(&c);
  __CPROVER_assume(c.li.is_integer && !lit_int_fits(&c.li));
  pn_call(&c, CK_MAG);
  COVER(!c.li.neg && c.li.nint == 20 && c.s[c.n - 1] == '9' && c.s[0] == '1');
  COVER(c.li.neg && !c.li.big && c.li.V == ((uint64_t)1 << 63) + 1);
  COVER(c.n == PN_N && c.s[0] == '9');
  pn_check_floating(&c, CK_MAG);
  pn_done(&c);
}

/* ---- B. literals with fraction / exponent: what reaches make_float, the early exits ------------------------------------ */
static unsigned lit_run(unsigned checks) {
  struct pn_case c;
  pn_input(&c);
  __CPROVER_assume(c.li.strict && !lit_int_fits(&c.li));
  /* the class of literals may be split by shape to keep each solver run small (the obligations of a split cover the class) */
#ifdef SHAPE_E
  __CPROVER_assume(c.li.has_e == SHAPE_E);
#endif
#ifdef SHAPE_DOT
  __CPROVER_assume(c.li.has_dot == SHAPE_DOT);
#endif
#ifdef LIT_SHAPE /* a family: the exponent form of an integer mantissa, e.g. 1000000000e-309 */
  __CPROVER_assume(!c.li.has_dot && c.li.has_e && c.li.nexp == 3);
#endif
  pn_call(&c, checks);
  pn_check_floating(&c, checks);
  unsigned m = 0;
#ifndef VERIF_NATIVE
#if PN_HAS_DOUBLE
  m |= (g_mf_calls == 1 && g_mf_double) ? 1u : 0u;
  m |= (g_mf_calls == 1 && !g_mf_double) ? 2u : 0u;
  m |= (g_mf_calls == 0 && c.r.type_ == NT_FLOAT) ? 4u : 0u;
  m |= (g_mf_calls == 0 && c.r.type_ == NT_DOUBLE) ? 8u : 0u;
  m |= (g_mf_calls == 1 && g_mf_e > 300) ? 16u : 0u;
  m |= (g_mf_calls == 1 && g_mf_e < -300) ? 32u : 0u;
  m |= (c.li.nfrac > 2 && c.li.nexp > 0 && c.li.neg) ? 64u : 0u;
  m |= (g_mf_calls == 1 && !g_mf_double && g_mf_e == 38) ? 128u : 0u;
  m |= (c.n == PN_N) ? 256u : 0u;
  m |= (g_mf_calls == 2) ? 512u : 0u;
  m |= (!c.li.nonzero && c.li.E > 400) ? 1024u : 0u; /* 0e999 */
#else /* float-only build: the goals that are specific to it */
  {
    uint32_t mag = f32_bits(c.r.value_.asFloat) & 0x7fffffffu;
    m |= (g_mf_calls == 1 && g_mf_f_overflow && mag == 0x7f800000u) ? 1u : 0u; /* make_float<float> answered infinity (3.5e38) */
    m |= (g_mf_calls == 1 && !g_mf_f_overflow) ? 2u : 0u;
    m |= (g_mf_calls == 0 && mag == 0) ? 4u : 0u;                               /* zero without make_float: below 1e-37 */
    m |= (g_mf_calls == 0 && mag == 0x7f800000u) ? 8u : 0u;                     /* float infinity without make_float: 1e39 and more */
    m |= (g_mf_calls == 1 && g_mf_e > 30) ? 16u : 0u;
    m |= (g_mf_calls == 1 && g_mf_e < -50) ? 32u : 0u;                          /* below the denormals, still through make_float<float> */
    m |= (c.li.nfrac > 2 && c.li.nexp > 0 && c.li.neg) ? 64u : 0u;
    m |= (g_mf_calls == 1 && g_mf_e == 38) ? 128u : 0u;
    m |= (c.n == PN_N) ? 256u : 0u;
    m |= (c.li.nonzero && c.li.p > 45 && c.li.p < 300 && g_mf_calls == 0) ? 512u : 0u; /* 1e100: a double's value, infinity here */
    m |= (!c.li.nonzero && c.li.E > 400) ? 1024u : 0u; /* 0e999 */
  }
#endif
#endif
  pn_done(&c);
  return m;
}
#if PN_N >= 8 && !defined(LIT_SHAPE)
#define LIT_COVER_FRACTION(m) COVER(m & 64u)
#else
#define LIT_COVER_FRACTION(m) ((void)0) /* no room for "-.123e1" / the family has no fraction */
#endif
#define LIT_COVERS(m) COVER(m & 1u); COVER(m & 2u); COVER(m & 4u); COVER(m & 8u); COVER(m & 16u); COVER(m & 32u); LIT_COVER_FRACTION(m); COVER(m & 128u); COVER(m & 256u); COVER(m & 512u); COVER(m & 1024u)
void h_lit_sound(void) { unsigned m = lit_run(CK_MAG | CK_TABLE | CK_INF_EXIT); LIT_COVERS(m); }
void h_lit_magnitude(void) { unsigned m = lit_run(CK_MAG); LIT_COVERS(m); }
void h_lit_table(void) { unsigned m = lit_run(CK_TABLE); LIT_COVERS(m); }
void h_lit_float_fits(void) { unsigned m = lit_run(CK_FLOATFIT); LIT_COVERS(m); }
void h_lit_zero_exit(void) { unsigned m = lit_run(CK_ZERO_EXIT); LIT_COVERS(m); }
void h_lit_inf_exit(void) { unsigned m = lit_run(CK_INF_EXIT); LIT_COVERS(m); }

/* ---- C. grammar ----------------------------------------------------------------------------------------------------------- */
#ifdef CANARY_GRAMMAR
#define CANARY_ACC(c) ((c).n == 2 && (c).s[0] == '7' && (c).s[1] == '7')
#define CANARY_REJ(c) ((c).n == 2 && (c).s[0] == 'z' && (c).s[1] == 'z')
#else
#define CANARY_ACC(c) 0
#define CANARY_REJ(c) 0
#endif
/* ---- ARDUINOJSON_ENABLE_NAN (config nan) / ARDUINOJSON_ENABLE_INFINITY (config inf) --------------------------------------
 * C10: "NaN and Infinity only when the corresponding option is enabled".  With the option the number grammar gains, behind
 * the optional sign, the words  NaN | nan  resp.  Infinity | infinity | inf  (the spellings the library's own tests pin:
 * NaN nan Infinity +Infinity -Infinity inf +inf -inf).  A string whose first character behind the sign is the first letter
 * of a word of the ENABLED option (n N resp. i I) is judged by the obligations option_* below and is left out of the
 * default-grammar checks (OPTION_LETTER); every other string, including the words of an option that is NOT enabled, stays
 * under the default-grammar checks: it must be Invalid. */
#if defined(CFG_nan) || defined(CFG_inf)
static char opt_first(const struct pn_case *c) { return c->n > g_a0 ? c->s[g_a0] : 0; }
static _Bool option_letter(const struct pn_case *c) {
  char f = opt_first(c);
#ifdef CFG_nan
  return f == 'n' || f == 'N';
#else
  return f == 'i' || f == 'I';
#endif
}
#define OPTION_LETTER(c) option_letter(&(c))
/* the word behind the sign, compared without loops (the buffer is PN_N + 1 >= 9 bytes, NUL-filled behind the string) */
static _Bool ci(char ch, char lower) { return ch == lower || ch == (char)(lower - 32); }
/* one of the pinned spellings, exactly */
static _Bool opt_word_pinned(const struct pn_case *c) {
  const char *w = c->s + g_a0;
  size_t k = c->n - g_a0;
#ifdef CFG_nan
  return k == 3 && (w[0] == 'N' || w[0] == 'n') && w[1] == 'a' && w[2] == w[0];
#else
  return (k == 3 && w[0] == 'i' && w[1] == 'n' && w[2] == 'f') ||
         (k == 8 && (w[0] == 'I' || w[0] == 'i') && w[1] == 'n' && w[2] == 'f' && w[3] == 'i' && w[4] == 'n' && w[5] == 'i' && w[6] == 't' && w[7] == 'y');
#endif
}
/* the most lenient reading of "NaN" / "Infinity": the word in any mix of upper and lower case (NAN, Inf, INFINITY ...).
 * Spellings that are words in this sense but not pinned are left open (neither demanded nor refused). */
static _Bool opt_word_any_case(const struct pn_case *c) {
  const char *w = c->s + g_a0;
  size_t k = c->n - g_a0;
#ifdef CFG_nan
  return k == 3 && ci(w[0], 'n') && ci(w[1], 'a') && ci(w[2], 'n');
#else
  return (k == 3 && ci(w[0], 'i') && ci(w[1], 'n') && ci(w[2], 'f')) ||
         (k == 8 && ci(w[0], 'i') && ci(w[1], 'n') && ci(w[2], 'f') && ci(w[3], 'i') && ci(w[4], 'n') && ci(w[5], 'i') && ci(w[6], 't') && ci(w[7], 'y'));
#endif
}
static _Bool r_is_nan(const struct Number *r) {
  return (r->type_ == NT_FLOAT && (f32_bits(r->value_.asFloat) & 0x7fffffffu) > 0x7f800000u) ||
         (r->type_ == NT_DOUBLE && (f64_bits(r->value_.asDouble) & 0x7fffffffffffffffull) > 0x7ff0000000000000ull);
}
static _Bool r_is_inf_signed(const struct Number *r, _Bool neg) {
  return (r->type_ == NT_FLOAT && f32_bits(r->value_.asFloat) == (neg ? 0xff800000u : 0x7f800000u)) ||
         (r->type_ == NT_DOUBLE && f64_bits(r->value_.asDouble) == (neg ? 0xfff0000000000000ull : 0x7ff0000000000000ull));
}
#ifdef CFG_nan
#define D_OPT_ACCEPT "ENABLE_NAN: [+-]?(NaN|nan) parses to a floating NaN"
#define D_OPT_ONLY "ENABLE_NAN: behind the optional sign, a text that starts with n or N is a number only if it is the word NaN (Invalid otherwise)"
#else
#define D_OPT_ACCEPT "ENABLE_INFINITY: [+-]?(Infinity|infinity|inf) parses to a floating infinity of the sign written"
#define D_OPT_ONLY "ENABLE_INFINITY: behind the optional sign, a text that starts with i or I is a number only if it is the word Infinity or inf (Invalid otherwise)"
#endif
/* the pinned spellings are numbers and denote NaN / the signed infinity (complete: the set of spellings is finite) */
void h_option_words_accepted(void) {
  struct pn_case c;
  pn_input(&c);
  __CPROVER_assume(OPTION_LETTER(c) && opt_word_pinned(&c));
  pn_call(&c, 0);
  COVER(c.s[0] == '-'); COVER(c.s[0] == '+'); COVER(g_a0 == 0);
#ifdef CFG_nan
  COVER(c.s[g_a0] == 'N'); COVER(c.s[g_a0] == 'n');
#ifdef CANARY_OPTWORDS
  CHECK(r_is_nan(&c.r) && c.s[0] != '+', D_OPT_ACCEPT);
#else
  CHECK(r_is_nan(&c.r), D_OPT_ACCEPT);
#endif
#else
  COVER(c.n - g_a0 == 8 && c.s[g_a0] == 'I'); COVER(c.n - g_a0 == 8 && c.s[g_a0] == 'i'); COVER(c.n - g_a0 == 3);
#ifdef CANARY_OPTWORDS
  CHECK(r_is_inf_signed(&c.r, c.s[0] == '-' || c.s[0] == '+'), D_OPT_ACCEPT);
#else
  CHECK(r_is_inf_signed(&c.r, c.s[0] == '-'), D_OPT_ACCEPT);
#endif
#endif
  CHECK(g_mf_calls == 0, "the option's words are answered without floating arithmetic");
  CHECK(c.s[c.n] == 0, "the string is not modified");
  pn_done(&c);
}
/* ... and nothing else that starts with the option's letter is (every string of at most PN_N characters) */
void h_option_words_only(void) {
  struct pn_case c;
  pn_input(&c);
  __CPROVER_assume(OPTION_LETTER(c) && !opt_word_any_case(&c));
  pn_call(&c, 0);
  COVER(c.n - g_a0 == 1);                       /* the bare letter: "N", "-i" */
  COVER(c.n - g_a0 == 4 && c.s[0] != '-' && c.s[0] != '+'); /* "Nope", "Info" */
  COVER(c.n == PN_N);
  COVER(c.n - g_a0 == 4 && c.s[g_a0 + 3] >= '0' && c.s[g_a0 + 3] <= '9'); /* "nan1", "inf7" */
#ifdef CANARY_OPTWORDS
  CHECK(c.r.type_ == NT_INVALID && c.n != 2, D_OPT_ONLY);
#else
  CHECK(c.r.type_ == NT_INVALID, D_OPT_ONLY);
#endif
  CHECK(c.s[c.n] == 0, "the string is not modified");
  pn_done(&c);
}
#else
#define OPTION_LETTER(c) 0
#endif
/* option-specific cover goals of the default-grammar obligations when they run in the configurations nan / inf: a word of
 * the option that is NOT enabled is refused; a text that starts with the enabled option's letter gets its early answer (the
 * scan obligation any_string_* holds it in a heap block of exactly n + 1 bytes) */
#if defined(CFG_nan)
#define OPTION_REJECT_COVERS(c) COVER((c).n == 8 && (c).s[0] == 'I' && (c).s[7] == 'y' && (c).r.type_ == NT_INVALID); COVER((c).n == 4 && (c).s[0] == '-' && (c).s[1] == 'i' && (c).r.type_ == NT_INVALID)
#define OPTION_ANSWER_COVERS(c) COVER(OPTION_LETTER(c) && (c).n == 3 && (c).r.type_ == NT_DOUBLE); COVER(OPTION_LETTER(c) && (c).n == PN_N); COVER(OPTION_LETTER(c) && (c).n == 1)
#elif defined(CFG_inf)
#define OPTION_REJECT_COVERS(c) COVER((c).n == 3 && (c).s[0] == 'N' && (c).s[2] == 'N' && (c).r.type_ == NT_INVALID); COVER((c).n == 4 && (c).s[0] == '-' && (c).s[1] == 'n' && (c).r.type_ == NT_INVALID)
#define OPTION_ANSWER_COVERS(c) COVER(OPTION_LETTER(c) && (c).n == 8 && (c).r.type_ == NT_DOUBLE); COVER(OPTION_LETTER(c) && (c).n == PN_N); COVER(OPTION_LETTER(c) && (c).n == 1)
#else
#define OPTION_REJECT_COVERS(c) ((void)0)
#define OPTION_ANSWER_COVERS(c) ((void)0)
#endif
void h_grammar_accepts(void) {
  struct pn_case c;
  pn_input(&c);
  __CPROVER_assume(c.li.strict);
  pn_call(&c, 0);
  COVER(c.n == PN_N && c.li.nfrac > 0 && c.li.nexp > 0);
  COVER(c.li.nint == 0);
  COVER(c.li.nfrac == 0 && c.li.nint > 0 && c.li.has_dot);
  COVER(c.s[0] == '+');
  CHECK(c.r.type_ != NT_INVALID && !CANARY_ACC(c), "every spelling of the number grammar is accepted");
  CHECK(c.r.type_ <= PN_KIND_MAX, D_KINDS);
  pn_done(&c);
}
void h_grammar_rejects(void) {
  struct pn_case c;
  pn_input(&c);
  __CPROVER_assume(!c.li.strict && !OPTION_LETTER(c));
  pn_call(&c, 0);
  COVER(c.n == 0);
  COVER(c.n == PN_N);
  COVER(c.li.lenient);
  OPTION_REJECT_COVERS(c);
  CHECK(c.r.type_ == NT_INVALID && !CANARY_REJ(c), "everything outside [+-]? (digits ('.' digits?)? | '.' digits) ([eE][+-]?digits)? is Invalid");
  pn_done(&c);
}
/* ---- E + C. any string: the scan reads only up to the first NUL; grammar in both directions (lenient form) ------------------ */
void h_any_string(void) {
  struct pn_case c;
  pn_input(&c);
#ifdef CANARY_SCAN
  /* the block ends before a NUL was seen whenever the string is "1234" */
  if (c.n == 4 && c.s[0] == '1' && c.s[1] == '2' && c.s[2] == '3' && c.s[3] == '4') c.s[4] = '5';
#endif
  pn_call(&c, 0);
  COVER(c.n == PN_N);
  COVER(c.n == 0);
  COVER(c.r.type_ == NT_INVALID && c.n > 3);
  COVER(c.r.type_ == (PN_HAS_DOUBLE ? NT_DOUBLE : NT_FLOAT));
  COVER(c.li.strict && c.li.has_dot && c.li.has_e);
  COVER(!c.li.lenient && c.n > 5 && c.li.nexp > 0);
  COVER(!c.li.lenient && c.li.E > 400); /* garbage behind a huge exponent */
  COVER(c.li.lenient && !c.li.strict);  /* an empty digit group */
  OPTION_REJECT_COVERS(c);
  OPTION_ANSWER_COVERS(c);
  CHECK(c.r.type_ <= PN_KIND_MAX, D_KINDS);
  CHECK(c.s[c.n] == 0, "the string is not modified");
  CHECK(!c.li.strict || c.r.type_ != NT_INVALID, "every spelling of the number grammar is accepted");
  CHECK(c.li.strict || OPTION_LETTER(c) || c.r.type_ == NT_INVALID, "everything outside [+-]? (digits ('.' digits?)? | '.' digits) ([eE][+-]?digits)? is Invalid");
  pn_done(&c);
}
#endif /* UNIT_PN || UNIT_PNLOOP */

/* ================================================================================================================ */
#ifdef UNIT_PN
/* ---- lemma: the two independent readings of a string agree ---------------------------------------------------------------
 * the harnesses construct the string from its cut (pn_input, generative); spec_scan reads a string left to right.  Both are
 * written from the grammar; here every field of the one is compared with the other, for every string of at most PN_N chars */
#ifdef PN_GENERATIVE
void h_lemma_readings_agree(void) {
  struct pn_case c;
  pn_input(&c);
  size_t a0 = g_a0, a1 = g_a1, b0 = g_b0, b1 = g_b1, c0 = g_c0, c1 = g_c1, lead = g_lead;
  long pm = g_pm;
  uint64_t Sa = g_S[a1];
  _Bool ova = g_over[a1];
  struct lit_info r;
  spec_scan(c.s, c.n, &r);
  COVER(c.li.strict && c.li.has_dot && c.li.has_e && c.li.nexp > 1);
  COVER(!c.li.lenient && c.n == PN_N);
  COVER(c.li.is_integer && c.n == PN_N);
  COVER(!c.li.nonzero && c.li.strict);
  _Bool first_ok = c.n > a0 && ((c.s[a0] >= '0' && c.s[a0] <= '9') || c.s[a0] == '.');
  CHECK(r.strict == c.li.strict && r.lenient == c.li.lenient && r.is_integer == c.li.is_integer, "both readings classify the string alike");
  if (first_ok) { /* behind a first character that is neither digit nor '.' the cut is of no consequence */
#ifdef CANARY_LEMMA
    CHECK(g_a0 == a0 && g_a1 == a1 && g_b0 == b0 && g_b1 == b1 && g_c0 == c0 && g_c1 == c1 + (c1 == 5), "both readings cut the string alike");
#else
    CHECK(g_a0 == a0 && g_a1 == a1 && g_b0 == b0 && g_b1 == b1 && g_c0 == c0 && g_c1 == c1, "both readings cut the string alike");
#endif
    CHECK(g_lead == lead && r.nonzero == c.li.nonzero && (!r.nonzero || (g_pm == pm && r.pow10 == c.li.pow10)), "both readings find the same leading digit and mantissa magnitude");
    CHECK(r.neg == c.li.neg && r.eneg == c.li.eneg && r.has_dot == c.li.has_dot && r.has_e == c.li.has_e, "both readings see the same signs and markers");
    CHECK(r.nint == c.li.nint && r.nfrac == c.li.nfrac && r.nexp == c.li.nexp, "both readings count the same digits");
    CHECK(r.E == c.li.E && (!r.nonzero || r.p == c.li.p), "both readings give the same exponent and decimal magnitude");
    CHECK(r.big == ova && (r.big || r.V == Sa) && r.f4_family == c.li.f4_family, "both readings give the same integer value");
  }
}
#endif

/* ---- B'. a digit string longer than any power table: d followed by k zeros (concrete family, loops unwound) ------------- */
#ifndef LONG_K
#define LONG_K 700
#endif
#ifndef LONG_CHECKS
#define LONG_CHECKS (CK_TABLE | CK_MAG | CK_INF_EXIT)
#endif
void h_long_zeros(void) {
  struct pn_case c;
#ifdef LONG_EXACT
  size_t n = LONG_K + 1; /* exactly d followed by LONG_K zeros */
#else
  size_t n = in_u16();
  __CPROVER_assume(n >= 21 && n <= LONG_K + 1);
#endif
  char d = in_char();
  __CPROVER_assume(d >= '1' && d <= '9');
  static char buf[LONG_K + 2];
  char *s = buf;
  s[0] = d;
  for (unsigned i = 1; i <= LONG_K + 1; i++) s[i] = i < n ? '0' : 0;
  c.s = s;
  c.n = n;
  /* what it denotes: d x 10^(n-1) */
  memset(&c.li, 0, sizeof c.li);
  c.li.strict = c.li.lenient = c.li.is_integer = 1;
  c.li.big = 1;
  c.li.nonzero = 1;
  c.li.pow10 = d == '1';
  c.li.p = (long)n - 1;
  g_pm = (long)n - 1;
  c.li.nint = (unsigned)n;
  pn_call(&c, LONG_CHECKS);
  COVER(n == LONG_K + 1);
  COVER(d == '1');
  COVER(d == '9');
  pn_check_floating(&c, LONG_CHECKS);
}
#endif /* UNIT_PN */

/* ================================================================================================================ */
#ifdef UNIT_MF
/* make_float<TFloat,int>(m, e) multiplies m by the table entries selected by the bits of |e|: entry i stands for 10^(+-2^i).
 * The tables have 9 (double) and 6 (float) entries, so the callee's precondition is |e| <= 511 resp. |e| <= 63; under it every
 * table access is in bounds (the bounds checks on the lowered static tables are cbmc's own), for every m and every e.
 * That this precondition is what parseNumber must establish is shown by the canary: with |e| <= 512 (64) the access fails. */
void h_make_float_double(void) {
  double m = in_f64();
  int e = in_i32();
#ifdef CANARY_MF
  __CPROVER_assume(e >= -512 && e <= 512);
#else
  __CPROVER_assume(e >= -511 && e <= 511);
#endif
  double r = make_float_double_int(m, e);
  COVER(e == 511);
  COVER(e == -511);
  COVER(e == 0);
  CHECK(e != 0 || m != m || f64_bits(r) == f64_bits(m), "make_float(m, 0) is m");
}
void h_make_float_float(void) {
  float m = in_f32();
  int e = in_i32();
#ifdef CANARY_MF
  __CPROVER_assume(e >= -64 && e <= 64);
#else
  __CPROVER_assume(e >= -63 && e <= 63);
#endif
  float r = make_float_float_int(m, e);
  COVER(e == 63);
  COVER(e == -63);
  COVER(e == 0);
  CHECK(e != 0 || m != m || f32_bits(r) == f32_bits(m), "make_float(m, 0) is m");
}
/* the table entries are the floating literals 10^(+-2^i) (the compiler's correctly rounded conversion of the decimal literal) */
void h_power_tables(void) {
  static const double dpos[9] = {1e1, 1e2, 1e4, 1e8, 1e16, 1e32, 1e64, 1e128, 1e256};
  static const double dneg[9] = {1e-1, 1e-2, 1e-4, 1e-8, 1e-16, 1e-32, 1e-64, 1e-128, 1e-256};
  static const float fpos[6] = {1e1f, 1e2f, 1e4f, 1e8f, 1e16f, 1e32f};
  static const float fneg[6] = {1e-1f, 1e-2f, 1e-4f, 1e-8f, 1e-16f, 1e-32f};
  struct pgm_ptr_double dp = FloatTraits_double_8__positiveBinaryPowersOfTen(), dn = FloatTraits_double_8__negativeBinaryPowersOfTen();
  struct pgm_ptr_float fp = FloatTraits_float_4__positiveBinaryPowersOfTen(), fn = FloatTraits_float_4__negativeBinaryPowersOfTen();
  unsigned i = in_u8();
  __CPROVER_assume(i < 9);
  COVER(i == 8);
  COVER(i == 0);
#ifdef CANARY_MF
  CHECK(f64_bits(dp.ptr_[i]) == f64_bits(dpos[i]) + (i == 7), "double table entry i is 10^(2^i)");
#else
  CHECK(f64_bits(dp.ptr_[i]) == f64_bits(dpos[i]), "double table entry i is 10^(2^i)");
#endif
  CHECK(f64_bits(dn.ptr_[i]) == f64_bits(dneg[i]), "double table entry i is 10^-(2^i)");
  if (i < 6) {
    CHECK(f32_bits(fp.ptr_[i]) == f32_bits(fpos[i]), "float table entry i is 10^(2^i)");
    CHECK(f32_bits(fn.ptr_[i]) == f32_bits(fneg[i]), "float table entry i is 10^-(2^i)");
  }
}
#endif /* UNIT_MF */

/* ================================================================================================================ */
#ifdef UNIT_CONVTO
/* Number::convertTo<T>(): the switch on the stored kind hands the stored member, and no other, to convertNumber<T, type of that
 * member> and returns its result unchanged; an Invalid number gives T().  parseNumber<T>(s) hands s to parseNumber and
 * converts what comes back.  convertNumber's own contract: unit numconvert (C13).  CBMC build only (the harness observes
 * through stubs). */
static unsigned g_cv_calls, g_cv_kind;
static uint64_t g_cv_bits;
static int8_t g_cv_ret;
static unsigned g_pn_calls;
static char *g_pn_arg;
static struct Number g_pn_ret;
struct Number parseNumber(char *s) { g_pn_calls++; g_pn_arg = s; return g_pn_ret; }
#define CV_STUBS(TN, T) \
  T convertNumber_##TN##_float(float v) { g_cv_calls++; g_cv_kind = NT_FLOAT; g_cv_bits = f32_bits(v); return (T)g_cv_ret; } \
  T convertNumber_##TN##_long(long v) { g_cv_calls++; g_cv_kind = NT_SIGNED; g_cv_bits = (uint64_t)v; return (T)g_cv_ret; } \
  T convertNumber_##TN##_ulong(unsigned long v) { g_cv_calls++; g_cv_kind = NT_UNSIGNED; g_cv_bits = v; return (T)g_cv_ret; } \
  T convertNumber_##TN##_double(double v) { g_cv_calls++; g_cv_kind = NT_DOUBLE; g_cv_bits = f64_bits(v); return (T)g_cv_ret; }
#ifdef CANARY_CONVTO
#define CANARY_CV(bits) ((bits) == 77)
#else
#define CANARY_CV(bits) 0
#endif
#define H_CONVTO(TN, T) \
  CV_STUBS(TN, T) \
  static void convto_check_##TN(unsigned char type, uint64_t payload, T r) { \
    if (type >= NT_FLOAT && type <= PN_KIND_MAX) { /* (USE_DOUBLE=0: kinds 1..3; a tag of 4 is not a kind there) */ \
      CHECK(g_cv_calls == 1 && g_cv_kind == type, "convertTo<T> calls convertNumber<T, stored type> once, for the kind that is stored"); \
      CHECK(g_cv_bits == (type == NT_FLOAT ? (payload & 0xffffffffu) : payload) + CANARY_CV(payload), "convertTo<T> hands over the stored member unchanged"); \
      CHECK(r == (T)g_cv_ret, "convertTo<T> returns convertNumber's result unchanged"); \
    } else { \
      CHECK(g_cv_calls == 0 && r == (T)0, "convertTo<T> of an Invalid number is T()"); \
    } \
  } \
  void h_convto_##TN(void) { \
    struct Number n; \
    memset(&n, 0, sizeof n); \
    unsigned char type = in_u8(); \
    uint64_t payload = in_u64(); \
    n.type_ = type; \
    memcpy(&n.value_, &payload, 8); \
    g_cv_ret = in_i8(); \
    g_cv_calls = 0; g_cv_kind = 0; \
    T r = Number__convertTo_##TN(&n); \
    COVER(type == NT_FLOAT); COVER(type == NT_SIGNED); COVER(type == NT_UNSIGNED); COVER(type == NT_DOUBLE); COVER(type == NT_INVALID); COVER(type > NT_DOUBLE); \
    convto_check_##TN(type, payload, r); \
    /* parseNumber<T>(s) */ \
    char str[2] = {'7', 0}; \
    g_pn_ret = n; g_pn_calls = 0; g_pn_arg = 0; g_cv_calls = 0; g_cv_kind = 0; \
    T r2 = parseNumber_##TN(str); \
    CHECK(g_pn_calls == 1 && g_pn_arg == str, "parseNumber<T>(s) hands s to parseNumber, once"); \
    convto_check_##TN(type, payload, r2); \
  }
H_CONVTO(signedchar, signed char) H_CONVTO(uchar, unsigned char) H_CONVTO(short, short) H_CONVTO(ushort, unsigned short)
H_CONVTO(int, int) H_CONVTO(uint, unsigned int) H_CONVTO(long, long) H_CONVTO(ulong, unsigned long)
H_CONVTO(float, float) H_CONVTO(double, double)
#endif /* UNIT_CONVTO */
