/* build-configuration constants as the library computes them (Configuration.hpp defaults on a 64-bit host) */
#ifndef VERIF_CONFIG_H
#define VERIF_CONFIG_H
#ifndef ARDUINOJSON_SLOT_ID_SIZE
#define ARDUINOJSON_SLOT_ID_SIZE 4
#endif
#ifndef ARDUINOJSON_POOL_CAPACITY
#if ARDUINOJSON_SLOT_ID_SIZE == 1
#define ARDUINOJSON_POOL_CAPACITY 16
#elif ARDUINOJSON_SLOT_ID_SIZE == 2
#define ARDUINOJSON_POOL_CAPACITY 128
#else
#define ARDUINOJSON_POOL_CAPACITY 256
#endif
#endif
#ifndef ARDUINOJSON_INITIAL_POOL_COUNT
#define ARDUINOJSON_INITIAL_POOL_COUNT 4
#endif
#ifndef ARDUINOJSON_STRING_LENGTH_SIZE
#define ARDUINOJSON_STRING_LENGTH_SIZE 2
#endif
/* preprocessor-evaluable forms */
#define PP_NULL_SLOT ((1ULL << (8 * ARDUINOJSON_SLOT_ID_SIZE)) - 1)
#define PP_MAXPOOLS ((PP_NULL_SLOT + ARDUINOJSON_POOL_CAPACITY - 1) / ARDUINOJSON_POOL_CAPACITY)
#define CFG_CAP ((uint64_t)ARDUINOJSON_POOL_CAPACITY)
#define CFG_INITIAL ((uint64_t)ARDUINOJSON_INITIAL_POOL_COUNT)
#define CFG_NULL_SLOT ((uint64_t)((1ULL << (8 * ARDUINOJSON_SLOT_ID_SIZE)) - 1))
/* the property's own reading of the limit: at most 2^(8*slot-id-size)-1 slots, ids 0..NULL_SLOT-1 */
#define CFG_MAX_LEN ((uint64_t)((1ULL << (8 * ARDUINOJSON_STRING_LENGTH_SIZE)) - 1))
#endif
