/* native runtime for harness replay / covalidation: feeds in_*() from a file, records CHECK outcomes */
#include <stdio.h>
#include <stdlib.h>
#include <string.h>
#include "verif.h"

static unsigned long long *g_vals;
static size_t g_n, g_pos;
static int g_fail;
static unsigned long long g_rng;
static int g_random;

void VERIF_HARNESS(void);

unsigned long long verif_next_input(const char *fn) {
  if (g_random) {
    g_rng ^= g_rng << 13; g_rng ^= g_rng >> 7; g_rng ^= g_rng << 17;
    unsigned long long v = g_rng;
    /* bias towards small and boundary values */
    switch ((g_rng >> 60) & 7) { case 0: v &= 0xff; break; case 1: v &= 0xffff; break; case 2: v = ~0ULL - (v & 3); break; default: break; }
    printf("IN %s %llu\n", fn, v);
    return v;
  }
  if (g_pos >= g_n) {
    printf("INPUT-EXHAUSTED %s\n", fn);
    fflush(stdout);
    exit(4);
  }
  return g_vals[g_pos++];
}
void verif_assume_fail(const char *cond) {
  printf("ASSUME-FAIL %s\n", cond);
  fflush(stdout);
  exit(3);
}
void verif_assert(int ok, const char *name) {
  if (!ok) { printf("ASSERT-FAIL %s\n", name); g_fail = 1; }
}
void verif_out(const char *name, unsigned long long v) {
  printf("OUT %s %llu\n", name, v);
}
int main(int argc, char **argv) {
  setvbuf(stdout, 0, _IOLBF, 0);
  if (argc > 2 && !strcmp(argv[1], "--random")) {
    g_random = 1;
    g_rng = strtoull(argv[2], 0, 10) * 0x9E3779B97F4A7C15ULL + 1;
  } else if (argc > 1) {
    FILE *f = fopen(argv[1], "r");
    if (!f) { perror("input"); return 2; }
    char fn[64]; unsigned long long v; size_t cap = 0;
    while (fscanf(f, "%63s %llu", fn, &v) == 2) {
      if (g_n == cap) { cap = cap ? cap * 2 : 64; g_vals = realloc(g_vals, cap * sizeof *g_vals); }
      g_vals[g_n++] = v;
    }
    fclose(f);
  }
  VERIF_HARNESS();
  printf("DONE fail=%d\n", g_fail);
  return g_fail ? 1 : 0;
}
