/* parse<Filter>() (top level) and parseStringValue of JsonDeserializer<StubReader>.
 * C16: nothing is read after the top-level value; C10/C01/C16: what follows a complete top-level value does not turn Ok into an
 * error (RFC 8259 allows whitespace after the value; the documented dialect allows arbitrary bytes; NDJSON relies on it). */
#include "json_ghost.h"
static unsigned g_pv_calls, g_pv_err;
static unsigned char g_pv_limit;
static void *g_pv_filter, *g_pv_variant;
static unsigned g_reads_at_return;
static _Bool g_value_is_number;
static unsigned g_start_calls, g_save_calls, g_set_calls, g_seq, g_start_at, g_pq_at, g_save_at;
#ifdef VERIF_NATIVE
#include "lowered_types.h"
#else
#include "lowered.c"
#endif
typedef struct JsonDeserializer_StubReader JD;
#ifdef U_TOP
typedef struct DeserializationOption__Filter Filter;
typedef struct DeserializationOption__NestingLimit NL;
#endif

int StubReader__read(struct StubReader *self) {
  (void)self;
  CHECK(!g_ended, "C03: no byte is read after the end of the input was delivered");
  int c = (int)in_u16() - 1;
  __CPROVER_assume(c >= -1 && c <= 255);
  g_reads++; g_last = c > 0 ? c : 0; g_have_last = 1;
  if (c <= 0) g_ended = 1;
  return c;
}
#ifdef U_TOP
/* parseVariant by contract [jsondispatch/parseVariant_dispatch + callees]: Ok => SAFE; a number leaves its look-ahead byte in the latch */
unsigned int JsonDeserializer_StubReader__parseVariant_DeserializationOption__Filter(JD *self, struct VariantData *v, Filter f, NL nl) {
  CHECK(SAFE(self), "parseVariant precondition: SAFE");
  g_pv_calls++; g_pv_limit = nl.value_; g_pv_filter = f.variant_.data_; g_pv_variant = v;
  unsigned e = in_u8();
  __CPROVER_assume(e <= TooDeep);
  self->latch_.loaded_ = in_bool();
  self->latch_.current_ = in_char();
  g_ended = self->latch_.loaded_ && self->latch_.current_ == 0;
  g_reads += in_u8();
  if (e == Ok && g_value_is_number) __CPROVER_assume(self->latch_.loaded_); /* C16: at most one further byte, kept in the latch */
  g_pv_err = e;
  g_reads_at_return = g_reads;
  return e;
}
_Bool VariantData__isFloat(struct VariantData *self) { (void)self; return g_value_is_number; }

void h_parse(void) {
  JD *d = malloc(sizeof *d);
  __CPROVER_assume(d != 0);
  memset(d, 0, sizeof *d);
  g_ended = 0; g_reads = 0; g_have_last = 0; g_last = 0; g_bad_consumed = 0; g_log[0] = 0; g_allowed_class = 0;
  g_pv_calls = 0; g_pv_err = 0; g_reads_at_return = 0;
  g_value_is_number = in_bool();
  struct VariantData v;
  memset(&v, 0, sizeof v);
  NL nl; nl.value_ = in_u8();
  Filter f; memset(&f, 0, sizeof f); f.variant_.data_ = (void *)(uintptr_t)0x1001;
  struct DeserializationError r = JsonDeserializer_StubReader__parse_DeserializationOption__Filter(d, &v, f, nl);
  COVER(r.code_ == Ok); COVER(r.code_ != Ok); COVER(g_value_is_number && g_pv_err == Ok && d->latch_.current_ != 0);
  CHECK(g_pv_calls == 1 && g_pv_limit == nl.value_ && g_pv_filter == f.variant_.data_ && g_pv_variant == &v, "parse hands the root, the filter and the nesting limit unchanged to parseVariant (C15: the limit counts from the root)");
  CHECK(g_reads == g_reads_at_return, "C16: nothing is read after the top-level value has been parsed");
  CHECK(g_pv_err == Ok || r.code_ == g_pv_err, "an error of the value is returned unchanged");
#ifdef TRAILING_RULE
  /* C10: 'arbitrary bytes after a complete top-level value' / C01: RFC 8259 ws after the value / C16: NDJSON */
  CHECK(g_pv_err != Ok || r.code_ == Ok, "C10/C01/C16: bytes that follow a complete top-level value do not make the call fail");
#else
  CHECK(g_pv_err != Ok || g_value_is_number || r.code_ == Ok, "a complete non-numeric top-level value gives Ok whatever follows");
  CHECK(g_pv_err != Ok || !g_value_is_number || d->latch_.current_ != 0 || r.code_ == Ok, "a top-level number followed by the end of input gives Ok");
#endif
#ifdef CANARY_PARSE
  CHECK(!(r.code_ == Ok && g_value_is_number), "canary: deliberately false for a reachable case");
#endif
}

#endif /* U_TOP */

#ifdef U_PSV
/* parseStringValue: startString, parseQuotedString, then save + setOwnedString only on Ok */
static unsigned g_pq_err;
void StringBuilder__startString(struct StringBuilder *self) { (void)self; g_start_calls++; g_start_at = ++g_seq; }
unsigned int JsonDeserializer_StubReader__parseQuotedString(JD *self) {
  CHECK(SAFE(self), "parseQuotedString precondition: SAFE");
  g_pq_at = ++g_seq;
  unsigned e = in_u8();
  __CPROVER_assume(e <= NoMemory && e != EmptyInput);
  self->latch_.loaded_ = in_bool(); self->latch_.current_ = in_char();
  g_ended = self->latch_.loaded_ && self->latch_.current_ == 0;
  g_pq_err = e;
  return e;
}
static struct StringNode g_node;
struct StringNode *StringBuilder__save(struct StringBuilder *self) { (void)self; g_save_calls++; g_save_at = ++g_seq; return &g_node; }
static struct StringNode *g_set_arg;
static struct VariantData *g_set_self;
void VariantData__setOwnedString(struct VariantData *self, struct StringNode *s) { g_set_calls++; g_set_arg = s; g_set_self = self; }
void h_parseStringValue(void) {
  JD *d = malloc(sizeof *d);
  __CPROVER_assume(d != 0);
  memset(d, 0, sizeof *d);
  d->latch_.loaded_ = 1; d->latch_.current_ = in_bool() ? '"' : '\'';
  g_ended = 0; g_reads = 0; g_have_last = 1; g_last = (unsigned char)d->latch_.current_; g_bad_consumed = 0; g_log[0] = 0; g_allowed_class = 0;
  g_start_calls = g_save_calls = g_set_calls = g_seq = g_start_at = g_pq_at = g_save_at = 0; g_set_arg = 0; g_set_self = 0;
  struct VariantData v;
  memset(&v, 0, sizeof v);
  unsigned err = JsonDeserializer_StubReader__parseStringValue(d, &v);
  COVER(err == Ok); COVER(err != Ok);
  CHECK(err == g_pq_err, "the string routine's result is returned unchanged");
  CHECK(g_start_calls == 1 && g_start_at == 1 && g_pq_at == 2, "the builder is restarted before the string is parsed");
  if (err == Ok) CHECK(g_save_calls == 1 && g_set_calls == 1 && g_save_at == 3 && g_set_arg == &g_node && g_set_self == &v, "C01: on Ok the saved string (and nothing else) is stored into this variant");
  else CHECK(g_save_calls == 0 && g_set_calls == 0 && v.type_ == 0, "C05/C03: on error nothing is saved and the variant stays null");
#ifdef CANARY_PSV
  CHECK(err != Ok, "canary: deliberately false for a reachable case");
#endif
}
#endif /* U_PSV */
