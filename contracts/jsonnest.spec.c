/* JSON container / dispatch routines of JsonDeserializer<StubReader>, TFilter = DeserializationOption::Filter:
 * parseArray, skipArray, parseObject, skipObject, parseVariant, skipVariant, parse.
 * MODULAR: children (parseVariant/skipVariant), token routines (skipSpacesAndComments, parseKey, skipKey, skipKeyword, ...),
 * the document side (addElement, getMember, addMember, clear, toArray ...) and the filter are stubs that implement the CONTRACT
 * the parent relies on; each contract is proved for the real callee in the obligation named in the stub's comment.
 * Real code kept: the routine under test, current/move/eat, Latch, NestingLimit.
 * Serves C15 (nesting), C03 (SAFE/no over-read, return codes, null discipline), C10 (container productions, classification),
 * C16 (what is consumed), C01 (order of stores, element parsed into the slot just added, clear-before-reparse), C11 (filter
 * answers drive parse vs skip; children receive the sub-filter), C05 (NoMemory iff a store failed). */
#include "json_ghost.h"
/* ghost of the stubs (declared before the lowered text: loop contracts mention them) */
static unsigned g_child_parse_calls, g_child_skip_calls, g_spaces_calls, g_add_n, g_key_calls;
static unsigned char g_child_limit;      /* the value every child call must receive (C15) */
static unsigned g_last_stub_err;         /* error returned by the most recent stub (0 if Ok) */
static _Bool g_stub_failed;              /* some stub returned an error */
static void *g_child_filter_token;       /* sub-filter every child must receive (C11) */
static void *g_last_added;               /* slot returned by the last successful addElement/addMember/getMember */
static _Bool g_store_failed;             /* addElement/addMember returned null */
static unsigned g_unparsed_adds;         /* slots added but not (yet) handed to parseVariant */
static _Bool g_allow[4];
static unsigned g_deref_calls;
static char *g_deref_arg;
static _Bool g_addmember_failed;
static unsigned g_index0_calls, g_indexkey_calls;
static char *g_indexkey_arg;
static char g_keybuf[4];
static unsigned long g_key_size;
static unsigned g_save_calls, g_getmember_calls, g_addmember_calls, g_clear_calls;
static _Bool g_member_exists;
static unsigned long g_lookup_len;
static _Bool g_any_child;              /* a child (value or key routine) has been entered since the container was opened */
#ifdef VERIF_NATIVE
#include "lowered_types.h"
#else
#include "lowered.c"
#endif
typedef struct JsonDeserializer_StubReader JD;
#ifdef FILTER_ALLOWALL
typedef struct AllowAllFilter Filter;   /* the unfiltered instantiation: every answer is the constant true (real code) */
#define PARSEVARIANT JsonDeserializer_StubReader__parseVariant_AllowAllFilter
#define PARSEARRAY JsonDeserializer_StubReader__parseArray_AllowAllFilter
#define PARSEOBJECT JsonDeserializer_StubReader__parseObject_AllowAllFilter
#define FTOKEN(f) g_child_filter_token
#else
typedef struct DeserializationOption__Filter Filter;
#define PARSEVARIANT JsonDeserializer_StubReader__parseVariant_DeserializationOption__Filter
#define PARSEARRAY JsonDeserializer_StubReader__parseArray_DeserializationOption__Filter
#define PARSEOBJECT JsonDeserializer_StubReader__parseObject_DeserializationOption__Filter
#define FTOKEN(f) ((f).variant_.data_)
#endif
typedef struct DeserializationOption__NestingLimit NL;

int StubReader__read(struct StubReader *self) {
  (void)self;
  CHECK(!g_ended, "C03: no byte is read after the end of the input was delivered");
  int c = (int)in_u16() - 1;
  __CPROVER_assume(c >= -1 && c <= 255);
  g_reads++;
  g_last = c > 0 ? c : 0;
  g_have_last = 1;
  if (c <= 0) g_ended = 1;
  return c;
}

/* ---- havoc of the input position by a callee: any SAFE-or-not state that is ghost-consistent ---- */
static void havoc_position(JD *d, _Bool must_be_safe) {
  d->latch_.loaded_ = in_bool();
  d->latch_.current_ = in_char();
  g_ended = in_bool();
  g_reads += in_u8();
  g_have_last = 1;
  g_last = d->latch_.loaded_ ? (int)(unsigned char)d->latch_.current_ : (g_ended ? 0 : 'x');
  __CPROVER_assume(!(d->latch_.loaded_ && d->latch_.current_ == 0) || g_ended);
  if (must_be_safe) __CPROVER_assume(SAFE(d));
}
static unsigned pick_err(void) { unsigned e = in_u8(); __CPROVER_assume(e <= TooDeep); return e; }
static void note(unsigned err) { g_last_stub_err = err; if (err) g_stub_failed = 1; }

/* skipSpacesAndComments [contract proved: jsonscan/skipSpaces]: requires SAFE; returns Ok with a non-space, non-NUL byte
 * latched, or Empty/Incomplete with the end latched; SAFE afterwards; sets foundSomething_ on Ok. */
unsigned int JsonDeserializer_StubReader__skipSpacesAndComments(JD *self) {
  CHECK(SAFE(self), "skipSpacesAndComments precondition: SAFE");
  g_spaces_calls++;
  unsigned err = in_u8() % 3;
  self->latch_.loaded_ = 1;
  g_reads += in_u8();
  g_have_last = 1;
  if (err == Ok) {
    char c = in_char();
    __CPROVER_assume(c != 0 && !IS_WS(c));
    self->latch_.current_ = c; g_ended = 0; self->foundSomething_ = 1;
  } else {
    __CPROVER_assume((err == EmptyInput) == !self->foundSomething_);
    self->latch_.current_ = 0; g_ended = 1;
  }
  g_last = (int)(unsigned char)self->latch_.current_;
  note(err);
  return err;
}
/* parseVariant / skipVariant as CHILDREN [contract proved: jsonnest/parseVariant_*, skipVariant]: require SAFE and the
 * decremented limit; Ok => SAFE. */
unsigned int PARSEVARIANT(JD *self, struct VariantData *variant, Filter filter, NL nl) {
  CHECK(SAFE(self), "child parseVariant precondition: SAFE");
  CHECK(nl.value_ == g_child_limit, "C15: the child receives nestingLimit-1");
  CHECK(variant != 0 && variant == g_last_added, "C01/C03: the child parses into exactly the slot just added or found (never null)");
  CHECK(FTOKEN(filter) == g_child_filter_token, "C11: the child receives the sub-filter selected for it");
  g_child_parse_calls++;
  g_any_child = 1;
  if (g_unparsed_adds) g_unparsed_adds--;
  unsigned err = pick_err();
  havoc_position(self, err == Ok);
  note(err);
  return err;
}
unsigned int JsonDeserializer_StubReader__skipVariant(JD *self, NL nl) {
  CHECK(SAFE(self), "child skipVariant precondition: SAFE");
  CHECK(nl.value_ == g_child_limit, "C15: the skipped child receives nestingLimit-1");
  g_child_skip_calls++;
  g_any_child = 1;
  unsigned err = pick_err();
  __CPROVER_assume(err != NoMemory);
  havoc_position(self, err == Ok);
  note(err);
  return err;
}
/* parseKey / skipKey [jsonscan/parseQuotedString, parseNonQuotedString, skip*]: require SAFE; Ok => SAFE */
unsigned int JsonDeserializer_StubReader__parseKey(JD *self) {
  CHECK(SAFE(self), "parseKey precondition: SAFE");
  g_key_calls++;
  g_any_child = 1;
  unsigned err = pick_err();
  __CPROVER_assume(err != TooDeep && err != EmptyInput);
  havoc_position(self, err == Ok);
  note(err);
  return err;
}
unsigned int JsonDeserializer_StubReader__skipKey(JD *self) {
  CHECK(SAFE(self), "skipKey precondition: SAFE");
  g_key_calls++;
  g_any_child = 1;
  unsigned err = in_bool() ? Ok : IncompleteInput;
  havoc_position(self, err == Ok);
  note(err);
  return err;
}

#ifndef FILTER_ALLOWALL
/* ---- filter by contract: a filter is an abstract token (variant_.data_); answers are fixed per token ---- */
static unsigned tok(const Filter *f) { return (unsigned)((uintptr_t)f->variant_.data_ & 3); }
_Bool DeserializationOption__Filter__allow(Filter *self) { return g_allow[tok(self)]; }
Filter DeserializationOption__Filter__op_index_ulong(Filter *self, unsigned long *key) {
  CHECK(*key == 0, "C11: an array filter applies its FIRST element to every element");
  g_index0_calls++;
  Filter r = *self;
  r.variant_.data_ = g_child_filter_token;
  return r;
}
Filter DeserializationOption__Filter__op_index_constchar_p(Filter *self, char **key) {
  g_indexkey_calls++;
  g_indexkey_arg = *key;
  Filter r = *self;
  r.variant_.data_ = g_child_filter_token;
  return r;
}

#endif
/* ---- document side ---- */
static struct VariantData g_slots[3];
struct VariantData *ArrayData__addElement__ResourceManager_p(struct ArrayData *self, struct ResourceManager *r) {
  (void)self; (void)r;
  CHECK(g_unparsed_adds == 0, "C01: every element added so far has been parsed before the next one is added (input order)");
  if (in_bool()) { g_store_failed = 1; g_last_added = 0; return 0; }
  g_add_n++; g_unparsed_adds++;
  g_last_added = &g_slots[in_u8() % 3];
  return g_last_added;
}
struct JsonString StringBuilder__str(struct StringBuilder *self) {
  (void)self;
  struct JsonString s;
  memset(&s, 0, sizeof s);
  s.data_ = g_keybuf; s.size_ = g_key_size;
  return s;
}
static struct StringNode g_saved_node;
struct StringNode *StringBuilder__save(struct StringBuilder *self) { (void)self; g_save_calls++; return &g_saved_node; }
struct VariantData *ObjectData__getMember_StaticStringAdapter__StaticStringAdapter_ResourceManager_p(struct ObjectData *self, struct StaticStringAdapter key, struct ResourceManager *r) {
  (void)self; (void)r;
  g_getmember_calls++;
  CHECK(key._b_ZeroTerminatedRamString.str_ == g_keybuf, "C01: the member is looked up with the key that was just parsed");
#ifdef CHECK_KEY_SIZE
  /* the zero-terminated adapter sees the key only up to its first NUL */
  g_lookup_len = !g_keybuf[0] ? 0 : !g_keybuf[1] ? 1 : !g_keybuf[2] ? 2 : 3;
  CHECK(g_lookup_len == g_key_size, "C01/C14: the lookup key has the parsed key's size (keys containing NUL are distinct keys)");
#endif
  if (!g_member_exists) { g_last_added = 0; return 0; }
  g_last_added = &g_slots[in_u8() % 3];
  return g_last_added;
}
struct VariantData *ObjectData__addMember_StringNode_p(struct ObjectData *self, struct StringNode *key, struct ResourceManager *r) {
  (void)self; (void)r;
  g_addmember_calls++;
  CHECK(key == &g_saved_node, "C01: the member is added under the key saved from the builder");
  CHECK(g_unparsed_adds == 0, "C01: members are added in input order, each parsed before the next");
  if (in_bool()) { g_store_failed = 1; g_addmember_failed = 1; g_last_added = 0; return 0; }
  g_add_n++; g_unparsed_adds++;
  g_last_added = &g_slots[in_u8() % 3];
  return g_last_added;
}
/* dereferenceString [contract proved: strings/pool_dereference]: gives one reference of the pooled string back */
void ResourceManager__dereferenceString(struct ResourceManager *self, char *s) { (void)self; g_deref_calls++; g_deref_arg = s; }
void VariantData__clear__ResourceManager_p(struct VariantData *self, struct ResourceManager *r) {
  (void)r;
  CHECK(self == g_last_added, "C01: the existing member (last occurrence wins) is cleared before it is parsed again");
  g_clear_calls++;
}

/* ---- common pre-state ---- */
static JD *mk(char first) {
  JD *d = malloc(sizeof *d);
  __CPROVER_assume(d != 0);
  memset(d, 0, sizeof *d);
  d->latch_.loaded_ = 1;                /* the caller dispatched on the first byte: it is latched */
  d->latch_.current_ = first;
  d->foundSomething_ = 1;
  g_ended = 0; g_reads = 0; g_have_last = 1; g_last = (unsigned char)first; g_bad_consumed = 0; g_log[0] = 0; g_allowed_class = 0;
  g_child_parse_calls = g_child_skip_calls = g_spaces_calls = g_add_n = g_key_calls = 0;
  g_last_stub_err = 0; g_stub_failed = 0; g_last_added = 0; g_store_failed = 0; g_unparsed_adds = 0;
  g_deref_calls = 0; g_deref_arg = 0; g_addmember_failed = 0; g_any_child = 0;
  g_index0_calls = g_indexkey_calls = 0; g_indexkey_arg = 0; g_save_calls = g_getmember_calls = g_addmember_calls = g_clear_calls = 0; g_lookup_len = 0;
#ifdef FILTER_ALLOWALL
  g_allow[0] = g_allow[1] = g_allow[2] = g_allow[3] = 1;
#else
  g_allow[0] = in_bool(); g_allow[1] = in_bool(); g_allow[2] = in_bool(); g_allow[3] = in_bool();
#endif
  g_member_exists = in_bool();
  g_key_size = in_u8() % 4;
  g_keybuf[0] = in_char(); g_keybuf[1] = in_char(); g_keybuf[2] = in_char(); g_keybuf[3] = 0;
  return d;
}
#ifdef FILTER_ALLOWALL
static Filter mk_filter(unsigned token) { Filter f; memset(&f, 0, sizeof f); (void)token; return f; }
#else
static Filter mk_filter(unsigned token) { Filter f; memset(&f, 0, sizeof f); f.variant_.data_ = (void *)(uintptr_t)(0x1000 + token); return f; }
#endif
#define CODES_OK(err) ((err) <= TooDeep)

/* =========================================== arrays ================================================================= */
static void array_post(JD *d, unsigned err, unsigned char limit, _Bool filtered) {
  CHECK(CODES_OK(err), "C03: one of the six documented codes");
  if (limit == 0) {
    CHECK(err == TooDeep, "C15: TooDeep as soon as a container is opened at limit 0");
    CHECK(g_reads == 0 && g_child_parse_calls + g_child_skip_calls == 0 && g_add_n == 0 && g_spaces_calls == 0 && d->latch_.loaded_,
          "C15: ... before anything is read, stored or recursed into");
    return;
  }
  CHECK(err != Ok || SAFE(d), "C03: Ok => SAFE");
  CHECK(err != Ok || (!LATCHED(d) && g_last == ']'), "C10/C16: Ok => the closing bracket is the last byte consumed, nothing fetched after it");
  CHECK(err != TooDeep || (g_stub_failed && g_last_stub_err == TooDeep), "C15: TooDeep otherwise only propagates from a child");
  CHECK(err != NoMemory || g_store_failed || (g_stub_failed && g_last_stub_err == NoMemory), "C05: NoMemory only from a failed store (here or in a child)");
  CHECK(!g_store_failed || err == NoMemory, "C05: a failed store is reported as NoMemory");
  CHECK(!g_stub_failed || err == g_last_stub_err, "errors of children and token routines are returned unchanged, immediately");
  if (!g_stub_failed && !g_store_failed && err != Ok) {
    CHECK(err == InvalidInput, "C10: the only error the array routine itself raises is InvalidInput");
    CHECK(LATCHED(d) && d->latch_.current_ != ',' && d->latch_.current_ != ']' && d->latch_.current_ != 0,
          "C10: ... for a byte that is neither ',' nor ']' after a value (the byte is not consumed)");
    CHECK(!IS_WS(d->latch_.current_), "C01/C10: whitespace between tokens is insignificant: the verdict is never based on a whitespace byte");
  }
  CHECK(g_unparsed_adds == 0 || err != Ok, "C01: on Ok every added element was parsed");
#ifndef FILTER_ALLOWALL
  if (filtered) CHECK(g_index0_calls <= 1, "the element filter is selected once");
#endif
}
void h_parseArray(void) {
  JD *d = mk('[');
  struct ArrayData arr;
  memset(&arr, 0, sizeof arr);
  unsigned char limit = in_u8();
  NL nl; nl.value_ = limit;
  g_child_limit = (unsigned char)(limit - 1);
  Filter f = mk_filter(1);
  g_child_filter_token = (void *)(uintptr_t)(0x1000 + 2);
  unsigned err = PARSEARRAY(d, &arr, f, nl);
  COVER(err == Ok && g_child_parse_calls >= 1); COVER(err == Ok && g_spaces_calls == 1);
#ifndef FILTER_ALLOWALL
  COVER(err == Ok && g_child_skip_calls >= 1);
#endif
  COVER(err == TooDeep && limit == 0); COVER(err == InvalidInput && !g_stub_failed); COVER(err == NoMemory && g_store_failed);
  array_post(d, err, limit, 1);
  if (limit != 0) {
    CHECK(g_allow[2] || g_child_parse_calls == 0, "C11: elements the filter excludes are skipped, not parsed");
    CHECK(!g_allow[2] || g_child_skip_calls == 0, "C11: elements the filter keeps are parsed, not skipped");
    CHECK((unsigned)(g_add_n - g_child_parse_calls) <= 1, "C01: one addElement per parsed element (counters are modular)");
    CHECK(g_allow[2] || g_add_n == 0, "C11/C06: nothing is stored for excluded elements");
  }
#ifdef CANARY_PARSEARRAY
  CHECK(!(err == Ok && g_child_parse_calls == 1), "canary: deliberately false for a reachable case");
#endif
}
void h_skipArray(void) {
  JD *d = mk('[');
  unsigned char limit = in_u8();
  NL nl; nl.value_ = limit;
  g_child_limit = (unsigned char)(limit - 1);
  unsigned err = JsonDeserializer_StubReader__skipArray(d, nl);
  COVER(err == Ok); COVER(err == TooDeep && limit == 0); COVER(err == InvalidInput && !g_stub_failed);
  array_post(d, err, limit, 0);
  CHECK(g_add_n == 0 && g_child_parse_calls == 0, "C11/C06: a skipped array stores nothing");
#ifdef CANARY_SKIPARRAY
  CHECK(!(err == Ok && g_child_skip_calls == 2), "canary: deliberately false for a reachable case");
#endif
}

/* =========================================== objects ================================================================ */
static void object_post(JD *d, unsigned err, unsigned char limit) {
  CHECK(CODES_OK(err), "C03: one of the six documented codes");
  if (limit == 0) {
    CHECK(err == TooDeep, "C15: TooDeep as soon as a container is opened at limit 0");
    CHECK(g_reads == 0 && g_child_parse_calls + g_child_skip_calls == 0 && g_add_n == 0 && g_spaces_calls == 0 && g_key_calls == 0 && d->latch_.loaded_,
          "C15: ... before anything is read, stored or recursed into");
    return;
  }
  CHECK(err != Ok || SAFE(d), "C03: Ok => SAFE");
  CHECK(err != Ok || (!LATCHED(d) && g_last == '}'), "C10/C16: Ok => the closing brace is the last byte consumed, nothing fetched after it");
  CHECK(err != TooDeep || (g_stub_failed && g_last_stub_err == TooDeep), "C15: TooDeep otherwise only propagates from a child");
  CHECK(err != NoMemory || g_store_failed || (g_stub_failed && g_last_stub_err == NoMemory), "C05: NoMemory only from a failed store");
  CHECK(!g_store_failed || err == NoMemory, "C05: a failed store is reported as NoMemory");
  CHECK(!g_stub_failed || err == g_last_stub_err, "errors of children and token routines are returned unchanged, immediately");
  if (!g_stub_failed && !g_store_failed && err != Ok) {
    CHECK(err == InvalidInput, "C10: the only error the object routine itself raises is InvalidInput");
    CHECK(LATCHED(d) && d->latch_.current_ != 0, "C10: ... for a wrong byte where ':' , ',' or '}' is required (the byte is not consumed)");
    CHECK(!IS_WS(d->latch_.current_), "C01/C10: whitespace between tokens is insignificant: the verdict is never based on a whitespace byte");
  }
  CHECK(g_unparsed_adds == 0 || err != Ok, "C01: on Ok every added member was parsed");
}
void h_parseObject(void) {
  JD *d = mk('{');
  struct ObjectData obj;
  memset(&obj, 0, sizeof obj);
  unsigned char limit = in_u8();
  NL nl; nl.value_ = limit;
  g_child_limit = (unsigned char)(limit - 1);
  Filter f = mk_filter(1);
  g_child_filter_token = (void *)(uintptr_t)(0x1000 + 2);
  unsigned err = PARSEOBJECT(d, &obj, f, nl);
  COVER(err == Ok && g_child_parse_calls >= 1 && g_addmember_calls >= 1); COVER(err == Ok && g_clear_calls >= 1);
#ifndef FILTER_ALLOWALL
  COVER(err == Ok && g_child_skip_calls >= 1);
#endif
  COVER(err == Ok && g_key_calls == 0); COVER(err == TooDeep && limit == 0); COVER(err == InvalidInput && !g_stub_failed); COVER(err == NoMemory && g_store_failed);
  object_post(d, err, limit);
  if (limit != 0) {
    CHECK(g_allow[2] || (g_child_parse_calls == 0 && g_add_n == 0 && g_getmember_calls == 0 && g_save_calls == 0), "C11/C06: excluded members are skipped and nothing is stored or looked up for them");
    CHECK(!g_allow[2] || g_child_skip_calls == 0, "C11: kept members are parsed");
#ifndef FILTER_ALLOWALL
    CHECK(g_indexkey_calls == 0 || g_indexkey_arg == g_keybuf, "C11: the member filter is selected with the parsed key");
#endif
    CHECK(g_addmember_calls == g_save_calls, "C01: the key is saved exactly when a new member is added");
    /* C06/C19: save() took a reference on the key string; if the member cannot be added it must be given back, otherwise
     * repeated failures make the reference count wrap */
    CHECK(g_deref_calls == (g_addmember_failed ? 1u : 0u) && (g_deref_calls == 0 || g_deref_arg == g_saved_node.data),
          "C06/C19: a failed addMember gives back the reference save() took on the key (and nothing else is dereferenced)");
    CHECK(g_member_exists ? (g_addmember_calls == 0 && g_clear_calls == g_getmember_calls) : (g_clear_calls == 0), "C01: an existing member is cleared and re-parsed (last occurrence wins, position kept); a new one is appended");
  }
#ifdef CANARY_PARSEOBJECT
  CHECK(!(err == Ok && g_child_parse_calls == 1 && g_clear_calls == 1), "canary: deliberately false for a reachable case");
#endif
}
void h_skipObject(void) {
  JD *d = mk('{');
  unsigned char limit = in_u8();
  NL nl; nl.value_ = limit;
  g_child_limit = (unsigned char)(limit - 1);
  unsigned err = JsonDeserializer_StubReader__skipObject(d, nl);
  COVER(err == Ok && g_child_skip_calls >= 1); COVER(err == Ok && g_key_calls == 0); COVER(err == TooDeep && limit == 0); COVER(err == InvalidInput && !g_stub_failed);
  object_post(d, err, limit);
  CHECK(g_add_n == 0 && g_child_parse_calls == 0 && g_getmember_calls == 0, "C11/C06: a skipped object stores nothing");
#ifdef CANARY_SKIPOBJECT
  CHECK(!(err == Ok && g_child_skip_calls == 1), "canary: deliberately false for a reachable case");
#endif
}
