/* MemoryPoolList<SlotData>: slot ids are stable handles, never wrap, never equal NULL_SLOT; the table grows without losing
 * entries; free list is LIFO; nothing is corrupted by allocator failure (stub may fail at every call).
 * (This unit lowers no allocator call at all: getSlot/freeSlot/allocFromFreeList/allocFromLastPool cannot reach the
 * allocator -- the lowered text contains no Allocator__* symbol, which is C06's 'reuse before a new pool is requested'.)
 * Oracles: C04 ("references remain valid and keep designating the same value"), C19 ("slot identifiers never wrap";
 * "at most 2^(8*size)-1 slots"), C05, C06.   WF_LIST is the representation invariant of DESIGN 4.3. */
#include "verif.h"
#include "config.h"
#ifdef VERIF_NATIVE
#include "lowered_types.h"
#else
#include "lowered.c"
#endif
#include "poollist_common.h"

/* getSlot(id): id -> address is pure arithmetic on the table; NULL_SLOT -> null */
void h_list_getSlot(void) {
  unsigned fi;
  PoolList *l = mk_list(&fi, 1);
  unsigned idx = in_u32();
  __CPROVER_assume(idx < l->pools_[fi].usage_);
  uint64_t wide = (uint64_t)fi * CFG_CAP + idx;
  __CPROVER_assume(wide < CFG_NULL_SLOT);
  _Bool ask_null = in_bool();
  SlotData *p = MemoryPoolList_ResourceManager__SlotData__getSlot(l, ask_null ? (unsigned)NULL_SLOT : (unsigned)wide);
  COVER(ask_null); COVER(!ask_null);
#if ARDUINOJSON_INITIAL_POOL_COUNT > 1 || SCEN_HEAP
  COVER(!ask_null && fi > 0);
#endif
#ifdef CANARY_LIST_GETSLOT
  CHECK(ask_null || p == l->pools_[fi].slots_ + idx + (idx == 0), "getSlot(id) == slots of pool id/CAP at id%CAP");
#else
  CHECK(ask_null || p == l->pools_[fi].slots_ + idx, "getSlot(id) == slots of pool id/CAP at id%CAP");
#endif
  CHECK(!ask_null || p == 0, "getSlot(NULL_SLOT) == null");
}

/* allocFromLastPool: C19 no wrap: the id handed out equals poolIndex*CAP+index computed in 64 bits and is never NULL_SLOT */
void h_list_allocFromLastPool(void) {
  unsigned fi;
  PoolList *l = mk_list(&fi, 1);
  __CPROVER_assume(fi + 1 == l->count_);
  Pool before = l->pools_[fi];
  Slot s = MemoryPoolList_ResourceManager__SlotData__allocFromLastPool(l);
  uint64_t wide = (uint64_t)fi * CFG_CAP + before.usage_;
  COVER(s.ptr_ != 0); COVER(s.ptr_ == 0);
#if SCEN_HEAP && PP_MAXPOOLS <= 64
  COVER(s.ptr_ != 0 && fi + 1 == MAXPOOLS); /* the pool that reaches NULL_SLOT is materialised in this configuration */
#endif
  CHECK((s.ptr_ != 0) == (before.usage_ < before.capacity_), "allocFromLastPool succeeds iff the last pool has room");
#ifdef CANARY_LIST_LASTPOOL
  CHECK(s.ptr_ == 0 || (uint64_t)s.id_ == wide + (before.usage_ == 0), "slot id == poolIndex*CAP+index without wrapping");
#else
  CHECK(s.ptr_ == 0 || (uint64_t)s.id_ == wide, "slot id == poolIndex*CAP+index without wrapping");
#endif
  CHECK(s.ptr_ == 0 || (uint64_t)s.id_ != CFG_NULL_SLOT, "slot id is never NULL_SLOT");
  CHECK(s.ptr_ == 0 || s.ptr_ == before.slots_ + before.usage_, "slot address is the next unused slot of the last pool");
  CHECK(s.ptr_ == 0 || MemoryPoolList_ResourceManager__SlotData__getSlot(l, s.id_) == s.ptr_, "getSlot(id) returns the slot just allocated");
  CHECK(s.ptr_ != 0 || (uint64_t)s.id_ == CFG_NULL_SLOT, "failed allocation returns the null slot");
  CHECK(wf_list_fields(l) && wf_pool_at(&l->pools_[fi], fi), "WF preserved");
}


/* freeSlot / allocFromFreeList: LIFO, id and address preserved, nothing else touched, no allocator call */
void h_list_free_then_alloc(void) {
  unsigned fi;
  PoolList *l = mk_list(&fi, 1);
  unsigned idx = in_u32();
  __CPROVER_assume(idx < l->pools_[fi].usage_);
  uint64_t wide = (uint64_t)fi * CFG_CAP + idx;
  __CPROVER_assume(wide < CFG_NULL_SLOT);
  unsigned old_head = in_u32();
  l->freeList_ = (__typeof__(l->freeList_))old_head;
  Slot s;
  s.ptr_ = l->pools_[fi].slots_ + idx;
  s.id_ = (__typeof__(s.id_))wide;
  Pool pb = l->pools_[fi];
  MemoryPoolList_ResourceManager__SlotData__freeSlot(l, s);
  CHECK((uint64_t)l->freeList_ == wide, "freeSlot makes the slot the head of the free list");
  Slot r = MemoryPoolList_ResourceManager__SlotData__allocFromFreeList(l);
  COVER(1);
#ifdef CANARY_LIST_FREE
  CHECK(r.ptr_ == s.ptr_ && r.id_ == s.id_ + (idx == 0), "a freed slot is handed out again with the same id and address");
#else
  CHECK(r.ptr_ == s.ptr_ && r.id_ == s.id_, "a freed slot is handed out again with the same id and address");
#endif
  CHECK(l->freeList_ == (__typeof__(l->freeList_))old_head, "free list head restored (LIFO)");
  CHECK(l->pools_[fi].slots_ == pb.slots_ && l->pools_[fi].usage_ == pb.usage_ && l->pools_[fi].capacity_ == pb.capacity_ &&
        l->count_ == (__typeof__(l->count_))l->count_ && wf_list_fields(l), "pool table untouched by freeing/reusing a slot");
}

/* the id space: with the last pool rule, the total number of ids is exactly NULL_SLOT (ids 0..NULL_SLOT-1): C19 "at most
 * 2^(8*slot-id-size)-1 slots ... identifiers never wrap". Pure arithmetic over the configuration constants. */
void h_list_id_space(void) {
  uint64_t total = (MAXPOOLS - 1) * CFG_CAP + pool_cap_limit(MAXPOOLS - 1);
  COVER(1);
#ifdef CANARY_LIST_IDSPACE
  CHECK(total < CFG_NULL_SLOT, "id space of maxPools pools equals NULL_SLOT (ids 0..NULL_SLOT-1)");
#else
  CHECK(total == CFG_NULL_SLOT, "id space of maxPools pools equals NULL_SLOT (ids 0..NULL_SLOT-1)");
#endif
}
