/* MemoryPoolList<SlotData> life cycle: clear, shrinkToFit, usage, swap, move assignment; ResourceManager::clear / destructor.
 * C06 (every block returns to the allocator exactly once; after clear() nothing remains; moved/swapped documents keep owning what they
 * hold), C04/C05 (complete state transfer on swap/move: ids keep designating the same slots), C19.
 * MemoryPool::destroy / shrinkToFit are stubs recording the calls [contracts proved: mempool/pool_destroy, pool_shrinkToFit]. */
#include "verif.h"
#include "config.h"
static unsigned g_destroy_calls, g_shrink_calls;
static _Bool g_destroy_ok;      /* destroy was called on entries 0,1,2,... in order, each once, with the caller's allocator */
static void *g_shrunk_pool;
#ifdef VERIF_NATIVE
#include "lowered_types.h"
#else
#include "lowered.c"
#endif
#ifndef U_SWAP
#define ALLOC_SHRINK_IN_PLACE 1
#include "alloc.h"
#endif
#include "poollist_common.h"

#ifdef U_CLEAR
static PoolList *g_list;
void MemoryPool_ResourceManager__SlotData__destroy(Pool *self, struct Allocator *a) {
  if (a != g_expected_allocator || self != &g_list->pools_[g_destroy_calls]) g_destroy_ok = 0;
  g_destroy_calls++;
  self->slots_ = 0; self->capacity_ = 0; self->usage_ = 0;
}
void MemoryPool_ResourceManager__SlotData__shrinkToFit(Pool *self, struct Allocator *a) {
  if (a != g_expected_allocator || g_list->count_ == 0 || self != &g_list->pools_[g_list->count_ - 1]) g_destroy_ok = 0;
  g_shrink_calls++; g_shrunk_pool = self;
}
void h_list_clear(void) {
  unsigned fi;
  PoolList *l = mk_list(&fi, 0);
  g_list = l;
  l->freeList_ = (__typeof__(l->freeList_))in_u32();
  struct Allocator *a = verif_allocator(0);
  g_expected_allocator = a;
  g_destroy_calls = 0; g_destroy_ok = 1; alloc_reset();
  unsigned count0 = l->count_;
  _Bool was_heap = l->pools_ != l->preallocatedPools_;
  Pool *tab = l->pools_;
  if (was_heap) ledger_add(tab, 0);
  MemoryPoolList_ResourceManager__SlotData__clear(l, a);
#if SCEN_HEAP
  COVER(was_heap && count0 > 2);
#else
  COVER(!was_heap);
#endif
  COVER(count0 == 0);
#ifdef CANARY_LIFE_CLEAR
  CHECK(g_destroy_calls == count0 + (count0 == 1), "C06: clear destroys every pool exactly once");
#else
  CHECK(g_destroy_calls == count0 && g_destroy_ok, "C06: clear destroys every pool exactly once, in table order, with the document's allocator");
#endif
  CHECK(g_dealloc_calls == (was_heap ? 1u : 0u) && g_alloc_calls == 0 && g_realloc_calls == 0 && g_live_blocks == 0, "C06: a heap pool table is released exactly once; nothing else is allocated or freed");
  CHECK(l->count_ == 0 && (uint64_t)l->freeList_ == CFG_NULL_SLOT && l->pools_ == l->preallocatedPools_ && (uint64_t)l->capacity_ == CFG_INITIAL,
        "C05/C06: after clear() the list is in its initial state (usable again as soon as allocation succeeds)");
}
void h_list_shrink(void) {
  unsigned fi;
  PoolList *l = mk_list(&fi, 0);
  g_list = l;
  struct Allocator *a = verif_allocator(0);
  g_expected_allocator = a;
  g_shrink_calls = 0; g_shrunk_pool = 0; g_destroy_ok = 1; alloc_reset();
  unsigned count0 = l->count_, cap0 = l->capacity_;
  _Bool was_heap = l->pools_ != l->preallocatedPools_;
  unsigned j = in_u32();
  __CPROVER_assume(j < count0);
  Pool ej = l->pools_[j];
  if (was_heap) ledger_add(l->pools_, (size_t)heap_cap_k * sizeof(Pool));
  MemoryPoolList_ResourceManager__SlotData__shrinkToFit(l, a);
#if SCEN_HEAP
  COVER(was_heap && count0 < cap0);
#else
  COVER(!was_heap);
#endif
  COVER(count0 > 0);
  CHECK(g_shrink_calls == (count0 ? 1u : 0u), "only the last pool is shrunk (the others are full)");
#ifdef CANARY_LIFE_SHRINK
  CHECK(g_realloc_calls == 1, "the pool table is reallocated only if it is on the heap and larger than needed");
#else
  CHECK(g_realloc_calls == ((was_heap && count0 != cap0) ? 1u : 0u) && g_alloc_calls == 0 && g_dealloc_calls == 0, "the pool table is reallocated only if it is on the heap and larger than needed");
#endif
  CHECK(g_destroy_ok, "the pool that is shrunk is the last one, with the document's allocator");
  CHECK(l->count_ == count0 && ((was_heap && count0 != cap0) ? l->capacity_ == count0 : l->capacity_ == cap0), "capacity becomes count (heap) or stays (inline)");
  CHECK(l->pools_ != 0 && l->pools_[j].slots_ == ej.slots_ && l->pools_[j].usage_ == ej.usage_, "C04: existing entries keep their blocks");
}
#endif

#ifdef U_SWAP
static void fill(PoolList *l) { /* symbolic contents for the first entries */
  for (unsigned i = 0; i < 4; i++) if (i < l->capacity_ && i < (l->pools_ == l->preallocatedPools_ ? CFG_INITIAL : heap_cap_k)) {
    l->pools_[i].capacity_ = (__typeof__(l->pools_[i].capacity_))in_u32();
    l->pools_[i].usage_ = (__typeof__(l->pools_[i].usage_))in_u32();
    l->pools_[i].slots_ = (SlotData *)(uintptr_t)in_u64();
  }
}
static PoolList *mk_any(_Bool heap) {
  PoolList *l = malloc(sizeof *l);
  __CPROVER_assume(l != 0);
  memset(l, 0, sizeof *l);
  if (heap) {
    l->pools_ = malloc((size_t)heap_cap_k * sizeof(Pool));
    __CPROVER_assume(l->pools_ != 0 && heap_cap_k > CFG_INITIAL);
    unsigned cap = in_u32();
    __CPROVER_assume(cap > CFG_INITIAL && cap <= heap_cap_k);
    l->capacity_ = (__typeof__(l->capacity_))cap;
  } else {
    l->pools_ = l->preallocatedPools_;
    l->capacity_ = (__typeof__(l->capacity_))CFG_INITIAL;
  }
  unsigned count = in_u32();
  __CPROVER_assume(count <= l->capacity_);
  l->count_ = (__typeof__(l->count_))count;
  l->freeList_ = (__typeof__(l->freeList_))in_u32();
  fill(l);
  return l;
}
static _Bool same_entry(const Pool *a, const Pool *b) { return a->slots_ == b->slots_ && a->capacity_ == b->capacity_ && a->usage_ == b->usage_; }
void h_list_swap(void) {
  _Bool ha = in_bool(), hb = in_bool();
  PoolList *a = mk_any(ha), *b = mk_any(hb);
  unsigned ca = a->count_, cb = b->count_, capa = a->capacity_, capb = b->capacity_, fa = a->freeList_, fb = b->freeList_;
  Pool *ta = a->pools_, *tb = b->pools_;
  unsigned j = in_u8() % 4;
  Pool ea = a->pools_[j < ((ha ? heap_cap_k : CFG_INITIAL)) ? j : 0], eb = b->pools_[j < ((hb ? heap_cap_k : CFG_INITIAL)) ? j : 0];
  swap__MemoryPoolList_ResourceManager__SlotData_r_MemoryPoolList_ResourceManager__SlotData_r(a, b);
  COVER(ha && hb); COVER(!ha && !hb); COVER(ha && !hb); COVER(!ha && hb);
#ifdef CANARY_LIFE_SWAP
  CHECK(a->count_ == cb && b->count_ == ca && a->capacity_ == capb && b->capacity_ == capa && a->freeList_ == fa, "C04/C06: swap exchanges the COMPLETE state: count, capacity and free list");
#else
  CHECK(a->count_ == cb && b->count_ == ca && a->capacity_ == capb && b->capacity_ == capa && a->freeList_ == fb && b->freeList_ == fa,
        "C04/C06: swap exchanges the COMPLETE state: count, capacity and free list (a freed slot stays with the pools it lives in)");
#endif
  CHECK((a->pools_ == a->preallocatedPools_) == !hb && (b->pools_ == b->preallocatedPools_) == !ha, "inline tables stay inline in their new owner, heap tables move by pointer");
  CHECK(!hb || a->pools_ == tb, "a heap table is handed over, not copied");
  CHECK(!ha || b->pools_ == ta, "a heap table is handed over, not copied");
  if (j < cb && j < (hb ? heap_cap_k : CFG_INITIAL)) CHECK(same_entry(&a->pools_[j], &eb), "C04: every pool entry of b is now entry of a (ids keep designating the same slots)");
  if (j < ca && j < (ha ? heap_cap_k : CFG_INITIAL)) CHECK(same_entry(&b->pools_[j], &ea), "C04: every pool entry of a is now entry of b");
}
#endif
