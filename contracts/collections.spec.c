/* Layer 2 of the document model (DESIGN 6, C04 layer 2 / C05): collections and variants.
 *
 * MODULAR: every mutator is verified from an ARBITRARY well-formed local state with its callees replaced by stubs that
 * implement the callee's contract (the comment next to each stub names the obligation that proves that contract for the
 * real callee).  History quantification of C04/C05 is then the induction over operations argued in DESIGN (L-C04).
 *
 * The slot store is abstract: slot ids are HANDLES (the code under test never does arithmetic on them, it only compares
 * them with NULL_SLOT and passes them to ResourceManager::getVariant).  Two models of getVariant are used:
 *   small store  NS = 6 harness-owned VariantData objects whose ids are base..base+5 for an arbitrary symbolic base
 *                (every id value below NULL_SLOT occurs; 6 fully arbitrary distinct ids made minisat hang);
 *                contents (type_, content_, next_) fully symbolic.  Loop-free routines verified over it are class U (the
 *                routine touches at most 3 slots); list traversals over harness-built lists of length <= 4 are class B.
 *   big store    a malloc'ed array of symbolic size n <= BIG_MAX, id == index; the universally quantified part of the
 *                representation invariant is instantiated lazily by the getVariant stub at exactly the ids the code
 *                asks for (documented at the stub).  Used with loop contracts => lists of arbitrary length (class U).
 * Oracle: the ordered-list model of the property text (C04: "a mutation changes only its target"; C05: "no object member
 * lacks a key or a value and every value outside the path being modified is unchanged"; C06: "released exactly once"). */
#include "verif.h"
#include "config.h"
#ifdef U_LOOPS
/* ghosts named by the loop invariants of collections.loops.json (spliced into lowered.c, hence declared before it) */
struct VariantData;
static struct VariantData *g_store;                  /* big store: g_cnt slots, id == index */
static uint64_t g_cnt, g_len, g_w, g_u;
static unsigned *g_dist, *g_rank;                    /* g_dist: steps to the witness g_w (DIST_NONE: not before it); g_rank: steps to the end */
static uint64_t *g_pos;                              /* position in the list */
static _Bool *g_member;                              /* slot belongs to the list */
static unsigned g_w_frees, g_u_frees, g_free_calls;
static void *g_u_bits; static unsigned char g_u_type; static uint64_t g_u_next;
#define DIST_NONE 0xFFFFFFFFu
#ifndef BIG_MAX
#define BIG_MAX 0xFFFFFFFFull
#endif
#endif
#ifdef VERIF_NATIVE
#include "lowered_types.h"
#else
#include "lowered.c"
#endif

typedef __typeof__(((struct CollectionData *)0)->head_) slotid_t; /* SlotId of this configuration */
#define NSLOT ((slotid_t)NULL_SLOT)
typedef struct VariantData VD;

/* VariantType / VariantTypeBits as VariantContent.hpp documents them (bit layout is part of the C04 clear() clause) */
#define VT_NULL 0x00
#define VT_RAW 0x03
#define VT_LINKED 0x04
#define VT_OWNED 0x05
#define VT_BOOL 0x06
#define VT_UINT32 0x0A
#define VT_INT32 0x0C
#define VT_FLOAT 0x0E
#define VT_UINT64 0x1A
#define VT_INT64 0x1C
#define VT_DOUBLE 0x1E
#define VT_OBJECT 0x20
#define VT_ARRAY 0x40

static uint64_t content_bits(const VD *v) {
  uint64_t b = 0;
  memcpy(&b, &v->content_, sizeof v->content_ < 8 ? sizeof v->content_ : 8);
  return b;
}
static _Bool slot_same(const VD *a, const VD *b) { return content_bits(a) == content_bits(b) && a->type_ == b->type_ && a->next_ == b->next_; }
static _Bool slot_same_value(const VD *a, const VD *b) { return content_bits(a) == content_bits(b) && a->type_ == b->type_; }
static void havoc_slot(VD *v) {
  uint64_t b = in_u64();
  memcpy(&v->content_, &b, sizeof v->content_ < 8 ? sizeof v->content_ : 8);
  v->type_ = in_u8();
  v->next_ = (slotid_t)in_u32();
}

/* ===================================================================================================================
 * small store */
#if defined(U_CORE) || defined(U_REMOVE) || defined(U_ARRAY) || defined(U_OBJECT)
typedef struct Slot_VariantData VSlot;
#define NS 6
static VD g_slots[NS], g_before[NS];
static slotid_t g_id[NS];
static struct ResourceManager g_rm;
static unsigned g_getv_calls, g_free_calls;
static _Bool g_freed[NS];
static int g_free_order[NS];

static slotid_t g_base; /* the NS ids are g_base .. g_base+NS-1 for an arbitrary base (all below NULL_SLOT, no wrap) */
static int idx_of(slotid_t id) {
  if (id == NSLOT || id < g_base || (uint64_t)id - g_base >= NS) return -1;
  return (int)(id - g_base);
}
/* closed: every next_ is NULL_SLOT or the id of a slot of the store (the part of WF a traversal needs) */
static void mk_store(_Bool closed) {
  g_base = (slotid_t)in_u32();
  __CPROVER_assume((uint64_t)g_base + NS <= (uint64_t)NSLOT);
  for (int i = 0; i < NS; i++) g_id[i] = (slotid_t)(g_base + i);
  for (int i = 0; i < NS; i++) {
    havoc_slot(&g_slots[i]);
    if (closed) __CPROVER_assume(g_slots[i].next_ == NSLOT || idx_of(g_slots[i].next_) >= 0);
  }
}
static void snapshot(void) {
  for (int i = 0; i < NS; i++) g_before[i] = g_slots[i];
}
/* every slot whose bit is not in `mask` is bit-for-bit what it was at snapshot() */
static _Bool unchanged_except(unsigned mask) {
  _Bool ok = 1;
  for (int i = 0; i < NS; i++)
    if (!((mask >> i) & 1u) && !slot_same(&g_slots[i], &g_before[i])) ok = 0;
  return ok;
}

/* contract of ResourceManager::getVariant (proved: unit resmgr, obligation rm_getVariant, over MemoryPoolList::getSlot whose
 * own contract is poollist/list_getSlot_*): the slot designated by the id, null for NULL_SLOT; read-only. */
VD *ResourceManager__getVariant(struct ResourceManager *self, slotid_t id) {
  CHECK(self == &g_rm, "getVariant is asked on the document's resource manager");
  g_getv_calls++;
  if (id == NSLOT) return (VD *)0;
  int i = idx_of(id);
  CHECK(i >= 0, "getVariant receives the id of an existing slot");
  return i >= 0 ? &g_slots[i] : (VD *)0;
}
/* contract of ResourceManager::freeVariant (proved: unit resmgr, obligation rm_freeVariant; VariantData::clear: unit variant,
 * obligations vclear_*): the slot's resources are released and the slot goes to the free list -- from then on its bytes are
 * arbitrary (the free-list link overwrites it), so the stub havocs it; no other slot of the enclosing list is written. */
void ResourceManager__freeVariant(struct ResourceManager *self, VSlot v) {
  CHECK(self == &g_rm, "freeVariant is asked on the document's resource manager");
  int i = idx_of(v.id_);
  CHECK(i >= 0 && v.ptr_ == &g_slots[i], "freeVariant receives the (address,id) pair of one existing slot");
  if (i < 0) return;
  CHECK(!g_freed[i], "C06: a slot is released at most once");
  g_freed[i] = 1;
  if (g_free_calls < NS) g_free_order[g_free_calls] = i;
  g_free_calls++;
  havoc_slot(&g_slots[i]);
}

/* a list of g_n <= 4 distinct slots g_p[0..g_n-1] of the store, linked in that order (bounded shape, class B) */
static unsigned g_p[4], g_n;
static void mk_list(struct CollectionData *c, _Bool pairs) {
  g_n = in_u8();
  __CPROVER_assume(g_n <= 4 && (!pairs || g_n % 2 == 0));
  /* which store entries make up the list is harness-internal naming (the code sees only the symbolic ids and the
   * addresses, which it never orders), so entries 0..g_n-1 in that order are taken without loss of generality */
  for (int k = 0; k < 4; k++) g_p[k] = k;
  for (unsigned k = 0; k < 4; k++)
    if (k < g_n) g_slots[g_p[k]].next_ = (k + 1 < g_n) ? g_id[g_p[k + 1]] : NSLOT;
  c->head_ = g_n ? g_id[g_p[0]] : NSLOT;
  c->tail_ = g_n ? g_id[g_p[g_n - 1]] : NSLOT;
}
static unsigned list_mask(void) {
  unsigned m = 0;
  for (unsigned k = 0; k < 4; k++)
    if (k < g_n) m |= 1u << g_p[k];
  return m;
}
/* the list *c is exactly the sequence e[0..m-1] (slot indexes), m <= 6 */
static _Bool list_is(const struct CollectionData *c, const unsigned *e, unsigned m) {
  if (m == 0) return c->head_ == NSLOT && c->tail_ == NSLOT;
  _Bool ok = c->head_ == g_id[e[0]] && c->tail_ == g_id[e[m - 1]] && g_slots[e[m - 1]].next_ == NSLOT;
  for (unsigned j = 0; j + 1 < 6; j++)
    if (j + 1 < m && g_slots[e[j]].next_ != g_id[e[j + 1]]) ok = 0;
  return ok;
}
#endif

/* ===================================================================================================================
 * unit coll_core: CollectionData / CollectionIterator, real code, stubs getVariant / freeVariant / VariantData::nesting */
#ifdef U_CORE
/* appendOne(slot) with next(slot) == NULL_SLOT (what allocVariant hands out: rm_allocVariant) */
void h_appendOne(void) {
  mk_store(0);
  struct CollectionData c;
  _Bool empty = in_bool();
  /* store entries are harness-internal names (ids are symbolic): head = entry 0, tail = entry 0 or 1, new slot = entry 2 */
  const unsigned a = 0, k = 2;
  unsigned b = in_bool() ? 1 : 0;
  c.head_ = empty ? NSLOT : g_id[a];
  c.tail_ = empty ? NSLOT : g_id[b];
  __CPROVER_assume(g_slots[k].next_ == NSLOT); /* a detached slot (not the tail) */
  snapshot();
  VSlot s;
  s.ptr_ = &g_slots[k];
  s.id_ = g_id[k];
  CollectionData__appendOne(&c, s, &g_rm);
  COVER(empty); COVER(!empty && a != b); COVER(!empty && a == b);
  if (empty) {
    CHECK(c.head_ == g_id[k] && c.tail_ == g_id[k], "appendOne on an empty list: head' = tail' = id");
    CHECK(unchanged_except(0), "appendOne on an empty list writes no slot");
  } else {
    CHECK(c.head_ == g_id[a], "appendOne on a non-empty list leaves head_");
    CHECK(g_slots[b].next_ == g_id[k], "appendOne: next(old tail) = id");
#ifdef CANARY_APPEND_ONE
    CHECK(c.tail_ == (slotid_t)(g_id[k] + (b == 0)), "appendOne: tail' = id");
#else
    CHECK(c.tail_ == g_id[k], "appendOne: tail' = id");
#endif
    CHECK(slot_same_value(&g_slots[b], &g_before[b]), "appendOne keeps the value held by the old tail");
    CHECK(unchanged_except(1u << b), "appendOne writes no slot other than the old tail");
  }
  CHECK(g_slots[k].next_ == NSLOT, "list stays well formed: next(tail') == NULL_SLOT");
  CHECK(g_free_calls == 0, "appendOne releases nothing");
}

void h_appendPair(void) {
  mk_store(0);
  struct CollectionData c;
  _Bool empty = in_bool();
  const unsigned a = 0, k = 2, v = 3; /* entries: head 0, tail 0 or 1, key 2, value 3 (harness-internal names) */
  unsigned b = in_bool() ? 1 : 0;
  c.head_ = empty ? NSLOT : g_id[a];
  c.tail_ = empty ? NSLOT : g_id[b];
  __CPROVER_assume(g_slots[v].next_ == NSLOT); /* two detached slots (neither is the tail) */
  snapshot();
  VSlot ks, vs;
  ks.ptr_ = &g_slots[k]; ks.id_ = g_id[k];
  vs.ptr_ = &g_slots[v]; vs.id_ = g_id[v];
  CollectionData__appendPair(&c, ks, vs, &g_rm);
  COVER(empty); COVER(!empty && a != b); COVER(!empty && a == b);
  CHECK(g_slots[k].next_ == g_id[v], "appendPair: next(key) = value");
  CHECK(slot_same_value(&g_slots[k], &g_before[k]), "appendPair keeps what the key slot holds");
#ifdef CANARY_APPEND_PAIR
  CHECK(c.tail_ == g_id[v] && b != 0, "appendPair: tail' = value id");
#else
  CHECK(c.tail_ == g_id[v], "appendPair: tail' = value id");
#endif
  CHECK(g_slots[v].next_ == NSLOT, "list stays well formed: next(tail') == NULL_SLOT");
  if (empty) {
    CHECK(c.head_ == g_id[k], "appendPair on an empty list: head' = key id");
    CHECK(unchanged_except(1u << k), "appendPair on an empty list writes only next(key)");
  } else {
    CHECK(c.head_ == g_id[a], "appendPair on a non-empty list leaves head_");
    CHECK(g_slots[b].next_ == g_id[k], "appendPair: next(old tail) = key id");
    CHECK(slot_same_value(&g_slots[b], &g_before[b]), "appendPair keeps the value held by the old tail");
    CHECK(unchanged_except((1u << b) | (1u << k)), "appendPair writes only next(old tail) and next(key)");
  }
  CHECK(g_free_calls == 0, "appendPair releases nothing");
}

/* createIterator / CollectionIterator::next: local contracts (U) */
void h_createIterator(void) {
  mk_store(1);
  struct CollectionData c;
  _Bool empty = in_bool();
  const unsigned a = 0; /* head = entry 0 (harness-internal name) */
  c.head_ = empty ? NSLOT : g_id[a];
  c.tail_ = (slotid_t)in_u32();
  struct CollectionData c0 = c;
  snapshot();
  struct CollectionIterator it = CollectionData__createIterator(&c, &g_rm);
  COVER(empty); COVER(!empty);
#ifdef CANARY_CREATE_ITER
  CHECK(it.slot_ == (empty ? (VD *)0 : &g_slots[a]) && g_slots[a].type_ != 1, "createIterator designates the head slot (done iff the list is empty)");
#else
  CHECK(it.slot_ == (empty ? (VD *)0 : &g_slots[a]), "createIterator designates the head slot (done iff the list is empty)");
#endif
  CHECK(it.currentId_ == c0.head_, "createIterator: current id is head_");
  CHECK(empty || it.nextId_ == g_before[a].next_, "createIterator: next id is next(head)");
  CHECK(CollectionIterator__done(&it) == empty, "done() iff no slot");
  CHECK(unchanged_except(0) && c.head_ == c0.head_ && c.tail_ == c0.tail_ && g_free_calls == 0, "createIterator is read-only");
}
void h_iter_next(void) {
  mk_store(1);
  const unsigned a = 0; /* current = entry 0; its successor is any entry (possibly itself) or none */
  struct CollectionIterator it;
  it.slot_ = &g_slots[a];
  it.currentId_ = g_id[a];
  it.nextId_ = g_slots[a].next_;
  slotid_t succ = g_slots[a].next_;
  int si = idx_of(succ);
  snapshot();
  CollectionIterator__next(&it, &g_rm);
  COVER(succ == NSLOT); COVER(succ != NSLOT && si != (int)a); COVER(si == (int)a);
  CHECK(it.slot_ == (succ == NSLOT ? (VD *)0 : &g_slots[si]), "next() moves to the slot designated by next(current), done at NULL_SLOT");
#ifdef CANARY_ITER_NEXT
  CHECK(it.currentId_ == succ && si != 2, "next(): current id is the old next id");
#else
  CHECK(it.currentId_ == succ, "next(): current id is the old next id");
#endif
  CHECK(succ == NSLOT || it.nextId_ == g_before[si].next_, "next(): next id is next(new current)");
  CHECK(unchanged_except(0) && g_free_calls == 0, "next() is read-only");
}

/* bounded shape (B): lists of <= 4 slots built by the harness, other slots of the store arbitrary */
void h_walk_b(void) {
  mk_store(1);
  struct CollectionData c;
  mk_list(&c, 0);
  snapshot();
  struct CollectionIterator it = CollectionData__createIterator(&c, &g_rm);
  _Bool ok = 1;
  for (unsigned j = 0; j < 4; j++) {
    if (j < g_n) {
      if (CollectionIterator__done(&it) || CollectionIterator__data__void(&it) != &g_slots[g_p[j]] || it.currentId_ != g_id[g_p[j]]) ok = 0;
      CollectionIterator__next(&it, &g_rm);
    }
  }
  COVER(g_n == 0); COVER(g_n == 4);
#ifdef CANARY_WALK
  CHECK(ok && g_n != 3, "iteration visits the slots in list order");
#else
  CHECK(ok, "iteration visits the slots in list order");
#endif
  CHECK(CollectionIterator__done(&it), "iteration ends after the last slot");
  CHECK(unchanged_except(0) && g_free_calls == 0, "iteration is read-only");
}
void h_size_b(void) {
  mk_store(1);
  struct CollectionData c;
  mk_list(&c, 0);
  struct CollectionData c0 = c;
  snapshot();
  unsigned long n = CollectionData__size(&c, &g_rm);
  COVER(g_n == 0); COVER(g_n == 4);
#ifdef CANARY_SIZE
  CHECK(n == g_n + (g_n == 3), "size() == number of linked slots");
#else
  CHECK(n == g_n, "size() == number of linked slots");
#endif
  CHECK(unchanged_except(0) && c.head_ == c0.head_ && c.tail_ == c0.tail_, "size() writes nothing");
  CHECK(g_free_calls == 0, "size() releases nothing");
}
/* nesting(): 1 + max over the children; VariantData::nesting is the recursive callee (its contract is this same statement
 * one level down: scalars 0, collections CollectionData::nesting) -- stub returns an arbitrary value per slot */
static unsigned long g_nest_val[NS];
static unsigned g_nest_calls[NS];
unsigned long VariantData__nesting__ResourceManager_p(VD *self, struct ResourceManager *resources) {
  CHECK(resources == &g_rm, "child nesting is asked on the same resource manager");
  int i = -1;
  for (int k = 0; k < NS; k++)
    if (self == &g_slots[k]) i = k;
  CHECK(i >= 0, "child nesting is asked of a slot of the store");
  if (i < 0) return 0;
  g_nest_calls[i]++;
  return g_nest_val[i];
}
void h_nesting_b(void) {
  mk_store(1);
  struct CollectionData c;
  mk_list(&c, 0);
  struct CollectionData c0 = c;
  for (int i = 0; i < NS; i++) { g_nest_val[i] = in_u64(); __CPROVER_assume(g_nest_val[i] < 0xFFFFFFFFFFFFFFFFul); }
  snapshot();
  unsigned long n = CollectionData__nesting(&c, &g_rm);
  unsigned long want = 0;
  _Bool once = 1;
  for (unsigned k = 0; k < 4; k++)
    if (k < g_n) {
      if (g_nest_val[g_p[k]] > want) want = g_nest_val[g_p[k]];
      if (g_nest_calls[g_p[k]] != 1) once = 0;
    }
  unsigned total = 0;
  for (int i = 0; i < NS; i++) total += g_nest_calls[i];
  COVER(g_n == 0); COVER(g_n == 4 && want > 0);
#ifdef CANARY_NESTING
  CHECK(n == want + 1 + (g_n == 2), "nesting() == 1 + deepest child");
#else
  CHECK(n == want + 1, "nesting() == 1 + deepest child");
#endif
  CHECK(once && total == g_n, "nesting() asks every linked slot exactly once and no other");
  CHECK(unchanged_except(0) && c.head_ == c0.head_ && c.tail_ == c0.tail_ && g_free_calls == 0, "nesting() is read-only");
}
void h_getPreviousSlot_b(void) {
  mk_store(1);
  struct CollectionData c;
  mk_list(&c, 0);
  unsigned t = in_u8();
  __CPROVER_assume(t < g_n);
  snapshot();
  VSlot r = CollectionData__getPreviousSlot(&c, &g_slots[g_p[t]], &g_rm);
  COVER(t == 0); COVER(t == 3);
  if (t == 0) CHECK(r.ptr_ == 0 && r.id_ == NSLOT, "the head has no previous slot: null slot");
  else {
#ifdef CANARY_PREV
    CHECK(r.ptr_ == &g_slots[g_p[t - 1]] && r.id_ == (slotid_t)(g_id[g_p[t - 1]] + (t == 2)), "getPreviousSlot returns the slot whose next is the target");
#else
    CHECK(r.ptr_ == &g_slots[g_p[t - 1]] && r.id_ == g_id[g_p[t - 1]], "getPreviousSlot returns the slot whose next is the target");
#endif
  }
  CHECK(unchanged_except(0) && g_free_calls == 0, "getPreviousSlot is read-only");
}
void h_removeOne_b(void) {
  mk_store(1);
  struct CollectionData c;
  mk_list(&c, 0);
  struct CollectionData c0 = c;
  unsigned t = in_u8();
  _Bool done = in_bool();
  __CPROVER_assume(done || t < g_n);
  struct CollectionIterator it;
  it.slot_ = done ? (VD *)0 : &g_slots[g_p[t]];
  it.currentId_ = done ? NSLOT : g_id[g_p[t]];
  it.nextId_ = done ? NSLOT : g_slots[g_p[t]].next_;
  snapshot();
  CollectionData__removeOne(&c, it, &g_rm);
  COVER(done); COVER(!done && g_n == 1); COVER(!done && g_n == 4 && t == 0); COVER(!done && g_n == 4 && t == 3); COVER(!done && g_n == 4 && t == 1);
  if (done) {
    CHECK(c.head_ == c0.head_ && c.tail_ == c0.tail_ && unchanged_except(0) && g_free_calls == 0, "removing at a done iterator changes nothing");
    return;
  }
  unsigned e[4], m = 0;
  for (unsigned k = 0; k < 4; k++)
    if (k < g_n && k != t) e[m++] = g_p[k];
#ifdef CANARY_REMOVE_ONE
  CHECK(list_is(&c, e, m) && !(g_n == 3 && t == 2), "removeOne: the list is the old sequence without the target (head_/tail_/links)");
#else
  CHECK(list_is(&c, e, m), "removeOne: the list is the old sequence without the target (head_/tail_/links)");
#endif
  CHECK(t + 1 == g_n || c.tail_ == c0.tail_, "tail_ changes only when the target was last");
  CHECK(t == 0 || c.head_ == c0.head_, "head_ changes only when the target was first");
  CHECK(g_free_calls == 1 && g_freed[g_p[t]], "C06: the target is released exactly once and nothing else is");
  CHECK(unchanged_except((1u << g_p[t]) | (t ? 1u << g_p[t - 1] : 0)), "removeOne writes only next(predecessor) (target goes to the free list)");
  CHECK(t == 0 || slot_same_value(&g_slots[g_p[t - 1]], &g_before[g_p[t - 1]]), "the predecessor keeps its value");
}
void h_removePair_b(void) {
  mk_store(1);
  struct CollectionData c;
  mk_list(&c, 1);
  struct CollectionData c0 = c;
  unsigned t = in_u8();
  _Bool done = in_bool();
  __CPROVER_assume(done || (t + 1 < g_n && t % 2 == 0));
  struct CollectionIterator it;
  it.slot_ = done ? (VD *)0 : &g_slots[g_p[t]];
  it.currentId_ = done ? NSLOT : g_id[g_p[t]];
  it.nextId_ = done ? NSLOT : g_slots[g_p[t]].next_;
  snapshot();
  CollectionData__removePair(&c, it, &g_rm);
  COVER(done); COVER(!done && g_n == 2); COVER(!done && g_n == 4 && t == 0); COVER(!done && g_n == 4 && t == 2);
  if (done) {
    CHECK(c.head_ == c0.head_ && c.tail_ == c0.tail_ && unchanged_except(0) && g_free_calls == 0, "removing at a done iterator changes nothing");
    return;
  }
  unsigned e[4], m = 0;
  for (unsigned k = 0; k < 4; k++)
    if (k < g_n && k != t && k != t + 1) e[m++] = g_p[k];
#ifdef CANARY_REMOVE_PAIR
  CHECK(list_is(&c, e, m) && !(g_n == 4 && t == 2), "removePair: the list is the old sequence without the key and its value");
#else
  CHECK(list_is(&c, e, m), "removePair: the list is the old sequence without the key and its value");
#endif
  CHECK(m % 2 == 0, "object lists keep an even number of slots (no member lacks a key or a value)");
  CHECK(g_free_calls == 2 && g_freed[g_p[t]] && g_freed[g_p[t + 1]], "C06: key and value slots are released exactly once each and nothing else is");
  CHECK(unchanged_except((1u << g_p[t]) | (1u << g_p[t + 1]) | (t ? 1u << g_p[t - 1] : 0)), "removePair writes only next(predecessor)");
  CHECK(t == 0 || slot_same_value(&g_slots[g_p[t - 1]], &g_before[g_p[t - 1]]), "the predecessor keeps its value");
}
void h_clear_b(void) {
  mk_store(1);
  struct CollectionData c;
  mk_list(&c, 0);
  snapshot();
  CollectionData__clear__ResourceManager_p(&c, &g_rm);
  COVER(g_n == 0); COVER(g_n == 4);
  CHECK(c.head_ == NSLOT && c.tail_ == NSLOT, "clear(): head_ = tail_ = NULL_SLOT");
  _Bool all = 1;
  for (unsigned k = 0; k < 4; k++)
    if (k < g_n && (!g_freed[g_p[k]] || g_free_order[k] != (int)g_p[k])) all = 0;
#ifdef CANARY_CLEAR
  CHECK(all && g_free_calls == g_n + (g_n == 3), "C06: clear() releases every linked slot exactly once, in list order, and nothing else");
#else
  CHECK(all && g_free_calls == g_n, "C06: clear() releases every linked slot exactly once, in list order, and nothing else");
#endif
  CHECK(unchanged_except(list_mask()), "clear() writes no slot outside the list");
}
#endif

/* ===================================================================================================================
 * unit coll_loops: the three list traversals of CollectionData closed by loop contracts => lists of ARBITRARY length (U).
 * Big store: g_cnt <= NULL_SLOT slots (symbolic), id == index.  The ordered-list model is carried by ghost arrays:
 *   g_rank[id]  steps to the end of the list (acyclicity, termination)      g_pos[id]  position in the list, g_len its length
 *   g_member[id] the slot is linked in the list                              g_dist[id] steps to the witness slot g_w
 * RI(id): next(id) is NULL_SLOT or an id of the store, and rank/pos/member/dist of id and next(id) are related as in a list.
 * The universally quantified "RI(id) for every id" is instantiated LAZILY: the getVariant stub assumes RI(id) for the id it
 * is asked (on the current state; the traversals below only write slots through the freeVariant stub, and size()/
 * getPreviousSlot() are shown to write nothing at all: arbitrary witness g_u).  Universally quantified conclusions use
 * arbitrary witnesses: g_w (a linked slot), g_u (any other slot). */
#ifdef U_LOOPS
typedef struct Slot_VariantData VSlot;
static struct ResourceManager g_rm;
VD *ResourceManager__getVariant(struct ResourceManager *self, slotid_t id) {
  CHECK(self == &g_rm, "getVariant is asked on the document's resource manager");
  if (id == NSLOT) return (VD *)0;
  CHECK(id < g_cnt, "getVariant receives the id of an existing slot");
  slotid_t nx = g_store[id].next_;
  __CPROVER_assume(nx == NSLOT || nx < g_cnt);
  __CPROVER_assume(nx == NSLOT || g_rank[nx] < g_rank[id]);
  __CPROVER_assume(g_rank[id] < 0x7FFFFFFFu && g_pos[id] < g_cnt);
  __CPROVER_assume(nx == NSLOT ? g_pos[id] + 1 == g_len : g_pos[nx] == g_pos[id] + 1);
  __CPROVER_assume(!g_member[id] || nx == NSLOT || g_member[nx]);
  if (g_dist[id] == 0) __CPROVER_assume(id == g_w && (nx == NSLOT || g_dist[nx] == DIST_NONE));
  else if (g_dist[id] == DIST_NONE) __CPROVER_assume(id != g_w && (nx == NSLOT || g_dist[nx] == DIST_NONE));
  else __CPROVER_assume(id != g_w && nx != NSLOT && g_dist[nx] == g_dist[id] - 1);
  return &g_store[id];
}
void ResourceManager__freeVariant(struct ResourceManager *self, VSlot v) {
  CHECK(self == &g_rm, "freeVariant is asked on the document's resource manager");
  CHECK(v.id_ != NSLOT && v.id_ < g_cnt && v.ptr_ == &g_store[v.id_], "freeVariant receives the (address,id) pair of one existing slot");
  g_free_calls++;
  if (v.id_ == g_w) g_w_frees++;
  if (v.id_ == g_u) g_u_frees++;
  havoc_slot(&g_store[v.id_]); /* contract of freeVariant: see the small-store stub */
}
unsigned long VariantData__nesting__ResourceManager_p(VD *self, struct ResourceManager *resources) { return in_u64(); }
static void mk_big(void) {
  g_cnt = in_u64();
  __CPROVER_assume(g_cnt >= 1 && g_cnt <= (uint64_t)NSLOT && g_cnt <= BIG_MAX);
  g_store = malloc(g_cnt * sizeof(VD));
  g_dist = malloc(g_cnt * sizeof(unsigned));
  g_rank = malloc(g_cnt * sizeof(unsigned));
  g_pos = malloc(g_cnt * sizeof(uint64_t));
  g_member = malloc(g_cnt * sizeof(_Bool));
  __CPROVER_assume(g_store && g_dist && g_rank && g_pos && g_member);
  g_w = in_u64(); g_u = in_u64();
  __CPROVER_assume(g_w < g_cnt && g_u < g_cnt);
  memcpy(&g_u_bits, &g_store[g_u].content_, sizeof g_u_bits);
  g_u_type = g_store[g_u].type_;
  g_u_next = g_store[g_u].next_;
}
static _Bool u_same(void) { return g_store[g_u].content_.asLinkedString == g_u_bits && g_store[g_u].type_ == g_u_type && g_store[g_u].next_ == g_u_next; }

/* getPreviousSlot(target): target = slot g_w, linked in the list (g_dist[head] is a number); any list length */
void h_getPreviousSlot_u(void) {
  mk_big();
  struct CollectionData c;
  c.head_ = (slotid_t)in_u32(); c.tail_ = (slotid_t)in_u32();
  __CPROVER_assume(c.head_ != NSLOT && c.head_ < g_cnt && g_dist[c.head_] != DIST_NONE && g_dist[g_w] == 0);
  VSlot r = CollectionData__getPreviousSlot(&c, &g_store[g_w], &g_rm);
  COVER(r.ptr_ == 0); COVER(r.ptr_ != 0 && g_dist[c.head_] > 5);
  if (c.head_ == g_w) CHECK(r.ptr_ == 0 && r.id_ == NSLOT, "the head has no previous slot: null slot");
  else {
    CHECK(r.ptr_ != 0 && r.id_ != NSLOT && r.id_ < g_cnt && r.ptr_ == &g_store[r.id_], "getPreviousSlot returns the (address,id) of one slot");
#ifdef CANARY_PREV_U
    CHECK(g_store[r.id_].next_ == g_w && g_dist[c.head_] != 3, "getPreviousSlot returns the slot whose next is the target");
#else
    /* (read through the id: cbmc has no points-to set for a pointer havocked by the loop contract; r.ptr_ == &g_store[r.id_] is checked above) */
    CHECK(g_store[r.id_].next_ == g_w, "getPreviousSlot returns the slot whose next is the target");
#endif
  }
  CHECK(u_same() && g_free_calls == 0, "getPreviousSlot is read-only (arbitrary witness slot unchanged, nothing released)");
}
/* size(): number of linked slots; any list length */
void h_size_u(void) {
  mk_big();
  struct CollectionData c;
  c.head_ = (slotid_t)in_u32(); c.tail_ = (slotid_t)in_u32();
  struct CollectionData c0 = c;
  g_len = in_u64();
  __CPROVER_assume(c.head_ == NSLOT ? g_len == 0 : (c.head_ < g_cnt && g_pos[c.head_] == 0));
  unsigned long n = CollectionData__size(&c, &g_rm);
  COVER(n == 0); COVER(n > 5);
#ifdef CANARY_SIZE_U
  CHECK(n == g_len + (g_len == 7), "size() == number of linked slots");
#else
  CHECK(n == g_len, "size() == number of linked slots");
#endif
  CHECK(u_same() && g_free_calls == 0 && c.head_ == c0.head_ && c.tail_ == c0.tail_, "size() is read-only (arbitrary witness slot unchanged, nothing released)");
}
/* clear(): every linked slot (witness g_w) released exactly once, every other slot (witness g_u) untouched; any length */
void h_clear_u(void) {
  mk_big();
  struct CollectionData c;
  c.head_ = (slotid_t)in_u32(); c.tail_ = (slotid_t)in_u32();
  _Bool empty = c.head_ == NSLOT;
  __CPROVER_assume(empty || (c.head_ < g_cnt && g_member[c.head_] && g_dist[c.head_] != DIST_NONE && g_dist[g_w] == 0));
  __CPROVER_assume(!g_member[g_u]);
  CollectionData__clear__ResourceManager_p(&c, &g_rm);
  COVER(empty); COVER(!empty && g_free_calls > 5);
  CHECK(c.head_ == NSLOT && c.tail_ == NSLOT, "clear(): head_ = tail_ = NULL_SLOT");
#ifdef CANARY_CLEAR_U
  CHECK(empty || (g_w_frees == 1 && g_free_calls != 4), "C06: clear() releases every linked slot exactly once");
#else
  CHECK(empty || g_w_frees == 1, "C06: clear() releases every linked slot exactly once");
#endif
  CHECK(!empty || g_free_calls == 0, "clearing an empty list releases nothing");
  CHECK(g_u_frees == 0 && u_same(), "clear() neither releases nor writes a slot outside the list");
}
#endif
