/* Layer 2 of the document model (DESIGN 6, C04 layer 2 / C05): collections and variants.
 *
 * MODULAR: every mutator is verified from an ARBITRARY well-formed local state with its callees replaced by stubs that
 * implement the callee's contract (the comment next to each stub names the obligation that proves that contract for the
 * real callee).  History quantification of C04/C05 is then the induction over operations argued in DESIGN (L-C04).
 *
 * The slot store is abstract: slot ids are HANDLES (the code under test never does arithmetic on them, it only compares
 * them with NULL_SLOT and passes them to ResourceManager::getVariant).  Two models of getVariant are used:
 *   small store  NS = 6 harness-owned VariantData objects whose ids are base..base+5 for an arbitrary symbolic base
 *                (every id value below NULL_SLOT occurs; 6 fully arbitrary distinct ids made minisat hang);
 *                contents (type_, content_, next_) fully symbolic.  Loop-free routines verified over it are class U (the
 *                routine touches at most 3 slots); list traversals over harness-built lists of length <= 4 are class B.
 *   big store    a malloc'ed array of symbolic size n <= BIG_MAX, id == index; the universally quantified part of the
 *                representation invariant is instantiated lazily by the getVariant stub at exactly the ids the code
 *                asks for (documented at the stub).  Used with loop contracts => lists of arbitrary length (class U).
 * Oracle: the ordered-list model of the property text (C04: "a mutation changes only its target"; C05: "no object member
 * lacks a key or a value and every value outside the path being modified is unchanged"; C06: "released exactly once"). */
#include "verif.h"
#include "config.h"
#ifdef U_LOOPS
/* ghosts named by the loop invariants of collections.loops.json (spliced into lowered.c, hence declared before it) */
struct VariantData;
static struct VariantData *g_store;                  /* big store: g_cnt slots, id == index */
static uint64_t g_cnt, g_len, g_w, g_u, g_idx0;
static unsigned *g_dist, *g_rank;                    /* g_dist: steps to the witness g_w (DIST_NONE: not before it); g_rank: steps to the end */
static uint64_t *g_pos;                              /* position in the list */
static _Bool *g_member;                              /* slot belongs to the list */
static unsigned g_w_frees, g_u_frees, g_free_calls;
static unsigned long g_u_bits; static unsigned char g_u_type; static uint64_t g_u_next;
#define DIST_NONE 0xFFFFFFFFu
#ifndef BIG_MAX
#define BIG_MAX 0xFFFFFFFFull
#endif
#endif
#ifdef VERIF_NATIVE
#include "lowered_types.h"
#else
#include "lowered.c"
#endif

typedef __typeof__(((struct CollectionData *)0)->head_) slotid_t; /* SlotId of this configuration */
#define NSLOT ((slotid_t)~(slotid_t)0) /* the reserved id: all ones in the slot-id type (not the constant of the lowered code, which is emitted only when the unit's functions name it) */
typedef struct VariantData VD;

/* VariantType / VariantTypeBits as VariantContent.hpp documents them (bit layout is part of the C04 clear() clause) */
#define VT_NULL 0x00
#define VT_RAW 0x03
#define VT_LINKED 0x04
#define VT_OWNED 0x05
#define VT_BOOL 0x06
#define VT_UINT32 0x0A
#define VT_INT32 0x0C
#define VT_FLOAT 0x0E
#define VT_UINT64 0x1A
#define VT_INT64 0x1C
#define VT_DOUBLE 0x1E
#define VT_OBJECT 0x20
#define VT_ARRAY 0x40

static uint64_t content_bits(const VD *v) {
  uint64_t b = 0;
  memcpy(&b, &v->content_, sizeof v->content_ < 8 ? sizeof v->content_ : 8);
  return b;
}
static _Bool slot_same(const VD *a, const VD *b) { return content_bits(a) == content_bits(b) && a->type_ == b->type_ && a->next_ == b->next_; }
static _Bool slot_same_value(const VD *a, const VD *b) { return content_bits(a) == content_bits(b) && a->type_ == b->type_; }
static void havoc_slot(VD *v) {
  uint64_t b = in_u64();
  memcpy(&v->content_, &b, sizeof v->content_ < 8 ? sizeof v->content_ : 8);
  v->type_ = in_u8();
  v->next_ = (slotid_t)in_u32();
}

/* ===================================================================================================================
 * small store */
#if defined(U_CORE) || defined(U_REMOVE) || defined(U_ARRAY) || defined(U_OBJECT)
typedef struct Slot_VariantData VSlot;
#define NS 6
static VD g_slots[NS], g_before[NS];
static slotid_t g_id[NS];
static struct ResourceManager g_rm;
static unsigned g_getv_calls, g_free_calls;
static _Bool g_freed[NS];
static int g_free_order[NS];

static slotid_t g_base; /* the NS ids are g_base .. g_base+NS-1 for an arbitrary base (all below NULL_SLOT, no wrap) */
static int idx_of(slotid_t id) {
  if (id == NSLOT || id < g_base || (uint64_t)id - g_base >= NS) return -1;
  return (int)(id - g_base);
}
/* closed: every next_ is NULL_SLOT or the id of a slot of the store (the part of WF a traversal needs) */
static void mk_store(_Bool closed) {
  g_base = (slotid_t)in_u32();
  __CPROVER_assume((uint64_t)g_base + NS <= (uint64_t)NSLOT);
  for (int i = 0; i < NS; i++) g_id[i] = (slotid_t)(g_base + i);
  for (int i = 0; i < NS; i++) {
    havoc_slot(&g_slots[i]);
    if (closed) __CPROVER_assume(g_slots[i].next_ == NSLOT || idx_of(g_slots[i].next_) >= 0);
  }
}
static void snapshot(void) {
  for (int i = 0; i < NS; i++) g_before[i] = g_slots[i];
}
/* every slot whose bit is not in `mask` is bit-for-bit what it was at snapshot() */
static _Bool unchanged_except(unsigned mask) {
  _Bool ok = 1;
  for (int i = 0; i < NS; i++)
    if (!((mask >> i) & 1u) && !slot_same(&g_slots[i], &g_before[i])) ok = 0;
  return ok;
}

/* contract of ResourceManager::getVariant (proved: unit coll_resmgr, obligation rm_get, over MemoryPoolList::getSlot whose
 * own contract is poollist/list_getSlot_*): the slot designated by the id, null for NULL_SLOT; read-only. */
VD *ResourceManager__getVariant(struct ResourceManager *self, slotid_t id) {
  CHECK(self == &g_rm, "getVariant is asked on the document's resource manager");
  g_getv_calls++;
  if (id == NSLOT) return (VD *)0;
  int i = idx_of(id);
  CHECK(i >= 0, "getVariant receives the id of an existing slot");
  return i >= 0 ? &g_slots[i] : (VD *)0;
}
/* contract of ResourceManager::freeVariant (proved: unit coll_resmgr, obligation rm_free; VariantData::clear: unit coll_variant,
 * obligation vclear): the slot's resources are released and the slot goes to the free list -- from then on its bytes are
 * arbitrary (the free-list link overwrites it), so the stub havocs it; no other slot of the enclosing list is written. */
void ResourceManager__freeVariant(struct ResourceManager *self, VSlot v) {
  CHECK(self == &g_rm, "freeVariant is asked on the document's resource manager");
  int i = idx_of(v.id_);
  CHECK(i >= 0 && v.ptr_ == &g_slots[i], "freeVariant receives the (address,id) pair of one existing slot");
  if (i < 0) return;
  CHECK(!g_freed[i], "C06: a slot is released at most once");
  g_freed[i] = 1;
  if (g_free_calls < NS) g_free_order[g_free_calls] = i;
  g_free_calls++;
  havoc_slot(&g_slots[i]);
}

/* a list of g_n <= 4 distinct slots g_p[0..g_n-1] of the store, linked in that order (bounded shape, class B) */
static unsigned g_p[4], g_n;
static void mk_list(struct CollectionData *c, _Bool pairs) {
  g_n = in_u8();
  __CPROVER_assume(g_n <= 4 && (!pairs || g_n % 2 == 0));
  /* which store entries make up the list is harness-internal naming (the code sees only the symbolic ids and the
   * addresses, which it never orders), so entries 0..g_n-1 in that order are taken without loss of generality */
  for (int k = 0; k < 4; k++) g_p[k] = k;
  for (unsigned k = 0; k < 4; k++)
    if (k < g_n) g_slots[g_p[k]].next_ = (k + 1 < g_n) ? g_id[g_p[k + 1]] : NSLOT;
  c->head_ = g_n ? g_id[g_p[0]] : NSLOT;
  c->tail_ = g_n ? g_id[g_p[g_n - 1]] : NSLOT;
}
static unsigned list_mask(void) {
  unsigned m = 0;
  for (unsigned k = 0; k < 4; k++)
    if (k < g_n) m |= 1u << g_p[k];
  return m;
}
/* the list *c is exactly the sequence e[0..m-1] (slot indexes), m <= 6 */
static _Bool list_is(const struct CollectionData *c, const unsigned *e, unsigned m) {
  if (m == 0) return c->head_ == NSLOT && c->tail_ == NSLOT;
  _Bool ok = c->head_ == g_id[e[0]] && c->tail_ == g_id[e[m - 1]] && g_slots[e[m - 1]].next_ == NSLOT;
  for (unsigned j = 0; j + 1 < 6; j++)
    if (j + 1 < m && g_slots[e[j]].next_ != g_id[e[j + 1]]) ok = 0;
  return ok;
}
#endif

/* ===================================================================================================================
 * unit coll_core: CollectionData / CollectionIterator, real code, stubs getVariant / freeVariant / VariantData::nesting */
#ifdef U_CORE
/* appendOne(slot) with next(slot) == NULL_SLOT (what allocVariant hands out: coll_resmgr/rm_alloc) */
void h_appendOne(void) {
  mk_store(0);
  struct CollectionData c;
  _Bool empty = in_bool();
  /* store entries are harness-internal names (ids are symbolic): head = entry 0, tail = entry 0 or 1, new slot = entry 2 */
  const unsigned a = 0, k = 2;
  unsigned b = in_bool() ? 1 : 0;
  c.head_ = empty ? NSLOT : g_id[a];
  c.tail_ = empty ? NSLOT : g_id[b];
  __CPROVER_assume(g_slots[k].next_ == NSLOT); /* a detached slot (not the tail) */
  snapshot();
  VSlot s;
  s.ptr_ = &g_slots[k];
  s.id_ = g_id[k];
  CollectionData__appendOne(&c, s, &g_rm);
  COVER(empty); COVER(!empty && a != b); COVER(!empty && a == b);
  if (empty) {
    CHECK(c.head_ == g_id[k] && c.tail_ == g_id[k], "appendOne on an empty list: head' = tail' = id");
    CHECK(unchanged_except(0), "appendOne on an empty list writes no slot");
  } else {
    CHECK(c.head_ == g_id[a], "appendOne on a non-empty list leaves head_");
    CHECK(g_slots[b].next_ == g_id[k], "appendOne: next(old tail) = id");
#ifdef CANARY_APPEND_ONE
    CHECK(c.tail_ == (slotid_t)(g_id[k] + (b == 0)), "appendOne: tail' = id");
#else
    CHECK(c.tail_ == g_id[k], "appendOne: tail' = id");
#endif
    CHECK(slot_same_value(&g_slots[b], &g_before[b]), "appendOne keeps the value held by the old tail");
    CHECK(unchanged_except(1u << b), "appendOne writes no slot other than the old tail");
  }
  CHECK(g_slots[k].next_ == NSLOT, "list stays well formed: next(tail') == NULL_SLOT");
  CHECK(g_free_calls == 0, "appendOne releases nothing");
}

void h_appendPair(void) {
  mk_store(0);
  struct CollectionData c;
  _Bool empty = in_bool();
  const unsigned a = 0, k = 2, v = 3; /* entries: head 0, tail 0 or 1, key 2, value 3 (harness-internal names) */
  unsigned b = in_bool() ? 1 : 0;
  c.head_ = empty ? NSLOT : g_id[a];
  c.tail_ = empty ? NSLOT : g_id[b];
  __CPROVER_assume(g_slots[v].next_ == NSLOT); /* two detached slots (neither is the tail) */
  snapshot();
  VSlot ks, vs;
  ks.ptr_ = &g_slots[k]; ks.id_ = g_id[k];
  vs.ptr_ = &g_slots[v]; vs.id_ = g_id[v];
  CollectionData__appendPair(&c, ks, vs, &g_rm);
  COVER(empty); COVER(!empty && a != b); COVER(!empty && a == b);
  CHECK(g_slots[k].next_ == g_id[v], "appendPair: next(key) = value");
  CHECK(slot_same_value(&g_slots[k], &g_before[k]), "appendPair keeps what the key slot holds");
#ifdef CANARY_APPEND_PAIR
  CHECK(c.tail_ == g_id[v] && b != 0, "appendPair: tail' = value id");
#else
  CHECK(c.tail_ == g_id[v], "appendPair: tail' = value id");
#endif
  CHECK(g_slots[v].next_ == NSLOT, "list stays well formed: next(tail') == NULL_SLOT");
  if (empty) {
    CHECK(c.head_ == g_id[k], "appendPair on an empty list: head' = key id");
    CHECK(unchanged_except(1u << k), "appendPair on an empty list writes only next(key)");
  } else {
    CHECK(c.head_ == g_id[a], "appendPair on a non-empty list leaves head_");
    CHECK(g_slots[b].next_ == g_id[k], "appendPair: next(old tail) = key id");
    CHECK(slot_same_value(&g_slots[b], &g_before[b]), "appendPair keeps the value held by the old tail");
    CHECK(unchanged_except((1u << b) | (1u << k)), "appendPair writes only next(old tail) and next(key)");
  }
  CHECK(g_free_calls == 0, "appendPair releases nothing");
}

/* createIterator / CollectionIterator::next: local contracts (U) */
void h_createIterator(void) {
  mk_store(1);
  struct CollectionData c;
  _Bool empty = in_bool();
  const unsigned a = 0; /* head = entry 0 (harness-internal name) */
  c.head_ = empty ? NSLOT : g_id[a];
  c.tail_ = (slotid_t)in_u32();
  struct CollectionData c0 = c;
  snapshot();
  struct CollectionIterator it = CollectionData__createIterator(&c, &g_rm);
  COVER(empty); COVER(!empty);
#ifdef CANARY_CREATE_ITER
  CHECK(it.slot_ == (empty ? (VD *)0 : &g_slots[a]) && g_slots[a].type_ != 1, "createIterator designates the head slot (done iff the list is empty)");
#else
  CHECK(it.slot_ == (empty ? (VD *)0 : &g_slots[a]), "createIterator designates the head slot (done iff the list is empty)");
#endif
  CHECK(it.currentId_ == c0.head_, "createIterator: current id is head_");
  CHECK(empty || it.nextId_ == g_before[a].next_, "createIterator: next id is next(head)");
  CHECK(CollectionIterator__done(&it) == empty, "done() iff no slot");
  CHECK(unchanged_except(0) && c.head_ == c0.head_ && c.tail_ == c0.tail_ && g_free_calls == 0, "createIterator is read-only");
}
void h_iter_next(void) {
  mk_store(1);
  const unsigned a = 0; /* current = entry 0; its successor is any entry (possibly itself) or none */
  struct CollectionIterator it;
  it.slot_ = &g_slots[a];
  it.currentId_ = g_id[a];
  it.nextId_ = g_slots[a].next_;
  slotid_t succ = g_slots[a].next_;
  int si = idx_of(succ);
  snapshot();
  CollectionIterator__next(&it, &g_rm);
  COVER(succ == NSLOT); COVER(succ != NSLOT && si != (int)a); COVER(si == (int)a);
  CHECK(it.slot_ == (succ == NSLOT ? (VD *)0 : &g_slots[si]), "next() moves to the slot designated by next(current), done at NULL_SLOT");
#ifdef CANARY_ITER_NEXT
  CHECK(it.currentId_ == succ && si != 2, "next(): current id is the old next id");
#else
  CHECK(it.currentId_ == succ, "next(): current id is the old next id");
#endif
  CHECK(succ == NSLOT || it.nextId_ == g_before[si].next_, "next(): next id is next(new current)");
  CHECK(unchanged_except(0) && g_free_calls == 0, "next() is read-only");
}

/* bounded shape (B): lists of <= 4 slots built by the harness, other slots of the store arbitrary */
void h_walk_b(void) {
  mk_store(1);
  struct CollectionData c;
  mk_list(&c, 0);
  snapshot();
  struct CollectionIterator it = CollectionData__createIterator(&c, &g_rm);
  _Bool ok = 1;
  for (unsigned j = 0; j < 4; j++) {
    if (j < g_n) {
      if (CollectionIterator__done(&it) || CollectionIterator__data__void(&it) != &g_slots[g_p[j]] || it.currentId_ != g_id[g_p[j]]) ok = 0;
      CollectionIterator__next(&it, &g_rm);
    }
  }
  COVER(g_n == 0); COVER(g_n == 4);
#ifdef CANARY_WALK
  CHECK(ok && g_n != 3, "iteration visits the slots in list order");
#else
  CHECK(ok, "iteration visits the slots in list order");
#endif
  CHECK(CollectionIterator__done(&it), "iteration ends after the last slot");
  CHECK(unchanged_except(0) && g_free_calls == 0, "iteration is read-only");
}
void h_size_b(void) {
  mk_store(1);
  struct CollectionData c;
  mk_list(&c, 0);
  struct CollectionData c0 = c;
  snapshot();
  unsigned long n = CollectionData__size(&c, &g_rm);
  COVER(g_n == 0); COVER(g_n == 4);
#ifdef CANARY_SIZE
  CHECK(n == g_n + (g_n == 3), "size() == number of linked slots");
#else
  CHECK(n == g_n, "size() == number of linked slots");
#endif
  CHECK(unchanged_except(0) && c.head_ == c0.head_ && c.tail_ == c0.tail_, "size() writes nothing");
  CHECK(g_free_calls == 0, "size() releases nothing");
}
/* nesting(): 1 + max over the children; VariantData::nesting is the recursive callee (its contract is this same statement
 * one level down: scalars 0, collections CollectionData::nesting) -- stub returns an arbitrary value per slot */
static unsigned long g_nest_val[NS];
static unsigned g_nest_calls[NS];
unsigned long VariantData__nesting__ResourceManager_p(VD *self, struct ResourceManager *resources) {
  CHECK(resources == &g_rm, "child nesting is asked on the same resource manager");
  int i = -1;
  for (int k = 0; k < NS; k++)
    if (self == &g_slots[k]) i = k;
  CHECK(i >= 0, "child nesting is asked of a slot of the store");
  if (i < 0) return 0;
  g_nest_calls[i]++;
  return g_nest_val[i];
}
void h_nesting_b(void) {
  mk_store(1);
  struct CollectionData c;
  mk_list(&c, 0);
  struct CollectionData c0 = c;
  for (int i = 0; i < NS; i++) { g_nest_val[i] = in_u64(); __CPROVER_assume(g_nest_val[i] < 0xFFFFFFFFFFFFFFFFul); }
  snapshot();
  unsigned long n = CollectionData__nesting(&c, &g_rm);
  unsigned long want = 0;
  _Bool once = 1;
  for (unsigned k = 0; k < 4; k++)
    if (k < g_n) {
      if (g_nest_val[g_p[k]] > want) want = g_nest_val[g_p[k]];
      if (g_nest_calls[g_p[k]] != 1) once = 0;
    }
  unsigned total = 0;
  for (int i = 0; i < NS; i++) total += g_nest_calls[i];
  COVER(g_n == 0); COVER(g_n == 4 && want > 0);
#ifdef CANARY_NESTING
  CHECK(n == want + 1 + (g_n == 2), "nesting() == 1 + deepest child");
#else
  CHECK(n == want + 1, "nesting() == 1 + deepest child");
#endif
  CHECK(once && total == g_n, "nesting() asks every linked slot exactly once and no other");
  CHECK(unchanged_except(0) && c.head_ == c0.head_ && c.tail_ == c0.tail_ && g_free_calls == 0, "nesting() is read-only");
}
void h_getPreviousSlot_b(void) {
  mk_store(1);
  struct CollectionData c;
  mk_list(&c, 0);
  unsigned t = in_u8();
  __CPROVER_assume(t < g_n);
  snapshot();
  VSlot r = CollectionData__getPreviousSlot(&c, &g_slots[g_p[t]], &g_rm);
  COVER(t == 0); COVER(t == 3);
  if (t == 0) CHECK(r.ptr_ == 0 && r.id_ == NSLOT, "the head has no previous slot: null slot");
  else {
#ifdef CANARY_PREV
    CHECK(r.ptr_ == &g_slots[g_p[t - 1]] && r.id_ == (slotid_t)(g_id[g_p[t - 1]] + (t == 2)), "getPreviousSlot returns the slot whose next is the target");
#else
    CHECK(r.ptr_ == &g_slots[g_p[t - 1]] && r.id_ == g_id[g_p[t - 1]], "getPreviousSlot returns the slot whose next is the target");
#endif
  }
  CHECK(unchanged_except(0) && g_free_calls == 0, "getPreviousSlot is read-only");
}
void h_removeOne_b(void) {
  mk_store(1);
  struct CollectionData c;
  mk_list(&c, 0);
  struct CollectionData c0 = c;
  unsigned t = in_u8();
  _Bool done = in_bool();
  __CPROVER_assume(done || t < g_n);
  struct CollectionIterator it;
  it.slot_ = done ? (VD *)0 : &g_slots[g_p[t]];
  it.currentId_ = done ? NSLOT : g_id[g_p[t]];
  it.nextId_ = done ? NSLOT : g_slots[g_p[t]].next_;
  snapshot();
  CollectionData__removeOne(&c, it, &g_rm);
  COVER(done); COVER(!done && g_n == 1); COVER(!done && g_n == 4 && t == 0); COVER(!done && g_n == 4 && t == 3); COVER(!done && g_n == 4 && t == 1);
  if (done) {
    CHECK(c.head_ == c0.head_ && c.tail_ == c0.tail_ && unchanged_except(0) && g_free_calls == 0, "removing at a done iterator changes nothing");
    return;
  }
  unsigned e[4], m = 0;
  for (unsigned k = 0; k < 4; k++)
    if (k < g_n && k != t) e[m++] = g_p[k];
#ifdef CANARY_REMOVE_ONE
  CHECK(list_is(&c, e, m) && !(g_n == 3 && t == 2), "removeOne: the list is the old sequence without the target (head_/tail_/links)");
#else
  CHECK(list_is(&c, e, m), "removeOne: the list is the old sequence without the target (head_/tail_/links)");
#endif
  CHECK(t + 1 == g_n || c.tail_ == c0.tail_, "tail_ changes only when the target was last");
  CHECK(t == 0 || c.head_ == c0.head_, "head_ changes only when the target was first");
  CHECK(g_free_calls == 1 && g_freed[g_p[t]], "C06: the target is released exactly once and nothing else is");
  CHECK(unchanged_except((1u << g_p[t]) | (t ? 1u << g_p[t - 1] : 0)), "removeOne writes only next(predecessor) (target goes to the free list)");
  CHECK(t == 0 || slot_same_value(&g_slots[g_p[t - 1]], &g_before[g_p[t - 1]]), "the predecessor keeps its value");
}
void h_removePair_b(void) {
  mk_store(1);
  struct CollectionData c;
  mk_list(&c, 1);
  struct CollectionData c0 = c;
  unsigned t = in_u8();
  _Bool done = in_bool();
  __CPROVER_assume(done || (t + 1 < g_n && t % 2 == 0));
  struct CollectionIterator it;
  it.slot_ = done ? (VD *)0 : &g_slots[g_p[t]];
  it.currentId_ = done ? NSLOT : g_id[g_p[t]];
  it.nextId_ = done ? NSLOT : g_slots[g_p[t]].next_;
  snapshot();
  CollectionData__removePair(&c, it, &g_rm);
  COVER(done); COVER(!done && g_n == 2); COVER(!done && g_n == 4 && t == 0); COVER(!done && g_n == 4 && t == 2);
  if (done) {
    CHECK(c.head_ == c0.head_ && c.tail_ == c0.tail_ && unchanged_except(0) && g_free_calls == 0, "removing at a done iterator changes nothing");
    return;
  }
  unsigned e[4], m = 0;
  for (unsigned k = 0; k < 4; k++)
    if (k < g_n && k != t && k != t + 1) e[m++] = g_p[k];
#ifdef CANARY_REMOVE_PAIR
  CHECK(list_is(&c, e, m) && !(g_n == 4 && t == 2), "removePair: the list is the old sequence without the key and its value");
#else
  CHECK(list_is(&c, e, m), "removePair: the list is the old sequence without the key and its value");
#endif
  CHECK(m % 2 == 0, "object lists keep an even number of slots (no member lacks a key or a value)");
  CHECK(g_free_calls == 2 && g_freed[g_p[t]] && g_freed[g_p[t + 1]], "C06: key and value slots are released exactly once each and nothing else is");
  CHECK(unchanged_except((1u << g_p[t]) | (1u << g_p[t + 1]) | (t ? 1u << g_p[t - 1] : 0)), "removePair writes only next(predecessor)");
  CHECK(t == 0 || slot_same_value(&g_slots[g_p[t - 1]], &g_before[g_p[t - 1]]), "the predecessor keeps its value");
}
void h_clear_b(void) {
  mk_store(1);
  struct CollectionData c;
  mk_list(&c, 0);
  snapshot();
  CollectionData__clear__ResourceManager_p(&c, &g_rm);
  COVER(g_n == 0); COVER(g_n == 4);
  CHECK(c.head_ == NSLOT && c.tail_ == NSLOT, "clear(): head_ = tail_ = NULL_SLOT");
  _Bool all = 1;
  for (unsigned k = 0; k < 4; k++)
    if (k < g_n && (!g_freed[g_p[k]] || g_free_order[k] != (int)g_p[k])) all = 0;
#ifdef CANARY_CLEAR
  CHECK(all && g_free_calls == g_n + (g_n == 3), "C06: clear() releases every linked slot exactly once, in list order, and nothing else");
#else
  CHECK(all && g_free_calls == g_n, "C06: clear() releases every linked slot exactly once, in list order, and nothing else");
#endif
  CHECK(unchanged_except(list_mask()), "clear() writes no slot outside the list");
}
#endif

/* ===================================================================================================================
 * unit coll_remove: removeOne / removePair from an ARBITRARY list (U): getPreviousSlot replaced by its contract
 * (proved for any list length: coll_loops/getPreviousSlot_anylen; bounded cross-check with the real callee: coll_core/remove*_le4).
 * Local state: target = entry 0, its predecessor = entry 1 (if any), the value of a pair = entry 2; everything else arbitrary. */
#ifdef U_REMOVE
static VSlot g_prev_ret;
static VD *g_prev_target;
static unsigned g_prev_calls;
/* contract of getPreviousSlot(target) for a target linked in the list: the null slot iff target is the head, otherwise the
 * (address,id) of the slot whose next designates target; read-only */
VSlot CollectionData__getPreviousSlot(struct CollectionData *self, VD *target, struct ResourceManager *resources) {
  CHECK(resources == &g_rm, "getPreviousSlot is asked on the document's resource manager");
  CHECK(target == g_prev_target, "getPreviousSlot is asked for the slot being removed");
  g_prev_calls++;
  return g_prev_ret;
}
static void mk_remove_state(struct CollectionData *c, _Bool has_pred, unsigned last /* entry whose next decides tail_ */) {
  mk_store(1);
  __CPROVER_assume(g_slots[last].next_ != g_id[0] && g_slots[last].next_ != g_id[1] && g_slots[last].next_ != g_id[2]); /* acyclic */
  if (has_pred) {
    g_slots[1].next_ = g_id[0];
    c->head_ = (slotid_t)in_u32();
    __CPROVER_assume(idx_of(c->head_) >= 0 && c->head_ != g_id[0] && c->head_ != g_id[2]);
    g_prev_ret.ptr_ = &g_slots[1];
    g_prev_ret.id_ = g_id[1];
  } else {
    c->head_ = g_id[0];
    g_prev_ret.ptr_ = (VD *)0;
    g_prev_ret.id_ = NSLOT;
  }
  g_prev_target = &g_slots[0];
  /* WF: tail_ designates the slot whose next is NULL_SLOT */
  if (g_slots[last].next_ == NSLOT) c->tail_ = g_id[last];
  else { c->tail_ = (slotid_t)in_u32(); __CPROVER_assume(idx_of(c->tail_) >= 3); }
}
void h_removeOne_u(void) {
  struct CollectionData c;
  _Bool has_pred = in_bool();
  mk_remove_state(&c, has_pred, 0);
  struct CollectionData c0 = c;
  slotid_t succ = g_slots[0].next_;
  struct CollectionIterator it;
  it.slot_ = &g_slots[0]; it.currentId_ = g_id[0]; it.nextId_ = succ;
  snapshot();
  CollectionData__removeOne(&c, it, &g_rm);
  COVER(has_pred && succ == NSLOT); COVER(has_pred && succ != NSLOT); COVER(!has_pred && succ == NSLOT); COVER(!has_pred && succ != NSLOT);
  if (has_pred) {
    CHECK(g_slots[1].next_ == succ, "removeOne: the predecessor now points to next(target)");
    CHECK(c.head_ == c0.head_, "removeOne: head_ unchanged when the target has a predecessor");
  } else {
    CHECK(c.head_ == succ, "removeOne: head_ now designates next(target) when the target was first");
  }
#ifdef CANARY_REMOVE_ONE_U
  CHECK(c.tail_ == (succ == NSLOT ? (has_pred ? g_id[1] : NSLOT) : c0.tail_) && !(has_pred && succ == NSLOT), "removeOne: tail_ updated iff the target was last (to the predecessor, or NULL_SLOT)");
#else
  CHECK(c.tail_ == (succ == NSLOT ? (has_pred ? g_id[1] : NSLOT) : c0.tail_), "removeOne: tail_ updated iff the target was last (to the predecessor, or NULL_SLOT)");
#endif
  CHECK((c.head_ == NSLOT) == (c.tail_ == NSLOT), "list stays well formed: head_ and tail_ are null together");
  CHECK(g_free_calls == 1 && g_freed[0], "C06: the target is released exactly once and nothing else is");
  CHECK(unchanged_except(1u | (has_pred ? 2u : 0)), "removeOne writes only next(predecessor) (target goes to the free list)");
  CHECK(!has_pred || slot_same_value(&g_slots[1], &g_before[1]), "the predecessor keeps its value");
  CHECK(g_prev_calls == 1, "the predecessor is looked up once");
}
void h_removePair_u(void) {
  struct CollectionData c;
  _Bool has_pred = in_bool();
  mk_remove_state(&c, has_pred, 2);
  g_slots[0].next_ = g_id[2]; /* key -> value */
  struct CollectionData c0 = c;
  slotid_t succ = g_slots[2].next_;
  struct CollectionIterator it;
  it.slot_ = &g_slots[0]; it.currentId_ = g_id[0]; it.nextId_ = g_id[2];
  snapshot();
  CollectionData__removePair(&c, it, &g_rm);
  COVER(has_pred && succ == NSLOT); COVER(has_pred && succ != NSLOT); COVER(!has_pred && succ == NSLOT); COVER(!has_pred && succ != NSLOT);
  if (has_pred) {
    CHECK(g_slots[1].next_ == succ, "removePair: the predecessor now points to what followed the value");
    CHECK(c.head_ == c0.head_, "removePair: head_ unchanged when the key has a predecessor");
  } else {
    CHECK(c.head_ == succ, "removePair: head_ now designates what followed the value");
  }
#ifdef CANARY_REMOVE_PAIR_U
  CHECK(c.tail_ == (succ == NSLOT ? (has_pred ? g_id[1] : NSLOT) : c0.tail_) && !(!has_pred && succ != NSLOT), "removePair: tail_ updated iff the pair was last");
#else
  CHECK(c.tail_ == (succ == NSLOT ? (has_pred ? g_id[1] : NSLOT) : c0.tail_), "removePair: tail_ updated iff the pair was last");
#endif
  CHECK((c.head_ == NSLOT) == (c.tail_ == NSLOT), "list stays well formed: head_ and tail_ are null together");
  CHECK(g_free_calls == 2 && g_freed[0] && g_freed[2], "C06: key and value slots are released exactly once each and nothing else is");
  CHECK(unchanged_except(1u | 4u | (has_pred ? 2u : 0)), "removePair writes only next(predecessor)");
  CHECK(!has_pred || slot_same_value(&g_slots[1], &g_before[1]), "the predecessor keeps its value");
}
void h_remove_done_u(void) {
  struct CollectionData c;
  mk_remove_state(&c, in_bool(), 0);
  struct CollectionData c0 = c;
  struct CollectionIterator it;
  it.slot_ = (VD *)0; it.currentId_ = (slotid_t)in_u32(); it.nextId_ = (slotid_t)in_u32();
  snapshot();
  _Bool pair = in_bool();
  if (pair) CollectionData__removePair(&c, it, &g_rm);
  else CollectionData__removeOne(&c, it, &g_rm);
  COVER(pair); COVER(!pair);
#ifdef CANARY_REMOVE_DONE
  CHECK(c.head_ == c0.head_ && c.tail_ == c0.tail_ && unchanged_except(0) && g_free_calls == 0 && g_getv_calls == 0 && !pair, "removing at a done iterator changes nothing");
#else
  CHECK(c.head_ == c0.head_ && c.tail_ == c0.tail_ && unchanged_except(0) && g_free_calls == 0 && g_getv_calls == 0, "removing at a done iterator changes nothing");
#endif
}
#endif

/* ===================================================================================================================
 * allocVariant by contract, shared by the array and object units.
 * contract of ResourceManager::allocVariant (proved: unit coll_resmgr, obligation rm_alloc, over MemoryPoolList::allocSlot whose
 * contract is poollist_alloc + poollist/list_*): either the null slot, or the (address,id) of a slot that is not linked
 * anywhere, freshly constructed: type Null, next NULL_SLOT.  May fail at EVERY call (= every fault schedule, C05).
 * Fresh slots are handed out from the top of the store (entries NS-1, NS-2, ...), which the harnesses keep out of the list. */
#if defined(U_ARRAY) || defined(U_OBJECT)
static unsigned g_alloc_calls, g_alloc_ok;
static _Bool g_alloc_fail_seen;
VSlot ResourceManager__allocVariant(struct ResourceManager *self) {
  VSlot r;
  CHECK(self == &g_rm, "allocVariant is asked on the document's resource manager");
  g_alloc_calls++;
  if (in_bool() || g_alloc_ok >= 3) {
    g_alloc_fail_seen = 1;
    r.ptr_ = (VD *)0;
    r.id_ = NSLOT;
    return r;
  }
  unsigned e = NS - 1 - g_alloc_ok;
  g_alloc_ok++;
  havoc_slot(&g_slots[e]); /* whatever the slot held before (free-list link) ... */
  g_slots[e].type_ = VT_NULL; /* ... a VariantData is constructed in it */
  g_slots[e].next_ = NSLOT;
  g_before[e] = g_slots[e];
  r.ptr_ = &g_slots[e];
  r.id_ = g_id[e];
  return r;
}
#endif

/* ===================================================================================================================
 * unit coll_array: ArrayData (real appendOne / createIterator / next inlined; allocVariant, getVariant, freeVariant,
 * removeOne and JsonVariant::set by contract) */
#ifdef U_ARRAY
/* arbitrary local state of a non-empty or empty array: head = entry 0, tail = entry 0 or 1 (see h_appendOne) */
static unsigned mk_array_local(struct ArrayData *a, _Bool *empty) {
  mk_store(0);
  *empty = in_bool();
  unsigned b = in_bool() ? 1 : 0;
  __CPROVER_assume(g_slots[b].next_ == NSLOT); /* WF: next(tail) == NULL_SLOT */
  a->_b_CollectionData.head_ = *empty ? NSLOT : g_id[0];
  a->_b_CollectionData.tail_ = *empty ? NSLOT : g_id[b];
  return b;
}
void h_addElement(void) {
  struct ArrayData a;
  _Bool empty;
  unsigned b = mk_array_local(&a, &empty);
  struct ArrayData a0 = a;
  snapshot();
  _Bool null_array = in_bool();
  VD *r = null_array ? ArrayData__addElement__ArrayData_p_ResourceManager_p((struct ArrayData *)0, &g_rm)
                     : ArrayData__addElement__ArrayData_p_ResourceManager_p(&a, &g_rm);
  COVER(null_array); COVER(!null_array && r == 0); COVER(!null_array && r != 0 && empty); COVER(!null_array && r != 0 && !empty && b == 1);
  if (null_array) {
    CHECK(r == 0 && g_alloc_calls == 0, "adding to an unbound array returns null and allocates nothing");
    return;
  }
  CHECK(g_alloc_calls == 1 && g_free_calls == 0, "addElement asks for exactly one slot and releases nothing");
  if (g_alloc_fail_seen) {
    CHECK(r == 0, "C05: allocation failure is reported as a null element");
#ifdef CANARY_ADD_ELEMENT
    CHECK(a._b_CollectionData.head_ == a0._b_CollectionData.head_ && a._b_CollectionData.tail_ == a0._b_CollectionData.tail_ && unchanged_except(0) && !empty,
          "C05: on allocation failure the array is unchanged");
#else
    CHECK(a._b_CollectionData.head_ == a0._b_CollectionData.head_ && a._b_CollectionData.tail_ == a0._b_CollectionData.tail_ && unchanged_except(0),
          "C05: on allocation failure the array is unchanged");
#endif
  } else {
    const unsigned e = NS - 1;
    CHECK(r == &g_slots[e], "addElement returns the new element");
    CHECK(g_slots[e].type_ == VT_NULL && g_slots[e].next_ == NSLOT, "the new element is null and is the last one");
    CHECK(a._b_CollectionData.tail_ == g_id[e], "the new element is appended last: tail' = id");
    if (empty) CHECK(a._b_CollectionData.head_ == g_id[e] && unchanged_except(0), "first element: head' = id, no other slot written");
    else {
      CHECK(a._b_CollectionData.head_ == a0._b_CollectionData.head_ && g_slots[b].next_ == g_id[e], "next(old tail) = id, head_ unchanged");
      CHECK(slot_same_value(&g_slots[b], &g_before[b]) && unchanged_except(1u << b), "existing elements keep their values; only next(old tail) is written");
    }
  }
}
/* contract of JsonVariant::set(JsonVariantConst) used by addValue: reports success or failure; writes the value (type_,
 * content_) of the variant it is called on and nothing else of the list (never next_: obligations vset_* of unit coll_variant) */
static unsigned g_set_calls;
static _Bool g_set_ok;
_Bool VariantRefBase_JsonVariant__set_JsonVariantConst(struct VariantRefBase_JsonVariant *self, struct JsonVariantConst *value) {
  struct JsonVariant *v = (struct JsonVariant *)self;
  CHECK(v->data_ == &g_slots[NS - 1] && v->resources_ == &g_rm, "set() is applied to the freshly allocated slot with the document's resources");
  CHECK(g_slots[NS - 1].type_ == VT_NULL, "set() is applied to a null variant");
  g_set_calls++;
  slotid_t keep = g_slots[NS - 1].next_;
  havoc_slot(&g_slots[NS - 1]);
  g_slots[NS - 1].next_ = keep;
  g_before[NS - 1] = g_slots[NS - 1];
  g_set_ok = in_bool();
  return g_set_ok;
}
void h_addValue(void) {
  struct ArrayData a;
  _Bool empty;
  unsigned b = mk_array_local(&a, &empty);
  struct ArrayData a0 = a;
  struct JsonVariantConst src;
  src.data_ = &g_slots[2]; src.resources_ = &g_rm;
  snapshot();
  _Bool ok = ArrayData__addValue_constJsonVariantConst_r__JsonVariantConst_r_ResourceManager_p(&a, &src, &g_rm);
  const unsigned e = NS - 1;
  COVER(g_alloc_fail_seen); COVER(!g_alloc_fail_seen && !g_set_ok); COVER(ok && empty); COVER(ok && !empty);
  CHECK(g_alloc_calls == 1, "addValue asks for exactly one slot");
  if (g_alloc_fail_seen) {
    CHECK(!ok && g_set_calls == 0 && g_free_calls == 0, "C05: slot allocation failure is reported (false), nothing else is attempted");
    CHECK(a._b_CollectionData.head_ == a0._b_CollectionData.head_ && a._b_CollectionData.tail_ == a0._b_CollectionData.tail_ && unchanged_except(0), "C05: the array is unchanged");
  } else if (!g_set_ok) {
    CHECK(!ok, "C05: failure to store the value is reported (false)");
#ifdef CANARY_ADD_VALUE
    CHECK(g_free_calls == 1 && g_freed[e] && b == 0, "C05/C06: the slot allocated for the value is released exactly once");
#else
    CHECK(g_free_calls == 1 && g_freed[e], "C05/C06: the slot allocated for the value is released exactly once");
#endif
    CHECK(a._b_CollectionData.head_ == a0._b_CollectionData.head_ && a._b_CollectionData.tail_ == a0._b_CollectionData.tail_ && unchanged_except(1u << e), "C05: the array is unchanged");
  } else {
    CHECK(ok && g_free_calls == 0 && g_set_calls == 1, "success: value stored once, nothing released");
    CHECK(a._b_CollectionData.tail_ == g_id[e] && g_slots[e].next_ == NSLOT, "the new element is appended last");
    CHECK(slot_same_value(&g_slots[e], &g_before[e]), "the element holds what set() stored");
    if (empty) CHECK(a._b_CollectionData.head_ == g_id[e] && unchanged_except(0), "first element: head' = id");
    else CHECK(a._b_CollectionData.head_ == a0._b_CollectionData.head_ && g_slots[b].next_ == g_id[e] && slot_same_value(&g_slots[b], &g_before[b]) && unchanged_except(1u << b),
               "next(old tail) = id; head_ and existing elements unchanged");
  }
}
/* bounded shape (B): arrays of <= 4 elements */
void h_getElement_b(void) {
  mk_store(1);
  struct ArrayData a;
  mk_list(&a._b_CollectionData, 0);
  struct ArrayData a0 = a;
  unsigned long index = in_u64();
  snapshot();
  _Bool null_array = in_bool();
  VD *r = ArrayData__getElement__ArrayData_p_ulong_ResourceManager_p(null_array ? (struct ArrayData *)0 : &a, index, &g_rm);
  COVER(null_array); COVER(!null_array && index == 3 && g_n == 4); COVER(!null_array && index >= g_n);
  if (null_array) CHECK(r == 0, "element of an unbound array: null");
#ifdef CANARY_GET_ELEMENT
  else CHECK(r == (index < g_n ? &g_slots[g_p[index < 4 ? index : 0]] : (VD *)0) && index != 2, "getElement(i) is the i-th slot of the list, null beyond the end");
#else
  else CHECK(r == (index < g_n ? &g_slots[g_p[index < 4 ? index : 0]] : (VD *)0), "getElement(i) is the i-th slot of the list, null beyond the end");
#endif
  CHECK(unchanged_except(0) && g_free_calls == 0 && a._b_CollectionData.head_ == a0._b_CollectionData.head_ && a._b_CollectionData.tail_ == a0._b_CollectionData.tail_, "getElement is read-only");
}
/* removeElement(i) == removeOne(iterator at i): the callee's contract is coll_remove/removeOne (+ coll_core/removeOne_le4) */
static struct CollectionIterator g_rm1_it;
static struct CollectionData *g_rm1_self;
static unsigned g_rm1_calls;
void CollectionData__removeOne(struct CollectionData *self, struct CollectionIterator it, struct ResourceManager *resources) {
  CHECK(resources == &g_rm, "removeOne is asked on the document's resource manager");
  g_rm1_calls++;
  g_rm1_self = self;
  g_rm1_it = it;
}
void h_removeElement_b(void) {
  mk_store(1);
  struct ArrayData a;
  mk_list(&a._b_CollectionData, 0);
  unsigned long index = in_u64();
  snapshot();
  _Bool null_array = in_bool();
  ArrayData__removeElement__ArrayData_p_ulong_ResourceManager_p(null_array ? (struct ArrayData *)0 : &a, index, &g_rm);
  COVER(null_array); COVER(!null_array && index == 3 && g_n == 4); COVER(!null_array && index >= g_n);
  if (null_array) { CHECK(g_rm1_calls == 0, "removing from an unbound array does nothing"); return; }
  CHECK(g_rm1_calls == 1 && g_rm1_self == &a._b_CollectionData, "removeElement removes through removeOne on this array, once");
  if (index < g_n) {
    unsigned i = index < 4 ? index : 0;
#ifdef CANARY_REMOVE_ELEMENT
    CHECK(g_rm1_it.slot_ == &g_slots[g_p[i]] && g_rm1_it.currentId_ == g_id[g_p[i]] && index != 1, "the iterator handed to removeOne designates exactly the i-th element");
#else
    CHECK(g_rm1_it.slot_ == &g_slots[g_p[i]] && g_rm1_it.currentId_ == g_id[g_p[i]], "the iterator handed to removeOne designates exactly the i-th element");
#endif
  } else CHECK(g_rm1_it.slot_ == 0, "beyond the end: a done iterator (removeOne then changes nothing: coll_remove/remove_done)");
  CHECK(unchanged_except(0) && g_free_calls == 0, "removeElement itself writes nothing");
}
/* getOrAddElement(i): arrays of <= 2 elements, i <= n+1 (up to 2 allocations, each may fail) */
void h_getOrAddElement_b(void) {
  mk_store(1);
  struct ArrayData a;
  mk_list(&a._b_CollectionData, 0);
  __CPROVER_assume(g_n <= 2);
  unsigned n0 = g_n;
  unsigned long index = in_u64();
  __CPROVER_assume(index <= n0 + 1);
  snapshot();
  VD *r = ArrayData__getOrAddElement(&a, index, &g_rm);
  unsigned k = g_alloc_ok; /* elements actually added */
  COVER(index < n0); COVER(index == n0 + 1 && r != 0); COVER(index == n0 + 1 && r == 0 && k == 1); COVER(n0 == 0 && index == 0 && r != 0);
  unsigned e[6], m = 0;
  for (unsigned j = 0; j < 2; j++) if (j < n0) e[m++] = g_p[j];
  for (unsigned j = 0; j < 3; j++) if (j < k) e[m++] = NS - 1 - j;
  CHECK(list_is(&a._b_CollectionData, e, m), "the array is the old sequence followed by the elements added (well formed also after a failure midway)");
  _Bool nulls = 1;
  for (unsigned j = 0; j < 3; j++) if (j < k && g_slots[NS - 1 - j].type_ != VT_NULL) nulls = 0;
  CHECK(nulls, "insertion beyond the end pads with null elements");
  CHECK(g_free_calls == 0, "nothing is released");
  _Bool old_same = 1;
  for (unsigned j = 0; j < 2; j++) if (j < n0 && !slot_same_value(&g_slots[g_p[j]], &g_before[g_p[j]])) old_same = 0;
  CHECK(old_same && unchanged_except(list_mask() | (7u << (NS - 3))), "existing elements keep their values; slots outside the array untouched");
  if (index < n0) {
    CHECK(r == &g_slots[g_p[index < 2 ? index : 0]] && g_alloc_calls == 0, "an existing index returns that element and allocates nothing");
  } else if (g_alloc_fail_seen) {
    CHECK(r == 0, "C05: allocation failure is reported as a null element");
  } else {
#ifdef CANARY_GET_OR_ADD
    CHECK(k == index - n0 + 1 && r == &g_slots[NS - k] && n0 != 1, "index >= size: exactly index-size+1 elements are added and the last one is returned");
#else
    CHECK(k == index - n0 + 1 && r == &g_slots[NS - k], "index >= size: exactly index-size+1 elements are added and the last one is returned");
#endif
  }
}
#endif

/* ===================================================================================================================
 * unit coll_object: ObjectData (real appendPair / createIterator / next / CollectionData::size inlined; allocVariant,
 * getVariant, freeVariant, removePair, VariantData::setString<adapted string> and stringEquals by contract) */
#ifdef U_OBJECT
static char g_keytext[3] = {'k', 'y', 0};
static struct SizedRamString g_key; /* the key handed to the operation */
static unsigned g_setstr_calls;
static _Bool g_setstr_ok;
static struct StringNode *g_keynode; /* what a successful setString stores */
/* contract of VariantData::setString(adapted string) (owned by the strings units, agent spec-strings): false => the variant is
 * untouched (still Null); true => it holds a string equal to the key (owned copy here); never writes next_ */
_Bool VariantData__setString_SizedRamString(VD *self, struct SizedRamString value, struct ResourceManager *resources) {
  CHECK(resources == &g_rm, "setString is asked on the document's resource manager");
  CHECK(self == &g_slots[NS - 1], "the key string goes into the slot allocated first (the key slot)");
  CHECK(self->type_ == VT_NULL, "setString is applied to a null variant");
  CHECK(value.str_ == g_key.str_ && value.size_ == g_key.size_, "the key is passed unchanged");
  g_setstr_calls++;
  g_setstr_ok = in_bool();
  if (g_setstr_ok) {
    self->type_ = VT_OWNED;
    self->content_.asOwnedString = g_keynode;
    g_before[NS - 1] = *self;
  }
  return g_setstr_ok;
}
static unsigned mk_object_local(struct ObjectData *o, _Bool *empty) {
  mk_store(0);
  *empty = in_bool();
  unsigned b = in_bool() ? 1 : 0;
  __CPROVER_assume(g_slots[b].next_ == NSLOT); /* WF: next(tail) == NULL_SLOT */
  o->_b_CollectionData.head_ = *empty ? NSLOT : g_id[0];
  o->_b_CollectionData.tail_ = *empty ? NSLOT : g_id[b];
  g_key.str_ = g_keytext;
  g_key.size_ = 2;
  g_keynode = malloc(sizeof(struct StringNode) + 2);
  __CPROVER_assume(g_keynode != 0);
  return b;
}
/* addMember(key): KEYKIND 0 = adapted string (SizedRamString), 1 = StringNode* (a string the document already owns) */
void h_addMember(void) {
  struct ObjectData o;
  _Bool empty;
  unsigned b = mk_object_local(&o, &empty);
  struct ObjectData o0 = o;
  snapshot();
#if KEYKIND == 0
  VD *r = ObjectData__addMember_SizedRamString(&o, g_key, &g_rm);
  _Bool str_failed = g_setstr_calls && !g_setstr_ok;
#else
  VD *r = ObjectData__addMember_StringNode_p(&o, g_keynode, &g_rm);
  _Bool str_failed = 0;
#endif
  const unsigned k = NS - 1, v = NS - 2;
  _Bool failed = g_alloc_fail_seen || str_failed;
  COVER(g_alloc_fail_seen && g_alloc_calls == 1); COVER(g_alloc_fail_seen && g_alloc_calls == 2); COVER(!failed && empty); COVER(!failed && !empty && b == 1);
#if KEYKIND == 0
  COVER(str_failed);
#endif
  CHECK(g_free_calls == 0, "addMember releases nothing");
  if (failed) {
    CHECK(r == 0, "C05: any failure (key slot, value slot, key string) is reported as a null member");
#ifdef CANARY_ADD_MEMBER
    CHECK(o._b_CollectionData.head_ == o0._b_CollectionData.head_ && o._b_CollectionData.tail_ == o0._b_CollectionData.tail_ && g_alloc_calls != 2, "C05: on failure head_/tail_ are unchanged");
#else
    CHECK(o._b_CollectionData.head_ == o0._b_CollectionData.head_ && o._b_CollectionData.tail_ == o0._b_CollectionData.tail_, "C05: on failure head_/tail_ are unchanged");
#endif
    CHECK(unchanged_except(0), "C05: on failure every existing slot is unchanged: no member lacks a key or a value");
  } else {
    CHECK(g_alloc_calls == 2, "a member takes exactly two slots");
    CHECK(r == &g_slots[v], "addMember returns the value slot");
    CHECK(g_slots[v].type_ == VT_NULL && g_slots[v].next_ == NSLOT, "the new value is null and is the last slot");
    CHECK(g_slots[k].next_ == g_id[v] && o._b_CollectionData.tail_ == g_id[v], "key slot then value slot are appended: next(key) = value, tail' = value");
    CHECK(g_slots[k].type_ == VT_OWNED && g_slots[k].content_.asOwnedString == (void *)g_keynode, "the key slot holds the key string");
    if (empty) CHECK(o._b_CollectionData.head_ == g_id[k] && unchanged_except(1u << k), "first member: head' = key");
    else CHECK(o._b_CollectionData.head_ == o0._b_CollectionData.head_ && g_slots[b].next_ == g_id[k] && slot_same_value(&g_slots[b], &g_before[b]) && unchanged_except((1u << b) | (1u << k)),
               "next(old tail) = key; head_ and existing members unchanged");
  }
}

/* ---- lookups on bounded objects (B): 0, 1 or 2 members = entries (0,1),(2,3); each slot holds a linked or an owned string.
 * stringEquals is abstract: the stub answers g_eq[entry] and records which stored strings were compared, in which order. */
static char g_linked[4][4];
static struct StringNode *g_node[4];
static char *g_str_ptr[4];
static unsigned long g_str_len[4];
static _Bool g_eq[4];
static int g_cmp_order[4];
static unsigned g_cmp_n;
/* contract of stringEquals(adapted key, JsonString) (proved size-aware and NUL-safe: unit cmp_strings of compare.json) */
_Bool stringEquals_SizedRamString_JsonStringAdapter(struct SizedRamString s1, struct JsonStringAdapter s2) {
  CHECK(s1.str_ == g_key.str_ && s1.size_ == g_key.size_, "the lookup key is passed unchanged");
  int e = -1;
  for (int i = 0; i < 4; i++)
    if (s2._b_SizedRamString.str_ == g_str_ptr[i]) e = i;
  CHECK(e >= 0 && e % 2 == 0, "findKey compares only slots at even positions (keys)");
  if (e < 0) return 0;
  CHECK(s2._b_SizedRamString.size_ == g_str_len[e], "the stored key is compared with its own length (size-aware)");
  if (g_cmp_n < 4) g_cmp_order[g_cmp_n] = e;
  g_cmp_n++;
  return g_eq[e];
}
static void mk_object_b(struct ObjectData *o) {
  mk_store(1);
  mk_list(&o->_b_CollectionData, 1);
  for (int e = 0; e < 4; e++) {
    g_str_len[e] = in_u8();
    __CPROVER_assume(g_str_len[e] <= 3);
    g_eq[e] = in_bool();
    if (in_bool()) { /* linked: NUL-terminated, length by strlen */
      for (unsigned i = 0; i < 4; i++) { g_linked[e][i] = in_char(); __CPROVER_assume((i == g_str_len[e]) == (g_linked[e][i] == 0) || i > g_str_len[e]); }
      g_str_ptr[e] = g_linked[e];
      g_slots[e].type_ = VT_LINKED;
      g_slots[e].content_.asLinkedString = g_linked[e];
    } else { /* owned: length in the node (may contain NUL) */
      g_node[e] = malloc(sizeof(struct StringNode) + 4);
      __CPROVER_assume(g_node[e] != 0);
      g_node[e]->length = (__typeof__(g_node[e]->length))g_str_len[e];
      g_str_ptr[e] = g_node[e]->data;
      g_slots[e].type_ = VT_OWNED;
      g_slots[e].content_.asOwnedString = g_node[e];
    }
  }
  _Bool null_key = in_bool();
  g_key.str_ = null_key ? (char *)0 : g_keytext;
  g_key.size_ = null_key ? 0 : 2;
}
/* model: index of the first member whose key equals the lookup key, -1 if none / null key */
static int model_find(void) {
  if (g_key.str_ == 0) return -1;
  if (g_n >= 2 && g_eq[0]) return 0;
  if (g_n >= 4 && g_eq[2]) return 2;
  return -1;
}
static _Bool cmp_trace_ok(int found) {
  unsigned want = g_key.str_ == 0 ? 0 : (found >= 0 ? (unsigned)found / 2 + 1 : g_n / 2);
  _Bool ok = g_cmp_n == want;
  for (unsigned j = 0; j < 2; j++) if (j < g_cmp_n && g_cmp_order[j] != (int)(2 * j)) ok = 0;
  return ok;
}
void h_findKey_b(void) {
  struct ObjectData o;
  mk_object_b(&o);
  snapshot();
  struct CollectionIterator it = ObjectData__findKey_SizedRamString(&o, g_key, &g_rm);
  int f = model_find();
  COVER(g_key.str_ == 0); COVER(f == 0); COVER(f == 2); COVER(f < 0 && g_n == 4 && g_key.str_ != 0);
#ifdef CANARY_FIND_KEY
  CHECK(it.slot_ == (f >= 0 ? &g_slots[f] : (VD *)0) && f != 2, "findKey designates the first key slot equal to the key; done iterator if none or if the key is null");
#else
  CHECK(it.slot_ == (f >= 0 ? &g_slots[f] : (VD *)0), "findKey designates the first key slot equal to the key; done iterator if none or if the key is null");
#endif
  CHECK(f < 0 || (it.currentId_ == g_id[f] && it.nextId_ == g_id[f + 1]), "the iterator carries the key id and the value id");
  CHECK(cmp_trace_ok(f), "keys are compared in order, each once, values never, nothing after the match");
  CHECK(unchanged_except(0) && g_free_calls == 0 && g_alloc_calls == 0, "findKey is read-only");
}
void h_getMember_b(void) {
  struct ObjectData o;
  mk_object_b(&o);
  struct ObjectData o0 = o;
  snapshot();
  VD *r = ObjectData__getMember_SizedRamString__SizedRamString_ResourceManager_p(&o, g_key, &g_rm);
  int f = model_find();
  COVER(f == 0); COVER(f == 2); COVER(f < 0);
#ifdef CANARY_GET_MEMBER
  CHECK(r == (f >= 0 ? &g_slots[f + 1] : (VD *)0) && f != 0, "getMember returns the slot after the matching key (its value), null if none");
#else
  CHECK(r == (f >= 0 ? &g_slots[f + 1] : (VD *)0), "getMember returns the slot after the matching key (its value), null if none");
#endif
  CHECK(unchanged_except(0) && g_free_calls == 0 && g_alloc_calls == 0 && o._b_CollectionData.head_ == o0._b_CollectionData.head_ && o._b_CollectionData.tail_ == o0._b_CollectionData.tail_, "getMember is read-only");
}
void h_objsize_b(void) {
  struct ObjectData o;
  mk_store(1);
  mk_list(&o._b_CollectionData, 1);
  struct ObjectData o0 = o;
  snapshot();
  unsigned long sz = ObjectData__size__ResourceManager_p(&o, &g_rm);
  COVER(g_n == 0); COVER(g_n == 4);
#ifdef CANARY_OBJ_SIZE
  CHECK(sz == g_n / 2 + (g_n == 2), "size() of an object == number of key/value pairs");
#else
  CHECK(sz == g_n / 2, "size() of an object == number of key/value pairs");
#endif
  CHECK(unchanged_except(0) && g_free_calls == 0 && g_alloc_calls == 0 && o._b_CollectionData.head_ == o0._b_CollectionData.head_ && o._b_CollectionData.tail_ == o0._b_CollectionData.tail_, "size() is read-only");
}
/* removeMember(key) == removePair(findKey(key)); callee contract: coll_remove/removePair (+ coll_core/removePair_le4) */
static struct CollectionIterator g_rmp_it;
static unsigned g_rmp_calls;
void CollectionData__removePair(struct CollectionData *self, struct CollectionIterator it, struct ResourceManager *resources) {
  CHECK(resources == &g_rm, "removePair is asked on the document's resource manager");
  g_rmp_calls++;
  g_rmp_it = it;
}
void h_removeMember_b(void) {
  struct ObjectData o;
  mk_object_b(&o);
  snapshot();
  ObjectData__removeMember_SizedRamString__SizedRamString_ResourceManager_p(&o, g_key, &g_rm);
  int f = model_find();
  COVER(f == 0); COVER(f == 2); COVER(f < 0);
  CHECK(g_rmp_calls == 1, "removeMember removes through removePair, once");
#ifdef CANARY_REMOVE_MEMBER
  CHECK(g_rmp_it.slot_ == (f >= 0 ? &g_slots[f] : (VD *)0) && f != 2, "removePair receives exactly the matching key (done iterator if none: nothing is removed)");
#else
  CHECK(g_rmp_it.slot_ == (f >= 0 ? &g_slots[f] : (VD *)0), "removePair receives exactly the matching key (done iterator if none: nothing is removed)");
#endif
  CHECK(f < 0 || (g_rmp_it.currentId_ == g_id[f] && g_rmp_it.nextId_ == g_id[f + 1]), "with the key id and the value id");
  CHECK(unchanged_except(0) && g_free_calls == 0, "removeMember itself writes nothing");
}
void h_getOrAddMember_b(void) {
  struct ObjectData o;
  mk_object_b(&o);
  __CPROVER_assume(g_key.str_ != 0);
  g_keynode = malloc(sizeof(struct StringNode) + 2);
  __CPROVER_assume(g_keynode != 0);
  struct ObjectData o0 = o;
  snapshot();
  VD *r = ObjectData__getOrAddMember_SizedRamString(&o, g_key, &g_rm);
  int f = model_find();
  _Bool failed = g_alloc_fail_seen || (g_setstr_calls && !g_setstr_ok);
  COVER(f >= 0); COVER(f < 0 && failed); COVER(f < 0 && !failed && g_n == 4); COVER(f < 0 && !failed && g_n == 0);
  if (f >= 0) {
    CHECK(r == &g_slots[f + 1] && g_alloc_calls == 0, "an existing key returns its value and allocates nothing");
    CHECK(unchanged_except(0) && o._b_CollectionData.head_ == o0._b_CollectionData.head_ && o._b_CollectionData.tail_ == o0._b_CollectionData.tail_, "and changes nothing");
  } else if (failed) {
    CHECK(r == 0, "C05: failure to add the member is reported as null");
    CHECK(unchanged_except(0) && o._b_CollectionData.head_ == o0._b_CollectionData.head_ && o._b_CollectionData.tail_ == o0._b_CollectionData.tail_, "C05: the object is unchanged");
  } else {
    unsigned e[6], m = 0;
    for (unsigned j = 0; j < 4; j++) if (j < g_n) e[m++] = j;
    e[m++] = NS - 1; e[m++] = NS - 2;
#ifdef CANARY_GET_OR_ADD_MEMBER
    CHECK(r == &g_slots[NS - 2] && list_is(&o._b_CollectionData, e, m) && g_n != 2, "a missing key is appended as a new (key, null value) pair and the value is returned");
#else
    CHECK(r == &g_slots[NS - 2] && list_is(&o._b_CollectionData, e, m), "a missing key is appended as a new (key, null value) pair and the value is returned");
#endif
    CHECK(g_slots[NS - 1].type_ == VT_OWNED && g_slots[NS - 2].type_ == VT_NULL, "key slot holds the string, value is null");
  }
  CHECK(g_free_calls == 0, "nothing is released");
}
#endif

/* ===================================================================================================================
 * unit coll_variant: VariantData::clear and the scalar / container / raw-string setters on ONE arbitrary variant.
 * Callees by contract: ResourceManager::dereferenceString (strings units), freeExtension / allocExtension (unit coll_resmgr:
 * rm_free / rm_alloc), CollectionData::clear (coll_loops/clear_anylen), saveString (strings units). */
#ifdef U_VARIANT
#if defined(CFG_nodbl)
#define HAS_DOUBLE 0
#else
#define HAS_DOUBLE 1
#endif
#if defined(CFG_noll)
#define HAS_LL 0
#else
#define HAS_LL 1
#endif
static struct ResourceManager g_rm;
static VD g_v;
static unsigned g_deref_calls, g_freeext_calls, g_cclear_calls, g_allocext_calls, g_save_calls, g_seq;
static unsigned g_deref_at, g_freeext_at, g_cclear_at;
static char *g_deref_arg;
static slotid_t g_freeext_arg;
static struct CollectionData *g_cclear_arg;
static union VariantExtension g_ext;
static slotid_t g_ext_id;
static _Bool g_allocext_ok, g_save_ok;
static struct StringNode *g_node, *g_saved;
static struct SizedRamString g_save_arg;
void ResourceManager__dereferenceString(struct ResourceManager *self, char *str) {
  CHECK(self == &g_rm, "dereferenceString is asked on the document's resource manager");
  g_deref_calls++; g_deref_at = ++g_seq;
  g_deref_arg = str;
  if (in_bool()) free(g_node); /* the last reference may go away: the node must not be read afterwards */
}
void ResourceManager__freeExtension(struct ResourceManager *self, slotid_t id) {
  CHECK(self == &g_rm, "freeExtension is asked on the document's resource manager");
  g_freeext_calls++; g_freeext_at = ++g_seq;
  g_freeext_arg = id;
}
void CollectionData__clear__ResourceManager_p(struct CollectionData *self, struct ResourceManager *resources) {
  CHECK(resources == &g_rm, "children are cleared on the document's resource manager");
  g_cclear_calls++; g_cclear_at = ++g_seq;
  g_cclear_arg = self;
  self->head_ = NSLOT; /* contract of CollectionData::clear */
  self->tail_ = NSLOT;
}
struct Slot_VariantExtension ResourceManager__allocExtension(struct ResourceManager *self) {
  struct Slot_VariantExtension r;
  CHECK(self == &g_rm, "allocExtension is asked on the document's resource manager");
  g_allocext_calls++;
  g_allocext_ok = in_bool();
  r.ptr_ = g_allocext_ok ? &g_ext : (union VariantExtension *)0;
  r.id_ = g_allocext_ok ? g_ext_id : NSLOT;
  return r;
}
struct StringNode *ResourceManager__saveString_SizedRamString(struct ResourceManager *self, struct SizedRamString str) {
  CHECK(self == &g_rm, "saveString is asked on the document's resource manager");
  g_save_calls++;
  g_save_arg = str;
  g_save_ok = in_bool();
  return g_save_ok ? g_saved : (struct StringNode *)0;
}
static const unsigned char k_types[] = {VT_NULL, VT_RAW, VT_LINKED, VT_OWNED, VT_BOOL, VT_UINT32, VT_INT32, VT_FLOAT,
#if HAS_LL
                                        VT_UINT64, VT_INT64,
#endif
#if HAS_DOUBLE
                                        VT_DOUBLE,
#endif
                                        VT_OBJECT, VT_ARRAY};
#define N_TYPES (sizeof k_types / sizeof k_types[0])
static char g_text[4];
/* an arbitrary well-formed variant: type of the enumeration, content of that kind, any next_ */
static void mk_variant(void) {
  unsigned ti = in_u8();
  __CPROVER_assume(ti < N_TYPES);
  havoc_slot(&g_v);
  g_v.type_ = k_types[ti];
  g_node = malloc(sizeof(struct StringNode) + 4);
  g_saved = malloc(sizeof(struct StringNode) + 4);
  __CPROVER_assume(g_node != 0 && g_saved != 0);
  g_ext_id = (slotid_t)in_u32();
  __CPROVER_assume(g_ext_id != NSLOT);
  if (g_v.type_ == VT_RAW || g_v.type_ == VT_OWNED) g_v.content_.asOwnedString = g_node;
  if (g_v.type_ == VT_LINKED) g_v.content_.asLinkedString = g_text;
}
/* VariantData::clear / static clear */
void h_vclear(void) {
  mk_variant();
  VD v0 = g_v;
  uint64_t bits0 = content_bits(&g_v);
  unsigned char t = g_v.type_;
  _Bool owned = t == VT_RAW || t == VT_OWNED;
  _Bool ext = t == VT_UINT64 || t == VT_INT64 || t == VT_DOUBLE;
  _Bool coll = t == VT_OBJECT || t == VT_ARRAY;
  char *node_chars = g_node->data; /* taken before the call: the stub may free the node */
  _Bool null_var = in_bool();
  if (null_var) VariantData__clear__VariantData_p_ResourceManager_p((VD *)0, &g_rm);
  else VariantData__clear__VariantData_p_ResourceManager_p(&g_v, &g_rm);
  COVER(null_var); COVER(!null_var && t == VT_RAW); COVER(!null_var && t == VT_OWNED); COVER(!null_var && t == VT_LINKED); COVER(!null_var && t == VT_ARRAY); COVER(!null_var && t == VT_OBJECT); COVER(!null_var && t == VT_INT32);
#if HAS_LL
  COVER(!null_var && t == VT_INT64); COVER(!null_var && t == VT_UINT64);
#endif
#if HAS_DOUBLE
  COVER(!null_var && t == VT_DOUBLE);
#endif
  if (null_var) {
    CHECK(g_seq == 0 && slot_same(&g_v, &v0), "clearing an unbound variant does nothing");
    return;
  }
#ifdef CANARY_VCLEAR
  CHECK(g_deref_calls == (owned ? 1u : 0u) && (!owned || g_deref_arg == node_chars) && t != VT_RAW, "C06: exactly one string reference is released iff the variant owns a string (value or raw), with its characters");
#else
  CHECK(g_deref_calls == (owned ? 1u : 0u) && (!owned || g_deref_arg == node_chars), "C06: exactly one string reference is released iff the variant owns a string (value or raw), with its characters");
#endif
  CHECK(g_freeext_calls == (ext ? 1u : 0u) && (!ext || g_freeext_arg == v0.content_.asSlotId), "C06: the extension slot is released exactly once iff the value lives in one (64-bit integer, double), with its id");
  CHECK(g_cclear_calls == (coll ? 1u : 0u) && (!coll || g_cclear_arg == &g_v.content_.asCollection), "all children are released iff the variant is an array or an object");
  CHECK(g_v.type_ == VT_NULL, "after clear() the variant is null");
  CHECK(g_v.next_ == v0.next_, "clear() keeps the variant's place in its list (next_)");
  CHECK(g_allocext_calls == 0 && g_save_calls == 0, "clear() allocates nothing");
  CHECK(owned || ext || coll || g_seq == 0, "inline scalars and linked strings release nothing");
}
/* numeric setters on a null variant. kind: 0 int, 1 long, 2 signed char, 3 unsigned, 4 unsigned long, 5 float, 6 double, 7 bool */
void h_vset_number(void) {
  mk_variant();
  g_v.type_ = VT_NULL; /* precondition of every setter (ARDUINOJSON_ASSERT): clear() first */
  VD v0 = g_v;
  unsigned kind = in_u8();
  __CPROVER_assume(kind < 8);
  int64_t sv = in_i64();
  uint64_t uv = in_u64();
  float fv = in_f32();
  double dv = in_f64();
  _Bool ok = 1, is_signed = 0, is_unsigned = 0;
  switch (kind) {
    case 0: sv = (int)sv; is_signed = 1; ok = VariantData__setInteger_int(&g_v, (int)sv, &g_rm); break;
    case 1: is_signed = 1; ok = VariantData__setInteger_long(&g_v, (long)sv, &g_rm); break;
    case 2: sv = (signed char)sv; is_signed = 1; ok = VariantData__setInteger_signedchar(&g_v, (signed char)sv, &g_rm); break;
    case 3: uv = (unsigned)uv; is_unsigned = 1; ok = VariantData__setInteger_uint(&g_v, (unsigned)uv, &g_rm); break;
    case 4: is_unsigned = 1; ok = VariantData__setInteger_ulong(&g_v, (unsigned long)uv, &g_rm); break;
    case 5: ok = VariantData__setFloat_float(&g_v, fv, &g_rm); break;
    case 6: ok = VariantData__setFloat_double(&g_v, dv, &g_rm); break;
    default: VariantData__setBoolean(&g_v, (uv & 1) != 0); break;
  }
  _Bool fits32 = is_signed ? (sv >= -2147483647 - 1 && sv <= 2147483647) : (uv <= 0xFFFFFFFFull);
  _Bool lossless = (double)(float)dv == dv; /* "stored as float when lossless" */
  _Bool needs_ext = ((is_signed || is_unsigned) && !fits32) || (kind == 6 && HAS_DOUBLE && !lossless);
  COVER(kind == 0); COVER(kind == 1 && fits32); COVER(kind == 2); COVER(kind == 3); COVER(kind == 4 && fits32); COVER(kind == 5); COVER(kind == 6 && lossless); COVER(kind == 7);
#if HAS_LL
  COVER(kind == 1 && !fits32 && ok); COVER(kind == 1 && !fits32 && !ok); COVER(kind == 4 && !fits32 && ok); COVER(kind == 4 && !fits32 && !ok);
#endif
#if HAS_DOUBLE
  COVER(kind == 6 && !lossless && ok); COVER(kind == 6 && !lossless && !ok); COVER(kind == 6 && dv != dv);
#endif
  CHECK(g_v.next_ == v0.next_, "a setter never writes next_ (the variant keeps its place in its list)");
  CHECK(g_seq == 0 && g_save_calls == 0, "a setter releases nothing");
  if (!needs_ext) {
    CHECK(ok && g_allocext_calls == 0, "values of at most 32 bits are stored inline: no slot is requested and the setter succeeds");
    if (is_signed) CHECK(g_v.type_ == VT_INT32 && g_v.content_.asInt32 == sv, "signed integer within int32: stored inline as Int32 with that value");
    if (is_unsigned) CHECK(g_v.type_ == VT_UINT32 && g_v.content_.asUint32 == uv, "unsigned integer within uint32: stored inline as Uint32 with that value");
    if (kind == 5) CHECK(g_v.type_ == VT_FLOAT && memcmp(&g_v.content_.asFloat, &fv, 4) == 0, "float: stored inline, bit for bit");
    if (kind == 6) {
      float f = (float)dv;
#ifdef CANARY_VSET_NUMBER
      CHECK(g_v.type_ == VT_FLOAT && memcmp(&g_v.content_.asFloat, &f, 4) == 0 && dv != 0.5, "double that a float represents exactly: stored inline as that float");
#else
      CHECK(g_v.type_ == VT_FLOAT && memcmp(&g_v.content_.asFloat, &f, 4) == 0, "double that a float represents exactly: stored inline as that float");
#endif
    }
    if (kind == 7) CHECK(g_v.type_ == VT_BOOL && g_v.content_.asBoolean == ((uv & 1) != 0), "boolean stored inline");
  } else {
    CHECK(g_allocext_calls == 1, "a 64-bit value requests exactly one extension slot");
    if (!g_allocext_ok) {
      CHECK(!ok, "C05: failure to get the extension slot is reported (false)");
      CHECK(g_v.type_ == VT_NULL, "C05: on failure the variant stays null");
    } else {
      CHECK(ok, "with the extension slot the setter succeeds");
      CHECK(g_v.content_.asSlotId == g_ext_id, "the variant records the id of its extension slot");
#if HAS_LL
      if (is_signed) CHECK(g_v.type_ == VT_INT64 && g_ext.asInt64 == sv, "signed integer beyond int32: Int64 in the extension slot with that value");
      if (is_unsigned) CHECK(g_v.type_ == VT_UINT64 && g_ext.asUint64 == uv, "unsigned integer beyond uint32: Uint64 in the extension slot with that value");
#else
      CHECK(!is_signed && !is_unsigned, "without 64-bit integer support no integer goes to an extension slot");
#endif
#if HAS_DOUBLE
      if (kind == 6) CHECK(g_v.type_ == VT_DOUBLE && memcmp(&g_ext.asDouble, &dv, 8) == 0, "double not representable as float: Double in the extension slot, bit for bit");
#endif
    }
  }
}
/* toArray / toObject (member: on a null variant; static: clear() first), string setters, setRawString(serialized) */
void h_vset_other(void) {
  mk_variant();
  unsigned kind = in_u8();
  __CPROVER_assume(kind < 9);
  if (kind != 2 && kind != 3 && kind != 8) g_v.type_ = VT_NULL; /* member setters: precondition null */
  VD v0 = g_v;
  unsigned char t = g_v.type_;
  _Bool owned = t == VT_RAW || t == VT_OWNED, ext = t == VT_UINT64 || t == VT_INT64 || t == VT_DOUBLE, coll = t == VT_OBJECT || t == VT_ARRAY;
  struct SerializedValue_constchar_p sv;
  sv.data_ = g_text; sv.size_ = in_u8() % 4;
  void *r = 0;
  switch (kind) {
    case 0: r = VariantData__toArray__void(&g_v); break;
    case 1: r = VariantData__toObject__void(&g_v); break;
    case 2: r = VariantData__toArray__VariantData_p_ResourceManager_p(&g_v, &g_rm); break;
    case 3: r = VariantData__toObject__VariantData_p_ResourceManager_p(&g_v, &g_rm); break;
    case 4: VariantData__setRawString(&g_v, g_saved); break;
    case 5: VariantData__setOwnedString(&g_v, g_saved); break;
    case 6: VariantData__setLinkedString(&g_v, g_text); break;
    case 7: VariantData__setRawString_constchar_p__SerializedValue_constchar_p_ResourceManager_p(&g_v, sv, &g_rm); break;
    default: VariantData__setRawString_constchar_p__VariantData_p_SerializedValue_constchar_p_ResourceManager_p(&g_v, sv, &g_rm); break;
  }
  COVER(kind == 0); COVER(kind == 1); COVER(kind == 2 && owned); COVER(kind == 3 && coll); COVER(kind == 4); COVER(kind == 5); COVER(kind == 6);
  COVER(kind == 7 && g_save_ok); COVER(kind == 7 && !g_save_ok); COVER(kind == 8 && ext && !g_save_ok);
  CHECK(g_v.next_ == v0.next_, "a setter never writes next_");
  CHECK(g_allocext_calls == 0, "no extension slot is requested");
  if (kind == 2 || kind == 3 || kind == 8) { /* the static forms clear the old value first: same release discipline as clear() */
    CHECK(g_deref_calls == (owned ? 1u : 0u) && g_freeext_calls == (ext ? 1u : 0u) && g_cclear_calls == (coll ? 1u : 0u), "C06: the old value is released exactly as clear() does");
  } else CHECK(g_seq == 0, "member setters release nothing");
  if (kind <= 3) {
#ifdef CANARY_VSET_OTHER
    CHECK(g_v.type_ == ((kind & 1) ? VT_OBJECT : VT_ARRAY) && kind != 3, "toArray/toObject set the container type");
#else
    CHECK(g_v.type_ == ((kind & 1) ? VT_OBJECT : VT_ARRAY), "toArray/toObject set the container type");
#endif
    CHECK(g_v.content_.asCollection.head_ == NSLOT && g_v.content_.asCollection.tail_ == NSLOT, "the new container is empty: head_ = tail_ = NULL_SLOT");
    CHECK(r == (void *)&g_v.content_, "the container returned is the one inside the variant");
  }
  if (kind == 4) CHECK(g_v.type_ == VT_RAW && g_v.content_.asOwnedString == (void *)g_saved, "setRawString(node): raw string holding that node");
  if (kind == 5) CHECK(g_v.type_ == VT_OWNED && g_v.content_.asOwnedString == (void *)g_saved, "setOwnedString(node): owned string holding that node");
  if (kind == 6) CHECK(g_v.type_ == VT_LINKED && g_v.content_.asLinkedString == (void *)g_text, "setLinkedString(p): linked string keeping the address");
  if (kind == 7 || kind == 8) {
    CHECK(g_save_calls == 1 && g_save_arg.str_ == sv.data_ && g_save_arg.size_ == sv.size_, "the serialized value is saved once with its own size");
    if (g_save_ok) CHECK(g_v.type_ == VT_RAW && g_v.content_.asOwnedString == (void *)g_saved, "saved: raw string holding the saved node");
    else CHECK(g_v.type_ == VT_NULL, "C05: when the string cannot be saved the variant is null");
  }
}
#endif

/* ===================================================================================================================
 * unit coll_resmgr: ResourceManager::allocVariant / allocExtension / freeVariant / freeExtension / getVariant / getExtension over
 * MemoryPoolList by contract (allocSlot: poollist_alloc/allocSlot_dispatch_* ; freeSlot, getSlot: poollist/list_*) and
 * VariantData::clear by contract (coll_variant/vclear).  These obligations prove the contracts the stubs above rely on. */
#ifdef U_RESMGR
typedef struct Slot_ResourceManager__SlotData RSlot;
typedef struct Slot_VariantData VSlot;
static struct ResourceManager g_rm;
static union ResourceManager__SlotData g_sd;
static slotid_t g_sd_id;
static _Bool g_as_ok;
static unsigned g_seq, g_as_calls, g_fs_calls, g_gs_calls, g_vc_calls, g_fs_at, g_vc_at, g_gs_at;
static RSlot g_fs_arg;
static slotid_t g_gs_arg;
RSlot MemoryPoolList_ResourceManager__SlotData__allocSlot(struct MemoryPoolList_ResourceManager__SlotData *self, struct Allocator *allocator) {
  RSlot r;
  CHECK(self == &g_rm.variantPools_ && allocator == g_rm.allocator_, "slots come from the document's pool list with the document's allocator");
  g_as_calls++; ++g_seq;
  r.ptr_ = g_as_ok ? &g_sd : (union ResourceManager__SlotData *)0;
  r.id_ = g_as_ok ? g_sd_id : NSLOT;
  return r;
}
void MemoryPoolList_ResourceManager__SlotData__freeSlot(struct MemoryPoolList_ResourceManager__SlotData *self, RSlot slot) {
  CHECK(self == &g_rm.variantPools_, "slots return to the document's pool list");
  g_fs_calls++; g_fs_at = ++g_seq;
  g_fs_arg = slot;
}
union ResourceManager__SlotData *MemoryPoolList_ResourceManager__SlotData__getSlot(struct MemoryPoolList_ResourceManager__SlotData *self, slotid_t id) {
  CHECK(self == &g_rm.variantPools_, "ids are resolved in the document's pool list");
  g_gs_calls++; g_gs_at = ++g_seq;
  g_gs_arg = id;
  return id == NSLOT ? (union ResourceManager__SlotData *)0 : &g_sd; /* contract: getSlot(NULL_SLOT) == null */
}
void VariantData__clear__ResourceManager_p(VD *self, struct ResourceManager *resources) {
  CHECK(self == &g_sd.variant && resources == &g_rm, "the variant being released is cleared with its own resource manager");
  g_vc_calls++; g_vc_at = ++g_seq;
  self->type_ = VT_NULL;
}
static struct Allocator g_allocator;
static void mk_rm(void) {
  g_rm.allocator_ = &g_allocator;
  g_rm.overflowed_ = in_bool();
  g_sd_id = (slotid_t)in_u32();
  __CPROVER_assume(g_sd_id != NSLOT);
  havoc_slot(&g_sd.variant);
  g_as_ok = in_bool();
}
void h_rm_alloc(void) {
  mk_rm();
  _Bool ov0 = g_rm.overflowed_;
  _Bool ext = in_bool();
  VSlot v; struct Slot_VariantExtension x;
  v.ptr_ = 0; v.id_ = 0; x.ptr_ = 0; x.id_ = 0;
  VD before = g_sd.variant;
  if (ext) x = ResourceManager__allocExtension(&g_rm);
  else v = ResourceManager__allocVariant(&g_rm);
  COVER(ext && g_as_ok); COVER(ext && !g_as_ok); COVER(!ext && g_as_ok); COVER(!ext && !g_as_ok && !ov0);
  CHECK(g_as_calls == 1 && g_fs_calls == 0 && g_gs_calls == 0 && g_vc_calls == 0, "exactly one slot is requested, nothing else happens");
  if (!g_as_ok) {
#ifdef CANARY_RM_ALLOC
    CHECK(g_rm.overflowed_ == 1 && ext, "C05: a null slot sets overflowed()");
#else
    CHECK(g_rm.overflowed_ == 1, "C05: a null slot sets overflowed()");
#endif
    CHECK(ext ? (x.ptr_ == 0 && x.id_ == NSLOT) : (v.ptr_ == 0 && v.id_ == NSLOT), "C05: and the null slot is returned");
    CHECK(slot_same(&g_sd.variant, &before), "nothing is written");
  } else {
    CHECK(g_rm.overflowed_ == ov0, "success leaves overflowed() as it was (never reset here)");
    if (ext) {
      CHECK(x.ptr_ == &g_sd.extension && x.id_ == g_sd_id, "allocExtension returns the slot's address and id");
    } else {
      CHECK(v.ptr_ == &g_sd.variant && v.id_ == g_sd_id, "allocVariant returns the slot's address and id");
      CHECK(g_sd.variant.type_ == VT_NULL && g_sd.variant.next_ == NSLOT, "a VariantData is constructed in the slot: null, next NULL_SLOT");
    }
  }
}
void h_rm_free(void) {
  mk_rm();
  _Bool ov0 = g_rm.overflowed_;
  _Bool ext = in_bool();
  if (ext) ResourceManager__freeExtension(&g_rm, g_sd_id);
  else {
    VSlot v;
    v.ptr_ = &g_sd.variant; v.id_ = g_sd_id;
    ResourceManager__freeVariant(&g_rm, v);
  }
  COVER(ext); COVER(!ext);
  CHECK(g_fs_calls == 1 && g_fs_arg.ptr_ == &g_sd && g_fs_arg.id_ == g_sd_id, "C06: exactly that slot (address and id) is pushed on the free list, once");
  if (ext) CHECK(g_vc_calls == 0 && g_gs_calls == 1 && g_gs_arg == g_sd_id, "freeExtension resolves the id once and clears nothing");
  else {
#ifdef CANARY_RM_FREE
    CHECK(g_vc_calls == 1 && g_vc_at > g_fs_at, "freeVariant clears the variant BEFORE the slot goes to the free list");
#else
    CHECK(g_vc_calls == 1 && g_vc_at < g_fs_at, "freeVariant clears the variant BEFORE the slot goes to the free list");
#endif
  }
  CHECK(g_as_calls == 0 && g_rm.overflowed_ == ov0, "releasing requests no slot and does not touch overflowed()");
}
void h_rm_get(void) {
  mk_rm();
  _Bool ov0 = g_rm.overflowed_;
  _Bool ext = in_bool(), ask_null = in_bool();
  VD before = g_sd.variant;
  void *r;
  __CPROVER_assume(!(ext && ask_null)); /* getExtension precondition: the id of an extension slot (VariantData::getExtension tests ExtensionBit) */
  if (ext) r = ResourceManager__getExtension(&g_rm, g_sd_id);
  else r = ResourceManager__getVariant(&g_rm, ask_null ? NSLOT : g_sd_id);
  COVER(ext); COVER(!ext && ask_null); COVER(!ext && !ask_null);
#ifdef CANARY_RM_GET
  CHECK(r == (ask_null ? (void *)0 : (void *)&g_sd) && !ext, "getVariant/getExtension(id) is the slot designated by id; getVariant(NULL_SLOT) == null");
#else
  CHECK(r == (ask_null ? (void *)0 : (void *)&g_sd), "getVariant/getExtension(id) is the slot designated by id; getVariant(NULL_SLOT) == null");
#endif
  CHECK(g_gs_calls == 1 && g_gs_arg == (ask_null ? NSLOT : g_sd_id), "the id is resolved once, unchanged");
  CHECK(g_as_calls == 0 && g_fs_calls == 0 && g_vc_calls == 0 && g_rm.overflowed_ == ov0 && slot_same(&g_sd.variant, &before), "lookups are read-only");
}
#endif

/* ===================================================================================================================
 * unit coll_dispatch: the VariantData front of the collection operations: which container (if any) the operation is
 * forwarded to, and what happens to a variant that is null / of another kind.  ArrayData / ObjectData / CollectionData
 * callees by contract (units coll_array, coll_object, coll_core, coll_loops); a null container pointer makes them no-ops
 * returning null (coll_array/addElement COVER null_array, getElement_le4, removeElement_le4). */
#ifdef U_DISPATCH
static struct ResourceManager g_rm;
static VD g_v, g_ret;
static unsigned g_calls, g_callee;
static void *g_cont;
static unsigned long g_index, g_num;
static struct SizedRamString g_key, g_key_seen;
static char g_keytext[3] = {'k', 'y', 0};
static VD *rec(unsigned callee, void *cont, struct ResourceManager *r) {
  CHECK(r == &g_rm, "the callee gets the document's resource manager");
  g_calls++; g_callee = callee; g_cont = cont;
  return cont ? &g_ret : (VD *)0;
}
VD *ArrayData__addElement__ArrayData_p_ResourceManager_p(struct ArrayData *a, struct ResourceManager *r) { return rec(1, a, r); }
VD *ArrayData__getOrAddElement(struct ArrayData *a, unsigned long i, struct ResourceManager *r) { g_index = i; return rec(2, a, r); }
VD *ObjectData__getOrAddMember_SizedRamString(struct ObjectData *o, struct SizedRamString k, struct ResourceManager *r) { g_key_seen = k; return rec(3, o, r); }
VD *ArrayData__getElement__ArrayData_p_ulong_ResourceManager_p(struct ArrayData *a, unsigned long i, struct ResourceManager *r) { g_index = i; return rec(4, a, r); }
VD *ObjectData__getMember_SizedRamString__ObjectData_p_SizedRamString_ResourceManager_p(struct ObjectData *o, struct SizedRamString k, struct ResourceManager *r) { g_key_seen = k; return rec(5, o, r); }
void ArrayData__removeElement__ArrayData_p_ulong_ResourceManager_p(struct ArrayData *a, unsigned long i, struct ResourceManager *r) { g_index = i; rec(6, a, r); }
void ObjectData__removeMember_SizedRamString__ObjectData_p_SizedRamString_ResourceManager_p(struct ObjectData *o, struct SizedRamString k, struct ResourceManager *r) { g_key_seen = k; rec(7, o, r); }
unsigned long CollectionData__nesting(struct CollectionData *c, struct ResourceManager *r) { rec(8, c, r); return g_num; }
unsigned long CollectionData__size(struct CollectionData *c, struct ResourceManager *r) { rec(9, c, r); return g_num; }
static const unsigned char k_types[] = {VT_NULL, VT_RAW, VT_LINKED, VT_OWNED, VT_BOOL, VT_UINT32, VT_INT32, VT_FLOAT, VT_UINT64, VT_INT64, VT_DOUBLE, VT_OBJECT, VT_ARRAY};
void h_dispatch(void) {
  unsigned ti = in_u8();
  __CPROVER_assume(ti < sizeof k_types);
  havoc_slot(&g_v);
  g_v.type_ = k_types[ti];
  VD v0 = g_v;
  unsigned char t = g_v.type_;
  unsigned op = in_u8();
  __CPROVER_assume(op >= 1 && op <= 9);
  unsigned long index = in_u64();
  g_num = in_u64();
  _Bool null_key = in_bool();
  g_key.str_ = null_key ? (char *)0 : g_keytext; g_key.size_ = null_key ? 0 : 2;
  VD *r = 0;
  unsigned long n = 0;
  switch (op) {
    case 1: r = VariantData__addElement__VariantData_p_ResourceManager_p(&g_v, &g_rm); break;
    case 2: r = VariantData__getOrAddElement(&g_v, index, &g_rm); break;
    case 3: r = VariantData__getOrAddMember_SizedRamString(&g_v, g_key, &g_rm); break;
    case 4: r = VariantData__getElement__VariantData_p_ulong_ResourceManager_p(&g_v, index, &g_rm); break;
    case 5: r = VariantData__getMember_SizedRamString(&g_v, g_key, &g_rm); break;
    case 6: VariantData__removeElement__VariantData_p_ulong_ResourceManager_p(&g_v, index, &g_rm); break;
    case 7: VariantData__removeMember_SizedRamString(&g_v, g_key, &g_rm); break;
    case 8: n = VariantData__nesting__VariantData_p_ResourceManager_p(&g_v, &g_rm); break;
    default: n = VariantData__size__VariantData_p_ResourceManager_p(&g_v, &g_rm); break;
  }
  _Bool wants_array = op == 1 || op == 2 || op == 4 || op == 6, wants_object = op == 3 || op == 5 || op == 7;
  _Bool creates = (op == 1 || op == 2 || (op == 3 && !null_key)) && t == VT_NULL; /* adding to a null variant turns it into the container */
  _Bool is_cont = (wants_array && t == VT_ARRAY) || (wants_object && t == VT_OBJECT) || ((op == 8 || op == 9) && (t == VT_ARRAY || t == VT_OBJECT));
  COVER(op == 1 && t == VT_NULL); COVER(op == 1 && t == VT_ARRAY); COVER(op == 1 && t == VT_OBJECT); COVER(op == 2 && t == VT_INT32); COVER(op == 3 && null_key);
  COVER(op == 3 && t == VT_NULL && !null_key); COVER(op == 5 && t == VT_OBJECT); COVER(op == 7 && t == VT_ARRAY); COVER(op == 8 && t == VT_ARRAY); COVER(op == 9 && t == VT_OBJECT); COVER(op == 9 && t == VT_OWNED);
  if (creates) {
    CHECK(g_v.type_ == (op == 3 ? VT_OBJECT : VT_ARRAY) && g_v.content_.asCollection.head_ == NSLOT && g_v.content_.asCollection.tail_ == NSLOT, "adding to a null variant first makes it an empty array / object");
    CHECK(g_calls == 1 && g_cont == (void *)&g_v.content_ && r == &g_ret, "and then forwards to that container");
  } else {
#ifdef CANARY_DISPATCH
    CHECK(slot_same(&g_v, &v0) && !(op == 2 && t == VT_BOOL), "otherwise the variant itself is not written (a value of another kind is never clobbered)");
#else
    CHECK(slot_same(&g_v, &v0), "otherwise the variant itself is not written (a value of another kind is never clobbered)");
#endif
    if (is_cont && !(op == 3 && null_key)) {
      CHECK(g_calls == 1 && g_cont == (void *)&g_v.content_, "a container of the right kind: the operation is forwarded to it, once");
      if (op <= 5) CHECK(r == &g_ret, "and its result is returned");
      if (op == 8) CHECK(n == g_num, "nesting() of a container is CollectionData::nesting()");
      if (op == 9) CHECK(n == (t == VT_OBJECT ? g_num / 2 : g_num), "size(): slots for an array, slots / 2 (pairs) for an object");
    } else {
      CHECK(g_cont == 0 && r == 0 && n == 0, "null / wrong kind / null key: no container is touched; null, 0 or nothing is returned");
    }
  }
  CHECK(g_v.next_ == v0.next_, "next_ is never written");
  if (g_calls && (op == 2 || op == 4 || op == 6)) CHECK(g_index == index, "the index is forwarded unchanged");
  if (g_calls && wants_object) CHECK(g_key_seen.str_ == g_key.str_ && g_key_seen.size_ == g_key.size_, "the key is forwarded unchanged");
}
#endif

/* ===================================================================================================================
 * unit coll_setint_noll (configuration noll only: ARDUINOJSON_USE_LONG_LONG=0 on a host whose long has 64 bits).
 * There the setters call nothing (no extension slot exists for integers), so the harness needs no stub and replays natively.
 * Oracle (C04 "every observable equals what the model predicts" / C05 "the affected operation reports the failure"):
 * a setter that reports success has stored the value. */
#ifdef U_SETINT_NOLL
void h_setint_noll(void) {
  VD v;
  havoc_slot(&v);
  v.type_ = VT_NULL;
  _Bool is_signed = in_bool();
  int64_t sv = in_i64();
  uint64_t uv = in_u64();
  _Bool ok = is_signed ? VariantData__setInteger_long(&v, (long)sv, (struct ResourceManager *)0)
                       : VariantData__setInteger_ulong(&v, (unsigned long)uv, (struct ResourceManager *)0);
  _Bool fits32 = is_signed ? (sv >= -2147483647 - 1 && sv <= 2147483647) : (uv <= 0xFFFFFFFFull);
  COVER(is_signed && fits32); COVER(!is_signed && fits32); COVER(is_signed && !fits32); COVER(!is_signed && !fits32);
  VERIF_OUT("ok", ok); VERIF_OUT("type", v.type_);
#ifdef CANARY_SETINT_NOLL
  if (fits32) CHECK(ok && (is_signed ? (v.type_ == VT_INT32 && v.content_.asInt32 == sv + (sv == 5)) : (v.type_ == VT_UINT32 && v.content_.asUint32 == uv)), "a value within 32 bits is stored inline with that value");
#else
  if (fits32) CHECK(ok && (is_signed ? (v.type_ == VT_INT32 && v.content_.asInt32 == sv) : (v.type_ == VT_UINT32 && v.content_.asUint32 == uv)), "a value within 32 bits is stored inline with that value");
#endif
  else CHECK(!ok || v.type_ != VT_NULL, "a setter that reports success has stored the value (otherwise it reports false)");
}
#endif

/* ===================================================================================================================
 * unit coll_loops: the list traversals getPreviousSlot, clear, size and ArrayData::at closed by loop contracts => lists of
 * ARBITRARY length (U).
 * Big store: g_cnt <= NULL_SLOT slots (symbolic), id == index.  The ordered-list model is carried by ghost arrays:
 *   g_rank[id]  steps to the end of the list (acyclicity, termination)      g_pos[id]  position in the list, g_len its length
 *   g_member[id] the slot is linked in the list                              g_dist[id] steps to the witness slot g_w
 * RI(id): next(id) is NULL_SLOT or an id of the store, and rank/pos/member/dist of id and next(id) are related as in a list.
 * The universally quantified "RI(id) for every id" is instantiated LAZILY: the getVariant stub assumes RI(id) for the id it
 * is asked (on the current state; the traversals below only write slots through the freeVariant stub, and size()/
 * getPreviousSlot() are shown to write nothing at all: arbitrary witness g_u).  Universally quantified conclusions use
 * arbitrary witnesses: g_w (a linked slot), g_u (any other slot). */
#ifdef U_LOOPS
typedef struct Slot_VariantData VSlot;
static struct ResourceManager g_rm;
VD *ResourceManager__getVariant(struct ResourceManager *self, slotid_t id) {
  CHECK(self == &g_rm, "getVariant is asked on the document's resource manager");
  if (id == NSLOT) return (VD *)0;
  CHECK(id < g_cnt, "getVariant receives the id of an existing slot");
  slotid_t nx = g_store[id].next_;
  __CPROVER_assume(nx == NSLOT || nx < g_cnt);
  __CPROVER_assume(nx == NSLOT || g_rank[nx] < g_rank[id]);
  __CPROVER_assume(g_rank[id] < 0x7FFFFFFFu && g_pos[id] < g_cnt && g_pos[id] < g_len);
  __CPROVER_assume(nx == NSLOT ? g_pos[id] + 1 == g_len : g_pos[nx] == g_pos[id] + 1);
  __CPROVER_assume(!g_member[id] || nx == NSLOT || g_member[nx]);
  if (g_dist[id] == 0) __CPROVER_assume(id == g_w && (nx == NSLOT || g_dist[nx] == DIST_NONE));
  else if (g_dist[id] == DIST_NONE) __CPROVER_assume(id != g_w && (nx == NSLOT || g_dist[nx] == DIST_NONE));
  else __CPROVER_assume(id != g_w && nx != NSLOT && g_dist[nx] == g_dist[id] - 1);
  return &g_store[id];
}
void ResourceManager__freeVariant(struct ResourceManager *self, VSlot v) {
  CHECK(self == &g_rm, "freeVariant is asked on the document's resource manager");
  CHECK(v.id_ != NSLOT && v.id_ < g_cnt && v.ptr_ == &g_store[v.id_], "freeVariant receives the (address,id) pair of one existing slot");
  g_free_calls++;
  if (v.id_ == g_w) g_w_frees++;
  if (v.id_ == g_u) g_u_frees++;
  havoc_slot(&g_store[v.id_]); /* contract of freeVariant: see the small-store stub */
}
unsigned long VariantData__nesting__ResourceManager_p(VD *self, struct ResourceManager *resources) { return in_u64(); }
static void mk_big(void) {
  g_free_calls = 0; g_w_frees = 0; g_u_frees = 0; /* (goto-instrument --apply-loop-contracts loses the zero initialisers of ghosts named in assigns clauses) */
  g_cnt = in_u64();
  __CPROVER_assume(g_cnt >= 1 && g_cnt <= (uint64_t)NSLOT && g_cnt <= BIG_MAX);
  g_store = malloc(g_cnt * sizeof(VD));
  g_dist = malloc(g_cnt * sizeof(unsigned));
  g_rank = malloc(g_cnt * sizeof(unsigned));
  g_pos = malloc(g_cnt * sizeof(uint64_t));
  g_member = malloc(g_cnt * sizeof(_Bool));
  __CPROVER_assume(g_store && g_dist && g_rank && g_pos && g_member);
  g_w = in_u64(); g_u = in_u64();
  g_len = in_u64(); /* the list's length in the model (harnesses about size()/at() pin it to the head) */
  __CPROVER_assume(g_w < g_cnt && g_u < g_cnt);
  memcpy(&g_u_bits, &g_store[g_u].content_, sizeof g_u_bits);
  g_u_type = g_store[g_u].type_;
  g_u_next = g_store[g_u].next_;
}
static _Bool u_same(void) { return *(unsigned long *)&g_store[g_u].content_ == g_u_bits && g_store[g_u].type_ == g_u_type && g_store[g_u].next_ == g_u_next; }

/* getPreviousSlot(target): target = slot g_w, linked in the list (g_dist[head] is a number); any list length */
void h_getPreviousSlot_u(void) {
  mk_big();
  struct CollectionData c;
  c.head_ = (slotid_t)in_u32(); c.tail_ = (slotid_t)in_u32();
  __CPROVER_assume(c.head_ != NSLOT && c.head_ < g_cnt && g_dist[c.head_] != DIST_NONE && g_dist[g_w] == 0);
  VSlot r = CollectionData__getPreviousSlot(&c, &g_store[g_w], &g_rm);
  COVER(r.ptr_ == 0); COVER(r.ptr_ != 0 && g_dist[c.head_] > 5);
  if (c.head_ == g_w) CHECK(r.ptr_ == 0 && r.id_ == NSLOT, "the head has no previous slot: null slot");
  else {
    CHECK(r.ptr_ != 0 && r.id_ != NSLOT && r.id_ < g_cnt && r.ptr_ == &g_store[r.id_], "getPreviousSlot returns the (address,id) of one slot");
#ifdef CANARY_PREV_U
    CHECK(g_store[r.id_].next_ == g_w && g_dist[c.head_] != 3, "getPreviousSlot returns the slot whose next is the target");
#else
    /* (read through the id: cbmc has no points-to set for a pointer havocked by the loop contract; r.ptr_ == &g_store[r.id_] is checked above) */
    CHECK(g_store[r.id_].next_ == g_w, "getPreviousSlot returns the slot whose next is the target");
#endif
  }
  CHECK(u_same() && g_free_calls == 0, "getPreviousSlot is read-only (arbitrary witness slot unchanged, nothing released)");
}
/* size(): number of linked slots; any list length */
void h_size_u(void) {
  mk_big();
  struct CollectionData c;
  c.head_ = (slotid_t)in_u32(); c.tail_ = (slotid_t)in_u32();
  struct CollectionData c0 = c;
  __CPROVER_assume(c.head_ == NSLOT ? g_len == 0 : (c.head_ < g_cnt && g_pos[c.head_] == 0));
  unsigned long n = CollectionData__size(&c, &g_rm);
  COVER(n == 0); COVER(n > 5);
#ifdef CANARY_SIZE_U
  CHECK(n == g_len + (g_len == 7), "size() == number of linked slots");
#else
  CHECK(n == g_len, "size() == number of linked slots");
#endif
  CHECK(u_same() && g_free_calls == 0 && c.head_ == c0.head_ && c.tail_ == c0.tail_, "size() is read-only (arbitrary witness slot unchanged, nothing released)");
}
/* ArrayData::getElement(i) == at(i).data(): the i-th slot of the list, null beyond the end; any length, any index */
void h_at_u(void) {
  mk_big();
  struct ArrayData a;
  a._b_CollectionData.head_ = (slotid_t)in_u32(); a._b_CollectionData.tail_ = (slotid_t)in_u32();
  struct ArrayData a0 = a;
  __CPROVER_assume(a._b_CollectionData.head_ == NSLOT ? g_len == 0 : (a._b_CollectionData.head_ < g_cnt && g_pos[a._b_CollectionData.head_] == 0));
  g_idx0 = in_u64();
  VD *e = ArrayData__getElement__ulong_ResourceManager_p(&a, g_idx0, &g_rm);
  COVER(e == 0 && g_len > 5); COVER(e != 0 && g_idx0 > 5); COVER(g_len == 0);
#ifdef CANARY_AT_U
  CHECK((e != 0) == (g_idx0 < g_len) && g_idx0 != 9, "getElement(i) is null iff i >= size");
#else
  CHECK((e != 0) == (g_idx0 < g_len), "getElement(i) is null iff i >= size");
#endif
  uint64_t k = e ? (uint64_t)(e - g_store) : 0;
  CHECK(e == 0 || (k < g_cnt && e == &g_store[k] && g_pos[k] == g_idx0), "getElement(i) is the slot at position i of the list");
  CHECK(u_same() && g_free_calls == 0 && a._b_CollectionData.head_ == a0._b_CollectionData.head_ && a._b_CollectionData.tail_ == a0._b_CollectionData.tail_, "at()/getElement() are read-only");
}
/* clear(): every linked slot (witness g_w) released exactly once, every other slot (witness g_u) untouched; any length */
void h_clear_u(void) {
  mk_big();
  struct CollectionData c;
  c.head_ = (slotid_t)in_u32(); c.tail_ = (slotid_t)in_u32();
  _Bool empty = c.head_ == NSLOT;
  __CPROVER_assume(empty || (c.head_ < g_cnt && g_member[c.head_] && g_dist[c.head_] != DIST_NONE && g_dist[g_w] == 0));
  __CPROVER_assume(!g_member[g_u]);
  CollectionData__clear__ResourceManager_p(&c, &g_rm);
  COVER(empty); COVER(!empty && g_free_calls > 5);
  CHECK(c.head_ == NSLOT && c.tail_ == NSLOT, "clear(): head_ = tail_ = NULL_SLOT");
#ifdef CANARY_CLEAR_U
  CHECK(empty || (g_w_frees == 1 && g_free_calls != 4), "C06: clear() releases every linked slot exactly once");
#else
  CHECK(empty || g_w_frees == 1, "C06: clear() releases every linked slot exactly once");
#endif
  CHECK(!empty || g_free_calls == 0, "clearing an empty list releases nothing");
  CHECK(g_u_frees == 0 && u_same(), "clear() neither releases nor writes a slot outside the list");
}
#endif
