/* Family "filter": DeserializationOption::Filter and the MessagePack routines instantiated with it (C11, C15, C03, C06).
 *
 * PART 1 (unit filter_real, -DU_FREAL): the REAL Filter::allow/allowArray/allowObject/allowValue/operator[] and the real
 *   JsonVariantConst primitives they are built on (operator bool = as<bool>, == true = compare/Comparer<bool>, is<JsonArrayConst>,
 *   is<JsonObjectConst>, isNull, operator[](index), operator[](key)), on an ARBITRARY filter node (every stored kind, every
 *   content, bound or unbound).  Only the two collection walks (ArrayData::getElement, ObjectData::getMember: loops, proved
 *   in the collections family) and the extension-slot lookup are stubs: they return an arbitrary child node / null.
 *   What is proved here is the FILTER CONTRACT the deserializers rely on:
 *     (F1) allowValue => allow && allowArray && allowObject      (F2) allowArray => allow, allowObject => allow
 *     (F3) allowValue ("the filter is true") => f[k] is f itself, for every kind of key (absorbing)
 *     (F4) f[string key] = member `key` if that is non-null, else member "*"
 *     (F5) f[integer index] = element `index`, NEVER the "*" member;   hence !allowArray => !f[index].allow()
 *     (F6) !allowObject => !f[key].allow()                        (F7) null / false entry => allow() false; exact answer table
 *     (F8) Filter(true) answers exactly as AllowAllFilter, recursively ("filter true is the identity").
 * PART 2 (units mpf_coll, mpf_variant, mpf_skip): MsgPackDeserializer<StubReader>::readArray/readObject/parseVariant<Filter>,
 *   skipBytes; modular: children, document side and the Filter are stubs; the Filter stub hands out abstract tokens whose answers
 *   are arbitrary EXCEPT for (F1)-(F6), i.e. exactly what PART 1 proves of the real class.
 */
#include "verif.h"
#if defined(U_MPCOLL)
/* ghost state named by the loop contracts of readArray/readObject<Filter> (contracts/filter.loops.json) */
static unsigned long g_n0;          /* announced element / member count */
static unsigned long g_entries;     /* entries completely processed (child returned Ok) */
static unsigned long g_child_calls; /* child parseVariant calls */
static unsigned long g_adds;        /* successful addElement / addMember calls */
static unsigned long g_saves;       /* StringBuffer::save calls */
static unsigned long g_allowed;     /* entries whose sub-filter answered allow() == true */
static int g_stage;                 /* 0 between entries; 1 key read; 2 member filter selected; 3 key saved; 4 slot added */
static unsigned g_child_err;        /* the first error a callee reported (0 if none) */
static void *g_slot_now;            /* the slot the next child call must receive */
static unsigned g_cur_tok;          /* token of the sub-filter selected for the current entry */
static unsigned long g_index_calls; /* filter[...] selections */
struct tok_answers { _Bool allow, arr, obj, val; };
static struct tok_answers g_tok[4]; /* the answers of the abstract filters (fixed per run) */
#endif
#if defined(U_MPSKIP)
static unsigned long g_n0, g_reads;
static _Bool g_eof;
#endif
#ifdef VERIF_NATIVE
#include "lowered_types.h"
#else
#include "lowered.c"
#endif
typedef struct DeserializationOption__Filter Filter;
enum { E_OK = 0, E_EMPTY = 1, E_INCOMPLETE = 2, E_INVALID = 3, E_NOMEM = 4, E_TOODEEP = 5 };

/* ================================================================================================================== */
/* PART 1: the real Filter                                                                                            */
/* ================================================================================================================== */
#ifdef U_FREAL
/* VariantType tags (Variant/VariantContent.hpp) */
enum { T_NULL = 0, T_RAW = 3, T_LINKED = 4, T_OWNED = 5, T_BOOL = 6, T_UINT32 = 0x0A, T_INT32 = 0x0C, T_FLOAT = 0x0E,
       T_UINT64 = 0x1A, T_INT64 = 0x1C, T_DOUBLE = 0x1E, T_OBJECT = 0x20, T_ARRAY = 0x40 };
enum { K_NULL, K_FALSE, K_TRUE, K_NUMBER, K_STRING, K_ARRAY, K_OBJECT };
static struct ResourceManager g_rm;
static struct VariantData g_node;          /* the filter node under test */
static struct VariantData g_child[3];      /* nodes the collection lookups may hand out */
static union VariantExtension g_ext[4];    /* extension slots (64-bit payloads) */
static char g_text[4];                     /* a linked string */
static unsigned long g_strnode_room[(sizeof(struct StringNode) + 8 + 7) / 8];
static struct VariantData *g_elem_ret, *g_key_ret, *g_star_ret;
static unsigned g_getelem_calls, g_getmember_calls, g_star_lookups, g_key_lookups;
static unsigned long g_getelem_index;
static char g_key[3];
static size_t g_strlen_ret;
size_t strlen(const char *p) { (void)p; return g_strlen_ret; }

/* ---- stubs: the collection walks return an arbitrary child (fixed per harness run) ---- */
struct VariantData *ArrayData__getElement__ulong_ResourceManager_p(struct ArrayData *self, unsigned long index, struct ResourceManager *resources) {
  CHECK(self == &g_node.content_.asArray && resources == &g_rm, "element lookup: in the filter's own array, with its resource manager");
  g_getelem_calls++; g_getelem_index = index;
  return g_elem_ret;
}
struct VariantData *ObjectData__getMember_StaticStringAdapter__StaticStringAdapter_ResourceManager_p(struct ObjectData *self, struct StaticStringAdapter key, struct ResourceManager *resources) {
  const char *s = key._b_ZeroTerminatedRamString.str_;
  CHECK(self == &g_node.content_.asObject && resources == &g_rm, "member lookup: in the filter's own object, with its resource manager");
  CHECK(s != 0, "member lookup: with a key");
  g_getmember_calls++;
  if (s[0] == '*' && s[1] == 0) { g_star_lookups++; return g_star_ret; }   /* the member named "*" */
  CHECK(s == g_key, "member lookup: any key other than \"*\" is the caller's key");
  g_key_lookups++;
  return g_key_ret;
}
union VariantExtension *ResourceManager__getExtension(struct ResourceManager *self, unsigned int id) {
  CHECK(self == &g_rm, "extension lookup: with the filter's resource manager");
  return &g_ext[id & 3];
}

/* ---- an arbitrary well-formed node ---- */
static void mk_node(struct VariantData *v) {
  uint64_t bits = in_u64();
  uint8_t k = in_u8();
  __CPROVER_assume(k < 13);
  memset(v, 0, sizeof *v);
  memcpy(&v->content_, &bits, sizeof v->content_ < 8 ? sizeof v->content_ : 8);
  v->type_ = k == 0 ? T_NULL : k == 1 ? T_RAW : k == 2 ? T_LINKED : k == 3 ? T_OWNED : k == 4 ? T_BOOL : k == 5 ? T_UINT32 :
             k == 6 ? T_INT32 : k == 7 ? T_FLOAT : k == 8 ? T_UINT64 : k == 9 ? T_INT64 : k == 10 ? T_DOUBLE : k == 11 ? T_OBJECT : T_ARRAY;
  v->next_ = in_u32();
  if (v->type_ == T_BOOL) v->content_.asBoolean = in_bool();
  if (v->type_ == T_LINKED) v->content_.asLinkedString = g_text;
  if (v->type_ == T_OWNED || v->type_ == T_RAW) v->content_.asOwnedString = g_strnode_room;
}
static void freal_init(void) {
  memset(&g_rm, 0, sizeof g_rm);
  g_ext[0].asUint64 = in_u64(); g_ext[1].asUint64 = in_u64(); g_ext[2].asUint64 = in_u64(); g_ext[3].asUint64 = in_u64();
  g_text[0] = in_char(); g_text[1] = in_char(); g_text[2] = in_char(); g_text[3] = 0;
  memset(g_strnode_room, 0, sizeof g_strnode_room);
  ((struct StringNode *)g_strnode_room)->length = in_u8() % 9;
  g_strlen_ret = in_u8() % 4;
  mk_node(&g_node); mk_node(&g_child[0]); mk_node(&g_child[1]); mk_node(&g_child[2]);
  uint8_t e = in_u8() % 4, m = in_u8() % 4, s = in_u8() % 4;     /* 3: the lookup finds nothing */
  g_elem_ret = e == 3 ? (struct VariantData *)0 : &g_child[e];
  g_key_ret = m == 3 ? (struct VariantData *)0 : &g_child[m];
  g_star_ret = s == 3 ? (struct VariantData *)0 : &g_child[s];
  g_getelem_calls = g_getmember_calls = g_star_lookups = g_key_lookups = 0; g_getelem_index = 0;
  g_key[0] = in_char(); g_key[1] = in_char(); g_key[2] = 0;
}
static Filter mk_filter(struct VariantData *node) { Filter f; memset(&f, 0, sizeof f); f.variant_.data_ = node; f.variant_.resources_ = &g_rm; return f; }

/* ---- oracle, from the property text: kinds of filter entries and "true-ish" ---- */
static int spec_kind(const struct VariantData *v) {
  if (!v) return K_NULL;                              /* an unbound reference / a missing member is null */
  switch (v->type_) {
    case T_NULL: return K_NULL;
    case T_BOOL: return v->content_.asBoolean ? K_TRUE : K_FALSE;
    case T_ARRAY: return K_ARRAY;
    case T_OBJECT: return K_OBJECT;
    case T_RAW: case T_LINKED: case T_OWNED: return K_STRING;
    default: return K_NUMBER;
  }
}
/* true-ish: everything except null, false and the number zero */
static _Bool spec_truthy(const struct VariantData *v) {
  switch (spec_kind(v)) {
    case K_NULL: case K_FALSE: return 0;
    case K_NUMBER:
      if (v->type_ == T_UINT32) return v->content_.asUint32 != 0;
      if (v->type_ == T_INT32) return v->content_.asInt32 != 0;
      if (v->type_ == T_FLOAT) return v->content_.asFloat != 0;
      if (v->type_ == T_UINT64) return g_ext[v->content_.asSlotId & 3].asUint64 != 0;
      if (v->type_ == T_INT64) return g_ext[v->content_.asSlotId & 3].asInt64 != 0;
      return g_ext[v->content_.asSlotId & 3].asDouble != 0;
    default: return 1;
  }
}
#define SAME_FILTER(a, b) ((a).variant_.data_ == (b).variant_.data_ && (a).variant_.resources_ == (b).variant_.resources_)
#define NULL_VALUED(p) ((p) == 0 || (p)->type_ == T_NULL)

/* (F1) (F2) (F7): the four answers on every node */
void h_filter_answers(void) {
  freal_init();
  _Bool bound = in_bool();
  struct VariantData *node = bound ? &g_node : (struct VariantData *)0;
  struct VariantData before = g_node;
  Filter f = mk_filter(node);
  _Bool a = DeserializationOption__Filter__allow(&f);
  _Bool aa = DeserializationOption__Filter__allowArray(&f);
  _Bool ao = DeserializationOption__Filter__allowObject(&f);
  _Bool av = DeserializationOption__Filter__allowValue(&f);
  int k = spec_kind(node);
  COVER(!bound); COVER(k == K_NULL && bound); COVER(k == K_FALSE); COVER(k == K_TRUE); COVER(k == K_ARRAY); COVER(k == K_OBJECT);
  COVER(k == K_STRING && g_node.type_ == T_LINKED); COVER(k == K_STRING && g_node.type_ == T_OWNED); COVER(k == K_STRING && g_node.type_ == T_RAW);
  COVER(k == K_NUMBER && av); COVER(k == K_NUMBER && a && !av); COVER(k == K_NUMBER && !a);
  COVER(g_node.type_ == T_DOUBLE && bound && av); COVER(g_node.type_ == T_INT64 && bound && a); COVER(g_node.type_ == T_FLOAT && bound && !a);
  CHECK(!av || (a && aa && ao), "F1: allowValue => allow && allowArray && allowObject");
  CHECK(!aa || a, "F2: allowArray => allow");
#ifdef CANARY_F_ANSWERS
  CHECK((!ao || a) && k != K_OBJECT, "F2: allowObject => allow");
#else
  CHECK(!ao || a, "F2: allowObject => allow");
#endif
  CHECK(a == spec_truthy(node), "C11: allow() <=> the entry is true-ish (null, false and zero are not)");
  if (k == K_NULL || k == K_FALSE) CHECK(!a && !aa && !ao && !av, "C11/F7: a null or false entry admits nothing");
  if (k == K_TRUE) CHECK(a && aa && ao && av, "C11: true keeps a value entirely (every kind admitted)");
  if (k == K_ARRAY) CHECK(a && aa && !ao && !av, "C11: an array filter admits arrays only (any other kind becomes null)");
  if (k == K_OBJECT) CHECK(a && !aa && ao && !av, "C11: an object filter admits objects only (any other kind becomes null)");
  if (k == K_STRING) CHECK(a && !aa && !ao && !av, "C11: a string entry is true-ish but admits no kind (the kept value becomes null)");
  if (k == K_NUMBER) CHECK(aa == av && ao == av, "a number entry admits every kind or none");
  CHECK(g_getelem_calls == 0 && g_getmember_calls == 0, "the answers do not walk the filter document");
  CHECK(memcmp(&before, &g_node, sizeof before) == 0, "the filter document is not modified");
}

/* (F3) (F4) (F6): f[string key] */
void h_filter_index_key(void) {
  freal_init();
  _Bool bound = in_bool();
  struct VariantData *node = bound ? &g_node : (struct VariantData *)0;
  Filter f = mk_filter(node);
  _Bool av = DeserializationOption__Filter__allowValue(&f);
  _Bool ao = DeserializationOption__Filter__allowObject(&f);
  char *key = g_key;
  Filter r = DeserializationOption__Filter__op_index_char_p(&f, &key);
  int k = spec_kind(node);
  _Bool key_is_star = g_key[0] == '*' && g_key[1] == 0;
  struct VariantData *m = key_is_star ? g_star_ret : g_key_ret;       /* the member named by the key */
  COVER(av); COVER(!bound); COVER(k == K_OBJECT && !NULL_VALUED(m)); COVER(k == K_OBJECT && m == 0 && g_star_ret != 0);
  COVER(k == K_OBJECT && m != 0 && m->type_ == T_NULL && !NULL_VALUED(g_star_ret));  /* a member listed with null: "*" is consulted */
  COVER(k == K_OBJECT && m == 0 && g_star_ret == 0); COVER(k == K_ARRAY); COVER(k == K_OBJECT && key_is_star); COVER(k == K_STRING);
  COVER(k == K_OBJECT && g_key[0] == 0);
  if (av) {
    CHECK(SAME_FILTER(r, f), "C11/F3: the filter true is absorbing: f[key] is f");
    CHECK(g_getmember_calls == 0 && g_getelem_calls == 0, "F3: ... without any lookup");
  } else if (k == K_OBJECT) {
#ifdef CANARY_F_KEY
    CHECK(r.variant_.data_ == (NULL_VALUED(m) && g_key[0] != 'q' ? g_star_ret : m), "C11/F4: f[key] = member key if non-null, else member \"*\"");
#else
    CHECK(r.variant_.data_ == (NULL_VALUED(m) ? g_star_ret : m), "C11/F4: f[key] = member key if non-null, else member \"*\"");
#endif
    CHECK(r.variant_.resources_ == &g_rm, "F4: the sub-filter lives in the same document");
    CHECK(g_getmember_calls == (NULL_VALUED(m) ? 2u : 1u) && g_getelem_calls == 0, "F4: \"*\" is consulted only when the key gives nothing");
  } else {
    CHECK(NULL_VALUED(r.variant_.data_) && r.variant_.data_ == 0, "C11/F4: a filter that is not an object has no members: f[key] is null");
    CHECK(g_getmember_calls == 0 && g_getelem_calls == 0, "F4: ... and nothing is looked up");
  }
  _Bool ra = DeserializationOption__Filter__allow(&r);
  CHECK(ao || !ra, "C03/F6: !allowObject => !f[key].allow()  (readObject's null-object discipline)");
  CHECK(ra == spec_truthy(r.variant_.data_), "C11/F7: the member is kept iff its entry is true-ish (null / false / missing removes it)");
}

/* (F3) (F5): f[integer index], both instantiations used by the deserializers (0U in MessagePack, size_t in JSON) */
void h_filter_index_int(void) {
  freal_init();
  _Bool bound = in_bool();
  struct VariantData *node = bound ? &g_node : (struct VariantData *)0;
  Filter f = mk_filter(node);
  _Bool av = DeserializationOption__Filter__allowValue(&f);
  _Bool aa = DeserializationOption__Filter__allowArray(&f);
  _Bool wide = in_bool();
  unsigned long idx = wide ? in_u64() : in_u32();
  unsigned int idx32 = (unsigned int)idx;
  Filter r = wide ? DeserializationOption__Filter__op_index_ulong(&f, &idx) : DeserializationOption__Filter__op_index_uint(&f, &idx32);
  int k = spec_kind(node);
  COVER(av); COVER(!bound); COVER(k == K_ARRAY && g_elem_ret != 0 && wide); COVER(k == K_ARRAY && g_elem_ret == 0 && !wide); COVER(k == K_ARRAY && idx == 0);
  COVER(k == K_ARRAY && idx > 0xFFFFFFFFul); COVER(k == K_OBJECT && !NULL_VALUED(g_star_ret)); COVER(k == K_STRING); COVER(k == K_NUMBER && !av);
  if (av) {
    CHECK(SAME_FILTER(r, f), "C11/F3: the filter true is absorbing: f[index] is f");
    CHECK(g_getmember_calls == 0 && g_getelem_calls == 0, "F3: ... without any lookup");
  } else {
#ifdef CANARY_F_INT
    CHECK(g_getmember_calls == 0 && !(k == K_ARRAY && idx == 7), "C11/F5: \"*\" stands for any other KEY: it is never consulted for an integer index");
#else
    CHECK(g_getmember_calls == 0, "C11/F5: \"*\" stands for any other KEY: it is never consulted for an integer index");
#endif
    if (k == K_ARRAY) {
      CHECK(g_getelem_calls == 1 && g_getelem_index == idx, "C11/F5: f[index] looks up exactly that element");
      CHECK(r.variant_.data_ == g_elem_ret && r.variant_.resources_ == &g_rm, "C11/F5: f[index] = element index of an array filter");
    } else {
      CHECK(r.variant_.data_ == 0 && g_getelem_calls == 0, "C11/F5: a filter that is not an array has no elements: f[index] is null");
    }
  }
  _Bool ra = DeserializationOption__Filter__allow(&r);
  CHECK(aa || !ra, "C03/F5: !allowArray => !f[index].allow()  (readArray's null-array discipline)");
  CHECK(ra == spec_truthy(r.variant_.data_), "C11/F7: the element is kept iff the entry is true-ish");
}

/* (F8) Filter(true) == AllowAllFilter, recursively: the mechanised half of "the filter true is the identity" */
void h_filter_true_identity(void) {
  freal_init();
  g_node.type_ = T_BOOL; g_node.content_.asBoolean = 1;
  Filter f = mk_filter(&g_node);
  struct AllowAllFilter all; memset(&all, 0, sizeof all);
  uint8_t which = in_u8() % 3;
  unsigned long i64 = in_u64(); unsigned int i32 = in_u32(); char *key = g_key;
  Filter r; struct AllowAllFilter rall;
  if (which == 0) { r = DeserializationOption__Filter__op_index_uint(&f, &i32); rall = AllowAllFilter__op_index_uint(&all, &i32); }
  else if (which == 1) { r = DeserializationOption__Filter__op_index_ulong(&f, &i64); rall = AllowAllFilter__op_index_ulong(&all, &i64); }
  else { r = DeserializationOption__Filter__op_index_char_p(&f, &key); rall = AllowAllFilter__op_index_char_p(&all, &key); }
  COVER(which == 0); COVER(which == 1); COVER(which == 2);
  CHECK(AllowAllFilter__allow(&all) && AllowAllFilter__allowArray(&all) && AllowAllFilter__allowObject(&all) && AllowAllFilter__allowValue(&all),
        "AllowAllFilter answers true everywhere");
  CHECK(AllowAllFilter__allow(&rall) && AllowAllFilter__allowArray(&rall) && AllowAllFilter__allowObject(&rall) && AllowAllFilter__allowValue(&rall),
        "AllowAllFilter[k] answers true everywhere");
  CHECK(DeserializationOption__Filter__allow(&f) == AllowAllFilter__allow(&all) && DeserializationOption__Filter__allowArray(&f) == AllowAllFilter__allowArray(&all) &&
        DeserializationOption__Filter__allowObject(&f) == AllowAllFilter__allowObject(&all) && DeserializationOption__Filter__allowValue(&f) == AllowAllFilter__allowValue(&all),
        "C11/F8: Filter(true) gives the four answers of AllowAllFilter");
#ifdef CANARY_F_TRUE
  CHECK(SAME_FILTER(r, f) && which != 1, "C11/F8: Filter(true)[k] is Filter(true) again, for every kind of key");
#else
  CHECK(SAME_FILTER(r, f), "C11/F8: Filter(true)[k] is Filter(true) again, for every kind of key");
#endif
  CHECK(DeserializationOption__Filter__allow(&r) && DeserializationOption__Filter__allowArray(&r) && DeserializationOption__Filter__allowObject(&r) && DeserializationOption__Filter__allowValue(&r),
        "C11/F8: ... so every sub-filter answers as AllowAllFilter's sub-filter does");
  CHECK(g_getmember_calls == 0 && g_getelem_calls == 0, "F8: no lookup in the filter document");
}
#endif /* U_FREAL */

/* ================================================================================================================== */
/* PART 2: the Filter by contract: abstract tokens                                                                     */
/* A filter value is a token (carried in variant_.data_); its four answers are arbitrary but fixed, and constrained by */
/* exactly the clauses proved of the real class in PART 1 (F1 F2 always; F3 F5 F6 where a sub-filter is selected).      */
/* A -DDROP_Fx build leaves one clause out: the obligations named *_needs_Fx require that build to FAIL.                */
/* ================================================================================================================== */
#if defined(U_MPCOLL) || defined(U_MPVAR)
#ifndef U_MPCOLL
struct tok_answers { _Bool allow, arr, obj, val; };
static struct tok_answers g_tok[4];
#endif
typedef struct DeserializationOption__NestingLimit NL;
typedef struct MsgPackDeserializer_StubReader MD;
static unsigned tok(const Filter *f) { return (unsigned)((uintptr_t)f->variant_.data_ & 3); }
static Filter mk_tok(unsigned t) { Filter f; memset(&f, 0, sizeof f); f.variant_.data_ = (struct VariantData *)(uintptr_t)(0x1000 + t); return f; }
_Bool DeserializationOption__Filter__allow(Filter *self) { return g_tok[tok(self)].allow; }
_Bool DeserializationOption__Filter__allowArray(Filter *self) { return g_tok[tok(self)].arr; }
_Bool DeserializationOption__Filter__allowObject(Filter *self) { return g_tok[tok(self)].obj; }
_Bool DeserializationOption__Filter__allowValue(Filter *self) { return g_tok[tok(self)].val; }
static void pick_answer(unsigned t) {
  {
    g_tok[t].allow = in_bool(); g_tok[t].arr = in_bool(); g_tok[t].obj = in_bool(); g_tok[t].val = in_bool();
    __CPROVER_assume(!g_tok[t].val || (g_tok[t].allow && g_tok[t].arr && g_tok[t].obj));      /* F1 */
#ifndef DROP_F2
    __CPROVER_assume(!g_tok[t].arr || g_tok[t].allow);                                         /* F2 */
    __CPROVER_assume(!g_tok[t].obj || g_tok[t].allow);                                         /* F2 */
#endif
  }
}
static void pick_answers(void) { pick_answer(0); pick_answer(1); pick_answer(2); pick_answer(3); }
#endif

/* ================================================================================================================== */
/* unit mpf_coll: readArray<Filter> / readObject<Filter>, n arbitrary (loop contracts)                                 */
/* ================================================================================================================== */
#ifdef U_MPCOLL
static struct ResourceManager g_rm;
static struct VariantData g_target, g_child_slot[2];
static struct ArrayData g_array; static struct ObjectData g_object;
static struct StringNode g_saved;
static MD *g_self;
static unsigned char g_nest;
static unsigned g_to_calls;
static char g_keybuf[4];
static _Bool g_is_map;

struct ArrayData *VariantData__toArray__void(struct VariantData *self) {
  CHECK(self != 0, "C03: variant is dereferenced (toArray) only when the filter admitted an array");
  CHECK(self == &g_target && g_tok[1].arr, "C11/C06: the variant becomes an array only if the filter admits arrays");
  g_to_calls++;
  return &g_array;
}
struct ObjectData *VariantData__toObject__void(struct VariantData *self) {
  CHECK(self != 0, "C03: variant is dereferenced (toObject) only when the filter admitted an object");
  CHECK(self == &g_target && g_tok[1].obj, "C11/C06: the variant becomes an object only if the filter admits objects");
  g_to_calls++;
  return &g_object;
}
/* filter[0U]: F3 (true is absorbing) and F5 (no "*" for an index: !allowArray => the element filter does not allow) */
Filter DeserializationOption__Filter__op_index_uint(Filter *self, unsigned int *key) {
  CHECK(*key == 0, "C11: an array filter applies its FIRST element to every element");
  CHECK(tok(self) == 1 && g_stage == 0 && g_entries == 0 && g_child_calls == 0, "the element filter is selected from the array's filter, before the first element");
  g_index_calls++;
  g_cur_tok = g_tok[1].val ? 1u : 2u;
  return mk_tok(g_cur_tok);
}
struct VariantData *ArrayData__addElement__ResourceManager_p(struct ArrayData *self, struct ResourceManager *resources) {
  CHECK(self != 0, "C03: addElement is reached only with the array the filter admitted (array != 0)");
  CHECK(self == &g_array && resources == &g_rm && g_stage == 0, "the element is added to this array, once per entry");
  CHECK(g_tok[g_cur_tok].allow, "C11/C06: every store is guarded by an allow() answer");
  if (in_bool()) { g_child_err = E_NOMEM; return (struct VariantData *)0; }
  g_adds++; g_stage = 4;
  g_slot_now = &g_child_slot[in_bool()];
  return (struct VariantData *)g_slot_now;
}
unsigned int MsgPackDeserializer_StubReader__readKey(MD *self) {
  CHECK(self == g_self && g_stage == 0, "the key is read first, for every member, kept or not");
  unsigned e = in_u8();
  __CPROVER_assume(e <= E_TOODEEP);
  if (e) g_child_err = e; else g_stage = 1;
  return e;
}
struct JsonString StringBuffer__str(struct StringBuffer *self) {
  struct JsonString r; memset(&r, 0, sizeof r);
  CHECK(self == &g_self->stringBuffer_ && g_stage == 1, "the key is taken from the string buffer right after readKey");
  r.data_ = g_keybuf; r.size_ = 3;
  return r;
}
/* filter[key]: F3 and F6 (!allowObject => the member filter does not allow) */
Filter DeserializationOption__Filter__op_index_char_p(Filter *self, char **key) {
  CHECK(tok(self) == 1 && g_stage == 1, "the member filter is selected from the object's filter, once per member");
  CHECK(*key == g_keybuf, "C11: the member filter is selected with the key just read");
  g_index_calls++;
  g_cur_tok = g_tok[1].val ? 1u : (in_bool() ? 2u : 3u);     /* different keys may select different entries */
  if (g_tok[g_cur_tok].allow) g_allowed++;
  g_stage = 2;
  return mk_tok(g_cur_tok);
}
struct StringNode *StringBuffer__save(struct StringBuffer *self) {
  CHECK(self == &g_self->stringBuffer_ && g_stage == 2, "the key is saved after the member filter was asked");
  CHECK(g_tok[g_cur_tok].allow, "C11/C06: the key is saved only for a kept member");
  g_saves++; g_stage = 3;
  return &g_saved;
}
struct VariantData *ObjectData__addMember_StringNode_p(struct ObjectData *self, struct StringNode *key, struct ResourceManager *resources) {
  CHECK(self != 0, "C03: addMember is reached only with the object the filter admitted (object != 0)");
  CHECK(self == &g_object && key == &g_saved && resources == &g_rm && g_stage == 3, "the member is added to this object under the saved key");
  CHECK(g_tok[g_cur_tok].allow, "C11/C06: every store is guarded by an allow() answer");
  if (in_bool()) { g_child_err = E_NOMEM; return (struct VariantData *)0; }
  g_adds++; g_stage = 4;
  g_slot_now = &g_child_slot[in_bool()];
  return (struct VariantData *)g_slot_now;
}
/* the child [contract proved: mpf_variant]: requires allow() => variant != 0 */
unsigned int MsgPackDeserializer_StubReader__parseVariant_DeserializationOption__Filter(MD *self, struct VariantData *variant, Filter filter, NL nestingLimit) {
  CHECK(self == g_self, "child: same deserializer");
  g_child_calls++;
  if (g_tok[g_cur_tok].allow)
    CHECK(variant != 0 && variant == g_slot_now && g_stage == 4, "C03/C11: a kept entry is parsed into exactly the slot just added (never null)");
  else
    CHECK(variant == 0 && g_stage == (g_is_map ? 2 : 0), "C11/C06: a discarded entry gets no slot and nothing is stored, but it is still parsed (consumed)");
  CHECK(tok(&filter) == g_cur_tok, "C11: the child receives the sub-filter selected for it");
  CHECK(g_nest != 0 && nestingLimit.value_ == g_nest - 1, "C15: every child receives limit-1, discarded entries included");
  unsigned e = in_u8();
  __CPROVER_assume(e <= E_TOODEEP);
  if (e) g_child_err = e; else { g_stage = 0; g_entries++; }
  return e;
}

static unsigned run_coll(int isMap) {
  static MD d;
  memset(&d, 0, sizeof d);
  d.resources_ = &g_rm; g_self = &d; g_is_map = isMap;
  g_entries = 0; g_child_calls = 0; g_adds = 0; g_saves = 0; g_allowed = 0; g_stage = 0; g_child_err = 0; g_slot_now = 0; g_cur_tok = 0;
  g_to_calls = 0; g_index_calls = 0;
  g_keybuf[0] = in_char(); g_keybuf[1] = in_char(); g_keybuf[2] = in_char(); g_keybuf[3] = 0;
  pick_answers();
  /* what PART 1 proves about the sub-filters of filter 1 (tokens 2, 3), when it is not `true` */
#ifndef DROP_F5
  if (!isMap) __CPROVER_assume(g_tok[1].arr || !g_tok[2].allow);                                  /* F5 */
#endif
#ifndef DROP_F6
  if (isMap) __CPROVER_assume(g_tok[1].obj || (!g_tok[2].allow && !g_tok[3].allow));              /* F6 */
#endif
  NL nl; nl.value_ = in_u8(); g_nest = nl.value_;
  unsigned long n = in_u64();
  g_n0 = n;
  /* precondition (what parseVariant's callers establish): allow() => variant != 0 */
  struct VariantData *variant = (g_tok[1].allow || in_bool()) ? &g_target : (struct VariantData *)0;
  Filter f = mk_tok(1);
  return isMap ? MsgPackDeserializer_StubReader__readObject_DeserializationOption__Filter(&d, variant, n, f, nl)
               : MsgPackDeserializer_StubReader__readArray_DeserializationOption__Filter(&d, variant, n, f, nl);
}
static void coll_post(unsigned err, int isMap) {
  CHECK(err <= E_TOODEEP, "C03: one of the six documented codes");
  if (g_nest == 0) {
    CHECK(err == E_TOODEEP, "C15: TooDeep as soon as a container is opened at limit 0 (also inside parts the filter discards)");
    CHECK(g_to_calls == 0 && g_child_calls == 0 && g_adds == 0 && g_saves == 0 && g_index_calls == 0 && g_stage == 0,
          "C15: ... before anything is read, stored or recursed into");
    return;
  }
  CHECK(err == g_child_err, "the result is the first error of a callee (NoMemory when a slot could not be added), else Ok");
  CHECK(err != E_TOODEEP || g_child_err == E_TOODEEP, "C15: at limit > 0 TooDeep only propagates from a child");
  CHECK(g_to_calls == ((isMap ? g_tok[1].obj : g_tok[1].arr) ? 1u : 0u), "C11: the variant becomes a container iff the filter admits that kind (else it stays null)");
  CHECK(err != E_OK || (g_entries == g_n0 && g_child_calls == g_n0 && g_stage == 0),
        "C11: Ok only after all n entries were handed to a child, kept or not (the input is consumed exactly as without a filter)");
  CHECK(g_entries <= g_n0, "never more than n entries");
  CHECK(g_adds <= g_child_calls, "C06: at most one slot per entry: never more stores than the unfiltered run");
  CHECK(g_saves == g_adds || (g_saves == g_adds + 1 && err == E_NOMEM), "C06: one key is saved per member added");
}
void h_mpf_array(void) {
  unsigned err = run_coll(0);
  unsigned et = g_cur_tok;
  COVER(g_nest == 0); COVER(err == E_OK && g_n0 == 0); COVER(err == E_OK && g_n0 == 2 && g_adds == 2); COVER(err == E_OK && g_n0 == 2 && g_adds == 0 && g_tok[1].arr);
  COVER(err == E_OK && g_n0 == 2 && !g_tok[1].arr && !g_tok[1].allow); COVER(err == E_OK && g_tok[1].val && g_n0 == 1); COVER(err == E_NOMEM);
  COVER(err == E_TOODEEP && g_nest != 0); COVER(err == E_INCOMPLETE && g_entries == 1); COVER(g_n0 > 0xFFFFFFFFul && g_nest != 0);
  coll_post(err, 0);
  if (g_nest != 0) {
    CHECK(g_index_calls == 1, "the element filter is selected once");
    CHECK(g_tok[et].allow || (g_adds == 0 && g_saves == 0), "C11/C06: excluded elements store nothing");
#ifdef CANARY_MPF_ARRAY
    CHECK(err != E_OK || g_adds == (g_tok[et].allow && g_n0 != 3 ? g_n0 : 0), "C11: exactly the kept elements are stored, each parsed into its own slot");
#else
    CHECK(err != E_OK || g_adds == (g_tok[et].allow ? g_n0 : 0), "C11: exactly the kept elements are stored, each parsed into its own slot");
#endif
    CHECK(g_saves == 0, "arrays save no key");
  }
}
void h_mpf_object(void) {
  unsigned err = run_coll(1);
  COVER(g_nest == 0); COVER(err == E_OK && g_n0 == 0); COVER(err == E_OK && g_n0 == 2 && g_adds == 2); COVER(err == E_OK && g_n0 == 2 && g_adds == 1);
  COVER(err == E_OK && g_n0 == 2 && g_adds == 0 && g_tok[1].obj); COVER(err == E_OK && g_n0 == 1 && !g_tok[1].obj && g_tok[1].allow); COVER(err == E_OK && g_tok[1].val && g_n0 == 1);
  COVER(err == E_NOMEM); COVER(err == E_TOODEEP && g_nest != 0); COVER(err == E_INVALID && g_entries == 1 && g_stage == 0); COVER(g_n0 > 0xFFFFFFFFul && g_nest != 0);
  coll_post(err, 1);
  if (g_nest != 0) {
    CHECK(g_index_calls == g_child_calls || (g_index_calls == g_child_calls + 1 && err == E_NOMEM), "one member filter per member");
#ifdef CANARY_MPF_OBJECT
    CHECK(err != E_OK || (g_adds == g_allowed && g_n0 != 2), "C11: exactly the members whose entry is true-ish are stored (projection)");
#else
    CHECK(err != E_OK || g_adds == g_allowed, "C11: exactly the members whose entry is true-ish are stored (projection)");
#endif
    CHECK(g_allowed <= g_n0, "kept members are among the n announced");
  }
}
#endif /* U_MPCOLL */
